-- Executable part of the development (import-free of Mathlib): linked into the driver.
import ReuseVerif.Py.Str
import ReuseVerif.Model.Ignore
import ReuseVerif.Spec.Ignore
import ReuseVerif.Py.Re
import ReuseVerif.Model.Glob
import ReuseVerif.Spec.Glob
import ReuseVerif.Model.Dep5
import ReuseVerif.Spec.Dep5
import ReuseVerif.Model.Precedence
import ReuseVerif.Spec.Precedence
import ReuseVerif.Model.Covered
import ReuseVerif.Spec.Covered
import ReuseVerif.Model.Fs
import ReuseVerif.Model.AnnotateCmd
import ReuseVerif.Model.Effects
