-- Executable part of the development (import-free of Mathlib): linked into the driver.
import ReuseVerif.Py.Str
import ReuseVerif.Model.Ignore
import ReuseVerif.Spec.Ignore
