/-
Line protocol helpers.  A string travels as comma-separated hexadecimal code
points (the empty string is the empty field); lists of strings are separated
by ';' (the empty list is the field "~").  Fields are separated by tabs.
-/
namespace Proto

def hexDigit (c : Char) : Option Nat :=
  if '0' ≤ c ∧ c ≤ '9' then some (c.toNat - '0'.toNat)
  else if 'a' ≤ c ∧ c ≤ 'f' then some (c.toNat - 'a'.toNat + 10)
  else none

def parseHex (s : String) : Option Nat :=
  if s.isEmpty then none else
  s.toList.foldl (fun acc c => do let a ← acc; let d ← hexDigit c; pure (a * 16 + d)) (some 0)

def decodeText (s : String) : Option (List Char) :=
  if s.isEmpty then some [] else
  (s.splitOn ",").mapM fun h => do
    let n ← parseHex h
    pure (Char.ofNat n)

def toHex (n : Nat) : String := String.ofList (Nat.toDigits 16 n)

def encodeText (t : List Char) : String :=
  ",".intercalate (t.map fun c => toHex c.toNat)

def decodeList (s : String) : Option (List (List Char)) :=
  if s == "~" then some [] else (s.splitOn ";").mapM decodeText

def encodeList (l : List (List Char)) : String :=
  if l.isEmpty then "~" else ";".intercalate (l.map encodeText)

def encodeOpt : Option (List Char) → String
  | none => "none"
  | some t => "some:" ++ encodeText t

def encodeBool (b : Bool) : String := if b then "1" else "0"

def decodeBool (s : String) : Option Bool :=
  if s == "1" then some true else if s == "0" then some false else none

def encodeNatOpt : Option Nat → String
  | none => "none"
  | some n => toString n

end Proto
