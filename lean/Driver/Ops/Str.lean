import Driver.Proto
import ReuseVerif
open Proto

namespace Ops

def stepStr (fields : List String) : Option String :=
  match fields with
  | ["py.strip", s] => do pure (encodeText (Py.strip (← decodeText s)))
  | ["py.lstrip", s] => do pure (encodeText (Py.lstrip (← decodeText s)))
  | ["py.rstrip", s] => do pure (encodeText (Py.rstrip (← decodeText s)))
  | ["py.splitlines", s] => do pure (encodeList (Py.splitLines (← decodeText s)))
  | ["py.splitlines_keep", s] => do pure (encodeList (Py.splitLines (← decodeText s) true))
  | ["py.find", p, s] => do pure (encodeNatOpt (Py.findSub (← decodeText p) (← decodeText s)))
  | ["py.split", sep, s] => do pure (encodeList (Py.splitOn (← decodeText sep) (← decodeText s)))
  | ["py.replace", s, a, b] => do
      pure (encodeText (Py.replace (← decodeText s) (← decodeText a) (← decodeText b)))
  | ["py.isspace", s] => do
      let t ← decodeText s
      pure (String.ofList (t.map fun c => if Py.isSpace c then '1' else '0'))
  | ["py.islinebreak", s] => do
      let t ← decodeText s
      pure (String.ofList (t.map fun c => if Py.isLineBreak c then '1' else '0'))
  | ["py.digitval", s] => do
      let t ← decodeText s
      pure (String.ofList (t.map fun c => Char.ofNat (48 + Model.digitVal c)))
  | ["py.yearval", s] => do pure (toString (Model.yearVal (← decodeText s)))
  | _ => none

end Ops
