import Driver.Proto
import Driver.Ops.Text
import ReuseVerif
open Proto

namespace Ops
open Model Py

def tagOf (which : String) : Option Text :=
  if which == "L" then some Generated.licenseTag
  else if which == "N" then some Generated.contributorTag
  else none

def decodeBytes (s : String) : Option Bytes := (decodeText s).map (·.map Char.toNat)

def stepC02 (fields : List String) : Option String :=
  match fields with
  | ["c02hyp", which, pre, blanks, v, trail, le] => do
      -- do the hypotheses of C02_tag_value_exact hold for this line?
      pure (encodeBool (Spec.WFValue Generated.endRe (← tagOf which) (← decodeText pre) (← decodeText blanks)
        (← decodeText v) (← decodeText trail) (← decodeText le)))
  | ["c02framed", which, pre, blanks, v, ws, trail, le] => do
      -- do the hypotheses of C02_frame hold for this framed line?
      pure (encodeBool (Spec.WFFramed Generated.endRe (← tagOf which) (← decodeText pre) (← decodeText blanks)
        (← decodeText v) (← decodeText ws) (← decodeText trail) (← decodeText le)))
  | ["decode", bs] => do pure (encodeText (decodedText (← decodeBytes bs)))
  | ["windowlen", bs] => do pure (toString (window (← decodeBytes bs)).length)
  | ["infofile", bs, bad] => do
      let bad ← decodeList bad
      pure (showExtracted (infoOfFile (fun x => !bad.contains x) (← decodeBytes bs)))
  | ["infotext", t, bad] => do
      let bad ← decodeList bad
      pure (showExtracted (infoOfDecoded (fun x => !bad.contains x) (← decodeText t)))
  | ["endcovers"] => pure (encodeBool (Spec.endCoversStyles Generated.endRe Generated.styles))
  | _ => none

end Ops
