import Driver.Proto
import Driver.Ops.Text
import ReuseVerif
open Proto

namespace Ops
open Model Py

def tagOf (which : String) : Option Text :=
  if which == "L" then some Generated.licenseTag
  else if which == "N" then some Generated.contributorTag
  else none

def decodeBytes (s : String) : Option Bytes := (decodeText s).map (·.map Char.toNat)

def stepC02 (fields : List String) : Option String :=
  match fields with
  | ["c02hyp", which, pre, blanks, v, trail, le] => do
      -- do the hypotheses of C02_tag_value_exact hold for this line?
      pure (encodeBool (Spec.WFValue Generated.endRe (← tagOf which) (← decodeText pre) (← decodeText blanks)
        (← decodeText v) (← decodeText trail) (← decodeText le)))
  | ["c02framed", which, pre, blanks, v, ws, trail, le] => do
      -- do the hypotheses of C02_frame hold for this framed line?
      pure (encodeBool (Spec.WFFramed Generated.endRe (← tagOf which) (← decodeText pre) (← decodeText blanks)
        (← decodeText v) (← decodeText ws) (← decodeText trail) (← decodeText le)))
  | ["c02chyp", key, yform, h, pre, trail] => do
      -- do the hypotheses of C02_copyright_exact_partial hold for this notice in this line?
      let h ← decodeText h
      let kv ← Generated.copyrightPrefixes.find? (·.1 == key)
      let shape ← Spec.prefixShapes.find? (·.1 == kv.2)
      let y : Spec.YearForm ←
        match yform.splitOn "/" with
        | ["none"] => some Spec.YearForm.none
        | ["single", a] => do pure (Spec.YearForm.single (← decodeText a))
        | ["range", a, s1, s2, b] => do pure (Spec.YearForm.range (← decodeText a) (s1 == "1") (s2 == "1") (← decodeText b))
        | _ => none
      pure (encodeBool (Spec.WFNotice Generated.endRe shape y h (← decodeText pre) (← decodeText trail)) ++ "|" ++
        encodeText (Spec.builtLine shape.1 y h))
  | ["c02lines", which, pres, blanks, vs, trails] => do
      -- do the hypotheses of C02_tag_lines hold for this text of tag lines?
      let pres ← decodeList pres
      let blanks ← decodeList blanks
      let vs ← decodeList vs
      let trails ← decodeList trails
      let ls : List Spec.TagLineSpec :=
        (pres.zip (blanks.zip (vs.zip trails))).map fun (p, b, v, t) => ⟨p, b, v, t⟩
      if ls.length != pres.length || vs.length != pres.length || trails.length != pres.length then none
      else pure (encodeBool (Spec.WFLines Generated.endRe (← tagOf which) ls))
  | ["decode", bs] => do pure (encodeText (decodedText (← decodeBytes bs)))
  | ["windowlen", bs] => do pure (toString (window (← decodeBytes bs)).length)
  | ["infofile", bs, bad] => do
      let bad ← decodeList bad
      pure (showExtracted (infoOfFile (fun x => !bad.contains x) (← decodeBytes bs)))
  | ["infotext", t, bad] => do
      let bad ← decodeList bad
      pure (showExtracted (infoOfDecoded (fun x => !bad.contains x) (← decodeText t)))
  | ["endcovers"] => pure (encodeBool (Spec.endCoversStyles Generated.endRe Generated.styles))
  | _ => none

end Ops
