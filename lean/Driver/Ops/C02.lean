import Driver.Proto
import Driver.Ops.Text
import ReuseVerif
open Proto

namespace Ops
open Model Py

def tagOf (which : String) : Option Text :=
  if which == "L" then some Generated.licenseTag
  else if which == "N" then some Generated.contributorTag
  else none

def decodeBytes (s : String) : Option Bytes := (decodeText s).map (·.map Char.toNat)

def yearFormOf (yform : String) : Option Spec.YearForm :=
  match yform.splitOn "/" with
  | ["none"] => some Spec.YearForm.none
  | ["single", a] => do pure (Spec.YearForm.single (← decodeText a))
  | ["range", a, s1, s2, b] => do pure (Spec.YearForm.range (← decodeText a) (s1 == "1") (s2 == "1") (← decodeText b))
  | _ => none

/-- one line of a `c02info` request: kind `L` / `N` (tag line: pre, blanks, v, trail), `M` / `P` (the same inside a frame: the frame's white space in `key`), `C` (notice line: pre, holder,
    trail, prefix key, year form), `O` (any other line: its text in `pre`) -/
def infoLineOf (kind : Char) (pre blanks v trail : Text) (key yform : String) : Option Spec.InfoLine :=
  if kind == 'L' then some (.lic ⟨pre, blanks, v, trail⟩)
  else if kind == 'N' then some (.con ⟨pre, blanks, v, trail⟩)
  else if kind == 'O' then some (.other pre)
  else if kind == 'M' then do pure (.licF ⟨pre, blanks, v, trail⟩ (← decodeText key))     -- framed: white space in `key`
  else if kind == 'P' then do pure (.conF ⟨pre, blanks, v, trail⟩ (← decodeText key))
  else if kind == 'C' then do
    let kv ← Generated.copyrightPrefixes.find? (·.1 == key)
    let shape ← Spec.prefixShapes.find? (·.1 == kv.2)
    pure (.cpr shape (← yearFormOf yform) v pre trail)
  else none

def infoLinesOf : List Char → List Text → List Text → List Text → List Text → List String → List String →
    Option (List Spec.InfoLine)
  | [], [], [], [], [], [], [] => some []
  | k :: ks, p :: ps, b :: bs, v :: vs, t :: ts, key :: keys, y :: ys => do
      let l ← infoLineOf k p b v t key y
      let rest ← infoLinesOf ks ps bs vs ts keys ys
      pure (l :: rest)
  | _, _, _, _, _, _, _ => none

def stepC02 (fields : List String) : Option String :=
  match fields with
  | ["c02hyp", which, pre, blanks, v, trail, le] => do
      -- do the hypotheses of C02_tag_value_exact hold for this line?
      pure (encodeBool (Spec.WFValue Generated.endRe (← tagOf which) (← decodeText pre) (← decodeText blanks)
        (← decodeText v) (← decodeText trail) (← decodeText le)))
  | ["c02framed", which, pre, blanks, v, ws, trail, le] => do
      -- do the hypotheses of C02_frame hold for this framed line?
      pure (encodeBool (Spec.WFFramed Generated.endRe (← tagOf which) (← decodeText pre) (← decodeText blanks)
        (← decodeText v) (← decodeText ws) (← decodeText trail) (← decodeText le)))
  | ["c02chyp", key, yform, h, pre, trail] => do
      -- do the hypotheses of C02_copyright_exact_partial hold for this notice in this line?
      let h ← decodeText h
      let kv ← Generated.copyrightPrefixes.find? (·.1 == key)
      let shape ← Spec.prefixShapes.find? (·.1 == kv.2)
      let y : Spec.YearForm ←
        match yform.splitOn "/" with
        | ["none"] => some Spec.YearForm.none
        | ["single", a] => do pure (Spec.YearForm.single (← decodeText a))
        | ["range", a, s1, s2, b] => do pure (Spec.YearForm.range (← decodeText a) (s1 == "1") (s2 == "1") (← decodeText b))
        | _ => none
      pure (encodeBool (Spec.WFNotice Generated.endRe shape y h (← decodeText pre) (← decodeText trail)) ++ "|" ++
        encodeText (Spec.builtLine shape.1 y h))
  | ["c02lines", which, pres, blanks, vs, trails] => do
      -- do the hypotheses of C02_tag_lines hold for this text of tag lines?
      let pres ← decodeList pres
      let blanks ← decodeList blanks
      let vs ← decodeList vs
      let trails ← decodeList trails
      let ls : List Spec.TagLineSpec :=
        (pres.zip (blanks.zip (vs.zip trails))).map fun (p, b, v, t) => ⟨p, b, v, t⟩
      if ls.length != pres.length || vs.length != pres.length || trails.length != pres.length then none
      else pure (encodeBool (Spec.WFLines Generated.endRe (← tagOf which) ls))
  | ["c02hyp2", which, pre, blanks, v, trail, le] => do
      -- do the hypotheses of C02_value_exact (tailSafe instead of noEndSuffixBefore) hold for this line?
      pure (encodeBool (Spec.WFValueSafe Generated.endRe (← tagOf which) (← decodeText pre) (← decodeText blanks)
        (← decodeText v) (← decodeText trail) (← decodeText le)))
  | ["c02linesg", which, kinds, pres, blanks, vs, trails, wss] => do
      -- do the line-local hypotheses of C02_tag_lines_general hold for every line of this text?  kinds: T = tag line,
      -- R = framed tag line (white space of the frame in `wss`), F = line without the tag (its text in `pres`).  Answer: hypotheses | the theorem's text | the values it promises
      let tag ← tagOf which
      let pres ← decodeList pres
      let blanks ← decodeList blanks
      let vs ← decodeList vs
      let trails ← decodeList trails
      let wss ← decodeList wss
      let ks := kinds.toList
      if pres.length != ks.length || blanks.length != ks.length || vs.length != ks.length || trails.length != ks.length ||
          wss.length != ks.length then none
      else
        let ls : List Spec.TextLine :=
          (ks.zip (pres.zip (blanks.zip (vs.zip (trails.zip wss))))).map fun (k, p, b, v, t, w) =>
            if k == 'T' then Spec.TextLine.tagged ⟨p, b, v, t⟩
            else if k == 'R' then Spec.TextLine.framed ⟨p, b, v, t⟩ w
            else Spec.TextLine.free p
        pure (encodeBool (ls.all (·.ok Generated.endRe tag)) ++ "|" ++ encodeText (Spec.textOf tag ls) ++ "|" ++
          encodeList (ls.filterMap (·.value)))
  | ["c02info", kinds, pres, blanks, vs, trails, keys, yforms] => do
      -- do the hypotheses of C02_extract_exact hold for every line of this text?  Answer: hypotheses | the theorem's
      -- text | what the theorem says is extracted
      let ls ← infoLinesOf kinds.toList (← decodeList pres) (← decodeList blanks) (← decodeList vs) (← decodeList trails)
        (keys.splitOn ";") (yforms.splitOn ";")
      pure (encodeBool (ls.all (·.ok Generated.endRe)) ++ "|" ++ encodeText (Spec.infoTextOf ls) ++ "|" ++
        encodeList (Spec.plantedInfo ls).lic ++ "|" ++ encodeList (Spec.plantedInfo ls).cpr ++ "|" ++
        encodeList (Spec.plantedInfo ls).con ++ "|" ++
        -- the hypothesis `hfit` of C02_file_exact / C02_file_exact_line_endings for the LF, the CRLF and the CR form
        String.join ([id, Spec.toCRLF, Spec.toCR].map fun f =>
          encodeBool (decide ((encodeUtf8 (f (Spec.infoTextOf ls))).length ≤ 4096) ||
            containsSnippet (encodeUtf8 (f (Spec.infoTextOf ls))))))
  | ["c02blocks", a0, hidden, visible, open_, kinds, pres, blanks, vs, trails, keys, yforms] => do
      -- do the hypotheses of C02_extract_exact_with_blocks / C02_file_exact_with_blocks hold?  The text is
      -- a0 S hidden[0] E visible[0] S hidden[1] E visible[1] … (S open_)?; the lines are those of the visible parts glued
      -- together.  Answer: hypotheses | the theorem's text | what the theorem says is extracted | file hypotheses
      let a0 ← decodeText a0
      let hidden ← decodeList hidden
      let visible ← decodeList visible
      let o ← match open_.splitOn ":" with
        | ["none"] => some none
        | ["some", x] => (decodeText x).map some
        | _ => none
      if hidden.length != visible.length then none
      else
        let bs := hidden.zip visible
        let ls ← infoLinesOf kinds.toList (← decodeList pres) (← decodeList blanks) (← decodeList vs) (← decodeList trails)
          (keys.splitOn ";") (yforms.splitOn ";")
        let t := Spec.blocksText a0 bs o
        pure (encodeBool (ls.all (·.ok Generated.endRe) && Spec.chunksOK a0 bs o && Spec.visibleText a0 bs == Spec.infoTextOf ls) ++
          "|" ++ encodeText t ++ "|" ++
          encodeList (Spec.plantedInfo ls).lic ++ "|" ++ encodeList (Spec.plantedInfo ls).cpr ++ "|" ++
          encodeList (Spec.plantedInfo ls).con ++ "|" ++
          String.join ([id, Spec.toCRLF, Spec.toCR].map fun f =>
            encodeBool (!t.contains '\r' && (decide ((encodeUtf8 (f t)).length ≤ 4096) || containsSnippet (encodeUtf8 (f t))))))
  | ["decode", bs] => do pure (encodeText (decodedText (← decodeBytes bs)))
  | ["windowlen", bs] => do pure (toString (window (← decodeBytes bs)).length)
  | ["infofile", bs, bad] => do
      let bad ← decodeList bad
      pure (showExtracted (infoOfFile (fun x => !bad.contains x) (← decodeBytes bs)))
  | ["infotext", t, bad] => do
      let bad ← decodeList bad
      pure (showExtracted (infoOfDecoded (fun x => !bad.contains x) (← decodeText t)))
  | ["endcovers"] => pure (encodeBool (Spec.endCoversStyles Generated.endRe Generated.styles))
  | _ => none

end Ops
