import Driver.Proto
import ReuseVerif
open Proto

namespace Ops
open Model Py Spec

/-- hypotheses and witness of the two "necessarily excluded" theorems for one dep5 glob:
    `Q|w`  — valid glob with a `?` wildcard (C17_question_always_differs): dep5 matches `w`, the converted glob does not;
    `S|w`  — asterisk run + `/` + plain rest (C17_star_slash_differs): dep5 does not match `w`, the converted glob does;
    `-`    — neither theorem speaks (a glob with both shapes is answered `Q`). -/
def stepC17 (fields : List String) : Option String :=
  match fields with
  | ["c17wit", d] => do
      let d ← decodeText d
      if (dep5Blocks d).isSome && hasQ d then pure ("Q|" ++ encodeText (dep5Witness d))
      else
        let r := d.dropWhile isStar
        match d, r with
        | '*' :: _, '/' :: r' => if dep5Plain r' then pure ("S|" ++ encodeText (dep5Witness r')) else pure "-"
        | _, _ => pure "-"
  | _ => none

end Ops
