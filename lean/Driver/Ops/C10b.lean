import Driver.Proto
import Driver.Ops.Annot
import ReuseVerif
open Proto

/-
Theorem-hypothesis tie for `C10.C10_idem_partial2`: the driver evaluates, per case, every hypothesis of the theorem
(all are decidable) and `Spec.secondRunOK`, which the theorem derives from them (`C10_second_run_ok`).
-/
namespace Ops
open Model Py Spec

def stepC10b (fields : List String) : Option String :=
  match fields with
  | ["c10hyp2", style, flags, tmpl, cpr, con, lic, bad, t] => do
      -- answer `hyp2|secondRunOK|lf|fresh|written`
      let c ← cfgOf style flags tmpl bad
      let t ← decodeText t
      let info : Extracted := ⟨← decodeList lic, ← decodeList cpr, ← decodeList con⟩
      match firstRunParts c info t with
      | none => pure "0|0|0|0|"
      | some (a, hdr, b) =>
        let out := a ++ hdr ++ ['\n'] ++ b
        let multi := c.forceMulti || !c.style.canSingle            -- C10L.multiMode
        let hb := multi || b.isEmpty || b.head? == some '\n'
        let hyp2 := !c.style.isEmptyStyle && !c.commented && noExotic hdr && hb &&
          !(startsWith hdr "% !TEX".toList) && containsReuseInfo c.parses hdr &&
          nothingAbove c a (hdr ++ '\n' :: b) && okText (createHeader c info (hdr ++ ['\n'])) hdr
        let lf := noCR t && noCR out && t.head? != some bomChar
        let fresh := (findFirstSpdxComment c t).isNone
        pure (encodeBool hyp2 ++ "|" ++ encodeBool (secondRunOK c info a hdr b) ++ "|" ++ encodeBool lf ++ "|" ++
          encodeBool fresh ++ "|" ++ encodeText out)
  | _ => none

end Ops
