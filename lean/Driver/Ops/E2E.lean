import Driver.Proto
import Driver.Ops.Covered
import Driver.Ops.C02
import Driver.Ops.Report
import ReuseVerif
open Proto

/-
`e2e`: the composed model of `reuse lint` (Model/LintE2E.lean) on a serialised project.

fields: e2e, flags (submodules, meson), tree tokens, VCS-ignored paths, submodule paths, binary paths,
        expression table, dep5, then one group per REUSE.toml:
          directory ("/"-joined, hex), "!" (does not load) or the number n of tables, then n × (globs, precedence, copyright lines, expressions)
tree tokens: `F:<name>:<bytes>` `D:<name>` … `E`; symbolic links with what they resolve to (the harness follows
             links to links): `L:<name>` dangling, `LF:<name>:<bytes>` a regular file, `LD:<name>` … `E` a directory
expression table: entries `text/parses/keys/rendering`, separated by blanks (license-expression is an oracle)
dep5: `-` (not parsed / absent) or `=` followed by blank-separated paragraphs `globs/copyright/licence`

answer: `need:<expressions>` when the table lacks an expression the model meets (the harness then asks
        license-expression and calls again), `config-error`, `duplicate`, or
        `ok|<report as in the report op>|files=…|lics=…|hyp=<bits>`
-/
namespace Ops
open Model Py

partial def parseETree : List String → Option (ETree × List String)
  | [] => some ([], [])
  | "E" :: rest => some ([], rest)
  | tok :: rest =>
    match tok.splitOn ":" with
    | ["F", n, bs] => do
        let name ← decodeText n
        let content ← decodeBytes bs
        let (more, rest') ← parseETree rest
        pure ((String.ofList name, ENode.file content) :: more, rest')
    | ["L", n] => do
        let name ← decodeText n
        let (more, rest') ← parseETree rest
        pure ((String.ofList name, ENode.symlink .dangling) :: more, rest')
    | ["LF", n, bs] => do
        let name ← decodeText n
        let content ← decodeBytes bs
        let (more, rest') ← parseETree rest
        pure ((String.ofList name, ENode.symlink (.file content)) :: more, rest')
    | ["LD", n] => do
        let name ← decodeText n
        let (sub, rest1) ← parseETree rest
        let (more, rest2) ← parseETree rest1
        pure ((String.ofList name, ENode.symlink (.dir sub)) :: more, rest2)
    | ["D", n] => do
        let name ← decodeText n
        let (sub, rest1) ← parseETree rest
        let (more, rest2) ← parseETree rest1
        pure ((String.ofList name, ENode.dir sub) :: more, rest2)
    | _ => none

structure ExprRow where
  text : Text
  parses : Bool
  keys : List Text
  render : Text

def decodeExprTable (s : String) : Option (List ExprRow) :=
  if s.isEmpty then some [] else
  (s.splitOn " ").mapM fun e =>
    match e.splitOn "/" with
    | [t, p, ks, r] => do pure ⟨← decodeText t, ← decodeBool p, ← decodeList ks, ← decodeText r⟩
    | _ => none

def decodeDep5 (s : String) : Option (Option (List Dep5Para)) :=
  if s == "-" then some none
  else if s == "=" then some (some [])
  else if s.startsWith "=" then do
    let ps ← ((s.drop 1).toString.splitOn " ").mapM fun e =>
      match e.splitOn "/" with
      | [g, c, l] => do pure (⟨← decodeList g, ← decodeText c, ← decodeText l⟩ : Dep5Para)
      | _ => none
    pure (some ps)
  else none

def decodePrec : String → Option Prec
  | "c" => some .closest | "a" => some .aggregate | "o" => some .override | _ => none

def decodeTables : Nat → List String → Option (List TomlTable × List String)
  | 0, rest => some ([], rest)
  | n + 1, g :: p :: c :: l :: rest => do
      let t : TomlTable := ⟨← decodeList g, ← decodePrec p, ← decodeList c, ← decodeList l⟩
      let (more, rest') ← decodeTables n rest
      pure (t :: more, rest')
  | _, _ => none

partial def decodeTomls : List String → Option (List (List String × Option (List TomlTable)))
  | [] => some []
  | d :: "!" :: rest => do
      let dir ← decodeText d
      pure ((splitDir dir, none) :: (← decodeTomls rest))
  | d :: n :: rest => do
      let dir ← decodeText d
      let (ts, rest') ← decodeTables (← n.toNat?) rest
      pure ((splitDir dir, some ts) :: (← decodeTomls rest'))
  | _ => none
where
  splitDir (dir : Text) : List String := if dir.isEmpty then [] else (String.ofList dir).splitOn "/"

/-- every regular file of the tree (what symbolic links resolve to included: more than the model reads) -/
partial def allContents : ENode → List Bytes
  | .file c => [c]
  | .symlink .dangling => []
  | .symlink (.file c) => [c]
  | .symlink (.dir cs) => cs.flatMap fun e => allContents e.2
  | .dir cs => cs.flatMap fun e => allContents e.2

def joinPath (p : List String) : Text := ("/".intercalate p).toList

def showSrc (g : GlobalLic) (f : EFile) : Src → String
  | .own =>
    (match f.own with
     | .bytes _ true => "O:" ++ encodeText (joinPath (ownPath f.path f.own)) ++ ":l"
     | _ => "O:" ++ encodeText (joinPath f.path) ++ ":h")
  | .toml i =>
    match g with
    | .dep5 _ => "D:" ++ encodeText ".reuse/dep5".toList
    | _ => "T:" ++ encodeText (joinPath (f.path.take i ++ ["REUSE.toml"]))

def showEFile (g : GlobalLic) (render : String → Text) (f : EFile) : String :=
  encodeText (joinPath f.path) ++ "/" ++ encodeBool f.readable ++ "/" ++
    "+".intercalate ((itemsOf f.infos).map fun it =>
      (match it.kind with | .cpr => "C" | .lic => "L") ++ "^" ++ showSrc g f it.src ++ "^" ++
      encodeText (match it.kind with | .cpr => it.value.toList | .lic => render it.value))

def stepE2E (fields : List String) : Option String :=
  match fields with
  | "e2e" :: flags :: tree :: ignored :: submods :: binaries :: exprs :: dep5 :: tomls => do
      let fl := flags.toList
      let (cs, _) ← parseETree (if tree.isEmpty then [] else tree.splitOn " ")
      let ign ← decodePaths ignored
      let sub ← decodePaths submods
      let bin ← decodePaths binaries
      let table ← decodeExprTable exprs
      let d5 ← decodeDep5 dep5
      let tls ← decodeTomls tomls
      -- expressions the model will meet: every tag value of every regular file, every table entry
      let fromFiles := (cs.flatMap fun e => allContents e.2).flatMap fun c => (extractRaw (decodedText (window c))).lic
      let fromTomls := tls.flatMap fun t => (t.2.getD []).flatMap (·.lic)
      let fromDep5 := (d5.getD []).map (·.license)
      let need := dedup ((fromFiles ++ fromTomls ++ fromDep5).filter fun t => !(table.any (·.text == t)))
      if !need.isEmpty then pure ("need:" ++ encodeList need) else
      let row (t : Text) : Option ExprRow := table.find? (·.text == t)
      let c : E2ECfg := {
        includeSubmodules := fl.getD 0 '0' == '1', includeMeson := fl.getD 1 '0' == '1',
        vcsIgnored := fun p => ign.contains p, isSubmodule := fun p => sub.contains p,
        isBinary := fun p => bin.contains p,
        tomlOf := fun d => ((tls.find? (·.1 == d)).map (·.2)).join,
        dep5Of := d5,
        parses := fun t => ((row t).map (·.parses)).getD false,
        keysOf := fun s => ((row s.toList).map (·.keys)).getD [] }
      let render (s : String) : Text := ((row s.toList).map (·.render)).getD s.toList
      match globalOf c cs with
      | none => pure "config-error"
      | some g =>
        match lintE2E spdxTable c cs with
        | .configError => pure "config-error"
        | .duplicate => pure "duplicate"
        | .ok files r =>
          pure ("|".intercalate [
            "ok", showReport r,
            "files=" ++ " ".intercalate (files.map (showEFile g render)),
            "lics=" ++ encodeList (licFilesOf cs),
            -- the decidable hypotheses of C01_e2e_verdict_partial on this case: plainNames, noEmptyNoticeB
            "hyp=" ++ encodeBool (Spec.plainNames spdxTable (licFilesOf cs)) ++ encodeBool (Spec.noEmptyNoticeB files)])
  | _ => none

end Ops
