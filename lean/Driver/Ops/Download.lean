import Driver.Proto
import ReuseVerif
open Proto

namespace Ops
open Model.Download

def parsePath (t : List Char) : Path := if t.isEmpty then [] else Py.splitOn ['/'] t

def showPath (p : Path) : List Char := Py.join ['/'] p

def decodeOptPath (s : String) : Option (Option Path) :=
  if s == "none" then some none
  else if s.startsWith "some:" then do
    let t ← decodeText (s.drop 5).toString
    pure (some (parsePath t))
  else none

def mkNode (k c : List Char) : Option Node :=
  if k == ['f'] then some (.file c) else if k == ['d'] then some .dir
  else if k == ['l'] then some (.link c) else none

def showNode : Node → List Char × List Char
  | .file c => (['f'], c)
  | .dir => (['d'], [])
  | .link t => (['l'], t)

def showOutcome : Outcome → String
  | .ok => "ok" | .urlError => "url-error" | .exists_ => "exists" | .notFound => "not-found"

def stepDownload (fields : List String) : Option String :=
  match fields with
  | ["download", paths, kinds, contents, cwd, root, vcsNone, ids, all, output, source, missing,
      okIds, okTexts] => do
      let paths ← decodeList paths
      let kinds ← decodeList kinds
      let contents ← decodeList contents
      let nodes ← (kinds.zip contents).mapM fun (k, c) => mkNode k c
      let fs : Fs := (paths.map parsePath).zip nodes
      let e : Env := ⟨parsePath (← decodeText cwd), parsePath (← decodeText root), ← decodeBool vcsNone⟩
      let a : Args := ⟨← decodeList ids, ← decodeBool all, ← decodeOptPath output, ← decodeOptPath source⟩
      let missing ← decodeList missing
      let table := (← decodeList okIds).zip (← decodeList okTexts)
      let fetch := fun id => table.lookup id
      match download fetch e missing a fs with
      | .usage => pure "usage"
      | .done r exit =>
        let ks := r.fs.keys
        let ns := ks.map fun k => match r.fs.get k with | some n => showNode n | none => (['?'], [])
        pure (s!"{exit}|" ++ encodeList (ks.map showPath) ++ "|" ++ encodeList (ns.map (·.1)) ++ "|"
          ++ encodeList (ns.map (·.2)) ++ "|" ++ encodeList r.calls ++ "|"
          ++ ";".intercalate (r.outcomes.map fun o => encodeText o.1 ++ "=" ++ showOutcome o.2))
  | ["stripplus", id] => do pure (encodeText (stripPlus (← decodeText id)))
  | ["islicenseref", id] => do pure (encodeBool (isLicenseRef (← decodeText id)))
  | _ => none

end Ops
