import Driver.Proto
import Driver.Ops.Covered
import ReuseVerif
open Proto

namespace Ops
open Model Model.Agg

/-- `+`-separated encoded strings, `~` for the empty list -/
def decodePlus (s : String) : Option (List String) :=
  if s == "~" then some [] else (s.splitOn "+").mapM fun x => do pure (String.ofList (← decodeText x))

/-- one worker result: `path:error:copyright:licences:missing:bad` -/
def decodeResult (tok : String) : Option FileResult :=
  match tok.splitOn ":" with
  | [p, e, c, ls, ms, bs] => do
      pure { path := String.ofList (← decodeText p), error := ← decodeBool e, hasCopyright := ← decodeBool c,
             licenses := ← decodePlus ls, missing := ← decodePlus ms, bad := ← decodePlus bs }
  | _ => none

/-- one LICENSES/ entry: `id:path:known:deprecated` -/
def decodeLicAgg (tok : String) : Option ((String × String) × Bool × Bool) :=
  match tok.splitOn ":" with
  | [i, p, k, d] => do
      pure ((String.ofList (← decodeText i), String.ofList (← decodeText p)), ← decodeBool k, ← decodeBool d)
  | _ => none

def wordsAgg (s : String) : List String := if s.isEmpty || s == "~" then [] else s.splitOn " "

def showS (l : List String) : String := encodeList (l.map String.toList)
def showP (l : List (String × String)) : String :=
  if l.isEmpty then "~" else ";".intercalate (l.map fun q => encodeText q.1.toList ++ ">" ++ encodeText q.2.toList)

def showAggReport (n : NReport) : String :=
  "|".intercalate [
    "rderr=" ++ showS n.readErrors, "files=" ++ showS n.files, "missing=" ++ showP n.missing,
    "bad=" ++ showP n.bad, "deprecated=" ++ showS n.deprecated, "used=" ++ showS n.used,
    "unused=" ++ showS n.unused, "nolic=" ++ showS n.withoutLicence, "nocpr=" ++ showS n.withoutCopyright,
    "total=" ++ toString n.filesTotal, "compliant=" ++ encodeBool n.compliant]

def rotate1 {α} : List α → List α
  | [] => []
  | x :: xs => xs ++ [x]

def dirParts (t : List Char) : List String :=
  if t.isEmpty then [] else (String.ofList t).splitOn "/"

def stepAggregate (fields : List String) : Option String :=
  match fields with
  | ["agg", lics, results] => do
      let ls ← (wordsAgg lics).mapM decodeLicAgg
      let rs ← (wordsAgg results).mapM decodeResult
      let known := (ls.filter (·.2.1)).map (·.1.1)
      let depr := (ls.filter (·.2.2)).map (·.1.1)
      let ctx : LicCtx := { licenses := ls.map (·.1), isKnown := fun i => known.contains i,
                            isDeprecated := fun i => depr.contains i }
      pure (showAggReport (normalise ctx (aggregate ctx rs)))
  | ["tomls", dirs, path] => do
      let ds ← decodeList dirs
      let p ← decodeText path
      let tomls : List Toml := (ds.zipIdx).map fun (d, i) => { dir := dirParts d, ident := i }
      pure (",".intercalate ((findRelevantTomls tomls (dirParts p)).map fun t => toString t.ident))
  | ["findlic", pairs] => do
      -- `path>identifier` pairs in glob order; the table is the identifier function
      let ps ← (if pairs == "~" then some [] else (pairs.splitOn ";").mapM fun t =>
        match t.splitOn ">" with
        | [a, b] => do pure (String.ofList (← decodeText a), String.ofList (← decodeText b))
        | _ => none)
      let ident := fun p => ((ps.find? fun q => q.1 == p).map (·.2)).getD p
      pure (match findLicenses ident (ps.map (·.1)) with
        | none => "duplicate"
        | some d => showP (sortP d))
  | ["endmatch", text] => do
      pure (encodeBool (matchesEnd Generated.endAlternatives (← decodeText text)))
  | ["endshape"] => pure (toString Generated.endShape)
  | ["walkperm", mode, flags, rootName, tree] => do
      let fl := flags.toList
      let (cs, _) ← parseEntries (if tree.isEmpty then [] else tree.splitOn " ")
      let cfg : WalkCfg := {
        includeSubmodules := fl.getD 0 '0' == '1', includeMeson := fl.getD 1 '0' == '1',
        includeReuseTomls := fl.getD 2 '0' == '1',
        vcsIgnored := fun _ => false, isSubmodule := fun _ => false }
      let σ : List (String × Node) → List (String × Node) ←
        match mode with
        | "rev" => some List.reverse
        | "rot" => some rotate1
        | "id" => some id
        | _ => none
      let res := iterFilesFromRoot σ cfg (parsePath (← decodeText rootName)) cs
      pure (encodeList (res.map fun p => ("/".intercalate p).toList))
  | ["rootrel", cwd, spelling, rel] => do
      let c := dirParts (← decodeText cwd)
      let root := parsePath (← decodeText spelling)
      let r := dirParts (← decodeText rel)
      let shown := fun (l : List String) => encodeText ("/".intercalate l).toList
      pure ("|".intercalate [
        encodeBool root.abs, shown root.parts, shown (resolve c root), shown (resolve c (joinRel root r)),
        (match relativeTo (joinRel root r) root with | none => "none" | some l => "some:" ++ shown l),
        encodeText (rootNameOf root).toList])
  | _ => none

end Ops
