import Driver.Proto
import Driver.Ops.E2E
import Driver.Ops.Spdx
import Driver.Ops.Report
import ReuseVerif
open Proto

/-
The composed models of `reuse spdx`, `reuse lint-file` and the formats of `reuse lint`
(Model/SpdxE2E.lean) on a serialised project.  The project part of every op is that of `e2e`
(Driver/Ops/E2E.lean): flags, tree tokens, VCS-ignored paths, submodule paths, binary paths,
expression table, dep5, and — last — the REUSE.toml groups.  The expression table has a fifth
column here: a representative of the expression's equality class (license-expression `==`).

  spdxe2e      <project 7 fields> add docName version person org sha1s md5s simplify <tomls…>
               sha1s: `path!sha1` records, md5s: `text!md5` records, simplify: `joined!answer` records ("|"-separated, "~" = none)
               answer: need:<expressions> | needsimp:<joined texts> | usage-error | config-error | duplicate
                       | doc:<docOk><keysRespectEq>:<document text>
  lintfilee2e  <project 7 fields> cwd args <tomls…>
               args: list of `a|seg/seg…` (absolute, components below the root) or `r|seg/seg…` (relative to cwd)
               answer: need:… | usage-error | config-error | duplicate | ok|exit=N|F.<cat>=…|named=<paths the arguments denote>
  lintfmte2e   <project 7 fields> <tomls…>
               answer: need:… | config-error | duplicate | the answer of the `lint` op for the composed report
-/
namespace Ops
open Model Py

structure ExprRow5 where
  text : Text
  parses : Bool
  keys : List Text
  render : Text
  canon : Text

def decodeExprTable5 (s : String) : Option (List ExprRow5) :=
  if s.isEmpty then some [] else
  (s.splitOn " ").mapM fun e =>
    match e.splitOn "/" with
    | [t, p, ks, r, k] => do pure ⟨← decodeText t, ← decodeBool p, ← decodeList ks, ← decodeText r, ← decodeText k⟩
    | [t, p, ks, r] => do
        let r ← decodeText r
        pure ⟨← decodeText t, ← decodeBool p, ← decodeList ks, r, r⟩
    | _ => none

structure Proj where
  tree : ETree
  cfg : E2ECfg
  table : List ExprRow5
  need : List Text

def decodeProj (flags tree ignored submods binaries exprs dep5 : String) (tomls : List String) : Option Proj := do
  let fl := flags.toList
  let (cs, _) ← parseETree (if tree.isEmpty then [] else tree.splitOn " ")
  let ign ← decodePaths ignored
  let sub ← decodePaths submods
  let bin ← decodePaths binaries
  let table ← decodeExprTable5 exprs
  let d5 ← decodeDep5 dep5
  let tls ← decodeTomls tomls
  let fromFiles := (cs.flatMap fun e => allContents e.2).flatMap fun c => (extractRaw (decodedText (window c))).lic
  let fromTomls := tls.flatMap fun t => (t.2.getD []).flatMap (·.lic)
  let fromDep5 := (d5.getD []).map (·.license)
  let need := dedup ((fromFiles ++ fromTomls ++ fromDep5).filter fun t => !(table.any (·.text == t)))
  let row (t : Text) : Option ExprRow5 := table.find? (·.text == t)
  let c : E2ECfg := {
    includeSubmodules := fl.getD 0 '0' == '1', includeMeson := fl.getD 1 '0' == '1',
    vcsIgnored := fun p => ign.contains p, isSubmodule := fun p => sub.contains p,
    isBinary := fun p => bin.contains p,
    tomlOf := fun d => ((tls.find? (·.1 == d)).map (·.2)).join,
    dep5Of := d5,
    parses := fun t => ((row t).map (·.parses)).getD false,
    keysOf := fun s => ((row s.toList).map (·.keys)).getD [] }
  pure { tree := cs, cfg := c, table := table, need := need }

def splitSegs (t : Text) : List String := if t.isEmpty then [] else (String.ofList t).splitOn "/"

def decodeArg (t : Text) : Option PathArg :=
  match t with
  | 'a' :: '|' :: rest => some { abs := true, segs := splitSegs rest }
  | 'r' :: '|' :: rest => some { abs := false, segs := splitSegs rest }
  | _ => none

def lookupText (tbl : List (Text × Text)) (dflt : Text) (x : Text) : Text :=
  match tbl.find? (fun p => p.1 == x) with
  | some p => p.2
  | none => dflt

def stepSpdxE2E (fields : List String) : Option String :=
  match fields with
  | "spdxe2e" :: flags :: tree :: ignored :: submods :: binaries :: exprs :: dep5 :: add :: docName :: version ::
      person :: org :: sha1s :: md5s :: simp :: tomls => do
      let pj ← decodeProj flags tree ignored submods binaries exprs dep5 tomls
      if !pj.need.isEmpty then pure ("need:" ++ encodeList pj.need) else
      let add ← decodeBool add
      let p : Spdx.DocParams := {
        docName := ← decodeText docName, uuid := "UUID".toList, created := "CREATED".toList,
        version := ← decodeText version, person := ← decodeOpt person, organization := ← decodeOpt org }
      let shaTbl ← (splitRecs "|" sha1s).mapM decodePair
      let md5Tbl ← (splitRecs "|" md5s).mapM decodePair
      let simpTbl ← (splitRecs "|" simp).mapM decodePair
      -- sha1 is a function of the bytes: the table is keyed by path, the bytes are looked up in the tree
      let shaBytes := shaTbl.map fun e => (contentAt pj.tree (splitSegs e.1), e.2)
      let row (s : String) : Option ExprRow5 := pj.table.find? (·.text == s.toList)
      let o : SpdxOracles := {
        sha1 := fun bs => match shaBytes.find? (fun e => e.1 == bs) with
          | some e => e.2
          | none => "unknown-sha1-input".toList
        md5 := lookupText md5Tbl "unknown-md5-input".toList
        exprKey := fun s => ((row s).map (·.canon)).getD s.toList
        render := fun s => ((row s).map (·.render)).getD s.toList
        simplify := lookupText simpTbl "unknown-simplify-input".toList }
      let c := pj.cfg
      match globalOf c pj.tree, findLicenses spdxTable (licFilesOf pj.tree) with
      | some g, some fd =>
        -- the questions boolean.py has to be asked
        let asks := if add then
            dedup (((spdxFiles c g pj.tree).filter fun f => !(exprsOf o f).isEmpty).map fun f => joinedExprs o (exprsOf o f))
          else []
        let miss := asks.filter fun q => !(simpTbl.any (·.1 == q))
        if !miss.isEmpty && !(add && p.person.isNone && p.organization.isNone) then
          pure ("needsimp:" ++ encodeList miss)
        else
          match spdxE2E spdxTable c o add p pj.tree with
          | .usageError => pure "usage-error"
          | .configError => pure "config-error"
          | .duplicate => pure "duplicate"
          | .document t =>
            -- the decidable hypotheses of C18_e2e_wellformed (docOk) and C18_e2e_file_report (KeysRespectEq, via C18_e2e_hyp)
            let ok := Spec.Spdx.docOk p (spdxReps c o add g pj.tree) (spdxLics pj.tree fd)
            let kr := Spec.keysRespectEqB c o (Spec.allExprs c g pj.tree)
            pure ("doc:" ++ encodeBool ok ++ encodeBool kr ++ ":" ++ encodeText t)
      | _, _ =>
        match spdxE2E spdxTable c o add p pj.tree with
        | .usageError => pure "usage-error"
        | .configError => pure "config-error"
        | .duplicate => pure "duplicate"
        | .document t => pure ("doc:00:" ++ encodeText t)
  | "lintfilee2e" :: flags :: tree :: ignored :: submods :: binaries :: exprs :: dep5 :: cwd :: args :: tomls => do
      let pj ← decodeProj flags tree ignored submods binaries exprs dep5 tomls
      if !pj.need.isEmpty then pure ("need:" ++ encodeList pj.need) else
      let cwd := splitSegs (← decodeText cwd)
      let args ← (← decodeList args).mapM decodeArg
      match lintFileE2E spdxTable pj.cfg pj.tree cwd args with
      | .usageError => pure "usage-error"
      | .configError => pure "config-error"
      | .duplicate => pure "duplicate"
      | .ok out e =>
        pure ("ok|exit=" ++ toString e ++ "|" ++ showEntries "F" out ++ "|named=" ++
          encodeList ((namedPaths pj.tree cwd args).map relText))
  | "lintfmte2e" :: flags :: tree :: ignored :: submods :: binaries :: exprs :: dep5 :: tomls => do
      let pj ← decodeProj flags tree ignored submods binaries exprs dep5 tomls
      if !pj.need.isEmpty then pure ("need:" ++ encodeList pj.need) else
      match lintE2E spdxTable pj.cfg pj.tree with
      | .configError => pure "config-error"
      | .duplicate => pure "duplicate"
      | .ok _ r =>
        let fmt (f : Format) : List Entry × Nat := ((lintCmdE2E spdxTable pj.cfg pj.tree f).getD ([], 99))
        let s := jsonSummary r
        pure ("|".intercalate [
          "exit=" ++ ",".intercalate ([Format.json, .plain, .lines, .quiet].map fun f => toString (fmt f).2),
          showEntries "J" (fmt .json).1, showEntries "P" (fmt .plain).1,
          showEntries "L" (fmt .lines).1, showEntries "Q" (fmt .quiet).1,
          "S.files=" ++ encodeList s.files, "S.total=" ++ toString s.filesTotal,
          "S.cop=" ++ toString s.withCopyright, "S.lic=" ++ toString s.withLicensing,
          "S.compliant=" ++ encodeBool s.compliant, "S.used=" ++ encodeList s.used])
  | _ => none

end Ops
