/-
Driver operations for C16 (Model/TomlValidate.lean, always the repaired code `g = true`).

A TOML value travels as space-separated prefix tokens:
  s:<hex text>  i:<int>  f  d  b:0|1  a:<n> v1 … vn  t:<n> k:<hex> v1 … k:<hex> vn
The licence-expression oracle travels as a list of texts plus one code per text
(`e` expression, `n` None, `b` error); a text that is not listed is an error.
-/
import Driver.Proto
import ReuseVerif
open Proto

namespace Ops
open Model.Toml

partial def parseVal : List String → Option (TomlVal × List String)
  | [] => none
  | tok :: rest =>
    if tok == "f" then some (.float, rest)
    else if tok == "d" then some (.datetime, rest)
    else if tok.startsWith "s:" then do
      let t ← decodeText (tok.drop 2).toString
      pure (.str t, rest)
    else if tok.startsWith "i:" then do
      let n ← (tok.drop 2).toString.toInt?
      pure (.int n, rest)
    else if tok.startsWith "b:" then do
      let b ← decodeBool (tok.drop 2).toString
      pure (.bool b, rest)
    else if tok.startsWith "a:" then do
      let n ← (tok.drop 2).toString.toNat?
      let rec items : Nat → List String → List TomlVal → Option (List TomlVal × List String)
        | 0, r, acc => some (acc.reverse, r)
        | k + 1, r, acc => do
          let (v, r') ← parseVal r
          items k r' (v :: acc)
      let (xs, r) ← items n rest []
      pure (.array xs, r)
    else if tok.startsWith "t:" then do
      let n ← (tok.drop 2).toString.toNat?
      let rec pairs : Nat → List String → List (Py.Text × TomlVal) → Option (List (Py.Text × TomlVal) × List String)
        | 0, r, acc => some (acc.reverse, r)
        | k + 1, r, acc =>
          match r with
          | kt :: r1 =>
            if kt.startsWith "k:" then do
              let key ← decodeText (kt.drop 2).toString
              let (v, r2) ← parseVal r1
              pairs k r2 ((key, v) :: acc)
            else none
          | [] => none
      let (kvs, r) ← pairs n rest []
      pure (.table kvs, r)
    else none

def parseDoc (field : String) : Option (List (Py.Text × TomlVal)) :=
  match parseVal ((field.splitOn " ").filter (· ≠ "")) with
  | some (.table kvs, []) => some kvs
  | _ => none

def mkOracle (texts : List Py.Text) (codes : String) : Py.Text → ExprRes := fun t =>
  match (texts.zip codes.toList).find? (fun p => p.1 == t) with
  | some (_, 'e') => .expr
  | some (_, 'n') => .blank
  | _ => .bad

def showCrash : Crash → String
  | .typeError => "TypeError"
  | .attributeError => "AttributeError"
  | .runtimeError => "RuntimeError"
  | .unicodeDecodeError => "UnicodeDecodeError"
  | .osError => "OSError"

def showKind : ParseKind → String
  | .generic => "generic" | .type => "type" | .value => "value"

def showErr : Err → String
  | .parse k s => "parse:" ++ showKind k ++ ":" ++ encodeOpt s
  | .conflict t d => "conflict:" ++ encodeList [t, d]
  | .os => "os"
  | .crash c => "crash:" ++ showCrash c

def showPrec : Prec → String
  | .aggregate => "aggregate" | .closest => "closest" | .override => "override"

def showTomlItem (i : Item) : String :=
  "P" ++ encodeList i.paths ++ " R" ++ showPrec i.precedence ++ " C" ++ encodeList i.copyright
    ++ " E" ++ toString i.nExprs

def showVersion : Version → String
  | .int n => toString n
  | .bool true => "True"
  | .bool false => "False"

def showToml (t : ReuseToml) : String :=
  "ok " ++ showVersion t.version ++ " " ++ toString t.annotations.length
    ++ String.join (t.annotations.map fun i => " " ++ showTomlItem i)

def showEnd : End → String
  | .exit c names => "exit:" ++ toString c ++ ":" ++ encodeList names
  | .traceback c => "traceback:" ++ showCrash c

def parseTomlFile (s : String) : Option TomlFile :=
  if s == "o" then some .osError
  else if s == "u" then some .undecodable
  else if s == "x" then some .syntaxError
  else if s.startsWith "D " then (parseDoc (s.drop 2).toString).map .doc
  else none

def parseDep5File (s : String) : Option Dep5File :=
  if s == "o" then some .osError
  else if s == "u" then some .undecodable
  else if s == "e" then some .debianError
  else if s == "v" then some .valueError
  else if s == "g" then some .good
  else none

def parseFileRes (s : String) : Option FileRes :=
  match s with
  | "x" => some .exc
  | "e" => some .exprError
  | "r00" => some (.report false false)
  | "r01" => some (.report false true)
  | "r10" => some (.report true false)
  | "r11" => some (.report true true)
  | _ => none

def parseAnnInput (s : String) : Option AnnInput :=
  match s with
  | "v" => some .vanished
  | "u" => some .undecodable
  | "t1" => some (.text true)
  | "t0" => some (.text false)
  | _ => none

def words (s : String) : List String := (s.splitOn " ").filter (· ≠ "")

def stepToml (fields : List String) : Option String :=
  match fields with
  | ["fromdict", src, texts, codes, doc] => do
      let src ← decodeText src
      let texts ← decodeList texts
      let doc ← parseDoc doc
      match fromDict true (mkOracle texts codes) src doc with
      | .ok t => pure (showToml t)
      | .error e => pure (showErr e)
  | ["loadproject", texts, codes, dep5, tomls, ids] => do
      let texts ← decodeList texts
      let ids ← decodeList ids
      let dep5 ← if dep5 == "none" then some none else
        match dep5.splitOn "!" with
        | [s, k] => do pure (some ((← decodeText s), (← parseDep5File k)))
        | _ => none
      let tomls ← if tomls == "~" then some [] else
        (tomls.splitOn "|").mapM fun ent =>
          match ent.splitOn "!" with
          | [s, k] => do pure ((← decodeText s), (← parseTomlFile k))
          | _ => none
      match loadProject true (mkOracle texts codes) ⟨dep5, tomls, ids⟩ with
      | .ok _ => pure "loaded"
      | .error e => pure (showEnd (clickEnd e))
  | ["generate", paths, results, other] => do
      let paths ← decodeList paths
      let results ← (words results).mapM parseFileRes
      let other ← decodeBool other
      if paths.length ≠ results.length then none else
      let r := generate (paths.zip results)
      let flags := String.ofList (r.reports.flatMap fun x =>
        [if x.2.1 then '1' else '0', if x.2.2 then '1' else '0'])
      pure ("RE " ++ encodeList r.readErrors ++ " REP " ++ encodeList (r.reports.map (·.1)) ++ " " ++ flags
        ++ " " ++ showEnd (lintEnd r other))
  | ["annotate", paths, inputs] => do
      let paths ← decodeList paths
      let inputs ← (words inputs).mapM parseAnnInput
      if paths.length ≠ inputs.length then none else
      let files := paths.zip inputs
      let (rs, _) := annotateLoop true files
      let flags := String.ofList (rs.map fun x => if x.2 = .changed then 'c' else 'f')
      pure (flags ++ " " ++ showEnd (annotateEnd true files))
  | _ => none

end Ops
