import Driver.Proto
import ReuseVerif
open Proto

namespace Ops
open Model Model.Spdx Spec.Spdx

/-- records separated by `sep`; "~" is the empty list -/
def splitRecs (sep : String) (s : String) : List String :=
  if s == "~" then [] else s.splitOn sep

def decodeOpt (s : String) : Option (Option (List Char)) :=
  if s == "none" then some none
  else if s.startsWith "some:" then (decodeText (s.drop 5).toString).map some
  else none

def decodeFile (s : String) : Option FileInput :=
  match s.splitOn "!" with
  | [name, chk, simp, exprs, cop] => do
      let name ← decodeText name
      let chk ← decodeText chk
      let simp ← decodeText simp
      let exprs ← (splitRecs "/" exprs).mapM decodeList
      let cop ← decodeList cop
      pure { name := name, chk := chk, exprKeys := exprs, simplified := simp, copyrightLines := cop }
  | _ => none

def decodeLic (s : String) : Option LicEntry :=
  match s.splitOn "!" with
  | [ident, lines] => do
      let ident ← decodeText ident
      match ← decodeList lines with
      | [] => none
      | b :: bs => pure { ident := ident, first := b, rest := bs }
  | _ => none

def decodePair (s : String) : Option (List Char × List Char) :=
  match s.splitOn "!" with
  | [a, b] => do pure (← decodeText a, ← decodeText b)
  | _ => none

def tableDigest (tbl : List (List Char × List Char)) (x : List Char) : List Char :=
  match tbl.find? (fun p => p.1 == x) with
  | some p => p.2
  | none => "unknown-digest-input".toList

def stepSpdx (fields : List String) : Option String :=
  match fields with
  | ["boolequiv", a, b] => do
      let a ← decodeList a
      let b ← decodeList b
      match BoolExpr.ofRpn a, BoolExpr.ofRpn b with
      | some a, some b => pure (encodeBool (BoolExpr.equiv a b))
      | _, _ => pure "bad-expr"
  | ["licref", i] => do pure (encodeBool (Model.Spdx.isLicenseRef (← decodeText i)))
  | ["fmtcreator", c] => do pure (encodeText (formatCreator (← decodeOpt c)))
  | ["tvdoc", ls] => do
      match readDoc (← decodeList ls) with
      | none => pure "none"
      | some es => pure (toString es.length ++ ":" ++
          toString (es.filter fun e => e.tag == tagFileName).length)
  | ["spdxdoc", add, docName, uuid, created, version, person, org, files, lics, tbl] => do
      let add ← decodeBool add
      let p : DocParams := {
        docName := ← decodeText docName, uuid := ← decodeText uuid, created := ← decodeText created,
        version := ← decodeText version, person := ← decodeOpt person, organization := ← decodeOpt org }
      let files ← (splitRecs "|" files).mapM decodeFile
      let lics ← (splitRecs "|" lics).mapM decodeLic
      let tbl ← (splitRecs "|" tbl).mapM decodePair
      match spdxCmd (tableDigest tbl) add p files lics with
      | .usageError => pure "usage-error"
      | .document t =>
        let rs := files.map (generate (tableDigest tbl) add)
        pure ("doc:" ++ encodeBool (docOk p rs lics) ++ ":" ++ encodeText t)
  | _ => none

end Ops
