import Driver.Proto
import Driver.Ops.Text
import ReuseVerif
open Proto

/-
Theorem-hypothesis ties for C08 and C10: the driver evaluates the decidable hypotheses of the theorems on a case
and hands out the witnesses the theorems speak about; the harness checks the real tool's output against them.
-/
namespace Ops
open Model Py Spec

def allDec (p : Char → Bool) (t : Text) : Bool := t.all p

def noExotic (t : Text) : Bool := t.all fun ch => !isLineBreak ch || ch == '\n'
def noCR (t : Text) : Bool := t.all (· != '\r')

def cfgOf (style flags tmpl bad : String) : Option HdrCfg := do
  let render : RInfo → Text ←
    if tmpl == "default" then pure defaultRender
    else if tmpl.startsWith "rendered:" then do
      let r ← decodeText (tmpl.drop 9).toString
      pure (fun _ => r)
    else none
  pure (mkCfg (← findStyle style) flags render (← decodeList bad))

def stepAnnot (fields : List String) : Option String :=
  match fields with
  | ["c08parts", style, flags, bad, t] => do
      -- hypotheses and witnesses of C08_splice_replace / C08_splice_add for the LF text `t`:
      -- answer `hyp|pre|post|eof` (hyp = NoExoticBreaks t, and the style is not the .license pseudo style)
      let c ← cfgOf style flags "default" bad
      let t ← decodeText t
      let replace := flags.toList.getD 3 '0' == '1'
      let hyp := noExotic t && !(c.style.name == "EmptyCommentStyle")
      if replace then
        let s0 : Text × Text × Text := match findFirstSpdxComment c t with
          | some x => x
          | none => ([], [], t)
        let m := moveShebang c.style.shebangs s0.1 s0.2.1 s0.2.2
        -- the shebang moved out of the old block: the blank text above it belongs to `pre` too
        let pre := if m.1 != s0.1 && !s0.2.1.isEmpty then s0.1 ++ m.1 else m.1
        let eof := decide ((s0.1 ++ s0.2.1 ++ s0.2.2).length > t.length)
        pure (encodeBool hyp ++ "|" ++ encodeText pre ++ "|" ++ encodeText m.2.2 ++ "|" ++ encodeBool eof)
      else
        let s := addSections c t
        pure (encodeBool hyp ++ "|" ++ encodeText s.1 ++ "|" ++ encodeText s.2 ++ "|0")
  | ["c10hyp", style, flags, tmpl, cpr, con, lic, bad, t] => do
      -- hypotheses of C10_idem_text_partial for the text `t` (replacing mode): answer `hyp|written`
      let c ← cfgOf style flags tmpl bad
      let t ← decodeText t
      let info : Extracted := ⟨← decodeList lic, ← decodeList cpr, ← decodeList con⟩
      match firstRunParts c info t with
      | none => pure "0|"
      | some (a, hdr, b) =>
        let out := a ++ hdr ++ ['\n'] ++ b
        let hyp := noCR t && noCR out && t.head? != some bomChar && secondRunOK c info a hdr b
        pure (encodeBool hyp ++ "|" ++ encodeText out)
  | ["styleidem", style, force] => do
      let s ← findStyle style
      let m ← decodeBool force
      pure (encodeBool (supported s m) ++ "|" ++ encodeBool (repTexts.all (idemOn s m)))
  | _ => none

end Ops
