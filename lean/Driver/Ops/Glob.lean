import Driver.Proto
import ReuseVerif
open Proto

namespace Ops

def bits (l : List Bool) : String := String.ofList (l.map fun b => if b then '1' else '0')

def stepGlob (fields : List String) : Option String :=
  match fields with
  | ["globrow", g, ps] => do
      let g ← decodeText g
      let ps ← decodeList ps
      pure (bits (ps.map (Model.globMatch g ·)))
  | ["itemrow", gs, ps] => do
      let gs ← decodeList gs
      let ps ← decodeList ps
      pure (bits (ps.map (Model.itemMatches gs ·)))
  | ["wfglob", g] => do pure (encodeBool (Spec.wfGlob (← decodeText g)))
  | _ => none

def stepDep5 (fields : List String) : Option String :=
  match fields with
  | ["dep5row", d, ps] => do
      let d ← decodeText d
      let ps ← decodeList ps
      match Model.dep5Blocks d with
      | none => pure "invalid"
      | some _ => pure (bits (ps.map (Model.dep5Match d ·)))
  | ["convglob", d] => do pure (encodeText (Model.convertGlob (← decodeText d)))
  | ["dep5plain", d] => do pure (encodeBool (Spec.dep5Plain (← decodeText d)))
  | _ => none

end Ops
