import Driver.Proto
import ReuseVerif
open Proto

/-
`eff` — run a history of commands of the effect model on a concrete file system.

fields: fs, styles, binary, failing, below, world, watch, cmd₁ … cmdₙ
  fs       list of texts  K path '\n' payload   (K = F file / D dir / L link; payload = content / target)
  styles   list of texts  s m u path            (three 0/1 characters: single, multi, uncommentable)
  binary   list of paths
  failing  list of texts  C path | M path       (the header builder fails for this written path)
  below    list of texts  dir '\n' child '\n' child …
  world    list of texts  [template-exists 0/1, licences directory, fetchable id …]
  watch    list of paths whose fate is reported
  cmd      A:flags:style:template:paths | C | D:ids:output | L | F:paths | S:output | P
answer: exit statuses joined by ',' then '|' then for every watched path that differs from the
start `+path` (created) `-path` (removed) `~path` (changed), joined by ' '.
-/
namespace Ops
open Model.Eff

def splitNl (t : List Char) : List Char × List Char :=
  (t.takeWhile (· != '\n'), (t.dropWhile (· != '\n')).drop 1)

def splitAllNl (t : List Char) : List (List Char) :=
  ((String.ofList t).splitOn "\n").map (·.toList)

def decodeFs (s : String) : Option (List (Path × Node)) := do
  let es ← decodeList s
  es.mapM fun e =>
    match e with
    | 'F' :: rest => let (p, c) := splitNl rest; some (p, Node.file c)
    | 'D' :: rest => let (p, _) := splitNl rest; some (p, Node.dir)
    | 'L' :: rest => let (p, t) := splitNl rest; some (p, Node.link t)
    | _ => none

def bit (c : Char) : Bool := c == '1'

def decodeStyles (s : String) : Option (List (Path × Style)) := do
  let es ← decodeList s
  es.mapM fun e =>
    match e with
    | a :: b :: c :: p => some (p, { single := bit a, multi := bit b, unc := bit c })
    | _ => none

def decodeFailing (s : String) : Option (List (Path × BuildError)) := do
  let es ← decodeList s
  es.mapM fun e =>
    match e with
    | 'C' :: p => some (p, BuildError.commentCreate)
    | 'M' :: p => some (p, BuildError.missingInfo)
    | _ => none

def hasInfoText (t : Text) : Bool := t.contains 'I' || t.contains 'H'

def decodeOptText (s : String) : Option (Option (List Char)) :=
  if s == "-" then some none else (decodeText s).map some

def decodeCmd (s : String) : Option Cmd :=
  match s.splitOn ":" with
  | ["A", flags, style, template, paths] => do
      let f := flags.toList
      let g := fun (i : Nat) => bit (f.getD i '0')
      let st ← match style.toList with
        | ['-'] => some none
        | [a, b] => some (some { single := bit a, multi := bit b, unc := false : Style })
        | _ => none
      let ps ← decodeList paths
      pure (Cmd.annotate {
        infoGiven := g 0, years := g 1, excludeYear := g 2, single := g 3, multi := g 4,
        recursive := g 5, forceDot := g 6, fallbackDot := g 7, skipUnrec := g 8, skipExisting := g 9,
        style := st, template := ← decodeOptText template, paths := ps })
  | ["C"] => some Cmd.convertDep5
  | ["D", ids, out] => do pure (Cmd.download (← decodeList ids) (← decodeOptText out))
  | ["L"] => some Cmd.lint
  | ["F", paths] => do pure (Cmd.lintFile (← decodeList paths))
  | ["S", out] => do pure (Cmd.spdx (← decodeOptText out))
  | ["P"] => some Cmd.supportedLicenses
  | _ => none

def parentOf (p : Path) : Path :=
  let comps := (String.ofList p).splitOn "/"
  ("/".intercalate comps.dropLast).toList

def runHistory (env : Env) (w : World) : List Cmd → Fs → Fs × List Nat
  | [], fs => (fs, [])
  | c :: cs, fs =>
    let r := exec env w c fs
    let rest := runHistory env w cs r.1
    (rest.1, r.2 :: rest.2)

def showChange (fs0 fs1 : Fs) (p : Path) : Option String :=
  if fs0 p = fs1 p then none
  else match fs0 p, fs1 p with
    | none, _ => some ("+" ++ encodeText p)
    | _, none => some ("-" ++ encodeText p)
    | _, _ => some ("~" ++ encodeText p)

def stepEffects (fields : List String) : Option String :=
  match fields with
  | "eff" :: fsS :: stylesS :: binaryS :: failingS :: belowS :: worldS :: watchS :: cmdsS => do
      let entries ← decodeFs fsS
      let styles ← decodeStyles stylesS
      let binary ← decodeList binaryS
      let failing ← decodeFailing failingS
      let belowL ← decodeList belowS
      let world ← decodeList worldS
      let watch ← decodeList watchS
      let cmds ← cmdsS.mapM decodeCmd
      let belowT := belowL.map fun e => let parts := splitAllNl e; (parts.headD [], parts.drop 1)
      let env : Env := {
        styleOf := fun p => (styles.find? (fun e => e.1 == p)).map (·.2)
        binary := fun p => binary.contains p
        templateExists := fun _ => (world.headD []) == ['1']
        hasInfo := hasInfoText
        below := fun d => ((belowT.find? (fun e => e.1 == d)).map (·.2)).getD []
        build := fun p t => match failing.find? (fun e => e.1 == p) with
          | some e => .error e.2
          | none => .ok ('H' :: t) }
      let fetchable := world.drop 2
      let w : World := {
        render := fun d => 'T' :: d
        fetch := fun id => if fetchable.contains id then some ('X' :: id) else none
        licDir := (world.drop 1).headD []
        parent := parentOf
        bom := fun _ => "bom".toList }
      let fs0 := Fs.ofList entries
      let r := runHistory env w cmds fs0
      let changes := watch.filterMap (showChange fs0 r.1)
      pure (",".intercalate (r.2.map toString) ++ "|" ++ " ".intercalate changes)
  | _ => none

end Ops
