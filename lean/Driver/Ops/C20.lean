import Driver.Proto
import Driver.Ops.Text
import ReuseVerif
open Proto

namespace Ops
open Model Py Spec

def decYearForm (yform : String) : Option Spec.YearForm :=
  match yform.splitOn "/" with
  | ["none"] => some Spec.YearForm.none
  | ["single", a] => do pure (Spec.YearForm.single (← decodeText a))
  | ["range", a, s1, s2, b] => do pure (Spec.YearForm.range (← decodeText a) (s1 == "1") (s2 == "1") (← decodeText b))
  | _ => none

def stepC20 (fields : List String) : Option String :=
  match fields with
  | ["c20wf", key, yform, h] => do
      -- the hypotheses of C20_make_parse / C20_make_then_parse (syntactic: year form, WFHolderL, noNoticeInside) for
      -- this (prefix, year form, holder); beside them those of C20_make_parse_partial, and the line the theorems speak about
      let h ← decodeText h
      let kv ← Generated.copyrightPrefixes.find? (·.1 == key)
      let shape ← Spec.prefixShapes.find? (·.1 == kv.2)
      let y ← decYearForm yform
      let line := Spec.builtLine shape.1 y h
      let earlier := match shape.2.1 with
        | .spdx => true
        | .word => (searchPat Generated.endRe .spdx line).isNone
        | .sign => (searchPat Generated.endRe .spdx line).isNone && (searchPat Generated.endRe .word line).isNone
      let old := y.wf && Spec.WFHolder Generated.endRe h && earlier && (searchLine h).isNone
      let wfl := Spec.WFHolderL Generated.endRe h
      let nn := Spec.noNoticeInside h
      pure (encodeBool (y.wf && wfl && nn) ++ "|" ++ encodeBool old ++ "|" ++ encodeBool wfl ++ "|" ++ encodeBool nn ++ "|"
        ++ encodeText line)
  | ["c20mergehyp", keys, yforms, hs] => do
      -- the hypotheses of C20_merge_lines (every notice `Notice.ok`) for the notices (prefix key, year form, holder)_i, and
      -- the input lines the theorem speaks about
      let hs ← decodeList hs
      let ks := keys.splitOn ";"
      let ys ← (yforms.splitOn ";").mapM decYearForm
      if ks.length != hs.length || ys.length != hs.length then none else
      let ns ← (ks.zip (ys.zip hs)).mapM fun (k, y, h) => do
        let kv ← Generated.copyrightPrefixes.find? (·.1 == k)
        let shape ← Spec.prefixShapes.find? (·.1 == kv.2)
        pure ({ shape := shape, year := y, holder := h } : Spec.Notice)
      let ok := ns.all fun n => n.year.wf && Spec.WFHolderL Generated.endRe n.holder && Spec.noNoticeInside n.holder
      pure (encodeBool ok ++ "|" ++ encodeList (ns.map Spec.Notice.line))
  | _ => none

end Ops
