import Driver.Proto
import ReuseVerif
open Proto

namespace Ops

def stepIgnore (fields : List String) : Option String :=
  match fields with
  | ["filter", s] => do pure (encodeText (Model.filterIgnore (← decodeText s)))
  | ["specfilter", s] => do
      pure (encodeText (Spec.specFilter Generated.ignoreStart Generated.ignoreEnd (← decodeText s)))
  | _ => none

end Ops
