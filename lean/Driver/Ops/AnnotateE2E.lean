import Driver.Proto
import Driver.Ops.Text
import ReuseVerif
open Proto

/-
`ae2e`: the composed model of `reuse annotate` (Model/AnnotateE2E.lean) on a serialised tree.

fields: ae2e, flags, style, prefix, template, years, copyrights, licences, contributors, paths, current year,
        tree tokens, binary paths, expression table, render table
flags        ten 0/1 characters: exclude-year merge-copyrights single-line multi-line recursive no-replace
             force-dot-license fallback-dot-license skip-unrecognised skip-existing
style/prefix `-` or the option value (plain text); template `-` or `=<text>`
tree tokens  `F:<name>:<text>` `R:<name>` (a file that is not UTF-8 text) `L:<name>:<target>` `D:<name>` … `E`
expression table   entries `text/parses/normalised`, separated by blanks (license-expression is an oracle)
render table       entries `template path/copyright lines/contributor lines/expressions/rendered text`, separated by
                   blanks (Jinja is an oracle: the harness renders the real template for the lists the model asks for)

answer: `need|E:<expressions>|R:<template path>/<cpr>/<con>/<lic> …` while a table lacks what the model meets
        (the harness asks the real library and calls again), else
        `ok|<exit status>|<changes>|<plan>|<hyp>` with
        changes  `+path=text` (created file) `-path` (removed) `~path=text` (file with other content) `!path` (other change)
        plan     per path of the loop `path>written path:W|F|S` (written / failed / skipped), or `usage`
        hyp      the decidable hypotheses of the C11_e2e / C07_e2e theorems on this case: Separate, WfPath, no link at a
                 written position, no --merge-copyrights
-/
namespace Ops
open Model Py Model.AE
open Model.Eff hiding Text World

partial def parseATree : List String → Option (Tree × List String)
  | [] => some ([], [])
  | "E" :: rest => some ([], rest)
  | tok :: rest =>
    match tok.splitOn ":" with
    | ["F", n, t] => do
        let name ← decodeText n
        let content ← decodeText t
        let (more, rest') ← parseATree rest
        pure ((String.ofList name, TNode.file content) :: more, rest')
    | ["R", n] => do
        let name ← decodeText n
        let (more, rest') ← parseATree rest
        pure ((String.ofList name, TNode.raw) :: more, rest')
    | ["L", n, t] => do
        let name ← decodeText n
        let target ← decodeText t
        let (more, rest') ← parseATree rest
        pure ((String.ofList name, TNode.link target) :: more, rest')
    | ["D", n] => do
        let name ← decodeText n
        let (sub, rest1) ← parseATree rest
        let (more, rest2) ← parseATree rest1
        pure ((String.ofList name, TNode.dir sub) :: more, rest2)
    | _ => none

structure ARow where
  text : Text
  parses : Bool
  norm : Text

def decodeARows (s : String) : Option (List ARow) :=
  if s.isEmpty then some [] else
  (s.splitOn " ").mapM fun e =>
    match e.splitOn "/" with
    | [t, p, n] => do pure ⟨← decodeText t, ← decodeBool p, ← decodeText n⟩
    | _ => none

structure RRow where
  path : Path
  info : RInfo
  text : Text

def decodeRRows (s : String) : Option (List RRow) :=
  if s.isEmpty then some [] else
  (s.splitOn " ").mapM fun e =>
    match e.splitOn "/" with
    | [p, c, n, l, t] => do pure ⟨← decodeText p, ⟨← decodeList c, ← decodeList n, ← decodeList l⟩, ← decodeText t⟩
    | _ => none

def aeOptPlain (s : String) : Option String := if s == "-" then none else some s

/-- every tag value a text can show the model: as it stands, behind a byte order mark, with its line endings folded -/
def aeTagValues (t : Text) : List Text :=
  let t1 := dropBom t
  let t2 := Py.replace t1 (detectLineEnding t1) ['\n']
  (extractRaw t).lic ++ (extractRaw t1).lic ++ (extractRaw t2).lic

/-- the lists `create_header` hands to the template for the written path (none when no header is rendered) -/
def aeHdrInfo (c : HdrCfg) (replace : Bool) (info : Extracted) (text : Text) : Option RInfo :=
  let text := dropBom text
  let norm := Py.replace text (detectLineEnding text) ['\n']
  let header := Spec.oldHeader c replace norm
  if header.isEmpty then some ⟨sortTexts (if c.merge then mergeLines info.cpr else info.cpr), sortTexts info.con, sortTexts info.lic⟩
  else
    let existing := extractRaw header
    if !(existing.lic.all c.parses) then none
    else
      let cprUnion := unionTexts info.cpr existing.cpr
      let cpr := if c.merge then mergeLines cprUnion else cprUnion
      some ⟨sortTexts cpr, sortTexts (unionTexts existing.con info.con), sortTexts (dedup ((existing.lic ++ info.lic).map c.normLic))⟩

/-- the (template, lists) pairs the loop renders, in order -/
def aeRenderNeeds (w : World) (o : Opts) (tp : Path) (tm : Tmpl) (env : Env) (a : Args) : Fs → List Path → List (Path × RInfo)
  | _, [] => []
  | fs, p :: ps =>
    (match Spec.Eff.attempt env a fs p with
     | none => []
     | some (t, text) =>
       if w.unreadable t then [] else
       match writtenStyle o t with
       | none => []
       | some s =>
         match aeHdrInfo (hdrCfg w o (some tm) s) (!o.noReplace) (requested w o) text with
         | none => []
         | some i => [(tp, i)]) ++ aeRenderNeeds w o tp tm env a (step env a fs p).1 ps

def showAENode (p : Path) (before after : Option Eff.Node) : Option String :=
  if before = after then none
  else match before, after with
    | none, some (.file c) => some ("+" ++ encodeText p ++ "=" ++ encodeText c)
    | some _, none => some ("-" ++ encodeText p)
    | some (.file _), some (.file c) => some ("~" ++ encodeText p ++ "=" ++ encodeText c)
    | _, _ => some ("!" ++ encodeText p)

/-- one line of the plan: what the loop body does for `p` on the tree the command started from -/
def showAEPlan (env : Env) (a : Args) (fs : Fs) (p : Path) : String :=
  let r := step env a fs p
  match Spec.Eff.attempt env a fs p with
  | none => encodeText p ++ ">:" ++ (if r.2 then "F" else "S")
  | some (t, _) => encodeText p ++ ">" ++ encodeText t ++ ":" ++ (if r.2 then "F" else "W")

def stepAnnotateE2E (fields : List String) : Option String :=
  match fields with
  | ["ae2e", flags, style, pref, tmpl, years, cprs, lics, cons, paths, year, tree, binaries, exprs, renders] => do
      let f := flags.toList
      let g := fun (i : Nat) => f.getD i '0' == '1'
      let o : Opts := {
        copyrights := ← decodeList cprs, licenses := ← decodeList lics, contributors := ← decodeList cons,
        years := ← decodeList years, excludeYear := g 0, prefixKey := aeOptPlain pref, style := aeOptPlain style,
        template := ← decOptText tmpl, mergeCopyrights := g 1, single := g 2, multi := g 3, recursive := g 4,
        noReplace := g 5, forceDot := g 6, fallbackDot := g 7, skipUnrec := g 8, skipExisting := g 9,
        paths := ← decodeList paths }
      let (cs, _) ← parseATree (if tree.isEmpty then [] else tree.splitOn " ")
      let bin ← decodeList binaries
      let etab ← decodeARows exprs
      let rtab ← decodeRRows renders
      let row (t : Text) : Option ARow := etab.find? (·.text == t)
      let wc : WalkCfg := { includeSubmodules := false, includeMeson := false, includeReuseTomls := false,
                            vcsIgnored := fun _ => false, isSubmodule := fun _ => false }
      let raws := rawsOf [] cs
      let w : World := {
        curYear := ← decodeText year
        parses := fun t => ((row t).map (·.parses)).getD false
        normLic := fun t => ((row t).map (·.norm)).getD t
        binary := fun p => bin.contains p
        unreadable := fun p => raws.contains p
        below := belowOf (coveredOf wc cs)
        renderOf := fun p i => ((rtab.find? fun r => r.path == p && r.info == i).map (·.text)).getD [] }
      let fs0 := fsOf cs
      let env := envOf w o fs0
      let a := argsOf o
      let entries := (['.'], Eff.Node.dir) :: entriesOf [] cs
      let r := annotateTree w wc o cs
      -- what the tables must hold
      let texts0 := entries.filterMap fun e => match e.2 with | .file c => some c | _ => none
      let cand := (entries.flatMap fun e => [e.1, sibling e.1, sibling (sibling e.1)]).eraseDups
      let texts1 := cand.filterMap fun p => match r.1 p with | some (.file c) => some c | _ => none
      let needE := dedup ((o.licenses ++ (texts0 ++ texts1 ++ rtab.map (·.text)).flatMap aeTagValues).filter fun t => (row t).isNone)
      let needR : List (Path × RInfo) :=
        if clickRejects w o then [] else
        match (templateName o).bind (findTemplate fs0), preflight env a fs0 with
        | some tp, .ok ps =>
          (aeRenderNeeds w o tp ⟨w.renderOf tp, commentedName tp⟩ env a fs0 ps).filter fun n =>
            !(rtab.any fun r => r.path == n.1 && r.info == n.2)
        | _, _ => []
      if !needE.isEmpty || !needR.isEmpty then
        pure ("need|E:" ++ encodeList needE ++ "|R:" ++ " ".intercalate (needR.map fun n =>
          encodeText n.1 ++ "/" ++ encodeList n.2.cpr ++ "/" ++ encodeList n.2.con ++ "/" ++ encodeList n.2.lic))
      else
        let changes := cand.filterMap fun p => showAENode p (fs0 p) (r.1 p)
        let (plan, hyp) :=
          if clickRejects w o then ("usage", "")
          else match preflight env a fs0 with
            | .error _ => ("usage", "")
            | .ok ps =>
              (" ".intercalate (ps.map (showAEPlan env a fs0)),
               encodeBool (decide (Spec.Eff.Separate ps)) ++ encodeBool (decide (∀ q ∈ ps, Spec.Eff.WfPath q)) ++
               encodeBool (ps.all fun p => (writeSetOf p).all fun t => !Fs.isLink fs0 t) ++ encodeBool (!o.mergeCopyrights))
        pure ("|".intercalate ["ok", toString r.2, " ".intercalate changes, plan, hyp])
  | _ => none
where
  writeSetOf (p : Path) : List Path := [p, licSuffix p, licSuffix (licSuffix p)]

end Ops
