import Driver.Proto
import Driver.Ops.Covered
import ReuseVerif
open Proto

namespace Ops
open Model Model.Vcs

def strategyOfTag (s : String) : Option Strategy :=
  match s with
  | "none" => some .none | "git" => some .git | "hg" => some .hg
  | "jj" => some .jujutsu | "pijul" => some .pijul | _ => none

def bitAt (s : String) (i : Nat) : Bool := s.toList.getD i '0' == '1'

def strategyIndex : Strategy → Nat
  | .none => 0 | .git => 1 | .hg => 2 | .jujutsu => 3 | .pijul => 4

def stepVcs (fields : List String) : Option String :=
  match fields with
  -- answers of one strategy object for many query paths: per query `<ignored><submodule>`
  | ["vcsq", kind, cwd, root, raw1, raw2, queries] => do
      let k ← strategyOfTag kind
      let cwdP := (parsePath (← decodeText cwd)).parts
      let rootP := parsePath (← decodeText root)
      let qs ← decodeList queries
      match State.init k (← decodeText raw1) (← decodeText raw2) with
      | none => pure "IndexError"
      | some st =>
        pure (" ".intercalate (qs.map fun q =>
          let p := parsePath q
          encodeBool (st.isIgnored cwdP rootP p) ++ encodeBool (st.isSubmodule cwdP rootP p)))
  -- `relative_from_root` alone
  | ["vcsrel", cwd, root, queries] => do
      let cwdP := (parsePath (← decodeText cwd)).parts
      let rootP := parsePath (← decodeText root)
      let qs ← decodeList queries
      pure (encodeList (qs.map fun q => (relativeFromRoot cwdP rootP (parsePath q)).str))
  -- the covered-file walk with the VCS computed from raw outputs
  | ["vcswalk", kind, flags, rootName, cwd, root, tree, raw1, raw2] => do
      let k ← strategyOfTag kind
      let cwdP := (parsePath (← decodeText cwd)).parts
      let rootP := parsePath (← decodeText root)
      let (cs, _) ← parseEntries (if tree.isEmpty then [] else tree.splitOn " ")
      match State.init k (← decodeText raw1) (← decodeText raw2) with
      | none => pure "IndexError"
      | some st =>
        let cfg := walkCfg st cwdP rootP (bitAt flags 0) (bitAt flags 1) (bitAt flags 2)
        let res := iterFiles cfg (String.ofList (← decodeText rootName)) cs
        pure (encodeList (res.map fun p => ("/".intercalate p).toList))
  -- strategy selection: 5 bits each (none git hg jj pijul): program installed / in_repo(root)
  | ["vcsdetect", exe, inrepo] =>
      some (detect (fun s => bitAt exe (strategyIndex s)) (fun s => bitAt inrepo (strategyIndex s))).className
  -- vcs.find_root: per strategy `-` (not found) or the encoded path it returns
  | ["vcsfindroot", exe, f0, f1, f2, f3, f4] => do
      let dec (f : String) : Option (Option PPath) :=
        if f == "-" then some none else (decodeText f).map fun t => some (parsePath t)
      let fs ← [f0, f1, f2, f3, f4].mapM dec
      let r := findRootIn order (fun s => bitAt exe (strategyIndex s)) (fun s => (fs.getD (strategyIndex s) none))
      pure (match r with | none => "none" | some p => "some:" ++ encodeText p.str)
  -- `Strategy.find_root(cwd)` of Git/Hg/Jujutsu from the command's return code and output
  | ["vcsrootcmd", procCwd, cwdArg, rc, stdout] => do
      let pc := (parsePath (← decodeText procCwd)).parts
      let r := findRootCmd pc (parsePath (← decodeText cwdArg)) (← rc.toNat?) (← decodeText stdout)
      pure (match r with | none => "none" | some p => "some:" ++ encodeText p.str)
  | _ => none

end Ops
