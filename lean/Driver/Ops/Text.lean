import Driver.Proto
import ReuseVerif
open Proto

namespace Ops
open Model Py

def encOptText : Option Text → String
  | none => "-"
  | some t => "=" ++ encodeText t

def decOptText (s : String) : Option (Option Text) :=
  if s == "-" then some none
  else if s.startsWith "=" then (decodeText (s.drop 1).toString).map some
  else none

def showCMatch : Option CMatch → String
  | none => "none"
  | some m => encodeText m.pref ++ "|" ++ encOptText m.year ++ "|" ++ encodeText m.statement ++ "|" ++ encodeText m.whole

def showExtracted (e : Extracted) : String :=
  "L=" ++ encodeList e.lic ++ "|C=" ++ encodeList e.cpr ++ "|N=" ++ encodeList e.con

def stepText (fields : List String) : Option String :=
  match fields with
  | ["findtag", which, t] => do
      let tag := if which == "L" then Generated.licenseTag else Generated.contributorTag
      pure (encodeList (findSpdxTag tag (← decodeText t)))
  | ["csearch", l] => do pure (showCMatch (searchLine (← decodeText l)))
  | ["mkline", stmt, year, key] => do
      let stmt ← decodeText stmt
      let year ← decOptText year
      match Generated.copyrightPrefixes.find? (·.1 == key) with
      | none => pure "err:prefix"
      | some kv => if stmt.contains '\n' then pure "err:newline" else pure (encodeText (makeLine stmt year kv.2))
  | ["merge", ls] => do pure (encodeList (mergeLines (← decodeList ls)))
  | ["extract", t] => do pure (showExtracted (extractRaw (← decodeText t)))
  | ["c20hyp", key, yform, h] => do
      -- do the hypotheses of C20_make_parse_partial hold for this (prefix, year form, holder)?
      let h ← decodeText h
      let kv ← Generated.copyrightPrefixes.find? (·.1 == key)
      let shape ← Spec.prefixShapes.find? (·.1 == kv.2)
      let y : Spec.YearForm ←
        match yform.splitOn "/" with
        | ["none"] => some Spec.YearForm.none
        | ["single", a] => do pure (Spec.YearForm.single (← decodeText a))
        | ["range", a, s1, s2, b] => do pure (Spec.YearForm.range (← decodeText a) (s1 == "1") (s2 == "1") (← decodeText b))
        | _ => none
      let line := Spec.builtLine shape.1 y h
      let earlier := match shape.2.1 with
        | .spdx => true
        | .word => (searchPat Generated.endRe .spdx line).isNone
        | .sign => (searchPat Generated.endRe .spdx line).isNone && (searchPat Generated.endRe .word line).isNone
      pure (encodeBool (y.wf && Spec.WFHolder Generated.endRe h && earlier && (searchLine h).isNone) ++ "|" ++ encodeText line)
  | ["parseyear", y] => do pure (encodeList (parseYear (← decOptText y)))
  | _ => none

end Ops

namespace Ops
open Model Py

def findStyle (name : String) : Option Generated.Style := Generated.styles.find? (·.name == name)

def showExcept : Except CommentErr Text → String
  | .ok t => "ok:" ++ encodeText t
  | .error .create => "err:create"
  | .error .parse => "err:parse"

def mkCfg (style : Generated.Style) (flags : String) (render : RInfo → Text) (bad : List Text) : HdrCfg :=
  let f := flags.toList
  { style := style, render := render, commented := f.getD 0 '0' == '1', forceMulti := f.getD 1 '0' == '1',
    merge := f.getD 2 '0' == '1', parses := fun x => !bad.contains x, normLic := id }

/-- the RInfo `create_header` hands to the template for this invocation (none when no header is rendered) -/
def hdrInfo (c : HdrCfg) (replace skipExisting : Bool) (info : Extracted) (text : Text) : Option RInfo :=
  let text := match text with           -- a leading byte order mark is set aside (Model.annotateFile)
    | ch :: rest => if ch == bomChar then rest else text
    | [] => []
  if skipExisting && containsReuseInfo c.parses text then none
  else
    let norm := Py.replace text (detectLineEnding text) ['\n']
    let header : Text :=
      if replace then
        let (before, header, after) :=
          match findFirstSpdxComment c norm with
          | some x => x
          | none => ([], [], norm)
        (moveShebang c.style.shebangs before header after).2.1
      else []
    if header.isEmpty then some ⟨sortTexts (if c.merge then mergeLines info.cpr else info.cpr), sortTexts info.con, sortTexts info.lic⟩
    else
      let existing := extractRaw header
      if !(existing.lic.all c.parses) then none
      else
        let cprUnion := unionTexts info.cpr existing.cpr
        let cpr := if c.merge then mergeLines cprUnion else cprUnion
        some ⟨sortTexts cpr, sortTexts (unionTexts existing.con info.con), sortTexts (dedup (existing.lic ++ info.lic))⟩

def stepHeader (fields : List String) : Option String :=
  match fields with
  | ["createcomment", style, force, t] => do
      pure (showExcept (createComment (← findStyle style) (← decodeText t) (← decodeBool force)))
  | ["commentat", style, t] => do
      pure (showExcept (commentAtFirst (← findStyle style) (← decodeText t)))
  | ["defaultrender", cpr, con, lic] => do
      pure (encodeText (defaultRender ⟨← decodeList cpr, ← decodeList con, ← decodeList lic⟩))
  | ["hdrinfo", style, flags, cpr, con, lic, bad, t] => do
      let c := mkCfg (← findStyle style) flags defaultRender (← decodeList bad)
      let f := flags.toList
      match hdrInfo c (f.getD 3 '0' == '1') (f.getD 4 '0' == '1') ⟨← decodeList lic, ← decodeList cpr, ← decodeList con⟩ (← decodeText t) with
      | none => pure "none"
      | some i => pure (encodeList i.cpr ++ "|" ++ encodeList i.con ++ "|" ++ encodeList i.lic)
  | ["annotate", style, flags, tmpl, cpr, con, lic, bad, t] => do
      let render : RInfo → Text ←
        if tmpl == "default" then pure defaultRender
        else if tmpl.startsWith "rendered:" then do
          let r ← decodeText (tmpl.drop 9).toString
          pure (fun _ => r)
        else none
      let c := mkCfg (← findStyle style) flags render (← decodeList bad)
      let f := flags.toList
      match annotateFile c (f.getD 3 '0' == '1') (f.getD 4 '0' == '1') ⟨← decodeList lic, ← decodeList cpr, ← decodeList con⟩ (← decodeText t) with
      | .written t => pure ("W:" ++ encodeText t)
      | .skipped => pure "S"
      | .failed .commentCreate => pure "F:commentCreate"
      | .failed .missingInfo => pure "F:missingInfo"
  | _ => none

end Ops
