import Driver.Proto
import ReuseVerif
open Proto

namespace Ops
open Model Py

def encOptText : Option Text → String
  | none => "-"
  | some t => "=" ++ encodeText t

def decOptText (s : String) : Option (Option Text) :=
  if s == "-" then some none
  else if s.startsWith "=" then (decodeText (s.drop 1).toString).map some
  else none

def showCMatch : Option CMatch → String
  | none => "none"
  | some m => encodeText m.pref ++ "|" ++ encOptText m.year ++ "|" ++ encodeText m.statement ++ "|" ++ encodeText m.whole

def showExtracted (e : Extracted) : String :=
  "L=" ++ encodeList e.lic ++ "|C=" ++ encodeList e.cpr ++ "|N=" ++ encodeList e.con

def stepText (fields : List String) : Option String :=
  match fields with
  | ["findtag", which, t] => do
      let tag := if which == "L" then Generated.licenseTag else Generated.contributorTag
      pure (encodeList (findSpdxTag tag (← decodeText t)))
  | ["csearch", l] => do pure (showCMatch (searchLine (← decodeText l)))
  | ["mkline", stmt, year, key] => do
      let stmt ← decodeText stmt
      let year ← decOptText year
      match Generated.copyrightPrefixes.find? (·.1 == key) with
      | none => pure "err:prefix"
      | some kv => if stmt.contains '\n' then pure "err:newline" else pure (encodeText (makeLine stmt year kv.2))
  | ["merge", ls] => do pure (encodeList (mergeLines (← decodeList ls)))
  | ["extract", t] => do pure (showExtracted (extractRaw (← decodeText t)))
  | ["parseyear", y] => do pure (encodeList (parseYear (← decOptText y)))
  | _ => none

end Ops
