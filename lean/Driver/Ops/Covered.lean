import Driver.Proto
import ReuseVerif
open Proto

namespace Ops
open Model

/-- tree tokens: `F:<name>:<size>`, `L:<name>`, `D:<name>`, `E` -/
partial def parseEntries : List String → Option (List (String × Node) × List String)
  | [] => some ([], [])
  | "E" :: rest => some ([], rest)
  | tok :: rest =>
    match tok.splitOn ":" with
    | ["F", n, sz] => do
        let name ← decodeText n
        let size ← sz.toNat?
        let (more, rest') ← parseEntries rest
        pure ((String.ofList name, Node.file size) :: more, rest')
    | ["L", n] => do
        let name ← decodeText n
        let (more, rest') ← parseEntries rest
        pure ((String.ofList name, Node.symlink) :: more, rest')
    | ["D", n] => do
        let name ← decodeText n
        let (sub, rest1) ← parseEntries rest
        let (more, rest2) ← parseEntries rest1
        pure ((String.ofList name, Node.dir sub) :: more, rest2)
    | _ => none

def decodePaths (s : String) : Option (List (List String)) := do
  let l ← decodeList s
  pure (l.map fun t => (String.ofList t).splitOn "/")

def stepCovered (fields : List String) : Option String :=
  match fields with
  | ["walk", flags, rootName, tree, ignored, submods] => do
      let fl := flags.toList
      let (cs, _) ← parseEntries (if tree.isEmpty then [] else tree.splitOn " ")
      let ign ← decodePaths ignored
      let sub ← decodePaths submods
      let cfg : WalkCfg := {
        includeSubmodules := fl.getD 0 '0' == '1', includeMeson := fl.getD 1 '0' == '1',
        includeReuseTomls := fl.getD 2 '0' == '1',
        vcsIgnored := fun p => ign.contains p, isSubmodule := fun p => sub.contains p }
      let res := iterFiles cfg (String.ofList (← decodeText rootName)) cs
      pure (encodeList (res.map fun p => ("/".intercalate p).toList))
  | ["namerow", names] => do
      let ns ← decodeList names
      pure (" ".intercalate (ns.map fun n =>
        let s := String.ofList n
        String.ofList [if anyPattern Generated.ignoreFilePatterns s then '1' else '0',
                  if anyPattern Generated.ignoreDirPatterns s then '1' else '0',
                  if anyPattern Generated.ignoreMesonParentPatterns s then '1' else '0']))
  | _ => none

end Ops
