import Driver.Proto
import ReuseVerif
open Proto

namespace Ops
open Model

def decodeExprs (s : String) : Option (List (List (List Char))) :=
  if s == "~" then some [] else (s.splitOn "|").mapM decodeList

def decodeFiles : List String → Option (List CovFile)
  | [] => some []
  | p :: fl :: ex :: rest => do
      let path ← decodeText p
      let (rd, cp) ← match fl with
        | "11" => some (true, true) | "10" => some (true, false)
        | "01" => some (false, true) | "00" => some (false, false) | _ => none
      let exprs ← decodeExprs ex
      let tl ← decodeFiles rest
      pure ({ path := path, readable := rd, hasCopyright := cp, exprs := exprs } :: tl)
  | _ => none

def encodePairs (l : List (List Char × List Char)) : String :=
  encodeList (l.flatMap fun e => [e.1, e.2])

def showReport (r : Report) : String :=
  "|".intercalate [
    "exit=" ++ toString r.exit,
    "compliant=" ++ encodeBool r.isCompliant,
    "missing=" ++ encodePairs r.missing,
    "bad=" ++ encodePairs r.bad,
    "unused=" ++ encodeList r.unused,
    "deprecated=" ++ encodeList r.deprecated,
    "noext=" ++ encodeList (r.noExt.map (·.1)),
    "nocop=" ++ encodeList r.noCopyright,
    "nolic=" ++ encodeList r.noLicence,
    "readerr=" ++ encodeList r.readErrors,
    "used=" ++ encodeList r.used]

def stepReport (fields : List String) : Option String :=
  match fields with
  | "report" :: lics :: files => do
      let ls ← decodeList lics
      let fs ← decodeFiles files
      match generate spdxTable { files := fs, licFiles := ls } with
      | none => pure "error:duplicate"
      | some r => pure (showReport r)
  | ["licref", s] => do pure (encodeBool (isLicenseRef (← decodeText s)))
  | ["stemsuffix", s] => do
      let ss := stemSuffix (← decodeText s)
      pure (encodeText ss.1 ++ "|" ++ encodeText ss.2)
  | ["plainnames", lics] => do pure (encodeBool (Spec.plainNames spdxTable (← decodeList lics)))
  | ["spdxtable"] => pure (";".intercalate (spdxTable.map fun e => encodeText e.1 ++ ":" ++ encodeBool e.2))
  | _ => none

end Ops

namespace Ops
open Model

def catName : Cat → String
  | .bad => "bad" | .deprecated => "deprecated" | .noExt => "noext" | .missing => "missing"
  | .unused => "unused" | .readError => "readerr" | .noCopyright => "nocop" | .noLicence => "nolic"
  | .noBoth => "noboth" | .noCopyrightOnly => "nocoponly" | .noLicenceOnly => "noliconly"

def allCats : List Cat :=
  [.bad, .deprecated, .noExt, .missing, .unused, .readError, .noCopyright, .noLicence, .noBoth,
   .noCopyrightOnly, .noLicenceOnly]

/-- `tag.cat=<flattened pairs>` for every category -/
def showEntries (tag : String) (es : List Entry) : String :=
  "|".intercalate (allCats.map fun c =>
    tag ++ "." ++ catName c ++ "=" ++ encodeList ((es.filter (·.1 == c)).flatMap fun e => [e.2.1, e.2.2]))

def stepLint (fields : List String) : Option String :=
  match fields with
  | "lint" :: lics :: files => do
      let ls ← decodeList lics
      let fs ← decodeFiles files
      match generate spdxTable { files := fs, licFiles := ls } with
      | none => pure "error:duplicate"
      | some r =>
        let s := jsonSummary r
        pure ("|".intercalate [
          "exit=" ++ ",".intercalate ([Format.json, .plain, .lines, .quiet].map fun f => toString (lintCmd f r).2),
          showEntries "J" (lintCmd .json r).1, showEntries "P" (lintCmd .plain r).1,
          showEntries "L" (lintCmd .lines r).1, showEntries "Q" (lintCmd .quiet r).1,
          "S.files=" ++ encodeList s.files, "S.total=" ++ toString s.filesTotal,
          "S.cop=" ++ toString s.withCopyright, "S.lic=" ++ toString s.withLicensing,
          "S.compliant=" ++ encodeBool s.compliant, "S.used=" ++ encodeList s.used])
  | "lintfile" :: lics :: sel :: files => do
      let ls ← decodeList lics
      let F ← decodeList sel
      let fs ← decodeFiles files
      match lintFile spdxTable { files := fs, licFiles := ls } F with
      | none => pure "error:duplicate"
      | some (out, e) => pure ("exit=" ++ toString e ++ "|" ++ showEntries "F" out)
  | _ => none

end Ops
