import Driver.Proto
import Driver.Ops.Text
import ReuseVerif
open Proto

namespace Ops
open Model Py

def showRoute : Route → String
  | .usage => "usage"
  | .skipped => "skipped"
  | .inFile s => "file:" ++ s.name
  | .dotLicense s => "dot:" ++ s.name
  | .crash => "crash"

/-- flags: forceDot fallbackDot skipUnrec single multi binary -/
def stepC07 (fields : List String) : Option String :=
  match fields with
  | ["styleof", path] => do
      match commentStyleName (← decodeText path) with
      | none => pure "none"
      | some n => pure n
  | ["route", style, flags, path] => do
      let f := flags.toList
      let a : RouteArgs := {
        style := if style == "-" then none else some style,
        forceDot := f.getD 0 '0' == '1', fallbackDot := f.getD 1 '0' == '1', skipUnrec := f.getD 2 '0' == '1',
        single := f.getD 3 '0' == '1', multi := f.getD 4 '0' == '1', binary := f.getD 5 '0' == '1' }
      pure (showRoute (route a (← decodeText path)))
  | ["newheader", style, flags, tmpl, cpr, con, lic, bad] => do
      -- `_create_new_header` with the default template or a pre-rendered text; `bad`: the licence values the real
      -- parser rejects (the `parses` oracle)
      let render : RInfo → Text ←
        if tmpl == "default" then pure defaultRender
        else if tmpl.startsWith "rendered:" then do
          let r ← decodeText (tmpl.drop 9).toString
          pure (fun _ => r)
        else none
      let c := mkCfg (← findStyle style) flags render (← decodeList bad)
      match createNewHeader c ⟨← decodeList lic, ← decodeList cpr, ← decodeList con⟩ with
      | .ok t => pure ("ok:" ++ encodeText t)
      | .error .commentCreate => pure "err:create"
      | .error .missingInfo => pure "err:missing"
  | ["c07ach", style, flags, cpr, con, lic] => do
      -- hypotheses of C07_default_achievable on this case (default template), and what the model returns
      let st ← findStyle style
      let c := mkCfg st flags defaultRender []
      let info : Extracted := ⟨← decodeList lic, ← decodeList cpr, ← decodeList con⟩
      let (why, hyp) :=
        if c.commented then ("t", false)
        else match Spec.lineMode st c.forceMulti with
          | none => ("m", false)
          | some m =>
            if !Spec.styleReadable st m then ("s", false)
            else if !Spec.wfRequest Generated.endRe st m info then ("r", false)
            else if !(info.lic.all c.parses) then ("p", false)     -- hparse (every generated expression parses)
            else ("+", true)
      let res := match createNewHeader c info with
        | .ok t => "ok:" ++ encodeText t
        | .error .commentCreate => "err:create"
        | .error .missingInfo => "err:missing"
      pure ("H" ++ encodeBool hyp ++ "|" ++ why ++ "|" ++ res)
  | ["c07file", style, flags, tmpl, cpr, con, lic, bad, t] => do
      -- hypotheses and conclusion of C07_file_partial on this case
      let render : RInfo → Text ←
        if tmpl == "default" then pure defaultRender
        else if tmpl.startsWith "rendered:" then do
          let r ← decodeText (tmpl.drop 9).toString
          pure (fun _ => r)
        else none
      let c := mkCfg (← findStyle style) flags render (← decodeList bad)
      let f := flags.toList
      let replace := f.getD 3 '0' == '1'
      let info : Extracted := ⟨← decodeList lic, ← decodeList cpr, ← decodeList con⟩
      let text0 ← decodeText t
      -- a leading byte order mark is set aside by add_header_to_file (Model.annotateFile); the theorem speaks
      -- about the text behind it
      let (bom, text) := match text0 with
        | ch :: rest => if ch == bomChar then (true, rest) else (false, text0)
        | [] => (false, [])
      match annotateText c replace (f.getD 4 '0' == '1') info text with
      | .written out =>
        let hyp0 := !c.merge && detectLineEnding text == ['\n'] && Spec.noIgnoreStart out
        let hypTags := match Spec.headerParts c replace info (Py.replace text ['\n'] ['\n']) with
          | .ok p => Spec.tagsCompose p.1 out
          | .error _ => false
        let old := Spec.oldHeader c replace (Py.replace text ['\n'] ['\n'])
        let concl := Spec.declaresB c.normLic (extractRaw out) info.cpr info.lic &&
          (old.isEmpty || Spec.declaresB c.normLic (extractRaw out) (extractRaw old).cpr (extractRaw old).lic)
        -- C07_file: the header block alone is a block of closed lines; C07_file_window: … and the written text up to the
        -- end of the block fits into lint's window
        let hypClosed := match Spec.headerParts c replace info (Py.replace text ['\n'] ['\n']) with
          | .ok p => Spec.tagLinesClosed Generated.endRe p.1
          | .error _ => false
        let seen := decodedText (window (encodeUtf8 out))
        let hypFit := match Spec.headerParts c replace info (Py.replace text ['\n'] ['\n']) with
          | .ok p => decide ((encodeUtf8 (Spec.headPart p.1 p.2.1)).length ≤ 4096) && !(Spec.headPart p.1 p.2.1).contains '\r'
          | .error _ => false
        let hypWin := !c.merge && detectLineEnding text == ['\n'] && hypClosed && hypFit && Spec.noIgnoreStart seen
        let conclWin := Spec.declaresB c.normLic (extractRaw seen) info.cpr info.lic &&
          (old.isEmpty || Spec.declaresB c.normLic (extractRaw seen) (extractRaw old).cpr (extractRaw old).lic)
        pure ("H" ++ encodeBool (hyp0 && hypTags) ++ "|C" ++ encodeBool concl ++
              "|K" ++ encodeBool (hyp0 && hypClosed) ++ "|F" ++ encodeBool hypWin ++ "|D" ++ encodeBool conclWin ++
              "|P" ++ encodeList (extractRaw old).cpr ++ "|L" ++
              encodeList (extractRaw old).lic ++ "|W:" ++ encodeText (if bom then bomChar :: out else out))
      | _ => pure "-"
  | ["c09step", style, flags, tmpl, cpr, con, lic, bad, t] => do
      -- hypotheses (Spec.stepGood, all decidable parts) and conclusion of C09_step_partial on this step
      let render : RInfo → Text ←
        if tmpl == "default" then pure defaultRender
        else if tmpl.startsWith "rendered:" then do
          let r ← decodeText (tmpl.drop 9).toString
          pure (fun _ => r)
        else none
      let c := mkCfg (← findStyle style) flags render (← decodeList bad)
      let f := flags.toList
      let info : Extracted := ⟨← decodeList lic, ← decodeList cpr, ← decodeList con⟩
      let o : Spec.Op := { c := c, replace := f.getD 3 '0' == '1', skipExisting := f.getD 4 '0' == '1', info := info }
      let text0 ← decodeText t
      let text := match text0 with
        | ch :: rest => if ch == bomChar then rest else text0
        | [] => []
      match annotateText o.c o.replace o.skipExisting o.info text with
      | .written out =>
        let hypTags := match Spec.headerParts c o.replace info (Py.replace text ['\n'] ['\n']) with
          | .ok p => Spec.tagsCompose p.1 out
          | .error _ => false
        let hyp := !c.merge && detectLineEnding text == ['\n'] && Spec.noIgnoreStart out && hypTags && Spec.headerHolds o text
        let concl := Spec.declaresB c.normLic (extractRaw out) ((extractRaw text).cpr ++ info.cpr) ((extractRaw text).lic ++ info.lic)
        pure ("H" ++ encodeBool hyp ++ "|C" ++ encodeBool concl)
      | _ => pure "-"
  | _ => none

end Ops
