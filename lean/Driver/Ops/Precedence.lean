import Driver.Proto
import ReuseVerif
open Proto

namespace Ops
open Model

def decodeStrs (s : String) : Option (List String) := do
  let l ← decodeList s
  pure (l.map String.ofList)

/-- levels come as triples of fields: precedence (`c`/`a`/`o`/`-`), copyright list, licence list -/
def decodeLevels : List String → Option (List (Option Table))
  | [] => some []
  | "-" :: _ :: _ :: rest => do pure (none :: (← decodeLevels rest))
  | p :: c :: l :: rest => do
      let prec ← match p with
        | "c" => some Prec.closest | "a" => some Prec.aggregate | "o" => some Prec.override | _ => none
      pure (some ⟨prec, ← decodeStrs c, ← decodeStrs l⟩ :: (← decodeLevels rest))
  | _ => none

def showItem (it : Item) : String :=
  (match it.kind with | .cpr => "C" | .lic => "L") ++ "|" ++
  (match it.src with | .own => "own" | .toml n => "toml:" ++ toString n) ++ "|" ++ encodeText it.value.toList

def stepPrecedence (fields : List String) : Option String :=
  match fields with
  | "precedence" :: fc :: fl :: levels => do
      let ls ← decodeLevels levels
      let fi : Info := { cpr := ← decodeStrs fc, lic := ← decodeStrs fl, src := .own }
      pure (" ".intercalate ((itemsOf (reuseInfoOf ls fi)).map showItem))
  | "finditem" :: rest => do
      -- pairs of fields: matches?(0/1), tag
      let rec go : List String → Option (List (Bool × Table))
        | [] => some []
        | m :: tag :: r => do pure ((← decodeBool m, ⟨.closest, [tag], []⟩) :: (← go r))
        | _ => none
      let ts ← go rest
      pure (match findItem ts with | none => "none" | some t => String.intercalate "," t.cpr)
  | _ => none

end Ops
