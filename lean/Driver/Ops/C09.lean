import Driver.Proto
import Driver.Ops.Text
import ReuseVerif
open Proto

namespace Ops
open Model Py Spec

/-- the LF text a file is the CRLF / CR / LF form of (none: mixed conventions, the theorems say nothing) -/
def lfForm (text : Text) : Option Text :=
  let le := detectLineEnding text
  if le == ['\n'] then some text
  else if le == ['\r', '\n'] then
    let u := Py.replace text ['\r', '\n'] ['\n']
    if decide (NoCR u) && toCRLF u == text then some u else none
  else
    let u := Py.replace text ['\r'] ['\n']
    if decide (NoCR u) && toCR u == text then some u else none

/-- hypotheses (`Spec.stepGoodFull`, its decidable parts; for CRLF / CR files those of `C09_step_crlf` / `_cr`) and
    conclusions of the full-file step theorems on this step:
    `H` hypotheses of C09_step, `C` its conclusion on what lint's decoder reads, `R` the template renders the contributors
    (`Spec.rendersCon`), `K` conclusion of C09_step_contributors, `D:` the single hypotheses
    (merge, style, line boundaries, ignore old, ignore new, clean seam, above, old block, new block, LF form);
    `M` hypotheses of C09_step_merge and `Spec.mergeReadsBack` (for CRLF / CR files on the LF text behind the file: C09_step_form), `N` the conclusions of C09_history_merge for this
    step: licences, holders kept, every year stated before covered -/
def stepC09 (fields : List String) : Option String :=
  match fields with
  | ["c09full", style, flags, tmpl, cpr, con, lic, bad, t] => do
      let render : RInfo → Text ←
        if tmpl == "default" then pure defaultRender
        else if tmpl.startsWith "rendered:" then do
          let r ← decodeText (tmpl.drop 9).toString
          pure (fun _ => r)
        else none
      let c := mkCfg (← findStyle style) flags render (← decodeList bad)
      let f := flags.toList
      let info : Extracted := ⟨← decodeList lic, ← decodeList cpr, ← decodeList con⟩
      let o : Spec.Op := { c := c, replace := f.getD 3 '0' == '1', skipExisting := f.getD 4 '0' == '1', info := info }
      let text0 ← decodeText t
      let text := match text0 with
        | ch :: rest => if ch == bomChar then rest else text0
        | [] => []
      match annotateText o.c o.replace o.skipExisting o.info text with
      | .written out =>
        match lfForm text with
        | none => pure "H0|C0|R0|K0|D:----------0|M0|N0|E:---"
        | some u =>
          let o' : Spec.Op := { o with skipExisting := false }
          -- the LF result the theorems speak about
          let t' := if u == text then some out else
            match annotateText o'.c o'.replace false o'.info u with
            | .written x => if decide (NoCR x) then some x else none
            | _ => none
          match t' with
          | none => pure "H0|C0|R0|K0|D:----------0|M0|N0|E:---"
          | some t' =>
            let s := sectionsOf o'.c o'.replace u
            let hNew := match newHeaderOf o' u with
              | .ok hdr => !openEnd hdr
              | .error _ => true
            let d := [!c.merge, styleOK o' u, decide (NoExoticBreaks u),
                      noIgnoreStart u, noIgnoreStart t', cleanSeam s.1, !openEnd s.1, !openEnd s.2.1, hNew, true]
            let hyp := stepGoodFullB o' u t'
            let before := extractRaw (foldLineEndings text)
            let after := extractRaw (foldLineEndings out)
            let concl := declaresB c.normLic after (before.cpr ++ info.cpr) (before.lic ++ info.lic)
            let ren := rendersCon o' u
            let conclCon := (before.con ++ info.con).all (after.con.contains ·)
            let hypM := stepGoodMergeB o' u t' && mergeReadsBack o' u
            let wanted := before.cpr ++ info.cpr
            let conclM := (before.lic ++ info.lic).all (fun x => (after.lic.map c.normLic).contains (c.normLic x)) &&
              (holdersOf wanted).all (fun s => (holdersOf after.cpr).contains s &&
                (yearsIn wanted s).all (fun z => yearCoveredB after.cpr s z))
            pure ("H" ++ encodeBool hyp ++ "|C" ++ encodeBool concl ++ "|R" ++ encodeBool ren ++ "|K" ++ encodeBool conclCon ++
                  "|D:" ++ String.join (d.map encodeBool) ++ "|M" ++ encodeBool hypM ++ "|N" ++ encodeBool conclM ++
                  "|E:" ++ encodeBool (u == text) ++ encodeBool (stepGoodMergeB o' u t') ++ encodeBool (mergeReadsBack o' u))
      | _ => pure "-"
  | _ => none

end Ops
