/-
Model driver: one operation per input line (tab-separated fields), one answer
per output line.  Each engine contributes `Ops.step<Name> : List String → Option String`
in `Driver/Ops/<Name>.lean`; an operation no engine knows is answered `bad-op`.
-/
import Driver.Proto
import Driver.Ops.Str
import Driver.Ops.Ignore
import Driver.Ops.Glob
import Driver.Ops.Precedence
import Driver.Ops.Covered
import Driver.Ops.Effects
open Proto

def step (line : String) : String :=
  let fields := line.splitOn "\t"
  match Ops.stepStr fields <|> Ops.stepIgnore fields <|> Ops.stepGlob fields <|> Ops.stepDep5 fields
    <|> Ops.stepPrecedence fields <|> Ops.stepCovered fields
    <|> Ops.stepEffects fields with
  | some out => out
  | none => "bad-op"

partial def loop (hin hout : IO.FS.Stream) : IO Unit := do
  let line ← hin.getLine
  if line.isEmpty then return ()
  let line := if line.endsWith "\n" then (line.dropEnd 1).toString else line
  hout.putStrLn (step line)
  loop hin hout

def main : IO Unit := do
  let hin ← IO.getStdin
  let hout ← IO.getStdout
  loop hin hout
  hout.flush
