import Driver.Proto
import ReuseVerif
open Proto

def stepStr (fields : List String) : Option String :=
  match fields with
  | ["py.strip", s] => do pure (encodeText (Py.strip (← decodeText s)))
  | ["py.lstrip", s] => do pure (encodeText (Py.lstrip (← decodeText s)))
  | ["py.rstrip", s] => do pure (encodeText (Py.rstrip (← decodeText s)))
  | ["py.splitlines", s] => do pure (encodeList (Py.splitLines (← decodeText s)))
  | ["py.splitlines_keep", s] => do pure (encodeList (Py.splitLines (← decodeText s) true))
  | ["py.find", p, s] => do pure (encodeNatOpt (Py.findSub (← decodeText p) (← decodeText s)))
  | ["py.split", sep, s] => do pure (encodeList (Py.splitOn (← decodeText sep) (← decodeText s)))
  | ["py.replace", s, a, b] => do
      pure (encodeText (Py.replace (← decodeText s) (← decodeText a) (← decodeText b)))
  | ["py.isspace", s] => do
      let t ← decodeText s
      pure (String.ofList (t.map fun c => if Py.isSpace c then '1' else '0'))
  | ["py.islinebreak", s] => do
      let t ← decodeText s
      pure (String.ofList (t.map fun c => if Py.isLineBreak c then '1' else '0'))
  | _ => none

def stepIgnore (fields : List String) : Option String :=
  match fields with
  | ["filter", s] => do pure (encodeText (Model.filterIgnore (← decodeText s)))
  | ["specfilter", s] => do
      pure (encodeText (Spec.specFilter Generated.ignoreStart Generated.ignoreEnd (← decodeText s)))
  | _ => none

def bits (l : List Bool) : String := String.ofList (l.map fun b => if b then '1' else '0')

def stepGlob (fields : List String) : Option String :=
  match fields with
  | ["globrow", g, ps] => do
      let g ← decodeText g
      let ps ← decodeList ps
      pure (bits (ps.map (Model.globMatch g ·)))
  | ["itemrow", gs, ps] => do
      let gs ← decodeList gs
      let ps ← decodeList ps
      pure (bits (ps.map (Model.itemMatches gs ·)))
  | ["wfglob", g] => do pure (encodeBool (Spec.wfGlob (← decodeText g)))
  | _ => none

def stepDep5 (fields : List String) : Option String :=
  match fields with
  | ["dep5row", d, ps] => do
      let d ← decodeText d
      let ps ← decodeList ps
      match Model.dep5Blocks d with
      | none => pure "invalid"
      | some _ => pure (bits (ps.map (Model.dep5Match d ·)))
  | ["convglob", d] => do pure (encodeText (Model.convertGlob (← decodeText d)))
  | ["dep5plain", d] => do pure (encodeBool (Spec.dep5Plain (← decodeText d)))
  | _ => none

def step (line : String) : String :=
  let fields := line.splitOn "\t"
  match stepStr fields <|> stepIgnore fields <|> stepGlob fields <|> stepDep5 fields with
  | some out => out
  | none => "bad-op"

partial def loop (hin hout : IO.FS.Stream) : IO Unit := do
  let line ← hin.getLine
  if line.isEmpty then return ()
  let line := if line.endsWith "\n" then (line.dropEnd 1).toString else line
  hout.putStrLn (step line)
  loop hin hout

def main : IO Unit := do
  let hin ← IO.getStdin
  let hout ← IO.getStdout
  loop hin hout
  hout.flush
