/-
Property C06 — licence inventory.  `Model.generate tbl pr` is the model of
`Project._find_licenses` followed by `ProjectReport.generate` (with
`FileReport.generate` inside); `Spec.Missing / Unused / Bad / Deprecated /
NoExtension` are the set-algebra definitions of the property text
(`Spec/Report.lean`).  Each report field contains exactly what its definition
says — for every table `tbl`, every list of covered files with any number of
expressions, every list of LICENSES/ entries.

`…_partial`: the theorems carry `plainNames` (no LICENSES/ entry whose name is a
listed identifier `X.Y` with `X` itself an identifier or a `LicenseRef-`, and no
`LicenseRef-.ext`-shaped name).  The first shape is a recorded difference (known
finding `extensionless-id-with-identifier-stem`: `LICENSES/OLDAP-2.0.1` is read as
`OLDAP-2.0` with extension `.1`); the full statement is false for it.
`generate … = some r` says that no two entries resolve to one identifier (the tool
stops with an error there; property C16).
-/
import ReuseVerif.Lemmas.Report

namespace C06
open Py Spec Model

variable {tbl : LicenseMap} {pr : Project} {r : Report}

/-- used identifiers: every key of every expression of every file that was read -/
theorem C06_used (h : generate tbl pr = some r) (k : Text) : k ∈ r.used ↔ Used pr.files k := by
  obtain ⟨fd, _, rfl⟩ := split_generate h
  exact mem_used_iff

/-- missing ⇔ used (by that file) and neither it nor its '+'-less form is provided -/
theorem C06_missing_partial (hp : plainNames tbl pr.licFiles = true) (h : generate tbl pr = some r)
    (k p : Text) : (k, p) ∈ r.missing ↔ Missing tbl pr k p := by
  obtain ⟨fd, hf, rfl⟩ := split_generate h
  have hprov := hasLic_iff_provided hp hf
  simp only [generateOn, List.mem_flatMap, fileMissing, List.mem_map, List.mem_filter, Prod.mk.injEq,
    Missing, usedBy_iff, idMissing, Bool.not_eq_true', Bool.or_eq_false_iff]
  constructor
  · rintro ⟨f, hfm, k', ⟨hk, h1, h2⟩, rfl, rfl⟩
    refine ⟨⟨f, hfm, rfl, hk⟩, ?_, ?_⟩
    · rw [← hprov]; simp [h1]
    · rw [← hprov]; simp [h2]
  · rintro ⟨⟨f, hfm, rfl, hk⟩, h1, h2⟩
    rw [← hprov] at h1 h2
    exact ⟨f, hfm, k, ⟨hk, by simpa using h1, by simpa using h2⟩, rfl, rfl⟩

/-- unused ⇔ provided and neither it nor its '+' form is used -/
theorem C06_unused_partial (hp : plainNames tbl pr.licFiles = true) (h : generate tbl pr = some r)
    (l : Text) : l ∈ r.unused ↔ Unused tbl pr l := by
  have hu := C06_used h
  obtain ⟨fd, hf, rfl⟩ := split_generate h
  have hprov := hasLic_iff_provided hp hf l
  simp only [Report.unused, List.mem_map, List.mem_filter, Bool.not_eq_true', Bool.or_eq_false_iff,
    List.contains_eq_mem, decide_eq_false_iff_not, Unused]
  constructor
  · rintro ⟨⟨l', p⟩, ⟨hm, h1, h2⟩, rfl⟩
    refine ⟨hprov.mp (hasLic_iff.mpr ⟨_, hm, rfl⟩), ?_, ?_⟩
    · rw [← hu]; exact h1
    · rw [← hu]; exact h2
  · rintro ⟨hpv, h1, h2⟩
    obtain ⟨e, he, rfl⟩ := hasLic_iff.mp (hprov.mpr hpv)
    exact ⟨e, ⟨he, by rw [hu]; exact h1, by rw [hu]; exact h2⟩, rfl⟩

/-- bad ⇔ used and neither it nor its '+'-less form is a listed identifier or a
    `LicenseRef-`, or carried by a LICENSES/ entry and not valid -/
theorem C06_bad_partial (hp : plainNames tbl pr.licFiles = true) (h : generate tbl pr = some r)
    (k p : Text) : (k, p) ∈ r.bad ↔ Bad tbl pr k p := by
  obtain ⟨fd, hf, rfl⟩ := split_generate h
  have hi := (findLicenses_spec hp hf).1
  have hmem := mem_licenses_iff hp hf
  simp only [generateOn, List.mem_append, List.mem_flatMap, fileBad, List.mem_map, List.mem_filter,
    Prod.mk.injEq, Bad, usedBy_iff, idBad_iff hi, Bool.not_eq_true']
  constructor
  · rintro (⟨f, hfm, k', ⟨hk, hb⟩, rfl, rfl⟩ | ⟨hl, hb⟩)
    · exact Or.inl ⟨⟨f, hfm, rfl, hk⟩, hb⟩
    · refine Or.inr ⟨(hmem k p).mp hl, ?_⟩
      have := lmap_has_of_found hi (hasLic_iff.mpr ⟨_, hl, rfl⟩)
      intro hv; rw [this.mpr hv] at hb; cases hb
  · rintro (⟨⟨f, hfm, rfl, hk⟩, hb⟩ | ⟨hpv, hb⟩)
    · exact Or.inl ⟨f, hfm, k, ⟨hk, hb⟩, rfl, rfl⟩
    · have hl := (hmem k p).mpr hpv
      refine Or.inr ⟨hl, ?_⟩
      have := lmap_has_of_found hi (hasLic_iff.mpr ⟨_, hl, rfl⟩)
      cases hh : fd.lmap.has k with
      | false => rfl
      | true => exact absurd (this.mp hh) hb

/-- deprecated ⇔ provided and marked deprecated in the table -/
theorem C06_deprecated_partial (ht : noRefInTable tbl = true) (hp : plainNames tbl pr.licFiles = true)
    (h : generate tbl pr = some r) (l : Text) : l ∈ r.deprecated ↔ Deprecated tbl pr l := by
  obtain ⟨fd, hf, rfl⟩ := split_generate h
  have hi := (findLicenses_spec hp hf).1
  have hprov := hasLic_iff_provided hp hf l
  have key : ∀ (hl : hasLic fd.licenses l = true),
      (fd.lmap.has l && fd.lmap.deprecated l) = tbl.deprecated l := by
    intro hl
    rw [hi.dep l]
    by_cases hr : isLicenseRef l = true
    · have := noRef_has ht hr
      simp [hr, hl, LicenseMap.deprecated_of_not_has this]
    · have hh : fd.lmap.has l = tbl.has l := by
        have := hi.has l
        cases h1 : fd.lmap.has l <;> cases h2 : tbl.has l <;> simp_all
      simp only [hr, hh]
      cases hd : tbl.deprecated l with
      | false => simp
      | true => simp [LicenseMap.deprecated_has hd]
  simp only [generateOn, List.mem_map, List.mem_filter, Deprecated]
  constructor
  · rintro ⟨⟨l', p⟩, ⟨hm, hd⟩, rfl⟩
    have hl := hasLic_iff.mpr ⟨_, hm, rfl⟩
    exact ⟨hprov.mp hl, by rw [← key hl]; exact hd⟩
  · rintro ⟨hpv, hd⟩
    have hl := hprov.mpr hpv
    obtain ⟨e, he, rfl⟩ := hasLic_iff.mp hl
    exact ⟨e, ⟨he, by rw [key hl]; exact hd⟩, rfl⟩

/-- recorded as lacking a file extension ⇔ the entry's whole name is the identifier -/
theorem C06_without_extension_partial (hp : plainNames tbl pr.licFiles = true)
    (h : generate tbl pr = some r) (l p : Text) : (l, p) ∈ r.noExt ↔ NoExtension tbl pr l p := by
  obtain ⟨fd, hf, rfl⟩ := split_generate h
  simp only [generateOn, (findLicenses_spec hp hf).2.2, List.mem_map, List.mem_filter, entryOf,
    Prod.mk.injEq, NoExtension, Provides]
  constructor
  · rintro ⟨a, ⟨⟨ha, hl⟩, hc⟩, rfl, rfl⟩; exact ⟨⟨ha, hl, rfl⟩, hc⟩
  · rintro ⟨⟨ha, hl, rfl⟩, hc⟩; exact ⟨p, ⟨⟨ha, hl⟩, hc⟩, rfl, rfl⟩

/-- a whole name on the SPDX lists is always reported as lacking its extension -/
theorem C06_spdx_name_without_extension (hp : plainNames tbl pr.licFiles = true)
    (h : generate tbl pr = some r) (p : Text) (hm : p ∈ pr.licFiles) (hl : isLicFile p = true)
    (hn : tbl.has (pathName p) = true) : (pathName p, p) ∈ r.noExt := by
  rw [C06_without_extension_partial hp h]
  simp [NoExtension, Provides, hm, hl, carried, hn]

/-- every identifier anywhere inside a compound expression (AND, OR, WITH, any
    nesting), in any of the expressions of a file that was read, is counted as used -/
theorem C06_compound (h : generate tbl pr = some r) (f : CovFile) (hf : f ∈ pr.files)
    (hr : f.readable = true) (e : Expr) (he : e.keys ∈ f.exprs) (k : Text) (hk : e.Mentions k) :
    k ∈ r.used :=
  (C06_used h k).mpr ⟨f.path, f, hf, hr, rfl, e.keys, he, (mentions_iff_keys k e).mp hk⟩

/-- consistency: a missing identifier is not provided, an unused one is not used,
    a deprecated or extension-less one is provided -/
theorem C06_consistency_partial (hp : plainNames tbl pr.licFiles = true) (h : generate tbl pr = some r) :
    (∀ k p, (k, p) ∈ r.missing → k ∈ r.used ∧ ¬ Provided tbl pr.licFiles k) ∧
    (∀ l, l ∈ r.unused → l ∉ r.used ∧ Provided tbl pr.licFiles l) ∧
    (∀ l, l ∈ r.deprecated → Provided tbl pr.licFiles l) ∧
    (∀ l p, (l, p) ∈ r.noExt → Provided tbl pr.licFiles l) := by
  refine ⟨?_, ?_, ?_, ?_⟩
  · intro k p hm
    have := (C06_missing_partial hp h k p).mp hm
    exact ⟨(C06_used h k).mpr ⟨p, this.1⟩, this.2.1⟩
  · intro l hm
    have := (C06_unused_partial hp h l).mp hm
    exact ⟨fun hu => this.2.1 ((C06_used h l).mp hu), this.1⟩
  · intro l hm
    obtain ⟨fd, hf, rfl⟩ := split_generate h
    simp only [generateOn, List.mem_map, List.mem_filter] at hm
    obtain ⟨e, ⟨he, _⟩, rfl⟩ := hm
    exact (hasLic_iff_provided hp hf _).mp (hasLic_iff.mpr ⟨_, he, rfl⟩)
  · intro l p hm
    exact ⟨p, ((C06_without_extension_partial hp h l p).mp hm).1⟩

/-- a report is produced exactly when no two LICENSES/ entries carry one identifier
    (otherwise the tool stops with an error) -/
theorem C06_defined_partial (hp : plainNames tbl pr.licFiles = true) :
    (∃ r, generate tbl pr = some r) ↔ ((pr.licFiles.filter isLicFile).map (idOf tbl)).Nodup := by
  rw [← findLicenses_some_iff pr.licFiles hp]
  unfold generate
  constructor
  · rintro ⟨r, h⟩
    cases hf : findLicenses tbl pr.licFiles with
    | none => simp [hf] at h
    | some fd => exact ⟨fd, rfl⟩
  · rintro ⟨fd, h⟩; exact ⟨_, by rw [h]; rfl⟩

/-- identifiers are compared as they are written: a differently-cased spelling
    is a different identifier (no normalisation anywhere in the model) -/
theorem C06_case_sensitive (h : generate tbl pr = some r) (hp : plainNames tbl pr.licFiles = true)
    (k p : Text) (hu : UsedBy pr.files k p) (h1 : ¬ Valid tbl k) (h2 : ¬ Valid tbl (stripPlus k)) :
    (k, p) ∈ r.bad :=
  (C06_bad_partial hp h k p).mpr (Or.inl ⟨hu, h1, h2⟩)

/-- table obligation, re-checked against the regenerated SPDX lists: no listed
    identifier has the `LicenseRef-` shape -/
theorem C06_table : noRefInTable spdxTable = true := by decide +kernel

-- Non-vacuity: a project over the generated table meeting every hypothesis, with a
-- compound expression, a '+' use, a sub-directory entry, an extension-less entry, a
-- `.license` companion and a used but unprovided `LicenseRef-`.
def demo : Project := {
  files := [
    { path := "a.py".toList, readable := true, hasCopyright := true,
      exprs := [["MIT".toList, "GPL-2.0-only".toList, "Classpath-exception-2.0".toList], ["Apache-2.0+".toList]] },
    { path := "b.c".toList, readable := true, hasCopyright := true, exprs := [["LicenseRef-x".toList, "mit".toList]] }]
  licFiles := ["LICENSES/MIT.txt".toList, "LICENSES/sub/Apache-2.0.md".toList, "LICENSES/GPL-2.0".toList,
    "LICENSES/MIT.txt.license".toList, "LICENSES/Classpath-exception-2.0.txt".toList] }

example : plainNames spdxTable demo.licFiles = true := by decide +kernel
example : (generate spdxTable demo).isSome = true := by decide +kernel
example : (generate spdxTable demo).map (fun r => r.missing.map (·.1)) =
    some ["GPL-2.0-only".toList, "LicenseRef-x".toList, "mit".toList] := by decide +kernel
example : (generate spdxTable demo).map (fun r => r.bad.map (·.1)) = some ["mit".toList] := by decide +kernel
example : (generate spdxTable demo).map (fun r => r.unused) = some ["GPL-2.0".toList] := by decide +kernel
example : (generate spdxTable demo).map (fun r => r.deprecated) = some ["GPL-2.0".toList] := by decide +kernel
example : (generate spdxTable demo).map (fun r => r.noExt.map (·.1)) = some ["GPL-2.0".toList] := by decide +kernel
-- the excluded shape: the tool and the property text differ on it
example : plainName spdxTable "OLDAP-2.0.1".toList = false := by decide +kernel
example : resolveId spdxTable "OLDAP-2.0.1".toList ≠ carried spdxTable "OLDAP-2.0.1".toList := by decide +kernel

end C06
