/-
Property C07 — what annotate writes, the linter reads back.
-/
import ReuseVerif.Lemmas.HeaderParts
import ReuseVerif.Lemmas.StyleTable
import ReuseVerif.Lemmas.C07Achievable
import ReuseVerif.Lemmas.C07Scan
import ReuseVerif.Lemmas.C07Closed
import ReuseVerif.Lemmas.C07Window
import ReuseVerif.Theorems.C02
import ReuseVerif.Theorems.C11

namespace C07
open Py Model Spec

/-- **The guard.**  Whatever the template renders (`c.render` is an arbitrary function: every
    Jinja template), whatever the style, single- or multi-line, commented template or not: a
    header that `_create_new_header` returns reads back — with the tool's own extraction —
    exactly the requested copyright notices and exactly the requested licence expressions
    (compared as the parser normalises them). -/
theorem C07_guard (c : HdrCfg) (info : Extracted) (h : Text)
    (hok : createNewHeader c info = .ok h) :
    (∀ x, x ∈ info.cpr ↔ x ∈ (extractRaw h).cpr) ∧
    (∀ x, x ∈ info.lic.map c.normLic ↔ x ∈ (extractRaw h).lic.map c.normLic) := by
  have hg := (createNewHeader_ok hok).2
  unfold guardOk at hg
  simp only [Bool.and_eq_true] at hg
  exact ⟨sameSet_iff.mp hg.2.1.1, sameSet_iff.mp hg.2.1.2⟩

/-- **The guard, contributors.**  A header that `_create_new_header` returns and that shows any
    contributor at all (the template renders contributors) reads back exactly the requested
    contributors: none is cut short by a comment terminator, none is lost, none is invented.
    (A template that leaves the contributors out is accepted: C09 speaks of "any template that
    renders them".) -/
theorem C07_guard_contributors (c : HdrCfg) (info : Extracted) (h : Text)
    (hok : createNewHeader c info = .ok h) (hshown : (extractRaw h).con ≠ []) :
    ∀ x, x ∈ info.con ↔ x ∈ (extractRaw h).con := by
  have hg := (createNewHeader_ok hok).2
  unfold guardOk at hg
  simp only [Bool.and_eq_true, Bool.or_eq_true, List.isEmpty_iff] at hg
  rcases hg.2.2 with h0 | h1
  · exact (hshown h0).elim
  · exact sameSet_iff.mp h1

/-- A header that shows contributors other than the requested ones — one of them read back
    truncated, say — is never returned. -/
theorem C07_guard_refuses_contributors (c : HdrCfg) (info : Extracted) (result : Text)
    (hr : renderedHeader c info = .ok result) (hshown : (extractRaw result).con ≠ [])
    (hbad : ∃ x, ¬ (x ∈ info.con ↔ x ∈ (extractRaw result).con)) :
    createNewHeader c info = .error .missingInfo := by
  rw [createNewHeader_eq, hr]
  have : guardOk c info result = false := by
    cases hg : guardOk c info result with
    | false => rfl
    | true =>
      unfold guardOk at hg
      simp only [Bool.and_eq_true, Bool.or_eq_true, List.isEmpty_iff] at hg
      obtain ⟨x, hx⟩ := hbad
      rcases hg.2.2 with h0 | h1
      · exact (hshown h0).elim
      · exact (hx (sameSet_iff.mp h1 x)).elim
  simp [this]

/-- A header is never returned when either kind of information cannot be read back. -/
theorem C07_guard_refuses (c : HdrCfg) (info : Extracted) (result : Text)
    (hr : renderedHeader c info = .ok result)
    (hbad : (∃ x, ¬ (x ∈ info.cpr ↔ x ∈ (extractRaw result).cpr)) ∨
            (∃ x, ¬ (x ∈ info.lic.map c.normLic ↔ x ∈ (extractRaw result).lic.map c.normLic))) :
    createNewHeader c info = .error .missingInfo := by
  rw [createNewHeader_eq, hr]
  have : guardOk c info result = false := by
    cases hg : guardOk c info result with
    | false => rfl
    | true =>
      unfold guardOk at hg
      simp only [Bool.and_eq_true] at hg
      rcases hbad with ⟨x, hx⟩ | ⟨x, hx⟩
      · exact (hx (sameSet_iff.mp hg.2.1.1 x)).elim
      · exact (hx (sameSet_iff.mp hg.2.1.2 x)).elim
  simp [this]

/-- `create_header` on an existing header: the new header reads back everything requested
    **and** everything the old header declared (copyright notices verbatim unless
    `--merge-copyrights`; licence expressions as normalised by the parser, for a normaliser
    that is idempotent). -/
theorem C07_guard_union (c : HdrCfg) (info : Extracted) (header h : Text)
    (hne : header ≠ []) (hmerge : c.merge = false)
    (hnorm : ∀ x, c.normLic (c.normLic x) = c.normLic x)
    (hok : createHeader c info header = .ok h) :
    (∀ x, x ∈ info.cpr ∨ x ∈ (extractRaw header).cpr ↔ x ∈ (extractRaw h).cpr) ∧
    (∀ x, x ∈ (extractRaw header).lic ∨ x ∈ info.lic → c.normLic x ∈ (extractRaw h).lic.map c.normLic) ∧
    (∀ y, y ∈ (extractRaw h).lic → ∃ x, (x ∈ (extractRaw header).lic ∨ x ∈ info.lic) ∧ c.normLic y = c.normLic x) := by
  unfold createHeader at hok
  have he : header.isEmpty = false := by cases header <;> simp_all
  simp only [he, Bool.false_eq_true, if_false] at hok
  by_cases hp : (extractRaw header).lic.all c.parses = true
  · simp only [hp, Bool.not_true, Bool.false_eq_true, if_false, hmerge] at hok
    have hok' : createNewHeader c
        { lic := dedup (((extractRaw header).lic ++ info.lic).map c.normLic),
          con := unionTexts (extractRaw header).con info.con,
          cpr := unionTexts info.cpr (extractRaw header).cpr } = .ok h := hok
    obtain ⟨h1, h2⟩ := C07_guard c _ h hok'
    refine ⟨?_, ?_, ?_⟩
    · intro x; rw [← h1 x]; exact mem_unionTexts.symm
    · intro x hx
      rw [← h2 (c.normLic x)]
      simp only [List.mem_map, mem_dedup, List.mem_append]
      exact ⟨c.normLic x, ⟨x, hx, rfl⟩, hnorm x⟩
    · intro y hy
      have := (h2 (c.normLic y)).mpr (List.mem_map.mpr ⟨y, hy, rfl⟩)
      simp only [List.mem_map, mem_dedup, List.mem_append] at this
      obtain ⟨z, ⟨x, hx, rfl⟩, hz⟩ := this
      exact ⟨x, hx, by rw [← hz, hnorm]⟩
  · simp only [hp, Bool.not_false, if_true] at hok
    cases hok

/-- `create_header` on an existing header, contributors: a new header that shows contributors at
    all reads back exactly the requested contributors **and** those of the old header — with or
    without `--merge-copyrights` (which does not touch contributors). -/
theorem C07_guard_union_contributors (c : HdrCfg) (info : Extracted) (header h : Text)
    (hne : header ≠ []) (hok : createHeader c info header = .ok h) (hshown : (extractRaw h).con ≠ []) :
    ∀ x, x ∈ (extractRaw header).con ∨ x ∈ info.con ↔ x ∈ (extractRaw h).con := by
  unfold createHeader at hok
  have he : header.isEmpty = false := by cases header <;> simp_all
  simp only [he, Bool.false_eq_true, if_false] at hok
  by_cases hp : (extractRaw header).lic.all c.parses = true
  · simp only [hp, Bool.not_true, Bool.false_eq_true, if_false] at hok
    have hok' : createNewHeader c
        { lic := dedup (((extractRaw header).lic ++ info.lic).map c.normLic),
          con := unionTexts (extractRaw header).con info.con,
          cpr := if c.merge = true then mergeLines (unionTexts info.cpr (extractRaw header).cpr)
                 else unionTexts info.cpr (extractRaw header).cpr } = .ok h := hok
    intro x
    rw [← C07_guard_contributors c _ h hok' hshown x]
    exact mem_unionTexts.symm
  · simp only [hp, Bool.not_false, if_true] at hok
    cases hok

/-! ### From the header to the file -/

/-- **No success without read-back.**  Whenever the text-level `add_header_to_file` writes
    (`.written t`), the written text is — up to the newline translation on write —
    `pre ++ hdr ++ "\n" ++ post` where `pre` is empty or ends a line, and `hdr` is a header block
    from which the tool's own extraction reads every requested notice and expression, plus
    everything the replaced header block declared.  (Template, style, line mode, `--no-replace`
    arbitrary; without `--merge-copyrights`, for which see C09_merge.) -/
theorem C07_never_success_without_readback (c : HdrCfg) (replace skip : Bool) (info : Extracted) (text t : Text)
    (hmerge : c.merge = false) (hnorm : ∀ x, c.normLic (c.normLic x) = c.normLic x)
    (h : annotateText c replace skip info text = .written t) :
    ∃ pre hdr post,
      t = retranslate (detectLineEnding text) (pre ++ hdr ++ ['\n'] ++ post) ∧
      (pre = [] ∨ ∃ p, pre = p ++ ['\n']) ∧
      Declares c.normLic (extractRaw hdr) info.cpr info.lic ∧
      (let old := oldHeader c replace (Py.replace text (detectLineEnding text) ['\n'])
       old ≠ [] → Declares c.normLic (extractRaw hdr) (extractRaw old).cpr (extractRaw old).lic) := by
  obtain ⟨p, hp, ht⟩ := annotateText_parts h
  obtain ⟨pre, post, hshape, hpre⟩ := placeHeader_shape p.1 p.2.1 p.2.2.1 p.2.2.2
  have hd := createHeader_declares hmerge hnorm (headerParts_created hp)
  exact ⟨pre, p.1, post, by rw [ht, hshape], hpre, hd.1, hd.2⟩

/-- **The file.**  For a file with "\n" line endings (the text lint decodes for any line-ending
    convention), if the written text opens no ignore region (`noIgnoreStart`, decidable) and the
    tag values of the header block are found again in the whole text (`tagsCompose`, decidable;
    evaluated per case by the driver — the copyright part needs no such hypothesis: it is
    proved from the line structure), then extraction of the **whole written text** yields
    everything requested and everything the replaced header declared.
    Superseded by `C07_file` (`tagsCompose` replaced by a condition on the header block alone that is
    proved sufficient), `C07_file_default` (no hypothesis on the block for the default template) and
    `C07_file_window` (lint's 4096-byte window); kept because C09 uses it. -/
theorem C07_file_partial (c : HdrCfg) (replace skip : Bool) (info : Extracted) (text t : Text)
    (hmerge : c.merge = false) (hnorm : ∀ x, c.normLic (c.normLic x) = c.normLic x)
    (hle : detectLineEnding text = ['\n'])
    (h : annotateText c replace skip info text = .written t)
    (hns : noIgnoreStart t = true)
    (htags : ∀ p, headerParts c replace info (Py.replace text ['\n'] ['\n']) = .ok p → tagsCompose p.1 t = true) :
    Declares c.normLic (extractRaw t) info.cpr info.lic ∧
    (let old := oldHeader c replace (Py.replace text ['\n'] ['\n'])
     old ≠ [] → Declares c.normLic (extractRaw t) (extractRaw old).cpr (extractRaw old).lic) := by
  obtain ⟨p, hp, ht⟩ := annotateText_parts h
  rw [hle] at hp ht
  obtain ⟨pre, post, hshape, hpre⟩ := placeHeader_shape p.1 p.2.1 p.2.2.1 p.2.2.2
  have hd := createHeader_declares hmerge hnorm (headerParts_created hp)
  have ht' : t = pre ++ p.1 ++ ['\n'] ++ post := by
    rw [ht, hshape]; unfold retranslate; simp
  have htg := htags p hp
  rw [ht'] at hns htg ⊢
  exact ⟨declares_of_embed hpre hns htg hd.1, fun ho => declares_of_embed hpre hns htg (hd.2 ho)⟩

/-- Table obligation: each of the two tags contains a character the generated END expression can
    never consume — so END's `\\s*` can run on across line breaks, but never across a tag line. -/
theorem C07_tags_unusable :
    tagUnusable Generated.endRe Generated.licenseTag = true ∧
    tagUnusable Generated.endRe Generated.contributorTag = true := by decide +kernel

/-- **`tagsCompose` from a condition on the header block alone.**  If every line of the block is
    *closed* for both tags (`tagLinesClosed`, decidable: a line holding `TAG[ \t]` yields, read on
    its own, a non-empty tail-safe value — END matches the rest of the line and no tail of the
    value can begin a run of terminators continuing on the next lines), then every tag value of
    the block is a tag value of any text holding the block between line boundaries, provided no
    ignore region opens in that text.  (The block ending `…MIT"` followed by `\n>` is not closed.) -/
theorem C07_tags_compose (pre hdr post : Text) (hpre : pre = [] ∨ ∃ p, pre = p ++ ['\n'])
    (hns : noIgnoreStart (pre ++ hdr ++ ['\n'] ++ post) = true)
    (hcl : tagLinesClosed Generated.endRe hdr = true) :
    tagsCompose hdr (pre ++ hdr ++ ['\n'] ++ post) = true := by
  unfold noIgnoreStart at hns
  simp only [Option.isNone_iff_eq_none] at hns
  have hh : findSub Generated.ignoreStart hdr = none :=
    findSub_none_infix (a := pre) (c := ['\n'] ++ post) (by simpa [List.append_assoc] using hns)
  unfold tagLinesClosed at hcl
  simp only [Bool.and_eq_true] at hcl
  have e : pre ++ hdr ++ ['\n'] ++ post = pre ++ hdr ++ '\n' :: post := by simp
  unfold tagsCompose extractRaw extractRawWith
  simp only [filterIgnore_id hns, filterIgnore_id hh, Bool.and_eq_true, List.all_eq_true, List.contains_eq_mem,
    decide_eq_true_eq, mem_dedup, List.mem_filter]
  rw [e]
  exact ⟨fun v hv => ⟨C07A.findTag_embed Generated.endRe _ (by decide) C07_tags_unusable.1 pre hdr post hpre hcl.1 v hv.1, hv.2⟩,
    fun v hv => C07A.findTag_embed Generated.endRe _ (by decide) C07_tags_unusable.2 pre hdr post hpre hcl.2 v hv⟩

/-- **The file (C07_file).**  `C07_file_partial` with its per-case hypothesis `tagsCompose`
    (header block *and* whole text) replaced by a condition on the header block alone that is
    proved to suffice: every line of the new header block is closed for both tags
    (`tagLinesClosed`).  Then, for a file with "\n" line endings in which no ignore region opens,
    extraction of the **whole written text** yields everything requested and everything the
    replaced header declared — whatever stands above and below the header (any file content: the
    scan of `findall` reaches every tag line of the block, `C07A.scan_reaches`).
    Still not in the statement: lint's 4096-byte window (known finding c07-header-beyond-window). -/
theorem C07_file (c : HdrCfg) (replace skip : Bool) (info : Extracted) (text t : Text)
    (hmerge : c.merge = false) (hnorm : ∀ x, c.normLic (c.normLic x) = c.normLic x)
    (hle : detectLineEnding text = ['\n'])
    (h : annotateText c replace skip info text = .written t)
    (hns : noIgnoreStart t = true)
    (hclosed : ∀ p, headerParts c replace info (Py.replace text ['\n'] ['\n']) = .ok p →
      tagLinesClosed Generated.endRe p.1 = true) :
    Declares c.normLic (extractRaw t) info.cpr info.lic ∧
    (let old := oldHeader c replace (Py.replace text ['\n'] ['\n'])
     old ≠ [] → Declares c.normLic (extractRaw t) (extractRaw old).cpr (extractRaw old).lic) := by
  apply C07_file_partial c replace skip info text t hmerge hnorm hle h hns
  intro p hp
  obtain ⟨p', hp', ht⟩ := annotateText_parts h
  rw [hle] at hp' ht
  have hpp : p' = p := by rw [hp] at hp'; cases hp'; rfl
  subst hpp
  obtain ⟨pre, post, hshape, hpre⟩ := placeHeader_shape p'.1 p'.2.1 p'.2.2.1 p'.2.2.2
  have ht' : t = pre ++ p'.1 ++ ['\n'] ++ post := by
    rw [ht, hshape]; unfold retranslate; simp
  rw [ht'] at hns ⊢
  exact C07_tags_compose pre p'.1 post hpre hns (hclosed p' hp)

/-- **The file through lint's window (C07_file_window).**  What `reuse lint` extracts is not the
    whole file but the decoded first 4096 bytes (`Model.window` / `decodedText`: UTF-8 with
    replacement, line endings folded; the whole file when it holds a snippet marker).  If the
    written text *up to the end of the header block* (`headPart`: what was above the header,
    right-stripped, an empty line, the block) fits into 4096 bytes of UTF-8 and holds no carriage
    return, then the extraction of the **decoded window of the written file** yields everything
    requested and everything the replaced header declared — whatever follows the header, however
    long, valid UTF-8 or not beyond the window's cut.  (`hfit` fails exactly for the known finding
    c07-header-beyond-window.) -/
theorem C07_file_window (c : HdrCfg) (replace skip : Bool) (info : Extracted) (text t : Text)
    (hmerge : c.merge = false) (hnorm : ∀ x, c.normLic (c.normLic x) = c.normLic x)
    (hle : detectLineEnding text = ['\n'])
    (h : annotateText c replace skip info text = .written t)
    (hclosed : ∀ p, headerParts c replace info (Py.replace text ['\n'] ['\n']) = .ok p →
      tagLinesClosed Generated.endRe p.1 = true)
    (hfit : ∀ p, headerParts c replace info (Py.replace text ['\n'] ['\n']) = .ok p →
      (encodeUtf8 (headPart p.1 p.2.1)).length ≤ 4096 ∧ '\r' ∉ headPart p.1 p.2.1)
    (hns : noIgnoreStart (decodedText (window (encodeUtf8 t))) = true) :
    Declares c.normLic (extractRaw (decodedText (window (encodeUtf8 t)))) info.cpr info.lic ∧
    (let old := oldHeader c replace (Py.replace text ['\n'] ['\n'])
     old ≠ [] → Declares c.normLic (extractRaw (decodedText (window (encodeUtf8 t))))
       (extractRaw old).cpr (extractRaw old).lic) := by
  obtain ⟨p, hp, ht⟩ := annotateText_parts h
  rw [hle] at hp ht
  have hd := createHeader_declares hmerge hnorm (headerParts_created hp)
  have ht' : t = placeHeader p.1 p.2.1 p.2.2.1 p.2.2.2 := by
    rw [ht]; unfold retranslate; simp
  obtain ⟨hlen, hcr⟩ := hfit p hp
  obtain ⟨pre, tailText, hwin, hpre⟩ := C07A.window_head p.1 p.2.1 p.2.2.1 p.2.2.2 hcr hlen
  rw [ht', hwin] at hns ⊢
  have htg := C07_tags_compose pre p.1 tailText hpre hns (hclosed p hp)
  exact ⟨declares_of_embed hpre hns htg hd.1, fun ho => declares_of_embed hpre hns htg (hd.2 ho)⟩

/-- … and when moreover every expression found in the window parses, `reuse_info_of_file` (the
    function `reuse lint` calls) reports exactly that extraction — so everything requested is in
    lint's result for the file (contributors included as far as the window extraction shows them).
    (`hparse` fails exactly for the known finding c07-unparseable-expression-elsewhere.) -/
theorem C07_lint_reads_back (c : HdrCfg) (replace skip : Bool) (info : Extracted) (text t : Text)
    (hmerge : c.merge = false) (hnorm : ∀ x, c.normLic (c.normLic x) = c.normLic x)
    (hle : detectLineEnding text = ['\n'])
    (h : annotateText c replace skip info text = .written t)
    (hclosed : ∀ p, headerParts c replace info (Py.replace text ['\n'] ['\n']) = .ok p →
      tagLinesClosed Generated.endRe p.1 = true)
    (hfit : ∀ p, headerParts c replace info (Py.replace text ['\n'] ['\n']) = .ok p →
      (encodeUtf8 (headPart p.1 p.2.1)).length ≤ 4096 ∧ '\r' ∉ headPart p.1 p.2.1)
    (hns : noIgnoreStart (decodedText (window (encodeUtf8 t))) = true)
    (hparse : ∀ x ∈ (extractRaw (decodedText (window (encodeUtf8 t)))).lic, c.parses x = true)
    (hsome : info.cpr ≠ [] ∨ info.lic ≠ []) :
    Declares c.normLic (infoOfFile c.parses (encodeUtf8 t)) info.cpr info.lic := by
  have hd := (C07_file_window c replace skip info text t hmerge hnorm hle h hclosed hfit hns).1
  have hne : ((extractRaw (decodedText (window (encodeUtf8 t)))).lic.isEmpty &&
      (extractRaw (decodedText (window (encodeUtf8 t)))).cpr.isEmpty) = false := by
    rcases hsome with hs | hs
    · obtain ⟨x, xs, hx⟩ := List.exists_cons_of_ne_nil hs
      have := hd.1 x (by rw [hx]; simp)
      cases hc : (extractRaw (decodedText (window (encodeUtf8 t)))).cpr with
      | nil => rw [hc] at this; cases this
      | cons _ _ => simp
    · obtain ⟨x, xs, hx⟩ := List.exists_cons_of_ne_nil hs
      have := hd.2 x (by rw [hx]; simp)
      cases hc : (extractRaw (decodedText (window (encodeUtf8 t)))).lic with
      | nil => rw [hc] at this; simp at this
      | cons _ _ => simp
  rw [C02.C02_parseable_reports_all c.parses (encodeUtf8 t) hparse hne]
  exact hd

-- the hypotheses are satisfiable (the driver evaluates them on every case of the `filetie` stream)
example : noIgnoreStart "# SPDX-License-Identifier: MIT\n".toList = true := by decide

/-! ### The default template is achievable -/

/-- Table obligation on the generated END expression: it is a starred expression and none of its
    alternatives can begin with a line feed (so END, started right after a value that ends its
    line, stops there). -/
theorem C07_end_well_behaved : endWellBehaved Generated.endRe = true := by decide +kernel

/-- **Table obligation (re-opened whenever a style is added or changed).**  Every style of the
    generated style table — the two pseudo styles included — satisfies the side condition
    `styleReadable` in every line mode it supports (default and forced multi-line): the marker in
    front of a line, the marker an empty line becomes and the opening / closing lines of a multi-line
    comment hold no line boundary and nothing that could begin `SPDX-…`, `Copyright`, `©` or
    `REUSE-IgnoreStart`; the opening and closing lines are not empty.  No style fails it. -/
theorem C07_styles_readable :
    Generated.styles.all (fun s => [false, true].all fun fm =>
      match lineMode s fm with
      | some m => styleReadable s m
      | none => true) = true := by decide +kernel

/-- the generated END expression is a starred expression: it matches the empty text, is nullable,
    and none of its alternatives begins with a line feed -/
theorem C07_end_facts :
    Re.Matches Generated.endRe [] ∧ canStart Generated.endRe '\n' = false ∧ nullable Generated.endRe = true := by
  have hwb := C07_end_well_behaved
  unfold endWellBehaved at hwb
  simp only [Bool.and_eq_true, Bool.not_eq_true'] at hwb
  obtain ⟨body, hbody⟩ := Option.isSome_iff_exists.mp hwb.1
  have hstar := starBody_eq hbody
  exact ⟨by rw [hstar]; exact .starNil, hwb.2, by rw [hstar]; rfl⟩

/-- **What is written for the default template**: the header `_create_new_header` returns is —
    line by line — the opening line of the comment (multi-line mode), the sorted copyright lines,
    the contributor lines, an empty line, the licence lines, each behind the style's line prefix
    (`C07A.headerLines` of `C07A.bodyLines`), and the closing line; the guard accepts it. -/
theorem C07_default_header (c : HdrCfg) (info : Extracted) (m : LineMode)
    (hr : c.render = defaultRender) (hc : c.commented = false)
    (hm : lineMode c.style c.forceMulti = some m)
    (hstyle : styleReadable c.style m = true)
    (hreq : wfRequest Generated.endRe c.style m info = true)
    (hparse : ∀ x ∈ info.lic, c.parses x = true) :
    createNewHeader c info = .ok (join ['\n'] (C07A.headerLines c.style m
      (C07A.bodyLines (sortTexts info.cpr) (sortTexts info.con) (sortTexts info.lic)))) ∧
    extractRaw (join ['\n'] (C07A.headerLines c.style m
      (C07A.bodyLines (sortTexts info.cpr) (sortTexts info.con) (sortTexts info.lic)))) =
      ⟨dedup (sortTexts info.lic), dedup (sortTexts info.cpr), dedup (sortTexts info.con)⟩ := by
  have sf := C07A.styleFacts hstyle
  have rq := C07A.reqOK_of_wfRequest hreq
  obtain ⟨hnil, hcs, hnull⟩ := C07_end_facts
  have hrend := C07A.renderedHeader_default c info m hr hc hm sf rq
  have hext := C07A.extract_header Generated.endRe hnil hcs hnull sf rq
  refine ⟨?_, hext⟩
  rw [createNewHeader_eq, hrend]
  have hg : guardOk c info (join ['\n'] (C07A.headerLines c.style m
      (C07A.bodyLines (sortTexts info.cpr) (sortTexts info.con) (sortTexts info.lic)))) = true := by
    unfold guardOk
    have hext' : extractRaw (join ['\n'] (C07A.headerLines c.style m
        (C07A.bodyLines (sortTexts info.cpr) (sortTexts info.con) (sortTexts info.lic)))) = _ := hext
    rw [hext']
    simp only [Bool.and_eq_true, Bool.or_eq_true]
    refine ⟨?_, ⟨sameSet_iff.mpr fun x => ?_, sameSet_iff.mpr fun x => ?_⟩, .inr (sameSet_iff.mpr fun x => ?_)⟩
    · rw [List.all_eq_true]
      intro x hx
      rw [mem_dedup, C07A.mem_sortTexts] at hx
      exact hparse x hx
    · rw [mem_dedup, C07A.mem_sortTexts]
    · simp only [List.mem_map, mem_dedup, C07A.mem_sortTexts]
    · rw [mem_dedup, C07A.mem_sortTexts]
  simp [hg]

/-- **The default template is achievable — general form.**  For *any* style `c.style` and line
    mode `m` it supports with `styleReadable` (a decidable condition on the markers), the bundled
    default template and every request covered by `wfRequest` (see `Spec/Achievable.lean`):
    `_create_new_header` returns a header (the guard accepts), and the tool's own extraction of
    that header yields exactly the requested licence expressions, copyright lines and
    contributors (as duplicate-free lists in sorted order). -/
theorem C07_default_achievable_style (c : HdrCfg) (info : Extracted) (m : LineMode)
    (hr : c.render = defaultRender) (hc : c.commented = false)
    (hm : lineMode c.style c.forceMulti = some m)
    (hstyle : styleReadable c.style m = true)
    (hreq : wfRequest Generated.endRe c.style m info = true)
    (hparse : ∀ x ∈ info.lic, c.parses x = true) :
    ∃ h, createNewHeader c info = .ok h ∧
      extractRaw h = ⟨dedup (sortTexts info.lic), dedup (sortTexts info.cpr), dedup (sortTexts info.con)⟩ :=
  ⟨_, (C07_default_header c info m hr hc hm hstyle hreq hparse).1, (C07_default_header c info m hr hc hm hstyle hreq hparse).2⟩

/-- **C07_default_achievable.**  For the bundled default template, every style of the generated
    style table and every line mode the style supports (single-line, multi-line incl. forced; the
    text as it is for the two pseudo styles, i.e. `FILE.license`), and every request covered by
    `wfRequest`: `_create_new_header` succeeds, and what the tool's own reader extracts from the
    header it returns is exactly the request — copyright lines, licence expressions and
    contributors.

    The request hypotheses (`wfRequest`, decidable): each copyright line is a notice the reader
    reads back as itself (`noticeSelf`; every line built from a generated prefix, a year form and
    a well-formed holder is one: `C07_notice_built`) and contains neither tag; each licence
    expression / contributor is stripped, not empty, has no tail that could begin a run of comment
    terminators (`tailSafe`, computed with derivatives of the generated END expression) and does
    not end like the mirrored frame of its line prefix (`frameFree`: e.g. ` c` under Fortran's `c`
    marker); its line contains neither the other tag nor a copyright notice; no rendered line
    contains a line boundary, `REUSE-IgnoreStart` or — in multi-line mode — the comment terminator
    (for which `create_comment` raises).  Each of these is necessary: dropping it gives a request
    the code refuses or reads back differently.  `hparse`: the requested expressions parse (on the
    command line they are parsed expressions; the guard re-reads the header with the parser). -/
theorem C07_default_achievable (c : HdrCfg) (info : Extracted) (m : LineMode)
    (hs : c.style ∈ Generated.styles)
    (hr : c.render = defaultRender) (hc : c.commented = false)
    (hm : lineMode c.style c.forceMulti = some m)
    (hreq : wfRequest Generated.endRe c.style m info = true)
    (hparse : ∀ x ∈ info.lic, c.parses x = true) :
    ∃ h, createNewHeader c info = .ok h ∧
      (∀ x, x ∈ (extractRaw h).cpr ↔ x ∈ info.cpr) ∧
      (∀ x, x ∈ (extractRaw h).lic ↔ x ∈ info.lic) ∧
      (∀ x, x ∈ (extractRaw h).con ↔ x ∈ info.con) := by
  have htab := C07_styles_readable
  rw [List.all_eq_true] at htab
  have h1 := htab c.style hs
  rw [List.all_eq_true] at h1
  have h2 := h1 c.forceMulti (by cases c.forceMulti <;> simp)
  rw [hm] at h2
  obtain ⟨h, hok, hext⟩ := C07_default_achievable_style c info m hr hc hm h2 hreq hparse
  refine ⟨h, hok, ?_, ?_, ?_⟩ <;> intro x <;> rw [hext] <;> simp only [mem_dedup, C07A.mem_sortTexts]

/-- Every copyright line `make_copyright_line` builds from one of the ten generated prefixes, a
    year form and a holder satisfying C02's `WFNotice` (no line prefix, no trail) is a notice the
    reader reads back as itself, provided it is stripped (the holder does not end in white space). -/
theorem C07_notice_built (x : Text × CPat × Text) (hx : x ∈ prefixShapes) (y : YearForm) (h : Text)
    (hwf : WFNotice Generated.endRe x y h [] [] = true) (hs : isStripped (builtLine x.1 y h) = true) :
    noticeSelf Generated.endRe (builtLine x.1 y h) = true := by
  have := C02.C02_copyright_exact_partial Generated.endRe x hx y h [] [] hwf
  simp only [List.nil_append, List.append_nil] at this
  unfold noticeSelf
  rw [this]
  unfold isStripped at hs
  simp only [beq_iff_eq] at hs
  simp [hs]

/-- the style condition from the table -/
theorem C07_style_of_table (s : Generated.Style) (hs : s ∈ Generated.styles) (fm : Bool) (m : LineMode)
    (hm : lineMode s fm = some m) : styleReadable s m = true := by
  have htab := C07_styles_readable
  rw [List.all_eq_true] at htab
  have h1 := htab s hs
  rw [List.all_eq_true] at h1
  have h2 := h1 fm (by cases fm <;> simp)
  rw [hm] at h2
  exact h2

/-- **The file, default template (no hypothesis on the header block left).**  `reuse annotate`
    with the bundled template on a file that has no header yet (or `--no-replace`), any style of the
    table in any line mode it supports, a request covered by `wfRequest`, "\n" line endings: when the
    text-level `add_header_to_file` writes `t` and no ignore region opens in `t`, then extraction of
    the **whole written text** — whatever the file held — yields every requested copyright line,
    every requested licence expression (verbatim, not only up to normalisation) and every
    requested contributor.  (`tagLinesClosed` of `C07_file` is *proved* for this header:
    `C07A.default_header_closed`.)  Not in the statement: lint's 4096-byte window. -/
theorem C07_file_default (c : HdrCfg) (replace skip : Bool) (info : Extracted) (text t : Text) (m : LineMode)
    (hs : c.style ∈ Generated.styles) (hr : c.render = defaultRender) (hc : c.commented = false)
    (hm : lineMode c.style c.forceMulti = some m) (hmerge : c.merge = false)
    (hreq : wfRequest Generated.endRe c.style m info = true)
    (hparse : ∀ x ∈ info.lic, c.parses x = true)
    (hle : detectLineEnding text = ['\n'])
    (hold : oldHeader c replace (Py.replace text ['\n'] ['\n']) = [])
    (h : annotateText c replace skip info text = .written t)
    (hns : noIgnoreStart t = true) :
    (∀ x ∈ info.cpr, x ∈ (extractRaw t).cpr) ∧ (∀ x ∈ info.lic, x ∈ (extractRaw t).lic) ∧
    (∀ x ∈ info.con, x ∈ (extractRaw t).con) := by
  have hstyle := C07_style_of_table c.style hs c.forceMulti m hm
  obtain ⟨hnew, hext⟩ := C07_default_header c info m hr hc hm hstyle hreq hparse
  obtain ⟨p, hp, ht⟩ := annotateText_parts h
  rw [hle] at hp ht
  have hcreated := headerParts_created hp
  rw [hold] at hcreated
  have hp1 : p.1 = join ['\n'] (C07A.headerLines c.style m
      (C07A.bodyLines (sortTexts info.cpr) (sortTexts info.con) (sortTexts info.lic))) := by
    unfold createHeader at hcreated
    simp only [List.isEmpty_nil, if_true, hmerge, Bool.false_eq_true, if_false] at hcreated
    rw [hnew] at hcreated
    exact (Except.ok.inj hcreated).symm
  obtain ⟨pre, post, hshape, hpre⟩ := placeHeader_shape p.1 p.2.1 p.2.2.1 p.2.2.2
  have ht' : t = pre ++ p.1 ++ ['\n'] ++ post := by
    rw [ht, hshape]; unfold retranslate; simp
  have sf := C07A.styleFacts hstyle
  have rq := C07A.reqOK_of_wfRequest hreq
  have hclosed : tagLinesClosed Generated.endRe p.1 = true := by
    rw [hp1]; exact C07A.default_header_closed Generated.endRe C07_end_facts.1 sf rq
  rw [ht'] at hns ⊢
  have hcomp := C07_tags_compose pre p.1 post hpre hns hclosed
  unfold tagsCompose at hcomp
  simp only [Bool.and_eq_true, List.all_eq_true, List.contains_eq_mem, decide_eq_true_eq] at hcomp
  have hns' := hns
  unfold noIgnoreStart at hns'
  simp only [Option.isNone_iff_eq_none] at hns'
  rw [← hp1] at hext
  refine ⟨fun x hx => ?_, fun x hx => ?_, fun x hx => ?_⟩
  · apply extractRaw_cpr_embed pre p.1 post hpre hns' x
    rw [hext]; simp only [mem_dedup, C07A.mem_sortTexts]; exact hx
  · apply hcomp.1
    rw [hext]; simp only [mem_dedup, C07A.mem_sortTexts]; exact hx
  · apply hcomp.2
    rw [hext]; simp only [mem_dedup, C07A.mem_sortTexts]; exact hx

/-- a concrete notice with an e-mail address (its holder ends in `>`, a character END can consume,
    but no tail of it can begin a run of terminators) -/
theorem C07_example_notice :
    noticeSelf Generated.endRe "SPDX-FileCopyrightText: 2020 Jane Doe <jane@example.org>".toList = true := by
  have hsafe : tailSafe Generated.endRe "Jane Doe <jane@example.org>".toList = true := by decide +kernel
  have hs0 := C07A.noEndSuffix_of_tailSafe_holder Generated.endRe _ (by decide +kernel) hsafe
  have hs := C07A.noEndSuffixC_of_tailSafe Generated.endRe "Jane Doe <jane@example.org>".toList []
    (by decide +kernel) hsafe
  have he : endAccepts Generated.endRe [] = true := by
    have hstar : starBody Generated.endRe = some ((starBody Generated.endRe).getD .eps) := rfl
    have := endAccepts_pieces ((starBody Generated.endRe).getD .eps) [] (by simp)
    rw [← starBody_eq hstar] at this
    exact this
  have hwf : WFNotice Generated.endRe ("SPDX-FileCopyrightText:".toList, .spdx, []) (.single "2020".toList)
      "Jane Doe <jane@example.org>".toList [] [] = true := by
    simp only [WFNotice, WFHolder, he, hs, hs0, Bool.and_true]
    decide +kernel
  exact C07_notice_built _ (by decide) _ _ hwf (by decide +kernel)

/-- the request of the examples: two licence expressions, one notice, one contributor -/
def exampleRequest : Extracted :=
  ⟨["MIT".toList, "GPL-2.0-or-later OR (Apache-2.0 AND BSD-3-Clause)".toList],
   ["SPDX-FileCopyrightText: 2020 Jane Doe <jane@example.org>".toList],
   ["Jane Doe <jane@example.org>".toList]⟩

/-- the example request is covered under the Python style (single-line) -/
theorem C07_example_request :
    wfRequest Generated.endRe (C07A.styleNamed "PythonCommentStyle") .single exampleRequest = true := by
  simp only [wfRequest, exampleRequest, List.all_cons, List.all_nil, Bool.and_true, C07_example_notice, Bool.true_and]
  decide +kernel

-- the hypotheses are satisfiable: Python (single-line), C (multi-line, forced), `FILE.license` (as it is)
example : ∃ c : HdrCfg, c.style ∈ Generated.styles ∧ c.render = defaultRender ∧ c.commented = false ∧
    lineMode c.style c.forceMulti = some .single ∧ wfRequest Generated.endRe c.style .single exampleRequest = true :=
  ⟨⟨C07A.styleNamed "PythonCommentStyle", defaultRender, false, false, false, fun _ => true, id⟩,
    C07A.styleNamed_mem "PythonCommentStyle" (by decide +kernel), rfl, rfl, by decide +kernel, C07_example_request⟩
-- the hypothesis `tagLinesClosed` of C07_file / C07_file_window is satisfiable: the header of the example request
example : tagLinesClosed Generated.endRe (join ['\n'] (C07A.headerLines (C07A.styleNamed "PythonCommentStyle") .single
    (C07A.bodyLines (sortTexts exampleRequest.cpr) (sortTexts exampleRequest.con) (sortTexts exampleRequest.lic)))) = true :=
  C07A.default_header_closed Generated.endRe C07_end_facts.1 (C07A.styleFacts (by decide +kernel))
    (C07A.reqOK_of_wfRequest C07_example_request)
example : ∃ c : HdrCfg, c.style ∈ Generated.styles ∧ c.render = defaultRender ∧ c.commented = false ∧
    lineMode c.style c.forceMulti = some .multi ∧ wfRequest Generated.endRe c.style .multi exampleRequest = true := by
  refine ⟨⟨C07A.styleNamed "CppCommentStyle", defaultRender, false, true, false, fun _ => true, id⟩,
    C07A.styleNamed_mem "CppCommentStyle" (by decide +kernel), rfl, rfl, by decide +kernel, ?_⟩
  simp only [wfRequest, exampleRequest, List.all_cons, List.all_nil, Bool.and_true, C07_example_notice, Bool.true_and]
  decide +kernel
example : ∃ c : HdrCfg, c.style ∈ Generated.styles ∧ c.render = defaultRender ∧ c.commented = false ∧
    lineMode c.style c.forceMulti = some .plain ∧ wfRequest Generated.endRe c.style .plain exampleRequest = true := by
  refine ⟨⟨C07A.styleNamed "EmptyCommentStyle", defaultRender, false, false, false, fun _ => true, id⟩,
    C07A.styleNamed_mem "EmptyCommentStyle" (by decide +kernel), rfl, rfl, by decide +kernel, ?_⟩
  simp only [wfRequest, exampleRequest, List.all_cons, List.all_nil, Bool.and_true, C07_example_notice, Bool.true_and]
  decide +kernel
-- … and the side conditions exclude what they should: `MIT"` (the line could run on into `\n>`), a
-- value ending in the Fortran frame ` c`, a contributor that is a copyright notice
example : tailSafe Generated.endRe "MIT\"".toList = false := by decide +kernel
example : frameFree (linePrefix (C07A.styleNamed "FortranCommentStyle") .single) "Vitamin c".toList = false := by
  decide +kernel

/-! ### File types: the two tables and the routing to `FILE.license` -/

/-- Table obligation (re-opened whenever a table changes): every entry of
    `EXTENSION_COMMENT_STYLE_MAP` (261), `FILENAME_COMMENT_STYLE_MAP` (64) and `NAME_STYLE_MAP`
    (27) names a style of the generated style table; the two pseudo styles exist; `.license`
    files are read as they are (`EmptyCommentStyle`); no `--style` value selects a pseudo style. -/
theorem C07_table :
    (Generated.extensionStyleMap ++ Generated.filenameStyleMap ++ Generated.nameStyleMap).all
        (fun kv => (styleByName kv.2).isSome) = true ∧
    (styleByName "EmptyCommentStyle").isSome = true ∧
    (styleByName "UncommentableCommentStyle").isSome = true ∧
    commentStyleName "anything.license".toList = some "EmptyCommentStyle" ∧
    Generated.nameStyleMap.all (fun kv => (styleByName kv.2).any (fun s => !s.isEmptyStyle)) = true := by
  decide +kernel

/-- Every recognised path resolves to a style of the style table (so `create_comment` and
    `comment_at_first_character` of the model are defined for it). -/
theorem C07_table_resolves (path : Text) (n : String) (h : commentStyleName path = some n) :
    ∃ s, styleByName n = some s := by
  obtain ⟨kv, hm, hv⟩ := commentStyleName_mem h
  have hall := C07_table.1
  simp only [List.all_eq_true, List.mem_append] at hall
  have := hall kv (by
    simp only [List.mem_append] at hm
    rcases hm with h1 | h1
    · exact .inl (.inl h1)
    · exact .inl (.inr h1))
  rw [hv] at this
  exact Option.isSome_iff_exists.mp this

/-- The path a `.license` sibling has is always read with the empty style. -/
theorem C07_license_sibling_style (a : RouteArgs) (path : Text) (hs : a.style.bind forcedStyle = none)
    (hl : commentStyleName (path ++ licenseExt) = some "EmptyCommentStyle") :
    ∃ s, effectiveStyleName a (path ++ licenseExt) = some (some s) ∧ s.name = "EmptyCommentStyle" := by
  unfold effectiveStyleName
  rw [hs, hl]
  have h2 := C07_table.2.1
  obtain ⟨s, hs'⟩ := Option.isSome_iff_exists.mp h2
  refine ⟨s, by simp [hs'], ?_⟩
  unfold styleByName at hs'
  have := List.find?_some hs'
  simpa using this

/-- **Routing.**  A header is written *into* a file only when the file is not binary, its type is
    not uncommentable and `--force-dot-license` was not given. -/
theorem C07_route_dot_license (a : RouteArgs) (path : Text) (s : Generated.Style)
    (h : route a path = .inFile s) :
    a.binary = false ∧ a.forceDot = false ∧ commentStyleName path ≠ some "UncommentableCommentStyle" := by
  have hw : wantsDotLicense a path = false := by
    cases hw : wantsDotLicense a path with
    | false => rfl
    | true =>
      exfalso
      unfold route at h
      split at h
      · cases h
      · split at h
        · cases h
        · split at h
          · cases h
          · unfold routeDot at h
            split at h <;> cases h
  unfold wantsDotLicense at hw
  simp only [Bool.or_eq_false_iff, beq_eq_false_iff_ne, ne_eq] at hw
  exact ⟨hw.1.1, hw.2, hw.1.2⟩


/-- …and conversely a binary or uncommentable file, or `--force-dot-license`, sends the header to
    `FILE.license` (or the invocation is refused as a usage error). -/
theorem C07_route_pseudo (a : RouteArgs) (path : Text)
    (hw : a.binary = true ∨ a.forceDot = true ∨ commentStyleName path = some "UncommentableCommentStyle") :
    route a path = .usage ∨ route a path = routeDot a path ∨ route a path = .crash := by
  have hw' : wantsDotLicense a path = true := by
    unfold wantsDotLicense
    rcases hw with h | h | h <;> simp [h]
  unfold route
  split
  · exact .inl rfl
  · split
    · exact .inr (.inr rfl)
    · split
      · exact .inl rfl
      · simp


/-- With a valid `--style` value (click only admits the keys of `NAME_STYLE_MAP`) or none, and a
    file name for which `NAME.license` is recognised (every non-empty name: table entry
    `.license`), the routing never falls off the tables. -/
theorem C07_route_total (a : RouteArgs) (path : Text)
    (hstyle : ∀ sh, a.style = some sh → (forcedStyle sh).isSome = true)
    (hl : (commentStyleName (path ++ licenseExt)).isSome = true) :
    route a path ≠ .crash := by
  have hEmpty := C07_table.2.1
  obtain ⟨es, hes⟩ := Option.isSome_iff_exists.mp hEmpty
  have heff : ∀ p, ∃ st, effectiveStyleName a p = some st ∧ (st = none → a.style = none ∧ commentStyleName p = none) := by
    intro p
    unfold effectiveStyleName
    cases hs : a.style with
    | none =>
      simp only [Option.bind_none]
      cases hn : commentStyleName p with
      | none => exact ⟨none, rfl, fun _ => ⟨trivial, rfl⟩⟩
      | some n =>
        obtain ⟨s, hs'⟩ := C07_table_resolves p n hn
        exact ⟨some s, by simp [hs'], fun h => by cases h⟩
    | some sh =>
      obtain ⟨s, hs'⟩ := Option.isSome_iff_exists.mp (hstyle sh hs)
      exact ⟨some s, by simp [hs'], fun h => by cases h⟩
  intro hcrash
  unfold route at hcrash
  split at hcrash
  · cases hcrash
  · rename_i hverify
    obtain ⟨st, hst, hnone⟩ := heff path
    rw [hst] at hcrash
    simp only at hcrash
    split at hcrash
    · cases hcrash
    · split at hcrash
      · unfold routeDot at hcrash
        obtain ⟨st', hst', hnone'⟩ := heff (path ++ licenseExt)
        rw [hst'] at hcrash
        cases st' with
        | some s => simp at hcrash
        | none =>
          have := (hnone' rfl).2
          rw [this] at hl; cases hl
      · rename_i hwd
        unfold routeInFile at hcrash
        cases st with
        | some s => simp at hcrash
        | none =>
          obtain ⟨h1, h2⟩ := hnone rfl
          simp only [hes] at hcrash
          have hfd : a.forceDot = false := by
            unfold wantsDotLicense at hwd
            simp only [Bool.or_eq_true, not_or, Bool.not_eq_true] at hwd
            exact hwd.2
          cases hsk : a.skipUnrec with
          | true => simp [hsk] at hcrash
          | false =>
            cases hfb : a.fallbackDot with
            | true => simp [hsk, hfb] at hcrash
            | false => simp [h1, h2, hsk, hfb, hfd] at hverify

-- Non-vacuity.  The routing on concrete names of the generated tables (kernel-evaluated):
example : (match route ⟨none, false, false, false, false, false, false⟩ "src/main.py".toList with
    | .inFile s => s.name == "PythonCommentStyle" | _ => false) = true := by decide +kernel
example : (match route ⟨none, false, false, false, false, false, false⟩ "logo.png".toList with
    | .dotLicense s => s.name == "EmptyCommentStyle" | _ => false) = true := by decide +kernel
example : (match route ⟨some "c", true, false, false, false, false, false⟩ "main.rs".toList with
    | .dotLicense s => s.name == "CCommentStyle" | _ => false) = true := by decide +kernel
example : (match route ⟨none, false, false, false, false, false, false⟩ "data.zzz".toList with
    | .usage => true | _ => false) = true := by decide +kernel
example : commentStyleName "MA\u212aEFILE".toList = some "PythonCommentStyle" := by decide +kernel
-- The hypotheses of C07_guard / C07_never_success_without_readback / C07_file_partial (a successful
-- `createNewHeader` / `annotateText`, `noIgnoreStart`, `tagsCompose`) involve the well-founded regex matcher,
-- which `decide` does not unfold; the compiled driver evaluates them on every case of the streams `newheader`
-- (several hundred successes per run), `annotate` and `filetie` (hypotheses hold on about a third of the cases).

/-! ## Through the command: the composed end-to-end model (`Model/AnnotateE2E.lean`)

The statements above are about the text level (`annotateText` for *a* configuration and *a*
text).  The composed model says which configuration and which text the command feeds it — the
style of the *written* path, the template found below `.reuse/templates/`, the information
`get_reuse_info` builds from the command line, the text at `FILE.license` when that is where the
header goes — so they become statements about `reuse annotate` itself. -/

section E2E
open Model.AE Spec.AE Spec.Eff
open Model.Eff hiding Text World Style

/-- **C07 through the command.**  Exit status 0, and the loop body attempts `t` for a path `p` of
    the invocation (it is not skipped as unrecognised or because of `--skip-existing`) ⇒ after the
    command `t` holds — behind its byte order mark, in its own line-ending convention —
    `pre ++ hdr ++ "\n" ++ post` where `pre` is empty or ends a line and `hdr` is a header block
    from which the tool's own extraction reads every copyright line and licence expression asked
    for on the command line (`requested`: prefix, year rule, expressions as the parser prints
    them), plus everything the replaced header block of `t` declared.
    (`C07_never_success_without_readback` instantiated with the configuration, text and written
    path the command chooses; without `--merge-copyrights`, for which see C09_merge.) -/
theorem C07_e2e_readback (w : AE.World) (o : Opts) (fs : Fs) (ps : List Path) (p t : Path) (txt : Text)
    (hc : clickRejects w o = false)
    (hpre : preflight (envOf w o fs) (argsOf o) fs = .ok ps) (hsep : Separate ps) (hwf : ∀ q ∈ ps, WfPath q)
    (hnl : ∀ q ∈ ps, ∀ x ∈ writeSet q, Fs.isLink fs x = false)
    (hexit : (annotateE2E w o fs).2 = 0)
    (hp : p ∈ ps) (hatt : attempt (envOf w o fs) (argsOf o) fs p = some (t, txt))
    (hmerge : o.mergeCopyrights = false) (hnorm : ∀ x, w.normLic (w.normLic x) = w.normLic x) :
    ∃ s pre hdr post,
      styleFor o t = some s ∧
      (annotateE2E w o fs).1 t = some (.file (bomOf txt ++
        retranslate (detectLineEnding (dropBom txt)) (pre ++ hdr ++ ['\n'] ++ post))) ∧
      (pre = [] ∨ ∃ q, pre = q ++ ['\n']) ∧
      Declares w.normLic (extractRaw hdr) (requested w o).cpr (requested w o).lic ∧
      (let old := oldHeader (cfgFor w o fs s) (!o.noReplace) (workText txt)
       old ≠ [] → Declares w.normLic (extractRaw hdr) (extractRaw old).cpr (extractRaw old).lic) := by
  obtain ⟨hu, hnr⟩ := (C11.C11_e2e_exit w o fs ps hc hpre hsep hwf hnl).2.mp hexit p hp t txt hatt
  have hfin := C11.C11_e2e_each_alone w o fs ps p t txt hc hpre hsep hwf hp
    (hnl p hp _ (by simp [writeSet])) hatt
  cases hb : build w o (tmplOf w o fs) t txt with
  | error e =>
    rcases (build_error_iff w o fs t txt).mp ⟨e, hb⟩ with h | h
    · rw [hu] at h; cases h
    · exact (hnr h).elim
  | ok out =>
    rw [hb] at hfin
    obtain ⟨s, out', hs, hA, hout⟩ := build_ok_text hb
    obtain ⟨pre, hdr, post, h1, h2, h3, h4⟩ :=
      C07_never_success_without_readback (hdrCfg w o (tmplOf w o fs) s) (!o.noReplace) false (requested w o)
        (dropBom txt) out' hmerge hnorm hA
    exact ⟨s, pre, hdr, post, hs, by rw [hfin, hout, h1], h2, h3, h4⟩

/-- **The written path is the one lint reads.**  `reuse lint` takes the information of `FILE` from
    `FILE.license` when that exists and from `FILE` otherwise (`_determine_license_path`,
    `Eff.licPath`).  For a file `q` named on the command line (not itself a `.license` name) whose
    path of the loop is `licPath fs q`: when the body attempts `t` and the header is built, then in
    the tree the command leaves, `licPath` of `q` is `t` — annotate wrote where lint looks, whichever
    of the routes (in place, existing sibling, created sibling, fallback) was taken. -/
theorem C07_e2e_written_is_lint_source (w : AE.World) (o : Opts) (fs : Fs) (ps : List Path) (q t : Path)
    (txt out : Text)
    (hc : clickRejects w o = false)
    (hpre : preflight (envOf w o fs) (argsOf o) fs = .ok ps) (hsep : Separate ps) (hwf : ∀ r ∈ ps, WfPath r)
    (hq : WfPath q) (hqs : hasLicSuffix q = false) (hp : licPath fs q ∈ ps)
    (hnl : Fs.isLink fs (sibling q) = false)
    (hatt : attempt (envOf w o fs) (argsOf o) fs (licPath fs q) = some (t, txt))
    (hb : build w o (tmplOf w o fs) t txt = .ok out) :
    licPath (annotateE2E w o fs).1 q = t ∧ (annotateE2E w o fs).1 t = some (.file out) := by
  have hls : licSuffix q = sibling q := by simp [licSuffix, hqs]
  have hmem := attempt_mem_writeSet hatt
  rw [C11.C11_e2e_run w o fs hc]
  simp only [annotate, hpre]
  by_cases hex : Fs.pathExists fs (sibling q) = true
  · -- FILE.license exists: it is the path of the loop, and the only position of its write set
    have hlp : licPath fs q = sibling q := by simp [licPath, hex]
    rw [hlp] at hatt hp hmem
    have ht : t = sibling q := writeSet_sibling hq hmem
    subst ht
    have hnl' : Fs.isLink fs (licSuffix (sibling q)) = false := by rw [licSuffix_sibling hq]; exact hnl
    have hw := step_writes (envOf w o fs) (argsOf o) fs (sibling q) (sibling q) txt out (hwf _ hp) hnl' hatt hb
    have hfin := C11.C11_each_alone (envOf w o fs) (argsOf o) fs ps hsep hwf (sibling q) hp (sibling q) (by simp [claim])
    rw [hfin, hw.1]
    refine ⟨?_, rfl⟩
    simp [licPath, Fs.pathExists, hfin, hw.1]
  · -- no FILE.license: the path of the loop is FILE; the header goes into FILE or into a new FILE.license
    have hlp : licPath fs q = q := by simp [licPath, hex]
    rw [hlp] at hatt hp hmem
    have hnone : fs (sibling q) = none := by
      cases hfs : fs (sibling q) with
      | none => rfl
      | some n =>
        cases n with
        | file c => simp [Fs.pathExists, hfs] at hex
        | dir => simp [Fs.pathExists, hfs] at hex
        | link tgt => simp [Fs.isLink, hfs] at hnl
    have hnl' : Fs.isLink fs (licSuffix q) = false := by rw [hls]; exact hnl
    have hw := step_writes (envOf w o fs) (argsOf o) fs q t txt out hq hnl' hatt hb
    have hfin : ∀ x ∈ claim q, (runSteps (envOf w o fs) (argsOf o) fs ps).1 x = (step (envOf w o fs) (argsOf o) fs q).1 x :=
      fun x hx => C11.C11_each_alone (envOf w o fs) (argsOf o) fs ps hsep hwf q hp x hx
    have ht : t = q ∨ t = sibling q := by
      simp only [writeSet, hls, licSuffix_sibling hq, List.mem_cons, List.not_mem_nil, or_false] at hmem
      rcases hmem with h | h | h
      · exact .inl h
      · exact .inr h
      · exact .inr h
    rcases ht with ht | ht
    · subst ht
      have hsq : sibling t ≠ t := sibling_ne_self t
      refine ⟨?_, by rw [hfin t (by simp [claim]), hw.1]⟩
      have : (runSteps (envOf w o fs) (argsOf o) fs ps).1 (sibling t) = none := by
        rw [hfin _ (by simp [claim]), hw.2.2 _ hsq, hnone]
      simp [licPath, Fs.pathExists, this]
    · subst ht
      have : (runSteps (envOf w o fs) (argsOf o) fs ps).1 (sibling q) = some (.file out) := by
        rw [hfin _ (by simp [claim]), hw.1]
      exact ⟨by simp [licPath, Fs.pathExists, this], this⟩

/-- the hypotheses of `C07_lint_reads_back` for one written text (all decidable but the
    quantification over the parts, which `headerParts` determines) -/
def LintReadable (c : HdrCfg) (replace : Bool) (info : Extracted) (text out : Text) : Prop :=
  (∀ p, headerParts c replace info (Py.replace text ['\n'] ['\n']) = .ok p → tagLinesClosed Generated.endRe p.1 = true) ∧
  (∀ p, headerParts c replace info (Py.replace text ['\n'] ['\n']) = .ok p →
    (encodeUtf8 (headPart p.1 p.2.1)).length ≤ 4096 ∧ '\r' ∉ headPart p.1 p.2.1) ∧
  noIgnoreStart (decodedText (window (encodeUtf8 out))) = true ∧
  (∀ x ∈ (extractRaw (decodedText (window (encodeUtf8 out)))).lic, c.parses x = true)

/-- **…and lint reads it back.**  Exit status 0 ⇒ for every attempted path `t` with "\n" line
    endings and no byte order mark, what `reuse_info_of_file` — the function `reuse lint` calls on
    the *bytes* of the file — yields for the bytes the command left at `t` declares every requested
    copyright line and licence expression; under the hypotheses of `C07_lint_reads_back` on the
    written text (`LintReadable`: the header block is a block of closed tag lines, it ends within
    lint's 4096-byte window, no ignore region opens and every expression in the window parses —
    each failing exactly for a documented finding of C07). -/
theorem C07_e2e_lint_reads_back (w : AE.World) (o : Opts) (fs : Fs) (ps : List Path) (p t : Path) (txt : Text)
    (hc : clickRejects w o = false)
    (hpre : preflight (envOf w o fs) (argsOf o) fs = .ok ps) (hsep : Separate ps) (hwf : ∀ q ∈ ps, WfPath q)
    (hnl : ∀ q ∈ ps, ∀ x ∈ writeSet q, Fs.isLink fs x = false)
    (hexit : (annotateE2E w o fs).2 = 0)
    (hp : p ∈ ps) (hatt : attempt (envOf w o fs) (argsOf o) fs p = some (t, txt))
    (hmerge : o.mergeCopyrights = false) (hnorm : ∀ x, w.normLic (w.normLic x) = w.normLic x)
    (hbom : dropBom txt = txt) (hle : detectLineEnding txt = ['\n'])
    (hread : ∀ s out, styleFor o t = some s →
      annotateText (cfgFor w o fs s) (!o.noReplace) false (requested w o) txt = .written out →
      LintReadable (cfgFor w o fs s) (!o.noReplace) (requested w o) txt out)
    (hsome : (requested w o).cpr ≠ [] ∨ (requested w o).lic ≠ []) :
    ∃ out, (annotateE2E w o fs).1 t = some (.file out) ∧
      Declares w.normLic (infoOfFile w.parses (encodeUtf8 out)) (requested w o).cpr (requested w o).lic := by
  obtain ⟨hu, hnr⟩ := (C11.C11_e2e_exit w o fs ps hc hpre hsep hwf hnl).2.mp hexit p hp t txt hatt
  have hfin := C11.C11_e2e_each_alone w o fs ps p t txt hc hpre hsep hwf hp
    (hnl p hp _ (by simp [writeSet])) hatt
  cases hb : build w o (tmplOf w o fs) t txt with
  | error e =>
    rcases (build_error_iff w o fs t txt).mp ⟨e, hb⟩ with h | h
    · rw [hu] at h; cases h
    · exact (hnr h).elim
  | ok out =>
    rw [hb] at hfin
    obtain ⟨s, out', hs, hA, hout⟩ := build_ok_text hb
    rw [hbom] at hA
    have hb0 : bomOf txt = [] := by
      cases txt with
      | nil => rfl
      | cons ch rest =>
        unfold dropBom at hbom
        unfold bomOf
        by_cases hch : (ch == bomChar) = true
        · simp only [hch, if_true] at hbom
          have := congrArg List.length hbom
          simp at this
        · simp [hch]
    rw [hb0, List.nil_append] at hout
    subst hout
    obtain ⟨h1, h2, h3, h4⟩ := hread s out hs hA
    exact ⟨out, hfin, C07_lint_reads_back (cfgFor w o fs s) (!o.noReplace) false (requested w o) txt out
      hmerge hnorm hle hA h1 h2 h3 h4 hsome⟩

/-! ### non-vacuity: `reuse annotate -c "Jane Doe <jane@example.org>" -y 2020 -l MIT -l "GPL-2.0-or-later OR (…)"
--contributor … a.py` on a tree holding `a.py` — the hypotheses of `C07_e2e_readback` hold together,
exit status 0 included (derived from `C07_default_achievable`, the extraction itself is not
kernel-evaluated) -/

def e2eWorld : AE.World where
  curYear := "2026".toList
  parses := fun _ => true
  normLic := id
  binary := fun _ => false
  unreadable := fun _ => false
  below := fun _ => []
  renderOf := fun _ _ => []

def e2eOpts : Opts where
  copyrights := ["Jane Doe <jane@example.org>".toList]
  licenses := ["MIT".toList, "GPL-2.0-or-later OR (Apache-2.0 AND BSD-3-Clause)".toList]
  contributors := ["Jane Doe <jane@example.org>".toList]
  years := ["2020".toList]
  excludeYear := false
  prefixKey := none
  style := none
  template := none
  mergeCopyrights := false
  single := false
  multi := false
  recursive := false
  noReplace := false
  forceDot := false
  fallbackDot := false
  skipUnrec := false
  skipExisting := false
  paths := ["a.py".toList]

def e2eFs : Fs := Fs.ofList [("a.py".toList, .file "x = 1\n".toList)]

theorem e2e_example_hyps :
    clickRejects e2eWorld e2eOpts = false ∧
    (preflight (envOf e2eWorld e2eOpts e2eFs) (argsOf e2eOpts) e2eFs).toOption = some ["a.py".toList] ∧
    Separate ["a.py".toList] ∧ (∀ q ∈ ["a.py".toList], WfPath q) ∧
    (∀ q ∈ ["a.py".toList], ∀ x ∈ writeSet q, Fs.isLink e2eFs x = false) ∧
    attempt (envOf e2eWorld e2eOpts e2eFs) (argsOf e2eOpts) e2eFs "a.py".toList = some ("a.py".toList, "x = 1\n".toList) ∧
    requested e2eWorld e2eOpts = exampleRequest := by
  refine ⟨by decide +kernel, by decide +kernel, by decide, by decide, by decide +kernel, by decide +kernel, by decide +kernel⟩

theorem e2e_example_pre :
    preflight (envOf e2eWorld e2eOpts e2eFs) (argsOf e2eOpts) e2eFs = .ok ["a.py".toList] := by
  have hpre := e2e_example_hyps.2.1
  cases h : preflight (envOf e2eWorld e2eOpts e2eFs) (argsOf e2eOpts) e2eFs with
  | error e => rw [h] at hpre; cases hpre
  | ok ps => rw [h] at hpre; simp only [Except.toOption, Option.some.injEq] at hpre; rw [hpre]

/-- … and the command exits with status 0 on it -/
theorem e2e_example_exit : (annotateE2E e2eWorld e2eOpts e2eFs).2 = 0 := by
  obtain ⟨hc, -, hsep, hwf, hnl, hatt, hreq⟩ := e2e_example_hyps
  have hpre' := e2e_example_pre
  rw [(C11.C11_e2e_exit e2eWorld e2eOpts e2eFs _ hc hpre' hsep hwf hnl).2]
  intro p hp t txt ha
  simp only [List.mem_cons, List.not_mem_nil, or_false] at hp
  subst hp
  rw [hatt] at ha
  simp only [Option.some.injEq, Prod.mk.injEq] at ha
  obtain ⟨rfl, rfl⟩ := ha
  refine ⟨rfl, ?_⟩
  rintro ⟨s, e, hs, he⟩
  have hname : commentStyleName "a.py".toList = some "PythonCommentStyle" := by decide +kernel
  obtain ⟨sty, hsty⟩ := Option.isSome_iff_exists.mp python_style_exists
  have hs' : s = C07A.styleNamed "PythonCommentStyle" := by
    simp only [styleFor, writtenStyle, forced, e2eOpts, Option.bind_none, genStyleOf, hname, Option.bind_some, hsty,
      Option.orElse] at hs
    simp only [C07A.styleNamed, hsty, Option.getD_some]
    cases hs; rfl
  subst hs'
  have hold : oldHeader (cfgFor e2eWorld e2eOpts e2eFs (C07A.styleNamed "PythonCommentStyle")) (!e2eOpts.noReplace)
      (workText "x = 1\n".toList) = [] := by decide +kernel
  rw [hold, hreq] at he
  obtain ⟨h, hok, -⟩ := C07_default_achievable (cfgFor e2eWorld e2eOpts e2eFs (C07A.styleNamed "PythonCommentStyle"))
    exampleRequest .single (C07A.styleNamed_mem _ python_style_exists) rfl rfl (by decide +kernel) C07_example_request
    (by decide +kernel)
  have : createHeader (cfgFor e2eWorld e2eOpts e2eFs (C07A.styleNamed "PythonCommentStyle")) exampleRequest [] = .ok h := by
    unfold createHeader
    simpa [cfgFor, hdrCfg, e2eOpts] using hok
  rw [this] at he
  cases he

-- `C07_e2e_readback` and `C07_e2e_written_is_lint_source` applied to it
example : ∃ s pre hdr post, styleFor e2eOpts "a.py".toList = some s ∧
    (annotateE2E e2eWorld e2eOpts e2eFs).1 "a.py".toList = some (.file (bomOf "x = 1\n".toList ++
      retranslate (detectLineEnding (dropBom "x = 1\n".toList)) (pre ++ hdr ++ ['\n'] ++ post))) ∧
    (pre = [] ∨ ∃ q, pre = q ++ ['\n']) ∧
    Declares id (extractRaw hdr) exampleRequest.cpr exampleRequest.lic := by
  obtain ⟨hc, -, hsep, hwf, hnl, hatt, hreq⟩ := e2e_example_hyps
  obtain ⟨s, pre, hdr, post, h1, h2, h3, h4, -⟩ := C07_e2e_readback e2eWorld e2eOpts e2eFs _ _ _ _ hc e2e_example_pre
    hsep hwf hnl e2e_example_exit (by simp) hatt rfl (fun _ => rfl)
  rw [hreq] at h4
  exact ⟨s, pre, hdr, post, h1, h2, h3, h4⟩

end E2E

end C07
