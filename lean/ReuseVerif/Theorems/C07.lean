/-
Property C07 — what annotate writes, the linter reads back.
-/
import ReuseVerif.Lemmas.Header

namespace C07
open Py Model

/-- **The guard.**  Whatever the template renders (`c.render` is an arbitrary function: every
    Jinja template), whatever the style, single- or multi-line, commented template or not: a
    header that `_create_new_header` returns reads back — with the tool's own extraction —
    exactly the requested copyright notices and exactly the requested licence expressions
    (compared as the parser normalises them). -/
theorem C07_guard (c : HdrCfg) (info : Extracted) (h : Text)
    (hok : createNewHeader c info = .ok h) :
    (∀ x, x ∈ info.cpr ↔ x ∈ (extractRaw h).cpr) ∧
    (∀ x, x ∈ info.lic.map c.normLic ↔ x ∈ (extractRaw h).lic.map c.normLic) := by
  have hg := (createNewHeader_ok hok).2
  unfold guardOk at hg
  simp only [Bool.and_eq_true] at hg
  exact ⟨sameSet_iff.mp hg.1, sameSet_iff.mp hg.2⟩

/-- A header is never returned when either kind of information cannot be read back. -/
theorem C07_guard_refuses (c : HdrCfg) (info : Extracted) (result : Text)
    (hr : renderedHeader c info = .ok result)
    (hbad : (∃ x, ¬ (x ∈ info.cpr ↔ x ∈ (extractRaw result).cpr)) ∨
            (∃ x, ¬ (x ∈ info.lic.map c.normLic ↔ x ∈ (extractRaw result).lic.map c.normLic))) :
    createNewHeader c info = .error .missingInfo := by
  rw [createNewHeader_eq, hr]
  have : guardOk c info result = false := by
    cases hg : guardOk c info result with
    | false => rfl
    | true =>
      unfold guardOk at hg
      simp only [Bool.and_eq_true] at hg
      rcases hbad with ⟨x, hx⟩ | ⟨x, hx⟩
      · exact (hx (sameSet_iff.mp hg.1 x)).elim
      · exact (hx (sameSet_iff.mp hg.2 x)).elim
  simp [this]

/-- `create_header` on an existing header: the new header reads back everything requested
    **and** everything the old header declared (copyright notices verbatim unless
    `--merge-copyrights`; licence expressions as normalised by the parser, for a normaliser
    that is idempotent). -/
theorem C07_guard_union (c : HdrCfg) (info : Extracted) (header h : Text)
    (hne : header ≠ []) (hmerge : c.merge = false)
    (hnorm : ∀ x, c.normLic (c.normLic x) = c.normLic x)
    (hok : createHeader c info header = .ok h) :
    (∀ x, x ∈ info.cpr ∨ x ∈ (extractRaw header).cpr ↔ x ∈ (extractRaw h).cpr) ∧
    (∀ x, x ∈ (extractRaw header).lic ∨ x ∈ info.lic → c.normLic x ∈ (extractRaw h).lic.map c.normLic) ∧
    (∀ y, y ∈ (extractRaw h).lic → ∃ x, (x ∈ (extractRaw header).lic ∨ x ∈ info.lic) ∧ c.normLic y = c.normLic x) := by
  unfold createHeader at hok
  have he : header.isEmpty = false := by cases header <;> simp_all
  simp only [he, Bool.false_eq_true, if_false] at hok
  by_cases hp : (extractRaw header).lic.all c.parses = true
  · simp only [hp, Bool.not_true, Bool.false_eq_true, if_false, hmerge] at hok
    have hok' : createNewHeader c
        { lic := dedup (((extractRaw header).lic ++ info.lic).map c.normLic),
          con := unionTexts (extractRaw header).con info.con,
          cpr := unionTexts info.cpr (extractRaw header).cpr } = .ok h := hok
    obtain ⟨h1, h2⟩ := C07_guard c _ h hok'
    refine ⟨?_, ?_, ?_⟩
    · intro x; rw [← h1 x]; exact mem_unionTexts.symm
    · intro x hx
      rw [← h2 (c.normLic x)]
      simp only [List.mem_map, mem_dedup, List.mem_append]
      exact ⟨c.normLic x, ⟨x, hx, rfl⟩, hnorm x⟩
    · intro y hy
      have := (h2 (c.normLic y)).mpr (List.mem_map.mpr ⟨y, hy, rfl⟩)
      simp only [List.mem_map, mem_dedup, List.mem_append] at this
      obtain ⟨z, ⟨x, hx, rfl⟩, hz⟩ := this
      exact ⟨x, hx, by rw [← hz, hnorm]⟩
  · simp only [hp, Bool.not_false, if_true] at hok
    cases hok

end C07
