/-
Property C05 — REUSE.toml path globs match exactly the language the
specification defines.  `Model.globMatch` is the model of
`AnnotationsItem.matches` for one glob; `Spec.Narrow` / `Spec.Wide` are the two
readings of the written language (see `Spec/Glob.lean`).
-/
import ReuseVerif.Lemmas.GlobMain

namespace C05
open Py Py.Re Spec Model

/-- Nothing outside the language is ever matched (widest reading), for every
    glob without a lone final backslash and every path of any length. -/
theorem C05_sound (g p : Text) (hwf : wfGlob g = true) (h : globMatch g p = true) : Wide g p :=
  matches_denotes g p hwf ((fullMatch_iff _ _).mp h)

/-- Nothing inside the language is missed (narrowest reading). -/
theorem C05_complete (g p : Text) (h : Narrow g p) : globMatch g p = true :=
  (fullMatch_iff _ _).mpr (denotes_matches h)

/-- The matcher decides exactly the wide reading. -/
theorem C05_exact (g p : Text) (hwf : wfGlob g = true) : globMatch g p = true ↔ Wide g p :=
  ⟨C05_sound g p hwf, fun h => (fullMatch_iff _ _).mpr (denotes_matches h)⟩

/-- An annotation applies exactly when one of its globs matches. -/
theorem C05_any (gs : List Text) (p : Text) :
    itemMatches gs p = true ↔ ∃ g ∈ gs, globMatch g p = true := by
  simp [itemMatches]

/-- `\*` denotes exactly an asterisk: an escaped asterisk never matches anything else. -/
theorem C05_escaped_star_literal (g p : Text) (hwf : wfGlob g = true)
    (h : globMatch ('\\' :: '*' :: g) p = true) : ∃ p', p = '*' :: p' ∧ globMatch g p' = true := by
  have hw := C05_sound _ _ (by simpa [wfGlob] using hwf) h
  generalize hq : ('\\' :: '*' :: g) = q at hw
  cases hw with
  | nil => cases hq
  | esc h' => cases hq; exact ⟨_, rfl, (C05_exact g _ hwf).mpr h'⟩
  | lit _ h2 _ => cases hq; exact absurd rfl h2
  | star _ _ _ => cases hq
  | @globstar n g' s p' hn _ _ =>
    cases n with
    | zero => omega
    | succ k => simp [List.replicate_succ] at hq
  | @globstarDir n g' p' _ hn _ =>
    cases n with
    | zero => omega
    | succ k => simp [List.replicate_succ] at hq

-- Non-vacuity: a concrete glob/path pair meeting the hypotheses.  (The concrete
-- points the pinned suite never visits — `\\*.py` vs `*foo.py`, `**/foo` vs
-- `barfoo`, newline paths … — are in the correspondence corpus, harness/props/c05.py.)
example : wfGlob "src/**/\\*.py".toList = true := by decide
theorem C05_example_narrow : Narrow "*.py".toList "a.py".toList :=
  .star (s := "a".toList) (by decide) (by decide)
    (.lit (by decide) (by decide) (.lit (by decide) (by decide) (.lit (by decide) (by decide) .nil)))
example : globMatch "*.py".toList "a.py".toList = true := C05_complete _ _ C05_example_narrow
example : Wide "**/a".toList "a".toList :=
  .globstarDir (n := 2) rfl (by decide) (.lit (by decide) (by decide) .nil)

end C05
