/-
Property C12 — ignore blocks hide exactly what they enclose.
Property theorems only; helper lemmas live in `ReuseVerif/Lemmas`.
-/
import ReuseVerif.Lemmas.IgnoreMain
import ReuseVerif.Generated.Consts

namespace C12
open Py Spec Model Generated

/-- Table obligation over the *generated* marker strings (re-opened whenever a
    marker is renamed in `src/reuse/extract.py`). -/
theorem C12_markers_disjoint : markersDisjoint ignoreStart ignoreEnd = true := by decide

/-- Main theorem: for every text, `filter_ignore_block` returns exactly what
    the two-state scanner keeps. -/
theorem C12_filter_eq_spec (text : Text) :
    filterIgnore text = specFilter ignoreStart ignoreEnd text :=
  filter_eq_scan _ _ _ C12_markers_disjoint text

/-- The scanner output is the sub-sequence of the text selected by the
    per-character mask: kept characters are exactly those outside blocks, in
    their original order. -/
theorem C12_kept_exact (st en : Text) (ins : Bool) (n : Nat) (text : Text) :
    scan st en ins n text =
      ((text.zip (keptMask st en ins n text)).filter (·.2)).map (·.1) := by
  fun_induction scan st en ins n text <;> simp_all [keptMask]

theorem C12_mask_length (st en : Text) (ins : Bool) (n : Nat) (text : Text) :
    (keptMask st en ins n text).length = text.length := by
  fun_induction keptMask st en ins n text <;> simp_all

/-- A stray end marker (no start marker anywhere) has no effect. -/
theorem C12_stray_end (text : Text) (h : findSub ignoreStart text = none) :
    filterIgnore text = text := by
  rw [C12_filter_eq_spec]; exact scan_out_none h

/-- One closed block: everything between the start marker and the *next* end
    marker disappears together with both markers, whatever it contains (a
    second start marker inside included: blocks do not nest), and filtering
    continues after it (any number of blocks). -/
theorem C12_block (a b c : Text)
    (h1 : findSub ignoreStart (a ++ ignoreStart ++ b ++ ignoreEnd ++ c) = some a.length)
    (h2 : findSub ignoreEnd (b ++ ignoreEnd ++ c) = some b.length) :
    filterIgnore (a ++ ignoreStart ++ b ++ ignoreEnd ++ c) = a ++ filterIgnore c := by
  rw [C12_filter_eq_spec, C12_filter_eq_spec]
  unfold specFilter
  rw [scan_out_some (by decide) h1]
  have e1 : (a ++ ignoreStart ++ b ++ ignoreEnd ++ c).take a.length = a := by
    simp [List.append_assoc]
  have e2 : (a ++ ignoreStart ++ b ++ ignoreEnd ++ c).drop (a.length + ignoreStart.length)
      = b ++ ignoreEnd ++ c := by
    rw [← List.length_append, List.append_assoc (a ++ ignoreStart), List.append_assoc (a ++ ignoreStart),
      List.drop_left]
  rw [e1, e2, scan_in_some (by decide) h2]
  congr 2
  rw [← List.length_append, List.drop_left]

/-- A block that is never closed hides the rest of the text. -/
theorem C12_unclosed (a b : Text)
    (h1 : findSub ignoreStart (a ++ ignoreStart ++ b) = some a.length)
    (h2 : findSub ignoreEnd b = none) :
    filterIgnore (a ++ ignoreStart ++ b) = a := by
  rw [C12_filter_eq_spec]
  unfold specFilter
  rw [scan_out_some (by decide) h1]
  have e1 : (a ++ ignoreStart ++ b).take a.length = a := by simp [List.append_assoc]
  have e2 : (a ++ ignoreStart ++ b).drop (a.length + ignoreStart.length) = b := by
    rw [← List.length_append, List.drop_left]
  rw [e1, e2, scan_in_none h2]; simp

/-- Marker at the very first character is honoured (offset 0 is an index, not
    "no marker"). -/
theorem C12_offset0 (b : Text) (h2 : findSub ignoreEnd b = none) :
    filterIgnore (ignoreStart ++ b) = [] := by
  have := C12_unclosed [] b (by simpa using findSub_prefix_zero (by simp)) h2
  simpa using this

-- Non-vacuity: concrete texts meeting the hypotheses.
example : filterIgnore "a REUSE-IgnoreStart x REUSE-IgnoreStart y REUSE-IgnoreEnd b".toList
    = "a  b".toList := by decide +kernel
example : filterIgnore "REUSE-IgnoreEnd a REUSE-IgnoreStart x".toList
    = "REUSE-IgnoreEnd a ".toList := by decide +kernel
example : filterIgnore "REUSE-IgnoreStart x".toList = [] := by decide +kernel
example : findSub ignoreStart ("a ".toList ++ ignoreStart ++ " x ".toList ++ ignoreEnd ++ " b".toList)
    = some 2 := by decide +kernel

end C12
