/-
Property C18 — the SPDX bill of materials is a faithful, well-formed image of
the project.

The model (`Model/SpdxDoc.lean`) composes the document from the file reports,
the LICENSES/ entries and the option values; the tag-value grammar is the reader
`Spec.readDoc`.  External functions are parameters: sha1 (arrives as the
checksum), md5 (`digest`), boolean.py's `simplify` (arrives as the per-file
answer and is validated per instance by the checker proved correct in
`C18_equiv_sound_complete`), uuid, clock.  Which files are covered and what is
attributed to them is the input (C03/C04; the correspondence check takes both
from `reuse lint --json` and from generator ground truth).
-/
import ReuseVerif.Lemmas.SpdxDoc
import ReuseVerif.Lemmas.BoolExpr
import ReuseVerif.Theorems.C01
import ReuseVerif.Lemmas.SpdxE2E

namespace C18
open Py Model.Spdx Spec Spec.Spdx
open Model hiding generate isLicenseRef Entry

-- ---------------------------------------------------------------- File sections

/-- The file part of the document is a sequence of blocks, one per file report
    and no other (a permutation of the reports' blocks: they are sorted by name),
    between the header with the relationships and the licence sections. -/
theorem C18_sections (p : DocParams) (rs : List FileRep) (ls : List LicEntry) :
    ∃ blocks : List (List Spdx.Entry),
      docEntries p rs ls = header p ++ relEntries rs ++ blocks.flatten ++ (licBlocks ls).flatten
      ∧ blocks.Perm (rs.map fileBlock) :=
  ⟨fileBlocks rs, rfl, (List.mergeSort_perm rs _).map fileBlock⟩

/-- The `FileName` entries of the whole document are exactly the names of the
    reports, each once per report — for any number of reports. -/
theorem C18_file_names (p : DocParams) (rs : List FileRep) (ls : List LicEntry) :
    ((docEntries p rs ls).filter (hasTag tagFileName)).Perm
      (rs.map fun r => ⟨tagFileName, .single r.name⟩) := by
  have h : (docEntries p rs ls).filter (hasTag tagFileName)
      = (sortReports rs).map fun r => ⟨tagFileName, .single r.name⟩ := by
    simp +decide [docEntries, header, relEntries, relEntry, fileBlocks, licBlocks, fileBlock, licBlock,
      hasTag, List.filter_map, List.filter_flatten, Function.comp_def]
  rw [h]
  exact (List.mergeSort_perm rs _).map _

/-- What one File section says: name, SPDXID, checksum and LicenseConcluded of
    the report (once each), one `LicenseInfoInFile` per licence key of the report,
    and the copyright text: the report's lines, or `NONE` when there is none. -/
theorem C18_file_block (r : FileRep) :
    (fileBlock r).filter (hasTag tagFileName) = [⟨tagFileName, .single r.name⟩]
    ∧ (fileBlock r).filter (hasTag tagSpdxId) = [⟨tagSpdxId, .single r.spdxId⟩]
    ∧ (fileBlock r).filter (hasTag tagChecksum) = [⟨tagChecksum, .single (sha1Prefix ++ r.chkSum)⟩]
    ∧ (fileBlock r).filter (hasTag tagConcluded) = [⟨tagConcluded, .single r.concluded⟩]
    ∧ ((fileBlock r).filter (hasTag tagInfoInFile)).Perm (r.keys.map fun k => ⟨tagInfoInFile, .single k⟩)
    ∧ (fileBlock r).filter (hasTag tagCopyright) = [⟨tagCopyright, copyrightValue r.copyright⟩]
    ∧ (r.copyright = [] → copyrightValue r.copyright = .single noneText)
    ∧ (∀ b bs, r.copyright = b :: bs → (b ≠ [] ∨ bs ≠ []) → copyrightValue r.copyright = .text b bs) := by
  refine ⟨?_, ?_, ?_, ?_, ?_, ?_, ?_, ?_⟩
  · simp +decide [fileBlock, hasTag, List.filter_map, Function.comp_def]
  · simp +decide [fileBlock, hasTag, List.filter_map, Function.comp_def]
  · simp +decide [fileBlock, hasTag, List.filter_map, Function.comp_def]
  · simp +decide [fileBlock, hasTag, List.filter_map, Function.comp_def]
  · have : (fileBlock r).filter (hasTag tagInfoInFile)
        = (Spdx.sortTexts r.keys).map fun k => ⟨tagInfoInFile, .single k⟩ := by
      simp +decide [fileBlock, hasTag, List.filter_map, Function.comp_def]
    rw [this]
    exact (List.mergeSort_perm r.keys _).map _
  · simp +decide [fileBlock, hasTag, List.filter_map, Function.comp_def]
  · intro h; rw [h]; rfl
  · intro b bs h hne
    rw [h]
    unfold copyrightValue
    split
    · rename_i heq; cases heq
    · rename_i heq; cases heq; simp at hne
    · rename_i heq; cases heq; rfl

/-- What `FileReport.generate` puts into a report: the given name and checksum,
    every licence key of every expression, the copyright lines (sorted: a
    permutation), and the LicenseConcluded rule. -/
theorem C18_generate (digest : Text → Text) (add : Bool) (i : FileInput) :
    (generate digest add i).name = i.name
    ∧ (generate digest add i).chkSum = i.chk
    ∧ (generate digest add i).spdxId = spdxRefPrefix ++ digest (i.name ++ i.chk)
    ∧ (generate digest add i).keys = i.exprKeys.flatten
    ∧ (generate digest add i).copyright.Perm i.copyrightLines
    ∧ (add = false → (generate digest add i).concluded = noAssertion)
    ∧ (add = true → i.exprKeys = [] → (generate digest add i).concluded = noneText)
    ∧ (add = true → i.exprKeys ≠ [] → (generate digest add i).concluded = i.simplified) := by
  refine ⟨rfl, rfl, rfl, rfl, List.mergeSort_perm _ _, ?_, ?_, ?_⟩
  · intro h; simp [generate, concludedOf, h]
  · intro h he; simp [generate, concludedOf, h, he]
  · intro h he
    cases hk : i.exprKeys with
    | nil => exact absurd hk he
    | cons a as => simp [generate, concludedOf, h, hk]

-- ---------------------------------------------------------------- relationships and identifiers

/-- The `Relationship` entries of the document are exactly one DESCRIBES line per report. -/
theorem C18_describes (p : DocParams) (rs : List FileRep) (ls : List LicEntry) :
    (docEntries p rs ls).filter (hasTag tagRelationship) = relEntries rs
    ∧ (relEntries rs).Perm (rs.map relEntry) := by
  refine ⟨?_, (List.mergeSort_perm rs _).map relEntry⟩
  simp +decide [docEntries, header, relEntries, relEntry, fileBlocks, licBlocks, fileBlock, licBlock,
    hasTag, List.filter_map, List.filter_flatten, Function.comp_def]

theorem relEntry_injective {r r' : FileRep} (h : relEntry r = relEntry r') : r.spdxId = r'.spdxId := by
  simp only [relEntry, Entry.mk.injEq, Value.single.injEq, true_and] at h
  exact List.append_cancel_left h

/-- When the SPDXIDs are pairwise distinct, every report's SPDXID occurs in exactly
    one DESCRIBES relationship of the document. -/
theorem C18_describes_once (p : DocParams) (rs : List FileRep) (ls : List LicEntry)
    (hid : (rs.map (·.spdxId)).Nodup) (r : FileRep) (hr : r ∈ rs) :
    (docEntries p rs ls).count (relEntry r) = 1 := by
  have htag : hasTag tagRelationship (relEntry r) = true := by simp [hasTag, relEntry]
  rw [← List.count_filter htag, (C18_describes p rs ls).1, (C18_describes p rs ls).2.count_eq]
  have hnd : (rs.map relEntry).Nodup := by
    rw [List.nodup_iff_pairwise_ne, List.pairwise_map] at hid ⊢
    exact hid.imp fun hne h => hne (relEntry_injective h)
  rw [hnd.count, if_pos (List.mem_map_of_mem hr)]

/-- `name ++ checksum` determines both parts, because checksums have a fixed length. -/
theorem C18_concat_injective (n₁ c₁ n₂ c₂ : Text) (h₁ : c₁.length = chkLen) (h₂ : c₂.length = chkLen)
    (h : n₁ ++ c₁ = n₂ ++ c₂) : n₁ = n₂ ∧ c₁ = c₂ :=
  List.append_inj' h (h₁.trans h₂.symm)

/-- SPDXIDs are pairwise distinct when file names are, provided the digest is
    injective on the finite set `{name ++ checksum}` of this project. -/
theorem C18_ids_distinct (digest : Text → Text) (add : Bool) (files : List FileInput)
    (hlen : files.all (fun f => f.chk.length == chkLen) = true)
    (hnames : (files.map (·.name)).Nodup)
    (hinj : injOn digest (files.map fun f => f.name ++ f.chk) = true) :
    ((files.map (generate digest add)).map (·.spdxId)).Nodup := by
  rw [List.nodup_iff_pairwise_ne, List.pairwise_map] at hnames
  rw [List.nodup_iff_pairwise_ne, List.pairwise_map, List.pairwise_map]
  refine hnames.imp_of_mem ?_
  intro f g hf hg hne hid
  apply hne
  simp only [generate, spdxIdOf] at hid
  have hd : digest (f.name ++ f.chk) = digest (g.name ++ g.chk) := List.append_cancel_left hid
  have hfm : f.name ++ f.chk ∈ files.map fun f => f.name ++ f.chk := List.mem_map_of_mem hf
  have hgm : g.name ++ g.chk ∈ files.map fun f => f.name ++ f.chk := List.mem_map_of_mem hg
  have := List.all_eq_true.mp (List.all_eq_true.mp hinj _ hfm) _ hgm
  simp only [Bool.or_eq_true, bne_iff_ne, ne_eq, beq_iff_eq] at this
  have heq : f.name ++ f.chk = g.name ++ g.chk := this.resolve_left (fun h => h hd)
  have hl := List.all_eq_true.mp hlen
  exact (C18_concat_injective _ _ _ _ (by simpa using hl f hf) (by simpa using hl g hg) heq).1

-- ---------------------------------------------------------------- LicenseRef- sections

/-- The licence sections are the blocks of exactly the `LicenseRef-` entries, each
    with its identifier and its text. -/
theorem C18_licenseref (p : DocParams) (rs : List FileRep) (ls : List LicEntry) :
    (licBlocks ls).Perm ((ls.filter fun l => isLicenseRef l.ident).map licBlock)
    ∧ (∀ l, licBlock l = [⟨tagLicenseId, .single l.ident⟩, ⟨tagLicenseName, .single noAssertion⟩,
                            ⟨tagExtracted, .text l.first l.rest⟩])
    ∧ (∀ i, (⟨tagLicenseId, .single i⟩ : Spdx.Entry) ∈ docEntries p rs ls ↔
            (isLicenseRef i = true ∧ ∃ l ∈ ls, l.ident = i)) := by
  refine ⟨?_, fun _ => rfl, ?_⟩
  · exact ((List.mergeSort_perm ls _).filter _).map licBlock
  · intro i
    have hf : (docEntries p rs ls).filter (hasTag tagLicenseId)
        = ((sortLics ls).filter fun l => isLicenseRef l.ident).map
            fun l => ⟨tagLicenseId, .single l.ident⟩ := by
      simp +decide [docEntries, header, relEntries, relEntry, fileBlocks, licBlocks, fileBlock, licBlock,
        hasTag, List.filter_map, List.filter_flatten, Function.comp_def]
    have hm : (⟨tagLicenseId, .single i⟩ : Spdx.Entry) ∈ docEntries p rs ls ↔
        (⟨tagLicenseId, .single i⟩ : Spdx.Entry) ∈ (docEntries p rs ls).filter (hasTag tagLicenseId) := by
      simp [List.mem_filter, hasTag]
    rw [hm, hf]
    simp only [List.mem_map, List.mem_filter, Entry.mk.injEq, Value.single.injEq, true_and]
    constructor
    · rintro ⟨l, ⟨hl, href⟩, rfl⟩
      exact ⟨href, l, mem_sortLics.mp hl, rfl⟩
    · rintro ⟨href, l, hl, rfl⟩
      exact ⟨l, ⟨mem_sortLics.mpr hl, href⟩, rfl⟩

-- ---------------------------------------------------------------- tag-value

/-- Under the side condition the written lines are read back by the tag-value
    grammar as exactly the document's entries; in particular they are accepted. -/
theorem C18_wellformed (p : DocParams) (rs : List FileRep) (ls : List LicEntry)
    (h : docOk p rs ls = true) :
    readDoc (docLines p rs ls) = some (docEntries p rs ls)
    ∧ isTagValueDoc (docLines p rs ls) = true := by
  have := read_doc h
  exact ⟨this, by simp [isTagValueDoc, this]⟩

/-- …and the model's lines are the physical lines of the text written: none
    contains a line feed, and the text is every line followed by one. -/
theorem C18_lines_physical (p : DocParams) (rs : List FileRep) (ls : List LicEntry)
    (h : docOk p rs ls = true) :
    (∀ l ∈ docLines p rs ls, noBreak l = true)
    ∧ docText p rs ls = (docLines p rs ls).flatMap (· ++ nl) :=
  ⟨docLines_noBreak h, rfl⟩

-- ---------------------------------------------------------------- creator requirement

/-- `--add-license-concluded` without any creator is a usage error and nothing is
    written; every other option combination yields the document. -/
theorem C18_creator (digest : Text → Text) (add : Bool) (p : DocParams) (files : List FileInput)
    (ls : List LicEntry) :
    (spdxCmd digest add p files ls = .usageError ↔
        (add = true ∧ p.person = none ∧ p.organization = none))
    ∧ (¬ (add = true ∧ p.person = none ∧ p.organization = none) →
        spdxCmd digest add p files ls = .document (docText p (files.map (generate digest add)) ls)) := by
  unfold spdxCmd
  cases add <;> cases p.person <;> cases p.organization <;> simp

-- ---------------------------------------------------------------- LicenseConcluded: the certified checker

/-- The executable checker decides logical equivalence: it answers `true` exactly
    when both sides evaluate alike under every truth assignment of the licence
    symbols — any number of symbols, any nesting. -/
theorem C18_equiv_sound_complete (a b : BoolExpr) :
    BoolExpr.equiv a b = true ↔ ∀ σ : Text → Bool, BoolExpr.eval σ a = BoolExpr.eval σ b :=
  BoolExpr.equiv_iff a b

/-- The conjunction the checker compares against means "every expression holds". -/
theorem C18_conj_eval (σ : Text → Bool) (e : BoolExpr) (es : List BoolExpr) :
    BoolExpr.eval σ (BoolExpr.conj e es) = (BoolExpr.eval σ e && es.all (BoolExpr.eval σ)) := by
  induction es generalizing e with
  | nil => simp [BoolExpr.conj]
  | cons f fs ih => simp [BoolExpr.conj, ih, BoolExpr.eval, Bool.and_assoc]

/-- Hence an accepted LicenseConcluded holds under an assignment iff all of the
    file's expressions do. -/
theorem C18_concluded_valid (c e : BoolExpr) (es : List BoolExpr)
    (h : BoolExpr.equiv c (BoolExpr.conj e es) = true) (σ : Text → Bool) :
    BoolExpr.eval σ c = (e :: es).all (BoolExpr.eval σ) := by
  rw [(C18_equiv_sound_complete _ _).mp h σ, C18_conj_eval]; rfl

-- ---------------------------------------------------------------- the composed model: `reuse spdx` from the tree

/-! `Model.spdxE2E` (Model/SpdxE2E.lean) builds the document from the *tree*: the file reports are those of
the composed lint model (`Model.filesOf`: C03 walk, own source, REUSE.toml chain, extraction, C04
attribution), the licence texts are the bytes of the files `findLicenses` recorded below LICENSES/, decoded
with replacement.  The theorems below are composition corollaries of the C18 theorems above with
`C01_e2e_files` / `C01_e2e_attribution` / `C01_e2e_licences`.  Oracles (fields of `SpdxOracles`): sha1, md5,
license-expression's `==` / `str`, boolean.py's simplify.  Hypotheses: `KeysRespectEq` (equal expressions
mention the same identifiers; evaluated per case by the driver, `C18_e2e_hyp`), `plainNames` (C06). -/

section E2E
variable {tbl : LicenseMap} {c : E2ECfg} {o : SpdxOracles} {g : GlobalLic} {tree : ETree} {add : Bool}
  {p : DocParams}

/-- How `reuse spdx` ends on a tree. -/
theorem C18_e2e_outcome (tbl : LicenseMap) (c : E2ECfg) (o : SpdxOracles) (add : Bool) (p : DocParams) (tree : ETree) :
    (spdxE2E tbl c o add p tree = .usageError ↔ (add = true ∧ p.person = none ∧ p.organization = none)) ∧
    (∀ t, spdxE2E tbl c o add p tree = .document t ↔
      ¬ (add = true ∧ p.person = none ∧ p.organization = none) ∧
      ∃ g fd, globalOf c tree = some g ∧ findLicenses tbl (licFilesOf tree) = some fd ∧
        t = docText p (spdxReps c o add g tree) (spdxLics tree fd)) := by
  unfold spdxE2E spdxCmd spdxReps
  cases add <;> cases hp : p.person <;> cases ho : p.organization <;>
    cases hg : globalOf c tree <;> cases hf : findLicenses tbl (licFilesOf tree) <;>
    simp [eq_comm]


/-- The File sections of the composed document: between the header with the relationships and the
    licence sections, one block per file of `spdxFiles` (a permutation: they are sorted by name) —
    and those files are exactly the covered files of the tree (`Spec.Covered`, C03) whose report can be
    generated.  Composition of `C18_sections` with `C01_e2e_files` / `C03_walk`. -/
theorem C18_e2e_sections (ls : List LicEntry) :
    (∃ blocks : List (List Spdx.Entry),
      docEntries p (spdxReps c o add g tree) ls
        = header p ++ relEntries (spdxReps c o add g tree) ++ blocks.flatten ++ (licBlocks ls).flatten
      ∧ blocks.Perm ((spdxFiles c g tree).map fun f => fileBlock (Spdx.generate o.md5 add (fileInputOf c o tree f))))
    ∧ ∀ q, q ∈ (spdxFiles c g tree).map (·.path) ↔
        (Covered (c.walk false) "" (toNodes tree) q ∧ ReadableT c g tree q) := by
  refine ⟨?_, fun q => ?_⟩
  · obtain ⟨blocks, h1, h2⟩ := C18_sections p (spdxReps c o add g tree) ls
    refine ⟨blocks, h1, ?_⟩
    simpa [spdxReps, spdxInputs, List.map_map, Function.comp_def] using h2
  · rw [mem_spdxFiles_paths, ReportedT, C01.C01_e2e_covered]

/-- The `FileName` entries of the whole document: one per file of `spdxFiles`, named `./` + the path
    relative to the *root*; a name occurs iff it is that of a covered file whose report can be generated. -/
theorem C18_e2e_file_names (ls : List LicEntry) :
    ((docEntries p (spdxReps c o add g tree) ls).filter (hasTag tagFileName)).Perm
        ((spdxFiles c g tree).map fun f => ⟨tagFileName, .single (spdxName f.path)⟩)
    ∧ ∀ n, (⟨tagFileName, .single n⟩ : Spdx.Entry) ∈ docEntries p (spdxReps c o add g tree) ls ↔
        ∃ q, Covered (c.walk false) "" (toNodes tree) q ∧ ReadableT c g tree q ∧ n = spdxName q := by
  have hperm : ((docEntries p (spdxReps c o add g tree) ls).filter (hasTag tagFileName)).Perm
      ((spdxFiles c g tree).map fun f => ⟨tagFileName, .single (spdxName f.path)⟩) := by
    have := C18_file_names p (spdxReps c o add g tree) ls
    simpa [spdxReps, spdxInputs, List.map_map, Function.comp_def, Spdx.generate, fileInputOf] using this
  refine ⟨hperm, fun n => ?_⟩
  have hm : (⟨tagFileName, .single n⟩ : Spdx.Entry) ∈ docEntries p (spdxReps c o add g tree) ls ↔
      (⟨tagFileName, .single n⟩ : Spdx.Entry) ∈ (docEntries p (spdxReps c o add g tree) ls).filter (hasTag tagFileName) := by
    simp [List.mem_filter, hasTag]
  rw [hm, hperm.mem_iff]
  simp only [List.mem_map, Entry.mk.injEq, Value.single.injEq, true_and]
  constructor
  · rintro ⟨f, hf, rfl⟩
    obtain ⟨q, ⟨hc, hr⟩, rfl⟩ := mem_spdxFiles.mp hf
    exact ⟨q, (C01.C01_e2e_covered q).mp hc, hr, rfl⟩
  · rintro ⟨q, hc, hr, rfl⟩
    exact ⟨_, mem_spdxFiles.mpr ⟨q, ⟨(C01.C01_e2e_covered q).mpr hc, hr⟩, rfl⟩, rfl⟩

/-- `reuse spdx` and `reuse lint` walk the same project: the File sections are for the files of the
    composed lint report's `files` list, in the same order. -/
theorem C18_e2e_same_files_as_lint {files : List EFile} {r : Report}
    (hg : globalOf c tree = some g) (h : lintE2E tbl c tree = .ok files r) :
    r.fileReports.map (·.path) = (spdxFiles c g tree).map fun f => relText f.path := by
  obtain ⟨g', hg', hgen, _⟩ := lintE2E_ok h
  rw [hg] at hg'; cases hg'
  obtain ⟨fd, _, rfl⟩ := split_generate hgen
  rw [spdxFiles_eq_fileReports, List.map_map]
  rfl

/-- One DESCRIBES relationship per file of the document, and no other relationship. -/
theorem C18_e2e_describes (ls : List LicEntry) :
    (docEntries p (spdxReps c o add g tree) ls).filter (hasTag tagRelationship) = relEntries (spdxReps c o add g tree)
    ∧ (relEntries (spdxReps c o add g tree)).Perm
        ((spdxFiles c g tree).map fun f => relEntry (Spdx.generate o.md5 add (fileInputOf c o tree f))) := by
  obtain ⟨h1, h2⟩ := C18_describes p (spdxReps c o add g tree) ls
  refine ⟨h1, ?_⟩
  simpa [spdxReps, spdxInputs, List.map_map, Function.comp_def] using h2

/-- What the report of the covered file `q` holds: its name relative to the root, the SHA-1 of its own
    bytes (never the sibling's), the SPDXID over both; the licence identifiers and the copyright lines
    are what the sources-and-precedence rules (C04, `C01_e2e_attribution`) attribute to `q` — the lines
    without the blank ones, in Python's sort order; LicenseConcluded by the three-way rule. -/
theorem C18_e2e_file_report (q : List String) :
    let r := Spdx.generate o.md5 add (fileInputOf c o tree (fileOf c g tree q))
    r.name = spdxName q
    ∧ r.chkSum = o.sha1 (contentAt tree q)
    ∧ r.spdxId = spdxRefPrefix ++ o.md5 (spdxName q ++ o.sha1 (contentAt tree q))
    ∧ (KeysRespectEq c o ((fileOf c g tree q).infos.flatMap (·.lic)) → ∀ k, k ∈ r.keys ↔ LicKeyT c g tree q k)
    ∧ (∀ l, l ∈ r.copyright ↔ NoticeT c g tree q l)
    ∧ r.copyright.Pairwise (fun a b => a ≤ b)
    ∧ (add = false → r.concluded = noAssertion)
    ∧ (add = true → ¬ HasExprT c g tree q → r.concluded = noneText)
    ∧ (add = true → HasExprT c g tree q →
        r.concluded = o.simplify (joinedExprs o (exprsOf o (fileOf c g tree q)))) := by
  intro r
  obtain ⟨_, _, _, _, _, hno, hnone, hsimp⟩ := C18_generate o.md5 add (fileInputOf c o tree (fileOf c g tree q))
  refine ⟨rfl, rfl, rfl, fun hk k => mem_keys_iff add q k hk, fun l => mem_copyright_iff add q l,
    copyright_sorted _ _ _, hno, ?_, ?_⟩
  · intro ha hne; exact hnone ha ((exprKeys_nil_iff q).mpr hne)
  · intro ha he
    exact hsimp ha (fun hnil => (exprKeys_nil_iff q).mp hnil he)


/-- The File section of `q` shows that: a `LicenseInfoInFile` entry per attributed identifier and no
    other, and `FileCopyrightText` is `NONE` exactly when no notice is attributed to `q`. -/
theorem C18_e2e_file_section (q : List String)
    (hk : KeysRespectEq c o ((fileOf c g tree q).infos.flatMap (·.lic))) :
    let r := Spdx.generate o.md5 add (fileInputOf c o tree (fileOf c g tree q))
    (∀ k, (⟨tagInfoInFile, .single k⟩ : Spdx.Entry) ∈ fileBlock r ↔ LicKeyT c g tree q k)
    ∧ (fileBlock r).filter (hasTag tagCopyright) = [⟨tagCopyright, copyrightValue r.copyright⟩]
    ∧ (copyrightValue r.copyright = .single noneText ↔ ¬ ∃ l, NoticeT c g tree q l) := by
  intro r
  obtain ⟨_, _, _, _, hinfo, hcop, hnil, hcons⟩ := C18_file_block r
  refine ⟨fun k => ?_, hcop, ?_⟩
  · have hm : (⟨tagInfoInFile, .single k⟩ : Spdx.Entry) ∈ fileBlock r ↔
        (⟨tagInfoInFile, .single k⟩ : Spdx.Entry) ∈ (fileBlock r).filter (hasTag tagInfoInFile) := by
      simp [List.mem_filter, hasTag]
    rw [hm, hinfo.mem_iff, ← (C18_e2e_file_report (c := c) (o := o) (g := g) (tree := tree) (add := add) q).2.2.2.1 hk k]
    simp only [List.mem_map, Entry.mk.injEq, Value.single.injEq, true_and, exists_eq_right]
    rfl
  · have hmem := (C18_e2e_file_report (c := c) (o := o) (g := g) (tree := tree) (add := add) q).2.2.2.2.1
    constructor
    · rintro hv ⟨l, hl⟩
      have hlm : l ∈ r.copyright := (hmem l).mpr hl
      obtain ⟨it, _, _, hb, rfl⟩ := hl
      cases hc : r.copyright with
      | nil => rw [hc] at hlm; cases hlm
      | cons b bs =>
        have hne : b ≠ [] ∨ bs ≠ [] := by
          by_cases hb0 : b = []
          · subst hb0
            -- the empty line would be a blank attributed line
            have : ([] : Text) ∈ r.copyright := by rw [hc]; exact List.mem_cons_self
            obtain ⟨it', _, _, hb', he⟩ := (hmem []).mp this
            have : isBlankStr it'.value = true := by
              have h0 : it'.value.toList = [] := he.symm
              simp [isBlankStr, h0, Py.strip, Py.rstrip, Py.lstrip]
            rw [this] at hb'; cases hb'
          · exact .inl hb0
        rw [hcons b bs hc hne] at hv
        cases hv
    · intro hno
      apply hnil
      rw [List.eq_nil_iff_forall_not_mem]
      intro l hl
      exact hno ⟨l, (hmem l).mp hl⟩

/-- The licence sections of the composed document: a `LicenseID` entry for exactly the `LicenseRef-`
    identifiers carried by the files below LICENSES/ (used or not); with the tree-level reading of
    `C01_e2e_licences`: regular files at any depth below the directory LICENSES, no component hidden.
    Each section holds the text of its file, decoded with replacement, line ends folded. -/
theorem C18_e2e_licenseref_partial {fd : Found} (rs : List FileRep)
    (hp : plainNames tbl (licFilesOf tree) = true)
    (hf : findLicenses tbl (licFilesOf tree) = some fd) :
    (∀ i, (⟨tagLicenseId, .single i⟩ : Spdx.Entry) ∈ docEntries p rs (spdxLics tree fd) ↔
        (Spdx.isLicenseRef i = true ∧ ∃ path, Provides tbl (licFilesOf tree) i path))
    ∧ (∀ cs, elookup tree "LICENSES" = some (.dir cs) → ∀ i path, Provides tbl (licFilesOf tree) i path ↔
        ((∃ rel, LicIn cs rel ∧ path = relText ("LICENSES" :: rel)) ∧ isLicFile path = true ∧
          (carried tbl (pathName path)).1 = i))
    ∧ (∀ l ∈ spdxLics tree fd, ∃ path, Provides tbl (licFilesOf tree) l.ident path ∧
        (l.first, l.rest) = licTextLines (licContent tree path)) := by
  refine ⟨fun i => ?_, fun cs hd i path => ?_, fun l hl => ?_⟩
  · rw [(C18_licenseref p rs (spdxLics tree fd)).2.2 i]
    constructor
    · rintro ⟨href, l, hl, rfl⟩
      obtain ⟨e, he, rfl⟩ := mem_spdxLics.mp hl
      exact ⟨href, e.2, (mem_licenses_iff hp hf _ _).mp he⟩
    · rintro ⟨href, path, hpv⟩
      exact ⟨href, licEntryOf tree (i, path), mem_spdxLics.mpr ⟨(i, path), (mem_licenses_iff hp hf _ _).mpr hpv, rfl⟩, rfl⟩
  · unfold Provides
    rw [C01.C01_e2e_licences hd]
  · obtain ⟨e, he, rfl⟩ := mem_spdxLics.mp hl
    exact ⟨e.2, (mem_licenses_iff hp hf _ _).mp he, rfl⟩

/-- Well-formedness of what `reuse spdx` writes for a tree: when the side condition `docOk` holds for
    the composed reports and licence texts, the text is the model's physical lines, each followed by a
    line feed, none containing one, and the tag-value grammar reads them back as the document's entries. -/
theorem C18_e2e_wellformed {t : Text} (h : spdxE2E tbl c o add p tree = .document t) :
    ∃ g fd, globalOf c tree = some g ∧ findLicenses tbl (licFilesOf tree) = some fd ∧
      t = docText p (spdxReps c o add g tree) (spdxLics tree fd) ∧
      (docOk p (spdxReps c o add g tree) (spdxLics tree fd) = true →
        readDoc (docLines p (spdxReps c o add g tree) (spdxLics tree fd))
            = some (docEntries p (spdxReps c o add g tree) (spdxLics tree fd))
        ∧ isTagValueDoc (docLines p (spdxReps c o add g tree) (spdxLics tree fd)) = true
        ∧ (∀ l ∈ docLines p (spdxReps c o add g tree) (spdxLics tree fd), noBreak l = true)
        ∧ t = (docLines p (spdxReps c o add g tree) (spdxLics tree fd)).flatMap (· ++ nl)) := by
  obtain ⟨_, g, fd, hg, hf, rfl⟩ := ((C18_e2e_outcome tbl c o add p tree).2 t).mp h
  refine ⟨g, fd, hg, hf, rfl, fun hok => ?_⟩
  obtain ⟨h1, h2⟩ := C18_wellformed _ _ _ hok
  obtain ⟨h3, h4⟩ := C18_lines_physical _ _ _ hok
  exact ⟨h1, h2, h3, h4⟩

/-- The creator requirement on the tree: the option check precedes everything else. -/
theorem C18_e2e_creator :
    spdxE2E tbl c o add p tree = .usageError ↔ (add = true ∧ p.person = none ∧ p.organization = none) :=
  (C18_e2e_outcome tbl c o add p tree).1

/-- the decidable form of the oracle hypothesis implies it -/
theorem C18_e2e_hyp {es : List String} (h : keysRespectEqB c o es = true) : KeysRespectEq c o es := by
  intro a ha b hb hkey k
  have := List.all_eq_true.mp (List.all_eq_true.mp h a ha) b hb
  simp only [Bool.or_eq_true, bne_iff_ne, ne_eq, Bool.and_eq_true, List.all_eq_true, List.contains_eq_mem,
    decide_eq_true_eq] at this
  rcases this with hne | ⟨h1, h2⟩
  · exact absurd hkey hne
  · exact ⟨h1 k, h2 k⟩

/-- File sections ↔ covered files is a bijection: in a tree whose directories hold no name twice, a covered
    file whose report can be generated is the path of exactly one file of the document, any other path of none. -/
theorem C18_e2e_files_once (hwf : wfEntries tree) (q : List String) :
    ((Covered (c.walk false) "" (toNodes tree) q ∧ ReadableT c g tree q) →
      ((spdxFiles c g tree).map (·.path)).count q = 1) ∧
    (¬ (Covered (c.walk false) "" (toNodes tree) q ∧ ReadableT c g tree q) →
      ((spdxFiles c g tree).map (·.path)).count q = 0) := by
  have hiff : q ∈ (spdxFiles c g tree).map (·.path) ↔
      (Covered (c.walk false) "" (toNodes tree) q ∧ ReadableT c g tree q) := by
    rw [mem_spdxFiles_paths, ReportedT, C01.C01_e2e_covered]
  rw [(spdxFiles_paths_nodup hwf).count]
  constructor
  · intro h; rw [if_pos (hiff.mpr h)]
  · intro h; rw [if_neg (fun hm => h (hiff.mp hm))]

/-- ... and distinct files have distinct `FileName`s (names non-empty and slash-free, as on any file
    system), hence — `C18_ids_distinct` — distinct SPDXIDs when sha1 answers with 40 characters and md5 is
    injective on the finite set `{name ++ checksum}` of this project. -/
theorem C18_e2e_ids_distinct (hwf : wfEntries tree) (hgood : ∀ q, CoveredT c tree q → goodNames q)
    (hlen : ∀ q, CoveredT c tree q → (o.sha1 (contentAt tree q)).length = chkLen)
    (hinj : injOn o.md5 ((spdxInputs c o g tree).map fun f => f.name ++ f.chk) = true) :
    ((spdxFiles c g tree).map fun f => spdxName f.path).Nodup ∧
    ((spdxReps c o add g tree).map (·.spdxId)).Nodup := by
  have hcov : ∀ f ∈ spdxFiles c g tree, CoveredT c tree f.path := by
    intro f hf
    obtain ⟨q, ⟨hc, _⟩, rfl⟩ := mem_spdxFiles.mp hf
    exact hc
  have hnames : ((spdxFiles c g tree).map fun f => spdxName f.path).Nodup := by
    have h0 := spdxFiles_paths_nodup (c := c) (g := g) hwf
    rw [List.nodup_iff_pairwise_ne, List.pairwise_map] at h0 ⊢
    refine h0.imp_of_mem ?_
    intro a b ha hb hne heq
    apply hne
    have hpa : a.path ≠ [] := by
      have := (C01.C01_e2e_covered a.path).mp (hcov a ha)
      obtain ⟨_, _, hne', _⟩ := this
      exact hne'
    exact spdxName_inj hpa (hgood _ (hcov a ha)) (hgood _ (hcov b hb)) heq
  refine ⟨hnames, ?_⟩
  unfold spdxReps
  apply C18_ids_distinct o.md5 add (spdxInputs c o g tree) ?_ ?_ hinj
  · simp only [spdxInputs, List.all_map, List.all_eq_true, Function.comp, fileInputOf, beq_iff_eq]
    intro f hf
    exact hlen _ (hcov f hf)
  · simpa [spdxInputs, List.map_map, Function.comp_def, fileInputOf] using hnames

end E2E

-- ---------------------------------------------------------------- non-vacuity

def exParams : DocParams :=
  { docName := ['p'], uuid := ['u'], created := ['c'], version := ['1'], person := some ['J', ' ', '(', 'x', ')'],
    organization := none }
def exRep : FileRep :=
  { name := ['.', '/', 'a', ' ', 'b'], spdxId := ['S', '-', '1'], chkSum := ['0'], keys := [['M', 'I', 'T']],
    concluded := ['M', 'I', 'T'], copyright := [['2', '0', ' ', '<', 'a', '>'], ['x']] }
def exLic : LicEntry := { ident := licenseRefPrefix ++ ['a'], first := ['t'], rest := [[], ['<', '/', 't']] }

example : docOk exParams [exRep] [exLic] = true := by decide
example : isLicenseRef exLic.ident = true := by decide
example : docOk exParams [{ exRep with name := ['a', '\n'] }] [] = false := by decide
example : docOk exParams [] [{ exLic with first := textClose }] = false := by decide
example : injOn id [['a'], ['b']] = true := by decide
example : injOn (fun _ => []) [['a'], ['b']] = false := by decide
example : ([exRep].map (·.spdxId)).Nodup := by decide
def exFiles : List FileInput :=
  [{ name := ['.', '/', 'a'], chk := List.replicate 40 '0', exprKeys := [[['M', 'I', 'T']]], simplified := ['M', 'I', 'T'],
     copyrightLines := [['x']] },
   { name := ['.', '/', 'b'], chk := List.replicate 40 '0', exprKeys := [], simplified := [], copyrightLines := [] }]
example : exFiles.all (fun f => f.chk.length == chkLen) = true := by decide
example : (exFiles.map (·.name)).Nodup := by decide
example : injOn id (exFiles.map fun f => f.name ++ f.chk) = true := by decide
example : BoolExpr.equiv (.and (.atom ['a']) (.or (.atom ['a']) (.atom ['b']))) (.atom ['a']) = true := by decide
example : BoolExpr.equiv (.or (.atom ['a']) (.atom ['b'])) (.atom ['a']) = false := by decide

-- the composed statements: the oracle hypothesis is satisfiable (and its decidable form evaluates), and the
-- composed command yields a document
def exOracles : SpdxOracles :=
  { sha1 := fun _ => List.replicate 40 '0', md5 := id, exprKey := String.toList, render := String.toList, simplify := id }
example (c : E2ECfg) (es : List String) : KeysRespectEq c exOracles es := by
  intro a _ b _ h k
  have : a = b := String.toList_inj.mp h
  rw [this]
example (c : E2ECfg) : keysRespectEqB c exOracles ["MIT", "0BSD"] = true := by
  simp [keysRespectEqB, exOracles]
example (c : E2ECfg) (o : SpdxOracles) (p : DocParams) :
    spdxE2E spdxTable c o false p [("l", .symlink .dangling)] = .document (docText p [] []) := by
  simp [spdxE2E, spdxCmd, globalOf, hasDep5, subtree, elookup, tomlFiles, iterFiles, toNodes, ENode.toNode, walkList,
    walkNode, spdxInputs, spdxFiles, spdxLics, filesOf, coveredFiles, licFilesOf, licPathsOf, findLicenses, findLoop]

-- the text of a licence reached through symbolic links is the bytes of what the links resolve to
example : licContent [("LICENSES", .dir [("MIT.txt", .symlink (.file [77])),
      ("shared", .symlink (.dir [("Zlib.txt", .symlink (.file [90])), ("gone.txt", .symlink .dangling)]))])]
    "LICENSES/shared/Zlib.txt".toList = [90] := by decide
example : licContent [("LICENSES", .symlink (.dir [("MIT.txt", .file [77])]))] "LICENSES/MIT.txt".toList = [77] := by decide

-- ... and the naming / well-formedness hypotheses of the bijection statements
example : goodNames ["a b", "x.py"] := by
  intro s hs
  simp only [List.mem_cons, List.mem_nil_iff, or_false] at hs
  rcases hs with rfl | rfl <;> decide
example : ¬ goodNames ["a/b"] := by
  intro h; exact (h "a/b" (by simp)).2 (by decide)
example : wfEntries [("a.py", .file [35]), ("d", .dir [("a.py", .file [])])] := by simp [wfEntries, wfNode]

end C18
