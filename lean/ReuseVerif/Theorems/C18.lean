/-
Property C18 — the SPDX bill of materials is a faithful, well-formed image of
the project.

The model (`Model/SpdxDoc.lean`) composes the document from the file reports,
the LICENSES/ entries and the option values; the tag-value grammar is the reader
`Spec.readDoc`.  External functions are parameters: sha1 (arrives as the
checksum), md5 (`digest`), boolean.py's `simplify` (arrives as the per-file
answer and is validated per instance by the checker proved correct in
`C18_equiv_sound_complete`), uuid, clock.  Which files are covered and what is
attributed to them is the input (C03/C04; the correspondence check takes both
from `reuse lint --json` and from generator ground truth).
-/
import ReuseVerif.Lemmas.SpdxDoc
import ReuseVerif.Lemmas.BoolExpr

namespace C18
open Py Model Model.Spdx Spec.Spdx

-- ---------------------------------------------------------------- File sections

/-- The file part of the document is a sequence of blocks, one per file report
    and no other (a permutation of the reports' blocks: they are sorted by name),
    between the header with the relationships and the licence sections. -/
theorem C18_sections (p : DocParams) (rs : List FileRep) (ls : List LicEntry) :
    ∃ blocks : List (List Entry),
      docEntries p rs ls = header p ++ relEntries rs ++ blocks.flatten ++ (licBlocks ls).flatten
      ∧ blocks.Perm (rs.map fileBlock) :=
  ⟨fileBlocks rs, rfl, (List.mergeSort_perm rs _).map fileBlock⟩

/-- The `FileName` entries of the whole document are exactly the names of the
    reports, each once per report — for any number of reports. -/
theorem C18_file_names (p : DocParams) (rs : List FileRep) (ls : List LicEntry) :
    ((docEntries p rs ls).filter (hasTag tagFileName)).Perm
      (rs.map fun r => ⟨tagFileName, .single r.name⟩) := by
  have h : (docEntries p rs ls).filter (hasTag tagFileName)
      = (sortReports rs).map fun r => ⟨tagFileName, .single r.name⟩ := by
    simp +decide [docEntries, header, relEntries, relEntry, fileBlocks, licBlocks, fileBlock, licBlock,
      hasTag, List.filter_map, List.filter_flatten, Function.comp_def]
  rw [h]
  exact (List.mergeSort_perm rs _).map _

/-- What one File section says: name, SPDXID, checksum and LicenseConcluded of
    the report (once each), one `LicenseInfoInFile` per licence key of the report,
    and the copyright text: the report's lines, or `NONE` when there is none. -/
theorem C18_file_block (r : FileRep) :
    (fileBlock r).filter (hasTag tagFileName) = [⟨tagFileName, .single r.name⟩]
    ∧ (fileBlock r).filter (hasTag tagSpdxId) = [⟨tagSpdxId, .single r.spdxId⟩]
    ∧ (fileBlock r).filter (hasTag tagChecksum) = [⟨tagChecksum, .single (sha1Prefix ++ r.chkSum)⟩]
    ∧ (fileBlock r).filter (hasTag tagConcluded) = [⟨tagConcluded, .single r.concluded⟩]
    ∧ ((fileBlock r).filter (hasTag tagInfoInFile)).Perm (r.keys.map fun k => ⟨tagInfoInFile, .single k⟩)
    ∧ (fileBlock r).filter (hasTag tagCopyright) = [⟨tagCopyright, copyrightValue r.copyright⟩]
    ∧ (r.copyright = [] → copyrightValue r.copyright = .single noneText)
    ∧ (∀ b bs, r.copyright = b :: bs → (b ≠ [] ∨ bs ≠ []) → copyrightValue r.copyright = .text b bs) := by
  refine ⟨?_, ?_, ?_, ?_, ?_, ?_, ?_, ?_⟩
  · simp +decide [fileBlock, hasTag, List.filter_map, Function.comp_def]
  · simp +decide [fileBlock, hasTag, List.filter_map, Function.comp_def]
  · simp +decide [fileBlock, hasTag, List.filter_map, Function.comp_def]
  · simp +decide [fileBlock, hasTag, List.filter_map, Function.comp_def]
  · have : (fileBlock r).filter (hasTag tagInfoInFile)
        = (sortTexts r.keys).map fun k => ⟨tagInfoInFile, .single k⟩ := by
      simp +decide [fileBlock, hasTag, List.filter_map, Function.comp_def]
    rw [this]
    exact (List.mergeSort_perm r.keys _).map _
  · simp +decide [fileBlock, hasTag, List.filter_map, Function.comp_def]
  · intro h; rw [h]; rfl
  · intro b bs h hne
    rw [h]
    unfold copyrightValue
    split
    · rename_i heq; cases heq
    · rename_i heq; cases heq; simp at hne
    · rename_i heq; cases heq; rfl

/-- What `FileReport.generate` puts into a report: the given name and checksum,
    every licence key of every expression, the copyright lines (sorted: a
    permutation), and the LicenseConcluded rule. -/
theorem C18_generate (digest : Text → Text) (add : Bool) (i : FileInput) :
    (generate digest add i).name = i.name
    ∧ (generate digest add i).chkSum = i.chk
    ∧ (generate digest add i).spdxId = spdxRefPrefix ++ digest (i.name ++ i.chk)
    ∧ (generate digest add i).keys = i.exprKeys.flatten
    ∧ (generate digest add i).copyright.Perm i.copyrightLines
    ∧ (add = false → (generate digest add i).concluded = noAssertion)
    ∧ (add = true → i.exprKeys = [] → (generate digest add i).concluded = noneText)
    ∧ (add = true → i.exprKeys ≠ [] → (generate digest add i).concluded = i.simplified) := by
  refine ⟨rfl, rfl, rfl, rfl, List.mergeSort_perm _ _, ?_, ?_, ?_⟩
  · intro h; simp [generate, concludedOf, h]
  · intro h he; simp [generate, concludedOf, h, he]
  · intro h he
    cases hk : i.exprKeys with
    | nil => exact absurd hk he
    | cons a as => simp [generate, concludedOf, h, hk]

-- ---------------------------------------------------------------- relationships and identifiers

/-- The `Relationship` entries of the document are exactly one DESCRIBES line per report. -/
theorem C18_describes (p : DocParams) (rs : List FileRep) (ls : List LicEntry) :
    (docEntries p rs ls).filter (hasTag tagRelationship) = relEntries rs
    ∧ (relEntries rs).Perm (rs.map relEntry) := by
  refine ⟨?_, (List.mergeSort_perm rs _).map relEntry⟩
  simp +decide [docEntries, header, relEntries, relEntry, fileBlocks, licBlocks, fileBlock, licBlock,
    hasTag, List.filter_map, List.filter_flatten, Function.comp_def]

theorem relEntry_injective {r r' : FileRep} (h : relEntry r = relEntry r') : r.spdxId = r'.spdxId := by
  simp only [relEntry, Entry.mk.injEq, Value.single.injEq, true_and] at h
  exact List.append_cancel_left h

/-- When the SPDXIDs are pairwise distinct, every report's SPDXID occurs in exactly
    one DESCRIBES relationship of the document. -/
theorem C18_describes_once (p : DocParams) (rs : List FileRep) (ls : List LicEntry)
    (hid : (rs.map (·.spdxId)).Nodup) (r : FileRep) (hr : r ∈ rs) :
    (docEntries p rs ls).count (relEntry r) = 1 := by
  have htag : hasTag tagRelationship (relEntry r) = true := by simp [hasTag, relEntry]
  rw [← List.count_filter htag, (C18_describes p rs ls).1, (C18_describes p rs ls).2.count_eq]
  have hnd : (rs.map relEntry).Nodup := by
    rw [List.nodup_iff_pairwise_ne, List.pairwise_map] at hid ⊢
    exact hid.imp fun hne h => hne (relEntry_injective h)
  rw [hnd.count, if_pos (List.mem_map_of_mem hr)]

/-- `name ++ checksum` determines both parts, because checksums have a fixed length. -/
theorem C18_concat_injective (n₁ c₁ n₂ c₂ : Text) (h₁ : c₁.length = chkLen) (h₂ : c₂.length = chkLen)
    (h : n₁ ++ c₁ = n₂ ++ c₂) : n₁ = n₂ ∧ c₁ = c₂ :=
  List.append_inj' h (h₁.trans h₂.symm)

/-- SPDXIDs are pairwise distinct when file names are, provided the digest is
    injective on the finite set `{name ++ checksum}` of this project. -/
theorem C18_ids_distinct (digest : Text → Text) (add : Bool) (files : List FileInput)
    (hlen : files.all (fun f => f.chk.length == chkLen) = true)
    (hnames : (files.map (·.name)).Nodup)
    (hinj : injOn digest (files.map fun f => f.name ++ f.chk) = true) :
    ((files.map (generate digest add)).map (·.spdxId)).Nodup := by
  rw [List.nodup_iff_pairwise_ne, List.pairwise_map] at hnames
  rw [List.nodup_iff_pairwise_ne, List.pairwise_map, List.pairwise_map]
  refine hnames.imp_of_mem ?_
  intro f g hf hg hne hid
  apply hne
  simp only [generate, spdxIdOf] at hid
  have hd : digest (f.name ++ f.chk) = digest (g.name ++ g.chk) := List.append_cancel_left hid
  have hfm : f.name ++ f.chk ∈ files.map fun f => f.name ++ f.chk := List.mem_map_of_mem hf
  have hgm : g.name ++ g.chk ∈ files.map fun f => f.name ++ f.chk := List.mem_map_of_mem hg
  have := List.all_eq_true.mp (List.all_eq_true.mp hinj _ hfm) _ hgm
  simp only [Bool.or_eq_true, bne_iff_ne, ne_eq, beq_iff_eq] at this
  have heq : f.name ++ f.chk = g.name ++ g.chk := this.resolve_left (fun h => h hd)
  have hl := List.all_eq_true.mp hlen
  exact (C18_concat_injective _ _ _ _ (by simpa using hl f hf) (by simpa using hl g hg) heq).1

-- ---------------------------------------------------------------- LicenseRef- sections

/-- The licence sections are the blocks of exactly the `LicenseRef-` entries, each
    with its identifier and its text. -/
theorem C18_licenseref (p : DocParams) (rs : List FileRep) (ls : List LicEntry) :
    (licBlocks ls).Perm ((ls.filter fun l => isLicenseRef l.ident).map licBlock)
    ∧ (∀ l, licBlock l = [⟨tagLicenseId, .single l.ident⟩, ⟨tagLicenseName, .single noAssertion⟩,
                            ⟨tagExtracted, .text l.first l.rest⟩])
    ∧ (∀ i, (⟨tagLicenseId, .single i⟩ : Entry) ∈ docEntries p rs ls ↔
            (isLicenseRef i = true ∧ ∃ l ∈ ls, l.ident = i)) := by
  refine ⟨?_, fun _ => rfl, ?_⟩
  · exact ((List.mergeSort_perm ls _).filter _).map licBlock
  · intro i
    have hf : (docEntries p rs ls).filter (hasTag tagLicenseId)
        = ((sortLics ls).filter fun l => isLicenseRef l.ident).map
            fun l => ⟨tagLicenseId, .single l.ident⟩ := by
      simp +decide [docEntries, header, relEntries, relEntry, fileBlocks, licBlocks, fileBlock, licBlock,
        hasTag, List.filter_map, List.filter_flatten, Function.comp_def]
    have hm : (⟨tagLicenseId, .single i⟩ : Entry) ∈ docEntries p rs ls ↔
        (⟨tagLicenseId, .single i⟩ : Entry) ∈ (docEntries p rs ls).filter (hasTag tagLicenseId) := by
      simp [List.mem_filter, hasTag]
    rw [hm, hf]
    simp only [List.mem_map, List.mem_filter, Entry.mk.injEq, Value.single.injEq, true_and]
    constructor
    · rintro ⟨l, ⟨hl, href⟩, rfl⟩
      exact ⟨href, l, mem_sortLics.mp hl, rfl⟩
    · rintro ⟨href, l, hl, rfl⟩
      exact ⟨l, ⟨mem_sortLics.mpr hl, href⟩, rfl⟩

-- ---------------------------------------------------------------- tag-value

/-- Under the side condition the written lines are read back by the tag-value
    grammar as exactly the document's entries; in particular they are accepted. -/
theorem C18_wellformed (p : DocParams) (rs : List FileRep) (ls : List LicEntry)
    (h : docOk p rs ls = true) :
    readDoc (docLines p rs ls) = some (docEntries p rs ls)
    ∧ isTagValueDoc (docLines p rs ls) = true := by
  have := read_doc h
  exact ⟨this, by simp [isTagValueDoc, this]⟩

/-- …and the model's lines are the physical lines of the text written: none
    contains a line feed, and the text is every line followed by one. -/
theorem C18_lines_physical (p : DocParams) (rs : List FileRep) (ls : List LicEntry)
    (h : docOk p rs ls = true) :
    (∀ l ∈ docLines p rs ls, noBreak l = true)
    ∧ docText p rs ls = (docLines p rs ls).flatMap (· ++ nl) :=
  ⟨docLines_noBreak h, rfl⟩

-- ---------------------------------------------------------------- creator requirement

/-- `--add-license-concluded` without any creator is a usage error and nothing is
    written; every other option combination yields the document. -/
theorem C18_creator (digest : Text → Text) (add : Bool) (p : DocParams) (files : List FileInput)
    (ls : List LicEntry) :
    (spdxCmd digest add p files ls = .usageError ↔
        (add = true ∧ p.person = none ∧ p.organization = none))
    ∧ (¬ (add = true ∧ p.person = none ∧ p.organization = none) →
        spdxCmd digest add p files ls = .document (docText p (files.map (generate digest add)) ls)) := by
  unfold spdxCmd
  cases add <;> cases p.person <;> cases p.organization <;> simp

-- ---------------------------------------------------------------- LicenseConcluded: the certified checker

/-- The executable checker decides logical equivalence: it answers `true` exactly
    when both sides evaluate alike under every truth assignment of the licence
    symbols — any number of symbols, any nesting. -/
theorem C18_equiv_sound_complete (a b : BoolExpr) :
    BoolExpr.equiv a b = true ↔ ∀ σ : Text → Bool, BoolExpr.eval σ a = BoolExpr.eval σ b :=
  BoolExpr.equiv_iff a b

/-- The conjunction the checker compares against means "every expression holds". -/
theorem C18_conj_eval (σ : Text → Bool) (e : BoolExpr) (es : List BoolExpr) :
    BoolExpr.eval σ (BoolExpr.conj e es) = (BoolExpr.eval σ e && es.all (BoolExpr.eval σ)) := by
  induction es generalizing e with
  | nil => simp [BoolExpr.conj]
  | cons f fs ih => simp [BoolExpr.conj, ih, BoolExpr.eval, Bool.and_assoc]

/-- Hence an accepted LicenseConcluded holds under an assignment iff all of the
    file's expressions do. -/
theorem C18_concluded_valid (c e : BoolExpr) (es : List BoolExpr)
    (h : BoolExpr.equiv c (BoolExpr.conj e es) = true) (σ : Text → Bool) :
    BoolExpr.eval σ c = (e :: es).all (BoolExpr.eval σ) := by
  rw [(C18_equiv_sound_complete _ _).mp h σ, C18_conj_eval]; rfl

-- ---------------------------------------------------------------- non-vacuity

def exParams : DocParams :=
  { docName := ['p'], uuid := ['u'], created := ['c'], version := ['1'], person := some ['J', ' ', '(', 'x', ')'],
    organization := none }
def exRep : FileRep :=
  { name := ['.', '/', 'a', ' ', 'b'], spdxId := ['S', '-', '1'], chkSum := ['0'], keys := [['M', 'I', 'T']],
    concluded := ['M', 'I', 'T'], copyright := [['2', '0', ' ', '<', 'a', '>'], ['x']] }
def exLic : LicEntry := { ident := licenseRefPrefix ++ ['a'], first := ['t'], rest := [[], ['<', '/', 't']] }

example : docOk exParams [exRep] [exLic] = true := by decide
example : isLicenseRef exLic.ident = true := by decide
example : docOk exParams [{ exRep with name := ['a', '\n'] }] [] = false := by decide
example : docOk exParams [] [{ exLic with first := textClose }] = false := by decide
example : injOn id [['a'], ['b']] = true := by decide
example : injOn (fun _ => []) [['a'], ['b']] = false := by decide
example : ([exRep].map (·.spdxId)).Nodup := by decide
def exFiles : List FileInput :=
  [{ name := ['.', '/', 'a'], chk := List.replicate 40 '0', exprKeys := [[['M', 'I', 'T']]], simplified := ['M', 'I', 'T'],
     copyrightLines := [['x']] },
   { name := ['.', '/', 'b'], chk := List.replicate 40 '0', exprKeys := [], simplified := [], copyrightLines := [] }]
example : exFiles.all (fun f => f.chk.length == chkLen) = true := by decide
example : (exFiles.map (·.name)).Nodup := by decide
example : injOn id (exFiles.map fun f => f.name ++ f.chk) = true := by decide
example : BoolExpr.equiv (.and (.atom ['a']) (.or (.atom ['a']) (.atom ['b']))) (.atom ['a']) = true := by decide
example : BoolExpr.equiv (.or (.atom ['a']) (.atom ['b'])) (.atom ['a']) = false := by decide

end C18
