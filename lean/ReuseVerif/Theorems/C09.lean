/-
Property C09 — annotate accumulates information and never drops any.
-/
import ReuseVerif.Lemmas.History
import ReuseVerif.Lemmas.C09Step
import ReuseVerif.Lemmas.C09LineEndings
import ReuseVerif.Lemmas.C09Merge
import ReuseVerif.Theorems.C07
import ReuseVerif.Theorems.C20

namespace C09
open Py Model Spec

/-- **The union, at the header.**  `create_header` on an old header block, for *any* template,
    style and line mode: if a header is returned, the tool's extraction reads from it every
    requested notice and expression **and** every notice and expression the old block declared. -/
theorem C09_step_header (c : HdrCfg) (info : Extracted) (header h : Text)
    (hmerge : c.merge = false) (hnorm : ∀ x, c.normLic (c.normLic x) = c.normLic x)
    (hok : createHeader c info header = .ok h) :
    Declares c.normLic (extractRaw h) info.cpr info.lic ∧
    (header ≠ [] → Declares c.normLic (extractRaw h) (extractRaw header).cpr (extractRaw header).lic) :=
  createHeader_declares hmerge hnorm hok

/-- Contributors, under any template that renders them: what the template is handed is the union
    of the old block's contributors and the requested ones, so a template whose output lets every
    contributor it is handed be read back (`hren`, a hypothesis on `render` checked per case)
    loses none. -/
theorem C09_contributors_handed (c : HdrCfg) (info : Extracted) (header : Text) (hne : header ≠ [])
    (hp : (extractRaw header).lic.all c.parses = true) (x : Text)
    (hx : x ∈ info.con ∨ x ∈ (extractRaw header).con) :
    ∃ info', createHeader c info header = createNewHeader c info' ∧ x ∈ info'.con := by
  refine ⟨{ lic := dedup (((extractRaw header).lic ++ info.lic).map c.normLic),
            con := unionTexts (extractRaw header).con info.con,
            cpr := if c.merge then mergeLines (unionTexts info.cpr (extractRaw header).cpr)
                   else unionTexts info.cpr (extractRaw header).cpr }, ?_, ?_⟩
  · unfold createHeader
    have he : header.isEmpty = false := by cases header <;> simp_all
    simp only [he, Bool.false_eq_true, if_false, hp, Bool.not_true]
  · exact mem_unionTexts.mpr hx.symm

/-- **One step.**  A successful invocation whose decidable hypotheses hold (`Spec.stepGood`:
    "\n" line endings, no `--merge-copyrights`, no ignore region opens in the new text, the tag
    values of the new header block are found in the whole new text, and the information of the
    old text lives in the header block that is replaced): the new text declares everything the
    old text declared and everything requested — for any template (`o.c.render` arbitrary).
    Full statement (not proved): without `tagsCompose` / `headerHolds`, i.e. for information
    that lives outside the replaced block (needs the splice theorems of C08). -/
theorem C09_step_partial {norm : Text → Text} {o : Op} {t t' : Text}
    (hw : annotateText o.c o.replace o.skipExisting o.info t = .written t')
    (hg : stepGood norm o t) :
    Declares norm (extractRaw t') ((extractRaw t).cpr ++ o.info.cpr) ((extractRaw t).lic ++ o.info.lic) := by
  obtain ⟨hn, hidem, hmerge, hle, hns, htags, hh⟩ := hg t' hw
  have hf := C07.C07_file_partial o.c o.replace o.skipExisting o.info t t' hmerge (by rw [hn]; exact hidem) hle hw hns htags
  rw [hn] at hf
  refine declares_append ?_ hf.1
  unfold headerHolds at hh
  simp only at hh
  by_cases hold : (oldHeader o.c o.replace (Py.replace t ['\n'] ['\n'])).isEmpty = true
  · simp only [hold, if_true, Bool.and_eq_true, List.isEmpty_iff] at hh
    rw [hh.1, hh.2]
    exact ⟨fun x h => (List.not_mem_nil h).elim, fun x h => (List.not_mem_nil h).elim⟩
  · simp only [hold, Bool.false_eq_true, if_false] at hh
    have hne : oldHeader o.c o.replace (Py.replace t ['\n'] ['\n']) ≠ [] := by
      intro e; rw [e] at hold; simp at hold
    have h2 := hf.2 hne
    rw [hn] at hh
    exact declares_trans h2 ((declaresB_iff _ _ _ _).mp hh)

/-- **History.**  By induction over any finite list of invocations: if every successful step is
    good at the text it is applied to (`Spec.GoodRun`; failed and skipped steps change nothing and
    need no hypothesis), the final text declares everything the initial text declared and
    everything requested by every successful step. -/
theorem C09_history_partial {norm : Text → Text} (t : Text) (ops : List Op) (hg : GoodRun norm t ops) :
    Declares norm (extractRaw (run t ops))
      ((extractRaw t).cpr ++ (accumulated t ops).1) ((extractRaw t).lic ++ (accumulated t ops).2) := by
  induction hg with
  | nil t => simpa [run, accumulated] using declares_self norm (extractRaw t)
  | cons t o os hstep _ ih =>
    rw [run_cons]
    unfold accumulated
    cases hw : annotateText o.c o.replace o.skipExisting o.info t with
    | written t' =>
      have hst : stepText t o = t' := by unfold stepText; rw [hw]
      rw [hst] at ih ⊢
      simp only
      have hs := C09_step_partial hw hstep
      -- what t' declares covers t's declarations and the request; the rest of the history keeps it
      have ih1 : Declares norm (extractRaw (run t' os)) (extractRaw t').cpr (extractRaw t').lic :=
        ⟨fun x hx => ih.1 x (List.mem_append_left _ hx), fun x hx => ih.2 x (List.mem_append_left _ hx)⟩
      have ih2 : Declares norm (extractRaw (run t' os)) (accumulated t' os).1 (accumulated t' os).2 :=
        ⟨fun x hx => ih.1 x (List.mem_append_right _ hx), fun x hx => ih.2 x (List.mem_append_right _ hx)⟩
      have h3 := declares_trans ih1 hs
      refine ⟨fun x hx => ?_, fun x hx => ?_⟩
      · rcases List.mem_append.mp hx with h | h
        · exact h3.1 x (List.mem_append_left _ h)
        · rcases List.mem_append.mp h with h | h
          · exact h3.1 x (List.mem_append_right _ h)
          · exact ih2.1 x h
      · rcases List.mem_append.mp hx with h | h
        · exact h3.2 x (List.mem_append_left _ h)
        · rcases List.mem_append.mp h with h | h
          · exact h3.2 x (List.mem_append_right _ h)
          · exact ih2.2 x h
    | skipped =>
      have hst : stepText t o = t := by unfold stepText; rw [hw]
      rw [hst] at ih ⊢
      simpa using ih
    | failed e =>
      have hst : stepText t o = t := by unfold stepText; rw [hw]
      rw [hst] at ih ⊢
      simpa using ih

/-! ### the whole file, without `headerHolds` / `tagsCompose` -/

/-- **Table obligation** (re-opened whenever the END expression changes): the generated END expression can read a line
    feed only inside the white space that follows `"`, `'` or `]` — so the tag reader, run on a text that does not end
    (white space aside) with one of these, never looks beyond that text (`C09L.matchEnd_local`, `C09L.findAll_local`). -/
theorem C09_end_guarded : EndGuarded Generated.endRe := C09L.endRe_guarded

/-- **One step, the whole file.**  A successful invocation whose hypotheses hold (`Spec.stepGoodFull`: "\n" the only
    line boundary of the old text, no `--merge-copyrights`, `Spec.styleOK` (for the `.license` pseudo style: every
    expression of the old text parses), no `REUSE-IgnoreStart` in the old and in the new text, and the *seam* — `Spec.seamOK`: the last line above the header
    has no trailing white space; that line, the last line of the old block and the last line of the new block do not end
    with `"`, `'`, `]`): the new text declares **everything the old text declared, wherever in the text it stood,** and
    everything requested — copyright notices verbatim, licence expressions as the parser normalises them; for any
    template (`o.c.render` arbitrary), style, line mode, `--no-replace`.
    Information outside the replaced block survives because `place_header` keeps the text above and below (only white
    space next to the header changes) and the readers work piece by piece: copyright notices per `splitlines()` line, tags
    per physical line with END proved unable to run across a line end that is not behind a quote character. -/
theorem C09_step {norm : Text → Text} {o : Op} {t t' : Text}
    (hw : annotateText o.c o.replace o.skipExisting o.info t = .written t') (hg : stepGoodFull norm o t) :
    Declares norm (extractRaw t') ((extractRaw t).cpr ++ o.info.cpr) ((extractRaw t).lic ++ o.info.lic) :=
  C09L.step_declares hw hg

/-- **One step, contributors**, under any template that renders them (`Spec.rendersCon`: the new header block reads back
    the contributors the template was handed — by `C09_contributors_handed` the requested ones and those of the old
    block): every contributor of the old text, wherever it stood, and every requested one is a contributor of the new text. -/
theorem C09_step_contributors {norm : Text → Text} {o : Op} {t t' : Text}
    (hw : annotateText o.c o.replace o.skipExisting o.info t = .written t') (hg : stepGoodFull norm o t)
    (hren : rendersCon o t = true) :
    ∀ x, x ∈ (extractRaw t).con ∨ x ∈ o.info.con → x ∈ (extractRaw t').con :=
  C09L.step_contributors hw hg hren

/-- **History, the whole file.**  By induction over any finite list of invocations: if every successful step is good at
    the text it is applied to (`Spec.GoodRunFull`; failed and skipped steps change nothing and need no hypothesis), the
    final text declares everything the initial text declared — anywhere in it — and everything requested by every
    successful step. -/
theorem C09_history {norm : Text → Text} (t : Text) (ops : List Op) (hg : GoodRunFull norm t ops) :
    Declares norm (extractRaw (run t ops))
      ((extractRaw t).cpr ++ (accumulated t ops).1) ((extractRaw t).lic ++ (accumulated t ops).2) := by
  induction hg with
  | nil t => simpa [run, accumulated] using declares_self norm (extractRaw t)
  | cons t o os hstep _ ih =>
    rw [run_cons]
    unfold accumulated
    cases hw : annotateText o.c o.replace o.skipExisting o.info t with
    | written t' =>
      have hst : stepText t o = t' := by unfold stepText; rw [hw]
      rw [hst] at ih ⊢
      simp only
      have hs := C09_step hw hstep
      have ih1 : Declares norm (extractRaw (run t' os)) (extractRaw t').cpr (extractRaw t').lic :=
        ⟨fun x hx => ih.1 x (List.mem_append_left _ hx), fun x hx => ih.2 x (List.mem_append_left _ hx)⟩
      have ih2 : Declares norm (extractRaw (run t' os)) (accumulated t' os).1 (accumulated t' os).2 :=
        ⟨fun x hx => ih.1 x (List.mem_append_right _ hx), fun x hx => ih.2 x (List.mem_append_right _ hx)⟩
      have h3 := declares_trans ih1 hs
      refine ⟨fun x hx => ?_, fun x hx => ?_⟩
      · rcases List.mem_append.mp hx with h | h
        · exact h3.1 x (List.mem_append_left _ h)
        · rcases List.mem_append.mp h with h | h
          · exact h3.1 x (List.mem_append_right _ h)
          · exact ih2.1 x h
      · rcases List.mem_append.mp hx with h | h
        · exact h3.2 x (List.mem_append_left _ h)
        · rcases List.mem_append.mp h with h | h
          · exact h3.2 x (List.mem_append_right _ h)
          · exact ih2.2 x h
    | skipped =>
      have hst : stepText t o = t := by unfold stepText; rw [hw]
      rw [hst] at ih ⊢
      simpa using ih
    | failed e =>
      have hst : stepText t o = t := by unfold stepText; rw [hw]
      rw [hst] at ih ⊢
      simpa using ih

/-- **History, contributors.**  When moreover the template of every successful step renders the contributors it is handed
    (`Spec.GoodRunCon`), the final text names every contributor the initial text named and every contributor requested by
    a successful step. -/
theorem C09_history_contributors {norm : Text → Text} (t : Text) (ops : List Op) (hg : GoodRunCon norm t ops) :
    ∀ x, x ∈ (extractRaw t).con ∨ x ∈ accumulatedCon t ops → x ∈ (extractRaw (run t ops)).con := by
  induction hg with
  | nil t =>
    intro x hx
    rcases hx with h | h
    · exact h
    · cases h
  | cons t o os hstep hren _ ih =>
    intro x hx
    rw [run_cons]
    unfold accumulatedCon at hx
    cases hw : annotateText o.c o.replace o.skipExisting o.info t with
    | written t' =>
      have hst : stepText t o = t' := by unfold stepText; rw [hw]
      rw [hst] at ih ⊢
      rw [hw] at hx
      simp only [List.mem_append] at hx
      have hs := C09_step_contributors hw hstep (hren ⟨t', hw⟩)
      rcases hx with h | h | h
      · exact ih x (.inl (hs x (.inl h)))
      · exact ih x (.inl (hs x (.inr h)))
      · exact ih x (.inr h)
    | skipped =>
      have hst : stepText t o = t := by unfold stepText; rw [hw]
      rw [hst] at ih ⊢
      rw [hw] at hx
      exact ih x hx
    | failed e =>
      have hst : stepText t o = t := by unfold stepText; rw [hw]
      rw [hst] at ih ⊢
      rw [hw] at hx
      exact ih x hx

/-! ### CRLF and CR files -/

/-- **One step on a CRLF file.**  The file holds the CRLF form `toCRLF u` of an LF text `u` (no carriage return in `u`, at
    least one line end).  What is written is the CRLF form of what the same invocation writes for `u` (C08), lint's decoder
    folds both files back to the LF texts (`foldLineEndings`), and for those `C09_step` holds: the file after the step
    declares everything the file before declared and everything requested.  (`NoCR t'`: the template wrote no carriage
    return of its own.) -/
theorem C09_step_crlf {norm : Text → Text} {o : Op} {u T : Text} (hcr : NoCR u) (hlf : '\n' ∈ u)
    (hw : annotateText o.c o.replace o.skipExisting o.info (toCRLF u) = .written T)
    (hg : stepGoodFull norm { o with skipExisting := false } u) :
    ∃ t', annotateText o.c o.replace false o.info u = .written t' ∧ T = toCRLF t' ∧
      (NoCR t' → foldLineEndings T = t' ∧ foldLineEndings (toCRLF u) = u ∧
        Declares norm (extractRaw (foldLineEndings T))
          ((extractRaw (foldLineEndings (toCRLF u))).cpr ++ o.info.cpr)
          ((extractRaw (foldLineEndings (toCRLF u))).lic ++ o.info.lic)) := by
  have hw' := C09L.written_noskip hw
  rw [C08.C08_line_endings_crlf o.c o.replace o.info u hcr hlf] at hw'
  obtain ⟨t', ha, hT⟩ := C09L.mapWritten_written hw'
  refine ⟨t', ha, hT, fun hcr' => ?_⟩
  rw [hT, C09L.fold_crlf hcr', C09L.fold_crlf hcr]
  exact ⟨rfl, rfl, C09_step (o := { o with skipExisting := false }) ha hg⟩

/-- **One step on a CR file** (classic Mac line ends): the same through `toCR`. -/
theorem C09_step_cr {norm : Text → Text} {o : Op} {u T : Text} (hcr : NoCR u) (hlf : '\n' ∈ u)
    (hw : annotateText o.c o.replace o.skipExisting o.info (toCR u) = .written T)
    (hg : stepGoodFull norm { o with skipExisting := false } u) :
    ∃ t', annotateText o.c o.replace false o.info u = .written t' ∧ T = toCR t' ∧
      (NoCR t' → foldLineEndings T = t' ∧ foldLineEndings (toCR u) = u ∧
        Declares norm (extractRaw (foldLineEndings T))
          ((extractRaw (foldLineEndings (toCR u))).cpr ++ o.info.cpr)
          ((extractRaw (foldLineEndings (toCR u))).lic ++ o.info.lic)) := by
  have hw' := C09L.written_noskip hw
  rw [C08.C08_line_endings_cr o.c o.replace o.info u hcr hlf] at hw'
  obtain ⟨t', ha, hT⟩ := C09L.mapWritten_written hw'
  refine ⟨t', ha, hT, fun hcr' => ?_⟩
  rw [hT, C09L.fold_cr hcr', C09L.fold_cr hcr]
  exact ⟨rfl, rfl, C09_step (o := { o with skipExisting := false }) ha hg⟩

/-- **A writing step on a CRLF / CR file is the step on the LF text behind it** (`f` = `toCRLF` or `toCR`, see
    `C09_leform`): the same invocation, without `--skip-existing`, writes `t'` for `u`, the file afterwards is the form of
    `t'`, and lint's decoder reads `u` before and — when the template wrote no carriage return — `t'` after.  Every step
    theorem for LF texts (`C09_step`, `C09_step_contributors`, `C09_step_merge`, `C09_step_transfer`) therefore speaks
    about the file; `C09_step_crlf` / `_cr` spell this out for `C09_step`. -/
theorem C09_step_form {f : Text → Text} (hf : C09L.LEForm f) {o : Op} {u T : Text} (hcr : NoCR u) (hlf : '\n' ∈ u)
    (hw : annotateText o.c o.replace o.skipExisting o.info (f u) = .written T) :
    ∃ t', annotateText o.noSkip.c o.noSkip.replace o.noSkip.skipExisting o.noSkip.info u = .written t' ∧ T = f t' ∧
      foldLineEndings (f u) = u ∧ (NoCR t' → foldLineEndings T = t') := by
  obtain ⟨ha, hT, _⟩ := C09L.step_form hf hcr hlf hw
  exact ⟨_, ha, hT, hf.fold u hcr, fun h => by rw [hT]; exact hf.fold _ h⟩

/-- the two line-ending forms: annotating the form gives the form of the result (C08), the decoder folds it back -/
theorem C09_leform : C09L.LEForm toCRLF ∧ C09L.LEForm toCR := ⟨C09L.leForm_crlf, C09L.leForm_cr⟩

/-- **A history on a CRLF / CR file is the history of the LF text behind it.**  The file starts as the form `f u` of an LF
    text; no writing step writes a carriage return of its own (`Spec.CleanRun`).  Then the file stays the form of an LF text,
    namely of `run u (lfOps f u ops)` — the same invocations, those that wrote, without `--skip-existing` —, lint's decoder
    reads that text, and the requests that count are the same.  So `C09_history`, `C09_history_contributors` and
    `C09_history_merge`, applied to `u` and `lfOps f u ops`, speak about what lint reads from the file; `C09_history_crlf`
    / `_cr` spell this out. -/
theorem C09_history_form {f : Text → Text} (hf : C09L.LEForm f) (u : Text) (ops : List Op)
    (hg : CleanRun f u ops) (hcr : NoCR u) (hlf : '\n' ∈ u) :
    run (f u) ops = f (run u (lfOps f u ops)) ∧ foldLineEndings (run (f u) ops) = run u (lfOps f u ops) ∧
    foldLineEndings (f u) = u ∧
    accumulated (f u) ops = accumulated u (lfOps f u ops) ∧ accumulatedCon (f u) ops = accumulatedCon u (lfOps f u ops) := by
  obtain ⟨h1, h2, h3, h4⟩ := C09L.history_form hf u ops hg hcr hlf
  exact ⟨h1, h2, hf.fold u hcr, h3, h4⟩

/-- **A history on a CRLF file**: what lint's decoder reads from the file after the history declares everything it read
    before and everything requested by a successful step — licence expressions, the same holders, every year stated before
    covered (and, when no step merges, every notice verbatim: second part). -/
theorem C09_history_crlf {norm : Text → Text} (u : Text) (ops : List Op) (hc : CleanRun toCRLF u ops)
    (hcr : NoCR u) (hlf : '\n' ∈ u) :
    (GoodRunAny norm u (lfOps toCRLF u ops) →
      (∀ x, x ∈ (extractRaw (foldLineEndings (toCRLF u))).lic ∨ x ∈ (accumulated (toCRLF u) ops).2 →
        norm x ∈ (extractRaw (foldLineEndings (run (toCRLF u) ops))).lic.map norm) ∧
      (∀ s, s ∈ holdersOf ((extractRaw (foldLineEndings (toCRLF u))).cpr ++ (accumulated (toCRLF u) ops).1) →
        s ∈ holdersOf (extractRaw (foldLineEndings (run (toCRLF u) ops))).cpr) ∧
      (∀ s z, z ∈ yearsIn ((extractRaw (foldLineEndings (toCRLF u))).cpr ++ (accumulated (toCRLF u) ops).1) s →
        YearCovered (extractRaw (foldLineEndings (run (toCRLF u) ops))).cpr s z)) ∧
    (GoodRunFull norm u (lfOps toCRLF u ops) →
      Declares norm (extractRaw (foldLineEndings (run (toCRLF u) ops)))
        ((extractRaw (foldLineEndings (toCRLF u))).cpr ++ (accumulated (toCRLF u) ops).1)
        ((extractRaw (foldLineEndings (toCRLF u))).lic ++ (accumulated (toCRLF u) ops).2)) := by
  obtain ⟨_, h2, h3, h4, _⟩ := C09_history_form C09L.leForm_crlf u ops hc hcr hlf
  rw [h2, h3, h4]
  exact ⟨fun hg => C09L.history_any u _ hg, fun hg => C09_history u _ hg⟩

/-- **A history on a CR file.** -/
theorem C09_history_cr {norm : Text → Text} (u : Text) (ops : List Op) (hc : CleanRun toCR u ops)
    (hcr : NoCR u) (hlf : '\n' ∈ u) :
    (GoodRunAny norm u (lfOps toCR u ops) →
      (∀ x, x ∈ (extractRaw (foldLineEndings (toCR u))).lic ∨ x ∈ (accumulated (toCR u) ops).2 →
        norm x ∈ (extractRaw (foldLineEndings (run (toCR u) ops))).lic.map norm) ∧
      (∀ s, s ∈ holdersOf ((extractRaw (foldLineEndings (toCR u))).cpr ++ (accumulated (toCR u) ops).1) →
        s ∈ holdersOf (extractRaw (foldLineEndings (run (toCR u) ops))).cpr) ∧
      (∀ s z, z ∈ yearsIn ((extractRaw (foldLineEndings (toCR u))).cpr ++ (accumulated (toCR u) ops).1) s →
        YearCovered (extractRaw (foldLineEndings (run (toCR u) ops))).cpr s z)) ∧
    (GoodRunFull norm u (lfOps toCR u ops) →
      Declares norm (extractRaw (foldLineEndings (run (toCR u) ops)))
        ((extractRaw (foldLineEndings (toCR u))).cpr ++ (accumulated (toCR u) ops).1)
        ((extractRaw (foldLineEndings (toCR u))).lic ++ (accumulated (toCR u) ops).2)) := by
  obtain ⟨_, h2, h3, h4, _⟩ := C09_history_form C09L.leForm_cr u ops hc hcr hlf
  rw [h2, h3, h4]
  exact ⟨fun hg => C09L.history_any u _ hg, fun hg => C09_history u _ hg⟩

/-- an LF file is read as it is -/
theorem C09_fold_lf {u : Text} (hcr : NoCR u) : foldLineEndings u = u := C09L.fold_lf hcr

/-- **--skip-existing.**  When the file already contains REUSE information the short-circuit
    writes nothing: the text (hence everything it declares) is unchanged. -/
theorem C09_skip_existing (o : Op) (t : Text) (hs : o.skipExisting = true)
    (hc : containsReuseInfo o.c.parses t = true) : stepText t o = t := by
  unfold stepText annotateText
  simp [hs, hc]

/-- A failed invocation (comment cannot be created, information cannot be read back) leaves the
    text as it was. -/
theorem C09_failed_unchanged (o : Op) (t : Text) (e : HeaderErr)
    (h : annotateText o.c o.replace o.skipExisting o.info t = .failed e) : stepText t o = t := by
  unfold stepText; rw [h]

/-- **--merge-copyrights.**  The header that is returned reads back exactly the merged set of the
    requested and the old notices; every holder (statement) of any of them keeps a line, that line
    ends with the holder (no holder is lost), … -/
theorem C09_merge (c : HdrCfg) (info : Extracted) (header h : Text)
    (hne : header ≠ []) (hmerge : c.merge = true)
    (hok : createHeader c info header = .ok h) :
    (∀ x, x ∈ mergeLines (unionTexts info.cpr (extractRaw header).cpr) ↔ x ∈ (extractRaw h).cpr) ∧
    (∀ l m, (l ∈ info.cpr ∨ l ∈ (extractRaw header).cpr) → searchLine l = some m →
      lineFor (parseLines Generated.endRe (sortTexts (unionTexts info.cpr (extractRaw header).cpr))) m.statement ∈ (extractRaw h).cpr ∧
      m.statement <:+ lineFor (parseLines Generated.endRe (sortTexts (unionTexts info.cpr (extractRaw header).cpr))) m.statement) := by
  unfold createHeader at hok
  have he : header.isEmpty = false := by cases header <;> simp_all
  simp only [he, Bool.false_eq_true, if_false] at hok
  by_cases hp : (extractRaw header).lic.all c.parses = true
  · simp only [hp, Bool.not_true, Bool.false_eq_true, if_false, hmerge, if_true] at hok
    have hok' : createNewHeader c
        { lic := dedup (((extractRaw header).lic ++ info.lic).map c.normLic),
          con := unionTexts (extractRaw header).con info.con,
          cpr := mergeLines (unionTexts info.cpr (extractRaw header).cpr) } = .ok h := hok
    have h1 := (C07.C07_guard c _ h hok').1
    refine ⟨h1, fun l m hl hm => ?_⟩
    have := C20.C20_merge_no_holder_lost Generated.endRe (sortTexts (unionTexts info.cpr (extractRaw header).cpr)) l m
      ((C10Order.sortTexts_perm _).mem_iff.mpr (mem_unionTexts.mpr hl)) hm
    exact ⟨(h1 _).mp this.1, this.2⟩
  · simp only [hp, Bool.not_false, if_true] at hok
    cases hok

/-- … and the year range of that line runs from the numerically smallest to the numerically largest
    year stated for the holder in any of the merged notices, and every stated year lies between the
    two ends (it covers all years stated before). -/
theorem C09_merge_years (lines : List Text) (stmt : Text) :
    (∀ y, mergedYear (yearsOf (parseLines Generated.endRe lines) stmt) = some y →
      ∃ lo hi, lo ∈ yearsOf (parseLines Generated.endRe lines) stmt ∧ hi ∈ yearsOf (parseLines Generated.endRe lines) stmt ∧
        yearMin (yearsOf (parseLines Generated.endRe lines) stmt) = some lo ∧
        yearMax (yearsOf (parseLines Generated.endRe lines) stmt) = some hi ∧
        (y = lo ∨ y = lo ++ " - ".toList ++ hi) ∧
        (∀ z ∈ yearsOf (parseLines Generated.endRe lines) stmt, yearVal lo ≤ yearVal z ∧ yearVal z ≤ yearVal hi)) ∧
    (yearsOf (parseLines Generated.endRe lines) stmt ≠ [] →
      (mergedYear (yearsOf (parseLines Generated.endRe lines) stmt)).isSome = true) := by
  refine ⟨fun y hy => ?_, C20.C20_merge_year_kept _ stmt⟩
  obtain ⟨lo, hi, h1, h2, h3, h4, h5⟩ := (C20.C20_merge_year_span _ stmt).2 y hy
  exact ⟨lo, hi, h1, h2, h3, h4, h5, (C20.C20_merge_year_covers _ stmt lo hi h3 h4).1⟩

/-! ### `--merge-copyrights`, the whole file -/

/-- **The transfer every successful step makes** (any template, merging or not; hypotheses of `C09_step` without the one
    about merging): every notice, expression and contributor of the old text is in the new text or stood in the replaced
    header block, and everything the new header block holds is in the new text.  (What `create_header` puts into the new
    block is then the business of the guard: `C07_guard`, `C09_step_header`, `C09_merge`.) -/
theorem C09_step_transfer {norm : Text → Text} {o : Op} {t t' : Text}
    (hw : annotateText o.c o.replace o.skipExisting o.info t = .written t') (h : C09L.StepHyps norm o t t') :
    ∃ hdr, createHeader o.c o.info (sectionsOf o.c o.replace t).2.1 = .ok hdr ∧
      (∀ x ∈ (extractRaw t).cpr, x ∈ (extractRaw t').cpr ∨ x ∈ (extractRaw (sectionsOf o.c o.replace t).2.1).cpr) ∧
      (∀ x ∈ (extractRaw hdr).cpr, x ∈ (extractRaw t').cpr) ∧
      (∀ x ∈ (extractRaw t).lic, x ∈ (extractRaw t').lic ∨ x ∈ (extractRaw (sectionsOf o.c o.replace t).2.1).lic) ∧
      (∀ x ∈ (extractRaw hdr).lic, x ∈ (extractRaw t').lic) ∧
      (∀ x ∈ (extractRaw t).con, x ∈ (extractRaw t').con ∨ x ∈ (extractRaw (sectionsOf o.c o.replace t).2.1).con) ∧
      (∀ x ∈ (extractRaw hdr).con, x ∈ (extractRaw t').con) :=
  C09L.step_transfer hw h

/-- **One step with `--merge-copyrights`, the whole file** — what `C09_merge` and `C09_merge_years` give for the file.
    With the hypotheses of `C09_step` (`Spec.stepGoodMerge`: the same, merging given):
    * licence expressions: as without merging — everything the old text declared and everything requested;
    * a notice of the old text is declared verbatim by the new text unless it stood in the replaced block;
    * the notices that are merged are `Spec.mergePool` = the requested ones and those of the replaced block; for every one
      of them, with holder (statement) `m.statement`, the new text declares the holder's merged line
      `lineFor … m.statement`, and that line ends with the holder: **no holder is lost**;
    * the year range written into that line runs from the numerically smallest to the numerically largest year stated
      for the holder in the pool, and every stated year lies between the two (`C09_merge_years`, `C20_merge_year_covers`). -/
theorem C09_step_merge {norm : Text → Text} {o : Op} {t t' : Text}
    (hw : annotateText o.c o.replace o.skipExisting o.info t = .written t') (hg : stepGoodMerge norm o t) :
    (∀ x, x ∈ (extractRaw t).lic ∨ x ∈ o.info.lic → norm x ∈ (extractRaw t').lic.map norm) ∧
    (∀ x ∈ (extractRaw t).cpr, x ∈ (extractRaw t').cpr ∨ x ∈ (extractRaw (sectionsOf o.c o.replace t).2.1).cpr) ∧
    (∀ l, l ∈ mergePool o t ↔ l ∈ o.info.cpr ∨ l ∈ (extractRaw (sectionsOf o.c o.replace t).2.1).cpr) ∧
    (∀ l m, l ∈ mergePool o t → searchLine l = some m →
      lineFor (parseLines Generated.endRe (mergePool o t)) m.statement ∈ (extractRaw t').cpr ∧
      m.statement <:+ lineFor (parseLines Generated.endRe (mergePool o t)) m.statement) ∧
    (∀ stmt y, mergedYear (yearsOf (parseLines Generated.endRe (mergePool o t)) stmt) = some y →
      ∃ lo hi, yearMin (yearsOf (parseLines Generated.endRe (mergePool o t)) stmt) = some lo ∧
        yearMax (yearsOf (parseLines Generated.endRe (mergePool o t)) stmt) = some hi ∧
        (y = lo ∨ y = lo ++ " - ".toList ++ hi) ∧
        (∀ z ∈ yearsOf (parseLines Generated.endRe (mergePool o t)) stmt, yearVal lo ≤ yearVal z ∧ yearVal z ≤ yearVal hi)) := by
  obtain ⟨h1, h2, h3⟩ := C09L.step_merge hw hg
  refine ⟨h1, h2, fun l => C09L.mem_mergePool, h3, fun stmt y hy => ?_⟩
  obtain ⟨lo, hi, _, _, a, b, c, d⟩ := (C09_merge_years (mergePool o t) stmt).1 y hy
  exact ⟨lo, hi, a, b, c, d⟩

/-- **A history with merging steps.**  By induction over any finite list of invocations, each successful step either good
    for `C09_step` or — with `--merge-copyrights` — good for `C09_step_merge` with its merged lines reading back their holder
    and year ends (`Spec.mergeReadsBack`, decidable; `Spec.GoodRunAny`):
    * the final text declares every licence expression the initial text declared and every one requested;
    * **the same holders remain**: every holder the reader finds in a notice of the initial text or of a request is a holder
      it finds in the final text;
    * **each with a year range covering all years stated before**: every year stated for a holder in the initial text or in
      a request lies, numerically, between two years the final text states for that holder. -/
theorem C09_history_merge {norm : Text → Text} (t : Text) (ops : List Op) (hg : GoodRunAny norm t ops) :
    (∀ x, x ∈ (extractRaw t).lic ∨ x ∈ (accumulated t ops).2 → norm x ∈ (extractRaw (run t ops)).lic.map norm) ∧
    (∀ s, s ∈ holdersOf ((extractRaw t).cpr ++ (accumulated t ops).1) → s ∈ holdersOf (extractRaw (run t ops)).cpr) ∧
    (∀ s z, z ∈ yearsIn ((extractRaw t).cpr ++ (accumulated t ops).1) s → YearCovered (extractRaw (run t ops)).cpr s z) :=
  C09L.history_any t ops hg

/-! ### `ReuseInfo.union` as the model has it -/

/-- the union of two sets of lines is commutative and idempotent as a set, and contains both -/
theorem C09_union_algebra (a b : List Text) (x : Text) :
    (x ∈ unionTexts a b ↔ x ∈ a ∨ x ∈ b) ∧ (x ∈ unionTexts a b ↔ x ∈ unionTexts b a) ∧
    (x ∈ unionTexts a a ↔ x ∈ a) := by
  refine ⟨mem_unionTexts, ?_, ?_⟩
  · rw [mem_unionTexts, mem_unionTexts]; exact Or.comm
  · rw [mem_unionTexts]; exact or_self_iff

-- Non-vacuity.  `GoodRun` is inhabited trivially by the empty history; that it is inhabited by real histories is
-- shown at run time: `stepGood` consists of decidable parts that involve the well-founded regex matcher (which
-- `decide` does not unfold), so the compiled driver evaluates them after every step of every history of the
-- `history` stream (op `c09step`): they hold on roughly 90 of the ~450 steps of a quick run, and there the real
-- file must show the conclusion of C09_step_partial.
example (t : Text) : GoodRun id t [] := GoodRun.nil t

-- The new hypotheses.  The seam predicates are plain list functions and `decide` evaluates them; `stepGoodFull` as a whole
-- involves the regex matcher through `createHeader`, so — as above — the compiled driver evaluates it on every step of every
-- history (op `c09full`): it holds on 192 of the 195 steps of a quick run that write without `--merge-copyrights` (the old
-- `stepGood`: 128), and there the real file must show the conclusions of C09_step / C09_step_contributors.
example : cleanSeam "#!/bin/sh\n\n".toList = true ∧ cleanSeam "#!/bin/sh \n".toList = false := by decide
example : openEnd "# SPDX-License-Identifier: MIT\n".toList = false ∧ openEnd "<x a=\"MIT\" \n".toList = true := by decide
example : lineEnded "a\n".toList = true ∧ lineEnded "a".toList = false := by decide
example : ¬ EndGuarded (.star (.cls false [('\n', '\n')])) := by decide
example (t : Text) : GoodRunFull id t [] := GoodRunFull.nil t
example (t : Text) : GoodRunAny id t [] := GoodRunAny.nil t
example (u : Text) : CleanRun toCRLF u [] := CleanRun.nil u
example : endYears ["2019".toList, "2023".toList, "２０１６".toList] = ["２０１６".toList, "2023".toList] := by decide

end C09
