/-
Property C01 — the lint verdict equals compliance.  `Model.generate tbl pr` is the
model of what `reuse lint` computes, `Report.isCompliant` of
`ProjectReport.is_compliant`, `Report.exit` of the command's exit status;
`Spec.Compliant` is clauses (a)–(d) of the property over the abstract project
(`Spec/Report.lean`).  The per-category exactness of the licence collections is
C06 (`C06_missing_partial`, … — same model, same hypotheses); the three per-file
collections are characterised here.

`…_partial`: `plainNames` excludes the recorded ambiguous LICENSES/ names (see
Theorems/C06.lean); `noRefInTable` is the table obligation `C06_table`.
-/
import ReuseVerif.Lemmas.ReportMain
import ReuseVerif.Lemmas.LintE2E
import ReuseVerif.Lemmas.CoveredSpec
import ReuseVerif.Theorems.C06

namespace C01
open Py Spec Model

variable {tbl : LicenseMap} {pr : Project} {r : Report}

/-- The verdict is clauses (a)–(d): for every table, every list of covered files
    and every list of LICENSES/ entries for which a report is produced. -/
theorem C01_verdict_partial (ht : noRefInTable tbl = true) (hp : plainNames tbl pr.licFiles = true)
    (h : generate tbl pr = some r) : r.isCompliant = true ↔ Compliant tbl pr := by
  rw [isCompliant_iff, pairs_nil_iff (C06.C06_missing_partial hp h), list_nil_iff (C06.C06_unused_partial hp h),
    pairs_nil_iff (C06.C06_bad_partial hp h), list_nil_iff (C06.C06_deprecated_partial ht hp h),
    pairs_nil_iff (C06.C06_without_extension_partial hp h), bad_split]
  obtain ⟨fd, _, rfl⟩ := split_generate h
  unfold Compliant
  rw [clauseA_iff (fd := fd), clauseB_iff, clauseC_iff, clauseD_iff (fd := fd)]
  constructor
  · rintro ⟨h1, h2, ⟨h3, h4⟩, h5, h6, h7, h8, h9⟩
    exact ⟨⟨h7, h8⟩, ⟨h1, h3⟩, ⟨h2, h4, h5, h6⟩, h9⟩
  · rintro ⟨⟨h7, h8⟩, ⟨h1, h3⟩, ⟨h2, h4, h5, h6⟩, h9⟩
    exact ⟨h1, h2, ⟨h3, h4⟩, h5, h6, h7, h8, h9⟩

/-- exit status 0 exactly when compliant, 1 otherwise -/
theorem C01_exit (r : Report) : (r.exit = 0 ↔ r.isCompliant = true) ∧ (r.exit = 1 ↔ r.isCompliant = false) := by
  unfold Report.exit; cases r.isCompliant <;> simp

/-- compliant exactly when all eight collections are empty: nothing else enters the verdict,
    and a non-compliant run names at least one offender -/
theorem C01_eight (r : Report) :
    r.isCompliant = true ↔ r.missing = [] ∧ r.unused = [] ∧ r.bad = [] ∧ r.deprecated = [] ∧
      r.noExt = [] ∧ r.noCopyright = [] ∧ r.noLicence = [] ∧ r.readErrors = [] :=
  isCompliant_iff r

/-- a violated clause makes the run exit 1 -/
theorem C01_violation_exits_1_partial (ht : noRefInTable tbl = true) (hp : plainNames tbl pr.licFiles = true)
    (h : generate tbl pr = some r) (hv : ¬ Compliant tbl pr) : r.exit = 1 := by
  rw [(C01_exit r).2]
  cases hc : r.isCompliant with
  | false => rfl
  | true => exact absurd ((C01_verdict_partial ht hp h).mp hc) hv

/-- named under "no copyright": exactly the files that were read and carry no notice -/
theorem C01_no_copyright (h : generate tbl pr = some r) (p : Text) :
    p ∈ r.noCopyright ↔ ∃ f ∈ pr.files, f.readable = true ∧ f.hasCopyright = false ∧ f.path = p := by
  obtain ⟨fd, _, rfl⟩ := split_generate h
  exact mem_noCopyright

/-- named under "no licence": exactly the files that were read and carry no expression -/
theorem C01_no_licence (h : generate tbl pr = some r) (p : Text) :
    p ∈ r.noLicence ↔ ∃ f ∈ pr.files, f.readable = true ∧ (¬ ∃ e ∈ f.exprs, e ≠ []) ∧ f.path = p := by
  obtain ⟨fd, _, rfl⟩ := split_generate h
  exact mem_noLicence

/-- named under "read errors": exactly the covered files that could not be read -/
theorem C01_read_errors (h : generate tbl pr = some r) (p : Text) :
    p ∈ r.readErrors ↔ ∃ f ∈ pr.files, f.readable = false ∧ f.path = p := by
  obtain ⟨fd, _, rfl⟩ := split_generate h
  exact mem_readErrors

/-- each clause on its own is the emptiness of its categories -/
theorem C01_clauses_partial (hp : plainNames tbl pr.licFiles = true) (h : generate tbl pr = some r) :
    (ClauseA pr ↔ r.noCopyright = [] ∧ r.noLicence = []) ∧
    (ClauseD pr ↔ r.readErrors = []) ∧
    (ClauseB tbl pr → r.missing = []) ∧
    (ClauseC tbl pr → r.unused = [] ∧ r.noExt = []) := by
  have hm := pairs_nil_iff (C06.C06_missing_partial hp h)
  have hu := list_nil_iff (C06.C06_unused_partial hp h)
  have hn := pairs_nil_iff (C06.C06_without_extension_partial hp h)
  obtain ⟨fd, _, rfl⟩ := split_generate h
  refine ⟨clauseA_iff, clauseD_iff, ?_, ?_⟩
  · intro hb; rw [hm]; exact (clauseB_iff.mp hb).1
  · intro hc
    have := clauseC_iff.mp hc
    exact ⟨hu.mpr this.1, hn.mpr this.2.2.2⟩

-- Non-vacuity: a compliant project and a non-compliant one over the generated table.
def good : Project := {
  files := [
    { path := "a.py".toList, readable := true, hasCopyright := true,
      exprs := [["MIT".toList, "GPL-2.0-only".toList, "Classpath-exception-2.0".toList], ["Apache-2.0+".toList]] },
    { path := "b.c".toList, readable := true, hasCopyright := true, exprs := [["LicenseRef-x".toList]] }]
  licFiles := ["LICENSES/MIT.txt".toList, "LICENSES/sub/Apache-2.0.md".toList, "LICENSES/GPL-2.0-only.txt".toList,
    "LICENSES/MIT.txt.license".toList, "LICENSES/Classpath-exception-2.0.txt".toList, "LICENSES/LicenseRef-x.txt".toList] }

example : plainNames spdxTable good.licFiles = true := by decide +kernel
example : (generate spdxTable good).map (·.isCompliant) = some true := by decide +kernel
example : (generate spdxTable C06.demo).map (·.exit) = some 1 := by decide +kernel
example : (generate spdxTable { good with files := { path := "pipe".toList, readable := false, hasCopyright := false, exprs := [] } :: good.files }).map
    (fun r => (r.exit, r.readErrors)) = some (1, ["pipe".toList]) := by decide +kernel

/-! ## The composed model: `reuse lint` from the tree to the verdict

`Model.lintE2E` (Model/LintE2E.lean) chains the models of C03 (walk), C05 (globs), C04 (sources
and precedence), C02/C12 (extraction from the bytes of the own source) and C06/C01 (report); the
theorems below are composition corollaries of `C03_walk`, `C04_items`, `C04_last_wins` and the
verdict / category theorems above, about the *tree*.  `Spec/LintE2E.lean` holds the tree-level
clauses.  Hypotheses, all named:
* `noRefInTable`, `plainNames` — as for `C01_verdict_partial` (table obligation; ambiguous names);
* (no hypothesis about blank copyright strings any more: since fix 64fab59 a blank line is no notice
  for the report, and `Spec.HasNotice` asks for a non-blank attributed line; `NoEmptyNotice` /
  `C01_e2e_hyp` are kept for reference only);
* `wfEntries` — the names within one directory are distinct (for the two look-up statements only).
Oracles (parameters of `E2ECfg`): the VCS, `is_binary`, tomlkit / python-debian (parsed REUSE.toml,
dep5), license-expression (`parses`, `keysOf`). -/

section E2E
variable {c : E2ECfg} {g : GlobalLic} {tree : ETree} {files : List EFile}

/-- The verdict of the composed model is clauses (a)–(d) read on the tree: covered files are those
    of C03, what is attributed to them is what C04's rules say for the chain of REUSE.toml tables
    found on their ancestor directories and their own source, licence texts are the files below
    LICENSES/ — regular files and symbolic links that resolve to regular files, through real and linked
    directories (`C01_e2e_linked_text`, `C01_e2e_provided`).  Full statement (without `plainNames`): false for the recorded ambiguous
    LICENSES/ names. -/
theorem C01_e2e_verdict_partial (ht : noRefInTable tbl = true) (hg : globalOf c tree = some g)
    (hp : plainNames tbl (licFilesOf tree) = true)
    (h : lintE2E tbl c tree = .ok files r) : r.isCompliant = true ↔ TreeCompliant tbl c g tree := by
  obtain ⟨g', hg', hgen, _⟩ := lintE2E_ok h
  rw [hg] at hg'; cases hg'
  rw [C01_verdict_partial ht hp hgen]
  exact compliant_iff_tree

/-- exit status 0 exactly when the tree is compliant -/
theorem C01_e2e_exit_partial (ht : noRefInTable tbl = true) (hg : globalOf c tree = some g)
    (hp : plainNames tbl (licFilesOf tree) = true)
    (h : lintE2E tbl c tree = .ok files r) : r.exit = 0 ↔ TreeCompliant tbl c g tree := by
  rw [(C01_exit r).1]; exact C01_e2e_verdict_partial ht hg hp h

/-- The files the composed model reports on are exactly the covered files of the tree in the flat
    reading `Spec.Covered`: regular, non-empty files no file rule excludes, below real directories no
    directory rule excludes (`C03_walk` + the agreement of the two readings). -/
theorem C01_e2e_files (h : lintE2E tbl c tree = .ok files r) (p : List String) :
    p ∈ files.map (·.path) ↔ Covered (c.walk false) "" (toNodes tree) p := by
  obtain ⟨g, _, _, rfl⟩ := lintE2E_ok h
  rw [← coveredIn_iff_covered]
  simp only [filesOf, coveredFiles, List.map_map, List.mem_map, Function.comp, fileOf]
  constructor
  · rintro ⟨q, hq, rfl⟩; exact (C03.C03_walk _ _ _ _).mp hq
  · intro hp; exact ⟨p, (C03.C03_walk _ _ _ _).mpr hp, rfl⟩

/-- `CoveredT`, the form the other statements use, is that same set -/
theorem C01_e2e_covered (p : List String) : CoveredT c tree p ↔ Covered (c.walk false) "" (toNodes tree) p :=
  coveredIn_iff_covered _ _ _ _

/-- ... and every one of them ends up either with a file report or among the read errors, nothing else does. -/
theorem C01_e2e_reported (h : lintE2E tbl c tree = .ok files r) (q : Text) :
    (q ∈ r.fileReports.map (·.path) ∨ q ∈ r.readErrors) ↔ ∃ p, CoveredT c tree p ∧ q = relText p := by
  obtain ⟨g, _, hgen, _⟩ := lintE2E_ok h
  obtain ⟨fd, _, rfl⟩ := split_generate hgen
  simp only [generateOn, List.mem_map, List.mem_filter]
  constructor
  · rintro (⟨f, ⟨hf, _⟩, rfl⟩ | ⟨f, ⟨hf, _⟩, rfl⟩) <;>
    · obtain ⟨p, hp, rfl⟩ := mem_projectFiles.mp hf
      exact ⟨p, hp, rfl⟩
  · rintro ⟨p, hp, rfl⟩
    have hf : (fileOf c g tree p).toCov c ∈ (projectOf c g tree).files := mem_projectFiles.mpr ⟨p, hp, rfl⟩
    cases hr : ((fileOf c g tree p).toCov c).readable with
    | true => exact .inl ⟨_, ⟨hf, hr⟩, rfl⟩
    | false => exact .inr ⟨_, ⟨hf, by simp [hr]⟩, rfl⟩

/-- What the composed model attributes to a covered file is what the sources-and-precedence rules
    (`C04_items`) say for its chain and its own source. -/
theorem C01_e2e_attribution (p : List String) (it : Item) :
    it ∈ itemsOf (fileOf c g tree p).infos ↔ AttributedT c g tree p it := items_iff p it

/-- read errors: exactly the covered files whose own source cannot be opened while no `override` spares it -/
theorem C01_e2e_read_errors (hg : globalOf c tree = some g) (h : lintE2E tbl c tree = .ok files r) (q : Text) :
    q ∈ r.readErrors ↔ ∃ p, CoveredT c tree p ∧ ¬ ReadableT c g tree p ∧ q = relText p := by
  obtain ⟨g', hg', hgen, _⟩ := lintE2E_ok h
  rw [hg] at hg'; cases hg'
  rw [C01_read_errors hgen]
  constructor
  · rintro ⟨f, hf, hr, rfl⟩
    obtain ⟨p, hp, rfl⟩ := mem_projectFiles.mp hf
    exact ⟨p, hp, (fun hh => by rw [(readable_iff p).mpr hh] at hr; cases hr), rfl⟩
  · rintro ⟨p, hp, hr, rfl⟩
    refine ⟨_, mem_projectFiles.mpr ⟨p, hp, rfl⟩, ?_, rfl⟩
    cases hh : ((fileOf c g tree p).toCov c).readable with
    | false => rfl
    | true => exact absurd ((readable_iff p).mp hh) hr

/-- named under "no copyright": exactly the readable covered files without a notice -/
theorem C01_e2e_no_copyright (hg : globalOf c tree = some g)
    (h : lintE2E tbl c tree = .ok files r) (q : Text) :
    q ∈ r.noCopyright ↔ ∃ p, CoveredT c tree p ∧ ReadableT c g tree p ∧ ¬ HasNotice c g tree p ∧ q = relText p := by
  obtain ⟨g', hg', hgen, _⟩ := lintE2E_ok h
  rw [hg] at hg'; cases hg'
  rw [C01_no_copyright hgen]
  constructor
  · rintro ⟨f, hf, hr, hc, rfl⟩
    obtain ⟨p, hp, rfl⟩ := mem_projectFiles.mp hf
    exact ⟨p, hp, (readable_iff p).mp hr, (fun hh => by rw [(hasCopyright_iff' (p := p)).mpr hh] at hc; cases hc), rfl⟩
  · rintro ⟨p, hp, hr, hc, rfl⟩
    refine ⟨_, mem_projectFiles.mpr ⟨p, hp, rfl⟩, (readable_iff p).mpr hr, ?_, rfl⟩
    cases hh : ((fileOf c g tree p).toCov c).hasCopyright with
    | false => rfl
    | true => exact absurd ((hasCopyright_iff' (p := p)).mp hh) hc

/-- named under "no licence": exactly the readable covered files without an expression that mentions an identifier -/
theorem C01_e2e_no_licence (hg : globalOf c tree = some g) (h : lintE2E tbl c tree = .ok files r) (q : Text) :
    q ∈ r.noLicence ↔ ∃ p, CoveredT c tree p ∧ ReadableT c g tree p ∧ ¬ HasLicence c g tree p ∧ q = relText p := by
  obtain ⟨g', hg', hgen, _⟩ := lintE2E_ok h
  rw [hg] at hg'; cases hg'
  rw [C01_no_licence hgen]
  constructor
  · rintro ⟨f, hf, hr, hc, rfl⟩
    obtain ⟨p, hp, rfl⟩ := mem_projectFiles.mp hf
    exact ⟨p, hp, (readable_iff p).mp hr, fun hh => hc ((hasLicence_iff p).mpr hh), rfl⟩
  · rintro ⟨p, hp, hr, hc, rfl⟩
    exact ⟨_, mem_projectFiles.mpr ⟨p, hp, rfl⟩, (readable_iff p).mpr hr, fun hh => hc ((hasLicence_iff p).mp hh), rfl⟩

/-- missing licences on the tree: used by that covered file, and neither the identifier nor its '+'-less form has a text -/
theorem C01_e2e_missing_partial (hg : globalOf c tree = some g) (hp : plainNames tbl (licFilesOf tree) = true)
    (h : lintE2E tbl c tree = .ok files r) (k q : Text) :
    (k, q) ∈ r.missing ↔ (∃ p, UsedByT c g tree k p ∧ q = relText p) ∧
      ¬ ProvidedT tbl tree k ∧ ¬ ProvidedT tbl tree (stripPlus k) := by
  obtain ⟨g', hg', hgen, _⟩ := lintE2E_ok h
  rw [hg] at hg'; cases hg'
  rw [C06.C06_missing_partial hp hgen, Missing, usedBy_iff_tree]
  rfl

/-- unused licences on the tree: a text is there and no readable covered file mentions the identifier or its '+' form -/
theorem C01_e2e_unused_partial (hg : globalOf c tree = some g) (hp : plainNames tbl (licFilesOf tree) = true)
    (h : lintE2E tbl c tree = .ok files r) (l : Text) :
    l ∈ r.unused ↔ ProvidedT tbl tree l ∧ ¬ UsedT c g tree l ∧ ¬ UsedT c g tree (addPlus l) := by
  obtain ⟨g', hg', hgen, _⟩ := lintE2E_ok h
  rw [hg] at hg'; cases hg'
  rw [C06.C06_unused_partial hp hgen, Unused, used_iff, used_iff]
  rfl

/-- `_determine_license_path` on the tree: FILE.license replaces FILE as the own source exactly when it
    exists as a regular file; a directory of that name makes the file unreadable. -/
theorem C01_e2e_own_source (hwf : wfEntries tree) (dir : List String) (name : String) (content : Bytes)
    (hf : EAt tree (dir ++ [name]) (.file content)) :
    OwnSourceIs tree dir name content (ownAt tree (dir ++ [name])) := ownAt_spec hwf dir name content hf

/-- The override short-cut: when an `override` table applies, nothing of the file or its sibling enters
    the result — not its bytes, not the answer of the binary test. -/
theorem C01_e2e_override_not_read {p : List String} (h : hasOverride (chainOf c g p) = true) :
    (fileOf c g tree p).infos = reuseInfoOf (chainOf c g p) emptyOwn := infos_of_override h

/-- The REUSE.toml files of the project are those the C03 walk (with REUSE.toml admitted) yields. -/
theorem C01_e2e_tomls (q : List String) :
    q ∈ tomlFiles c tree ↔ CoveredIn (c.walk true) [] "" (toNodes tree) q ∧ q.getLast? = some "REUSE.toml" := by
  simp only [tomlFiles, List.mem_filter, C03.C03_walk, beq_iff_eq]

/-- One level of the chain: the REUSE.toml of the ancestor directory `p.take i` contributes its *last*
    table one of whose globs matches the path *relative to that directory* (`C04_last_wins`). -/
theorem C01_e2e_level_last_match {tomls : List (List String)} {p : List String} {i : Nat}
    (pre post : List TomlTable) (t : TomlTable)
    (hfound : (p.take i ++ ["REUSE.toml"]) ∈ tomls) (hload : c.tomlOf (p.take i) = some (pre ++ t :: post))
    (hm : itemMatches t.paths (relText (p.drop i)) = true)
    (hpost : ∀ u ∈ post, itemMatches u.paths (relText (p.drop i)) = false) :
    levelAt c tomls p i = some t.toTable := by
  rw [levelAt_found hfound hload, List.map_append, List.map_cons, hm]
  apply C04.C04_last_wins
  intro x hx
  obtain ⟨u, hu, rfl⟩ := List.mem_map.mp hx
  exact hpost u hu

/-- ... and nothing when no REUSE.toml was found there or none of its tables matches. -/
theorem C01_e2e_level_none {tomls : List (List String)} {p : List String} {i : Nat}
    (h : (p.take i ++ ["REUSE.toml"]) ∉ tomls ∨
      ∃ ts, c.tomlOf (p.take i) = some ts ∧ ∀ u ∈ ts, itemMatches u.paths (relText (p.drop i)) = false) :
    levelAt c tomls p i = none := by
  rcases h with h | ⟨ts, hload, hno⟩
  · simp [levelAt, h]
  · by_cases hf : (p.take i ++ ["REUSE.toml"]) ∈ tomls
    · rw [levelAt_found hf hload]
      apply C04.C04_no_match
      intro x hx
      obtain ⟨u, hu, rfl⟩ := List.mem_map.mp hx
      exact hno u hu
    · simp [levelAt, hf]

/-- `_find_licenses` on the tree: the regular files below the directory LICENSES/, at any depth, no
    component hidden. -/
theorem C01_e2e_licences {cs : ETree} (hd : elookup tree "LICENSES" = some (.dir cs)) (q : Text) :
    q ∈ licFilesOf tree ↔ ∃ rel, LicIn cs rel ∧ q = relText ("LICENSES" :: rel) := mem_licFilesOf hd q

/-- `_find_licenses` on a tree with symbolic links, said outright.  With LICENSES a directory of the root
    or a symbolic link that resolves to one (entries `cs`), the paths the tool takes for licence texts are
    exactly `LICENSES/rel` for the `rel` such that: following `rel` from `cs` through directories and
    symbolic links that resolve to directories leads to an entry that is a regular file *or a symbolic link
    that resolves to a regular file*, and no component of `rel` is hidden (`Spec.LinkedText`).  The text is
    named by the path of the link, not of its target; a dangling link, a link whose name or one of whose
    directories' names begins with a dot, an entry behind a link to a regular file: none of them is one.
    (The name filter `*.license` is applied to these paths afterwards: `isLicFile` in `Provides`, see
    `C01_e2e_provided`.) -/
theorem C01_e2e_linked_text {l : ENode} {cs : ETree} (hd : elookup tree "LICENSES" = some l)
    (hl : DirOrLinkToDir l cs) (q : Text) :
    q ∈ licFilesOf tree ↔ ∃ rel, LinkedText cs rel ∧ q = relText ("LICENSES" :: rel) := by
  rw [mem_licFilesOf' hd hl]
  constructor
  · rintro ⟨rel, h, e⟩; exact ⟨rel, (licIn_iff_linkedText rel cs).mp h, e⟩
  · rintro ⟨rel, h, e⟩; exact ⟨rel, (licIn_iff_linkedText rel cs).mpr h, e⟩

/-- ... and there is no licence text at all when the root has no LICENSES entry, or it is a regular file,
    a dangling link or a link to a regular file. -/
theorem C01_e2e_no_licences_dir (h : ∀ l, elookup tree "LICENSES" = some l → ∀ cs, ¬ DirOrLinkToDir l cs) :
    licFilesOf tree = [] := licFilesOf_nil h

/-- "The text of `k` is provided by the tree" (`ProvidedT`, the notion `C01_e2e_missing_partial`,
    `C01_e2e_unused_partial` and clauses (b), (c) of `C01_e2e_verdict_partial` are stated with), read on a
    tree with symbolic links: some entry below LICENSES/ that is a regular file or a link resolving to one,
    reached through real or linked non-hidden directories, whose own name is not hidden, does not end in
    `.license` and carries `k`. -/
theorem C01_e2e_provided {l : ENode} {cs : ETree} (hd : elookup tree "LICENSES" = some l)
    (hl : DirOrLinkToDir l cs) (k : Text) :
    ProvidedT tbl tree k ↔ ∃ rel, LinkedText cs rel ∧ isLicFile (relText ("LICENSES" :: rel)) = true ∧
      (carried tbl (pathName (relText ("LICENSES" :: rel)))).1 = k := by
  unfold ProvidedT Provided Provides
  constructor
  · rintro ⟨path, hm, hf, hk⟩
    obtain ⟨rel, hrel, rfl⟩ := (C01_e2e_linked_text hd hl path).mp hm
    exact ⟨rel, hrel, hf, hk⟩
  · rintro ⟨rel, hrel, hf, hk⟩
    exact ⟨_, (C01_e2e_linked_text hd hl _).mpr ⟨rel, hrel, rfl⟩, hf, hk⟩

/-- the hypothesis `NoEmptyNotice` is implied by a check of the model's own output -/
theorem C01_e2e_hyp (h : noEmptyNoticeB (filesOf c g tree) = true) : NoEmptyNotice c g tree :=
  noEmptyNotice_of_B h

-- Non-vacuity: the hypotheses are satisfiable — a project holding only a dangling symlink is compliant.
example (c : E2ECfg) : globalOf c [("l", .symlink .dangling)] = some .none_ := by
  simp [globalOf, hasDep5, subtree, elookup, tomlFiles, iterFiles, toNodes, ENode.toNode, walkList, walkNode]
example : plainNames spdxTable (licFilesOf [("l", .symlink .dangling)]) = true := by decide
example (c : E2ECfg) : NoEmptyNotice c .none_ [("l", .symlink .dangling)] := by
  intro p it hp
  cases hp with
  | file hm _ => simp [toNodes, ENode.toNode] at hm
  | dir hm _ _ => simp [toNodes, ENode.toNode] at hm
example (c : E2ECfg) : ∃ r, lintE2E spdxTable c [("l", .symlink .dangling)] = .ok [] r ∧ r.isCompliant = true :=
  ⟨generateOn { lmap := spdxTable } [], by
    simp [lintE2E, globalOf, hasDep5, subtree, elookup, tomlFiles, iterFiles, toNodes, ENode.toNode, walkList,
      walkNode, projectOf, filesOf, coveredFiles, licFilesOf, licPathsOf, generate, findLicenses, findLoop], by decide⟩
-- ... with symbolic links below LICENSES/: a link to a regular file (named by the link), a link to a directory
-- (descended into, links inside it followed in turn), a dangling link, a hidden link, a link to a file used as a directory
def linkDemoShared : ETree :=
  [("0BSD.txt", .file [48]), ("Zlib.txt", .symlink (.file [90])), ("gone.txt", .symlink .dangling)]
def linkDemoLics : ETree := [
  ("MIT.txt", .symlink (.file [77])),
  ("shared", .symlink (.dir linkDemoShared)),
  ("GPL-2.0-only.txt", .symlink .dangling),
  (".Apache-2.0.txt", .symlink (.file [65])),
  (".pool", .symlink (.dir [("ISC.txt", .file [73])])),
  ("README", .symlink (.file [82])),
  ("README.txt", .dir [])]
def linkDemo : ETree := [
  ("a.py", .file [35]),
  ("LICENSES", .dir linkDemoLics)]

example : licFilesOf linkDemo = ["LICENSES/MIT.txt".toList, "LICENSES/shared/0BSD.txt".toList, "LICENSES/shared/Zlib.txt".toList,
    "LICENSES/README".toList] := by
  decide
example : LinkedText [("MIT.txt", .symlink (.file [77])), ("shared", .symlink (.dir [("Zlib.txt", .symlink (.file [90]))])),
    ("GPL-2.0-only.txt", .symlink .dangling)] ["shared", "Zlib.txt"] :=
  ⟨_, .step (sub := [("Zlib.txt", .symlink (.file [90]))]) (List.mem_cons_of_mem _ (List.mem_cons_self ..)) (.inr rfl)
    (.last (List.mem_cons_self ..)), .inr ⟨_, rfl⟩, by decide⟩
example : ¬ LinkedText [("MIT.txt", .symlink (.file [77])), ("GPL-2.0-only.txt", .symlink .dangling)] ["GPL-2.0-only.txt"] := by
  rintro ⟨n, hat, hf, _⟩
  cases hat with
  | last hm =>
    rcases List.mem_cons.mp hm with hm | hm
    · exact absurd (show "GPL-2.0-only.txt" = "MIT.txt" from congrArg Prod.fst hm) (by decide)
    · rcases List.mem_cons.mp hm with hm | hm
      · cases hm
        rcases hf with ⟨b, hb⟩ | ⟨b, hb⟩ <;> cases hb
      · cases hm
  | step _ _ h => cases h
example : "LICENSES/MIT.txt".toList ∈ licFilesOf linkDemo :=
  (C01_e2e_linked_text (tree := linkDemo) (l := .dir linkDemoLics) (by simp [elookup, linkDemo]) (.inl rfl) _).mpr
    ⟨["MIT.txt"], ⟨_, .last (List.mem_cons_self ..), .inr ⟨_, rfl⟩, by decide⟩, by decide⟩
example : ProvidedT spdxTable linkDemo "Zlib".toList :=
  (C01_e2e_provided (tree := linkDemo) (l := .dir linkDemoLics) (by simp [elookup, linkDemo]) (.inl rfl) _).mpr
    ⟨["shared", "Zlib.txt"], ⟨_, .step (sub := linkDemoShared) (List.mem_cons_of_mem _ (List.mem_cons_self ..)) (.inr rfl)
      (.last (List.mem_cons_of_mem _ (List.mem_cons_self ..))), .inr ⟨_, rfl⟩, by decide⟩, by decide +kernel, by decide +kernel⟩
-- ... and of the look-up statements: a file with a `.license` sibling in a well-formed directory.
example : wfEntries [("a.py", .file [35]), ("a.py.license", .file [])] := by
  simp [wfEntries, wfNode]
example : OwnSourceIs [("a.py", .file [35]), ("a.py.license", .file [])] [] "a.py" [35]
    (ownAt [("a.py", .file [35]), ("a.py.license", .file [])] ([] ++ ["a.py"])) :=
  C01_e2e_own_source (by simp [wfEntries, wfNode]) [] "a.py" [35] (.last (by simp))

end E2E

end C01
