/-
Property C01 — the lint verdict equals compliance.  `Model.generate tbl pr` is the
model of what `reuse lint` computes, `Report.isCompliant` of
`ProjectReport.is_compliant`, `Report.exit` of the command's exit status;
`Spec.Compliant` is clauses (a)–(d) of the property over the abstract project
(`Spec/Report.lean`).  The per-category exactness of the licence collections is
C06 (`C06_missing_partial`, … — same model, same hypotheses); the three per-file
collections are characterised here.

`…_partial`: `plainNames` excludes the recorded ambiguous LICENSES/ names (see
Theorems/C06.lean); `noRefInTable` is the table obligation `C06_table`.
-/
import ReuseVerif.Lemmas.ReportMain
import ReuseVerif.Theorems.C06

namespace C01
open Py Spec Model

variable {tbl : LicenseMap} {pr : Project} {r : Report}

/-- The verdict is clauses (a)–(d): for every table, every list of covered files
    and every list of LICENSES/ entries for which a report is produced. -/
theorem C01_verdict_partial (ht : noRefInTable tbl = true) (hp : plainNames tbl pr.licFiles = true)
    (h : generate tbl pr = some r) : r.isCompliant = true ↔ Compliant tbl pr := by
  rw [isCompliant_iff, pairs_nil_iff (C06.C06_missing_partial hp h), list_nil_iff (C06.C06_unused_partial hp h),
    pairs_nil_iff (C06.C06_bad_partial hp h), list_nil_iff (C06.C06_deprecated_partial ht hp h),
    pairs_nil_iff (C06.C06_without_extension_partial hp h), bad_split]
  obtain ⟨fd, _, rfl⟩ := split_generate h
  unfold Compliant
  rw [clauseA_iff (fd := fd), clauseB_iff, clauseC_iff, clauseD_iff (fd := fd)]
  constructor
  · rintro ⟨h1, h2, ⟨h3, h4⟩, h5, h6, h7, h8, h9⟩
    exact ⟨⟨h7, h8⟩, ⟨h1, h3⟩, ⟨h2, h4, h5, h6⟩, h9⟩
  · rintro ⟨⟨h7, h8⟩, ⟨h1, h3⟩, ⟨h2, h4, h5, h6⟩, h9⟩
    exact ⟨h1, h2, ⟨h3, h4⟩, h5, h6, h7, h8, h9⟩

/-- exit status 0 exactly when compliant, 1 otherwise -/
theorem C01_exit (r : Report) : (r.exit = 0 ↔ r.isCompliant = true) ∧ (r.exit = 1 ↔ r.isCompliant = false) := by
  unfold Report.exit; cases r.isCompliant <;> simp

/-- compliant exactly when all eight collections are empty: nothing else enters the verdict,
    and a non-compliant run names at least one offender -/
theorem C01_eight (r : Report) :
    r.isCompliant = true ↔ r.missing = [] ∧ r.unused = [] ∧ r.bad = [] ∧ r.deprecated = [] ∧
      r.noExt = [] ∧ r.noCopyright = [] ∧ r.noLicence = [] ∧ r.readErrors = [] :=
  isCompliant_iff r

/-- a violated clause makes the run exit 1 -/
theorem C01_violation_exits_1_partial (ht : noRefInTable tbl = true) (hp : plainNames tbl pr.licFiles = true)
    (h : generate tbl pr = some r) (hv : ¬ Compliant tbl pr) : r.exit = 1 := by
  rw [(C01_exit r).2]
  cases hc : r.isCompliant with
  | false => rfl
  | true => exact absurd ((C01_verdict_partial ht hp h).mp hc) hv

/-- named under "no copyright": exactly the files that were read and carry no notice -/
theorem C01_no_copyright (h : generate tbl pr = some r) (p : Text) :
    p ∈ r.noCopyright ↔ ∃ f ∈ pr.files, f.readable = true ∧ f.hasCopyright = false ∧ f.path = p := by
  obtain ⟨fd, _, rfl⟩ := split_generate h
  exact mem_noCopyright

/-- named under "no licence": exactly the files that were read and carry no expression -/
theorem C01_no_licence (h : generate tbl pr = some r) (p : Text) :
    p ∈ r.noLicence ↔ ∃ f ∈ pr.files, f.readable = true ∧ (¬ ∃ e ∈ f.exprs, e ≠ []) ∧ f.path = p := by
  obtain ⟨fd, _, rfl⟩ := split_generate h
  exact mem_noLicence

/-- named under "read errors": exactly the covered files that could not be read -/
theorem C01_read_errors (h : generate tbl pr = some r) (p : Text) :
    p ∈ r.readErrors ↔ ∃ f ∈ pr.files, f.readable = false ∧ f.path = p := by
  obtain ⟨fd, _, rfl⟩ := split_generate h
  exact mem_readErrors

/-- each clause on its own is the emptiness of its categories -/
theorem C01_clauses_partial (hp : plainNames tbl pr.licFiles = true) (h : generate tbl pr = some r) :
    (ClauseA pr ↔ r.noCopyright = [] ∧ r.noLicence = []) ∧
    (ClauseD pr ↔ r.readErrors = []) ∧
    (ClauseB tbl pr → r.missing = []) ∧
    (ClauseC tbl pr → r.unused = [] ∧ r.noExt = []) := by
  have hm := pairs_nil_iff (C06.C06_missing_partial hp h)
  have hu := list_nil_iff (C06.C06_unused_partial hp h)
  have hn := pairs_nil_iff (C06.C06_without_extension_partial hp h)
  obtain ⟨fd, _, rfl⟩ := split_generate h
  refine ⟨clauseA_iff, clauseD_iff, ?_, ?_⟩
  · intro hb; rw [hm]; exact (clauseB_iff.mp hb).1
  · intro hc
    have := clauseC_iff.mp hc
    exact ⟨hu.mpr this.1, hn.mpr this.2.2.2⟩

-- Non-vacuity: a compliant project and a non-compliant one over the generated table.
def good : Project := {
  files := [
    { path := "a.py".toList, readable := true, hasCopyright := true,
      exprs := [["MIT".toList, "GPL-2.0-only".toList, "Classpath-exception-2.0".toList], ["Apache-2.0+".toList]] },
    { path := "b.c".toList, readable := true, hasCopyright := true, exprs := [["LicenseRef-x".toList]] }]
  licFiles := ["LICENSES/MIT.txt".toList, "LICENSES/sub/Apache-2.0.md".toList, "LICENSES/GPL-2.0-only.txt".toList,
    "LICENSES/MIT.txt.license".toList, "LICENSES/Classpath-exception-2.0.txt".toList, "LICENSES/LicenseRef-x.txt".toList] }

example : plainNames spdxTable good.licFiles = true := by decide +kernel
example : (generate spdxTable good).map (·.isCompliant) = some true := by decide +kernel
example : (generate spdxTable C06.demo).map (·.exit) = some 1 := by decide +kernel
example : (generate spdxTable { good with files := { path := "pipe".toList, readable := false, hasCopyright := false, exprs := [] } :: good.files }).map
    (fun r => (r.exit, r.readErrors)) = some (1, ["pipe".toList]) := by decide +kernel

end C01
