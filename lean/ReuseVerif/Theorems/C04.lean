/-
Property C04 — per-file sources and precedence follow the specification.
The model (`Model/Precedence.lean`) mirrors the code's loop-with-break, the
reversed two-flag clean-up of CLOSEST and the assembly with its special case;
the spec (`Spec/Precedence.lean`) is a membership characterisation.  Chains of
REUSE.toml files of any depth.
-/
import ReuseVerif.Lemmas.PrecedenceMain

namespace C04
open Model Spec

theorem file_eq (levels : List (Option Table)) (fileInfo : Info) :
    (if (nested levels).override.isEmpty then fileInfo else { cpr := [], lic := [], src := .own })
      = ownInfo levels fileInfo := by
  rw [override_isEmpty]; unfold ownInfo; cases hasOverride levels <;> simp

theorem mem_itemsOf_append {a b : List Info} {it : Item} :
    it ∈ itemsOf (a ++ b) ↔ it ∈ itemsOf a ∨ it ∈ itemsOf b := by
  simp [itemsOf]

theorem mem_items_clear_cpr {l : List Info} {it : Item} :
    it ∈ itemsOf (l.map fun c => { c with cpr := [] }) ↔ it ∈ itemsOf l ∧ it.kind = .lic := by
  obtain ⟨k, v, s⟩ := it
  simp only [mem_itemsOf, List.mem_map]
  cases k <;> simp [ownAttr]
  constructor
  · rintro ⟨i, ⟨a, ha, rfl⟩, h⟩; exact ⟨a, ha, h⟩
  · rintro ⟨a, ha, h⟩; exact ⟨_, ⟨a, ha, rfl⟩, h⟩

theorem mem_items_clear_lic {l : List Info} {it : Item} :
    it ∈ itemsOf (l.map fun c => { c with lic := [] }) ↔ it ∈ itemsOf l ∧ it.kind = .cpr := by
  obtain ⟨k, v, s⟩ := it
  simp only [mem_itemsOf, List.mem_map]
  cases k <;> simp [ownAttr]
  constructor
  · rintro ⟨i, ⟨a, ha, rfl⟩, h⟩; exact ⟨a, ha, h⟩
  · rintro ⟨a, ha, h⟩; exact ⟨_, ⟨a, ha, rfl⟩, h⟩

/-- Main theorem: for every chain of REUSE.toml levels (any depth), every own
    information and every item, the item is attributed to the file by the model of
    `Project.reuse_info_of` iff the specification attributes it. -/
theorem C04_items (levels : List (Option Table)) (fileInfo : Info) (hsrc : fileInfo.src = .own)
    (it : Item) :
    it ∈ itemsOf (reuseInfoOf levels fileInfo) ↔ SpecItem levels fileInfo it := by
  unfold reuseInfoOf assemble SpecItem
  simp only [file_eq]
  have hown : (ownInfo levels fileInfo).src = .own := by
    unfold ownInfo; split <;> simp [hsrc]
  generalize ownInfo levels fileInfo = own at hown ⊢
  rw [mem_itemsOf_append, mem_itemsOf_append, mem_itemsOf_append]
  have hA : (it ∈ itemsOf (nested levels).override ∨ it ∈ itemsOf (nested levels).aggregate) ↔
      ∃ x ∈ visible (tablesOf 0 levels), (x.2.prec = .override ∨ x.2.prec = .aggregate) ∧
        it.src = .toml x.1 ∧ it.value ∈ attr it.kind x.2 := by
    have h1 := prec_items .override levels it
    have h2 := prec_items .aggregate levels it
    unfold nested
    simp only
    rw [h1, h2]
    constructor
    · rintro (⟨x, hx, hp, h⟩ | ⟨x, hx, hp, h⟩)
      · exact ⟨x, hx, .inl hp, h⟩
      · exact ⟨x, hx, .inr hp, h⟩
    · rintro ⟨x, hx, hp | hp, h⟩
      · exact .inl ⟨x, hx, hp, h⟩
      · exact .inr ⟨x, hx, hp, h⟩
  have hB : it ∈ itemsOf (if own.hasCprOrLic = true then [own] else []) ↔
      it.src = own.src ∧ it.value ∈ ownAttr it.kind own := by
    obtain ⟨k, v, s⟩ := it
    unfold Info.hasCprOrLic
    cases hc : own.cpr.isEmpty <;> cases hl : own.lic.isEmpty <;> cases k <;>
      simp_all [mem_itemsOf, ownAttr, List.isEmpty_iff]
  have hC := closest_items levels it
  rw [or_assoc, hA, hB]
  apply or_congr Iff.rfl
  apply or_congr Iff.rfl
  obtain ⟨k, v, s⟩ := it
  unfold Info.hasCprOrLic
  cases hc : own.cpr.isEmpty <;> cases hl : own.lic.isEmpty
  · -- the file has both: CLOSEST contributes nothing
    cases k <;> simp_all [itemsOf, ownAttr, List.isEmpty_iff]
  · -- only copyright: licensing may come from CLOSEST
    simp only [Bool.not_false, Bool.not_true, Bool.or_false, Bool.true_or, Bool.false_eq_true,
      if_false, if_true, Bool.or_true]
    rw [mem_items_clear_cpr, hC]
    cases k <;> simp_all [ownAttr, List.isEmpty_iff]
  · -- only licensing: copyright may come from CLOSEST
    simp only [Bool.not_false, Bool.not_true, Bool.or_true, Bool.false_eq_true, if_false, if_true,
      Bool.true_or, Bool.false_or]
    rw [mem_items_clear_lic, hC]
    cases k <;> simp_all [ownAttr, List.isEmpty_iff]
  · -- nothing of its own: everything CLOSEST keeps
    simp only [Bool.not_true, Bool.or_self, Bool.false_eq_true, if_false, Bool.not_false, if_true]
    rw [hC]
    cases k <;> simp_all [ownAttr, List.isEmpty_iff]

/-- Within one REUSE.toml the last matching table applies. -/
theorem C04_last_wins (pre post : List (Bool × Table)) (t : Table)
    (hpost : ∀ x ∈ post, x.1 = false) :
    findItem (pre ++ (true, t) :: post) = some t := by
  unfold findItem
  simp only [List.reverse_append, List.reverse_cons, List.append_assoc, List.singleton_append]
  rw [List.find?_append]
  have : post.reverse.find? (·.1) = none := by
    simp only [List.find?_eq_none, List.mem_reverse]
    intro x hx; simp [hpost x hx]
  simp [this]

theorem C04_no_match (tables : List (Bool × Table)) (h : ∀ x ∈ tables, x.1 = false) :
    findItem tables = none := by
  unfold findItem
  simp only [Option.map_eq_none_iff, List.find?_eq_none, List.mem_reverse]
  intro x hx; simp [h x hx]

/-- An `override` hides the file's own content and every deeper REUSE.toml: nothing
    is attributed from a deeper level, nothing from the file itself. -/
theorem C04_override_hides (pre : List (Option Table)) (t : Table) (deeper : List (Option Table))
    (ht : t.prec = .override) (fileInfo : Info) (hsrc : fileInfo.src = .own) (it : Item)
    (hit : it ∈ itemsOf (reuseInfoOf (pre ++ some t :: deeper) fileInfo)) :
    ∃ n, it.src = .toml n ∧ n ≤ pre.length := by
  rw [C04_items _ _ hsrc] at hit
  have hvis : ∀ (i : Nat) (l : List (Option Table)) x, x ∈ visible (tablesOf i (l ++ some t :: deeper)) →
      x.1 ≤ i + l.length := by
    intro i l
    induction l generalizing i with
    | nil =>
      intro x hx
      simp [tablesOf, visible, ht] at hx
      simp [hx]
    | cons o l ih =>
      intro x hx
      cases o with
      | none =>
        simp only [List.cons_append, tablesOf] at hx
        have := ih (i + 1) x hx
        simp only [List.length_cons]; omega
      | some u =>
        simp only [List.cons_append, tablesOf, visible] at hx
        split at hx
        · simp at hx; simp [hx]
        · rcases List.mem_cons.mp hx with rfl | hx
          · simp
          · have := ih (i + 1) x hx
            simp only [List.length_cons]; omega
  have hov : hasOverride (pre ++ some t :: deeper) = true := by
    unfold hasOverride
    have : ∀ (i : Nat) (l : List (Option Table)),
        (tablesOf i (l ++ some t :: deeper)).any (·.2.prec = .override) = true := by
      intro i l
      induction l generalizing i with
      | nil => simp [tablesOf, ht]
      | cons o l ih => cases o <;> simp [tablesOf, ih]
    exact this 0 pre
  rcases hit with ⟨x, hx, _, hs, _⟩ | ⟨_, hv⟩ | ⟨_, x, hx, hs, _⟩
  · exact ⟨x.1, hs, by simpa using hvis 0 pre x hx⟩
  · unfold ownInfo at hv; rw [hov] at hv
    obtain ⟨k, v, s⟩ := it
    cases k <;> simp [ownAttr] at hv
  · unfold nearestProvider at hx
    have hm := List.mem_of_getLast? hx
    exact ⟨x.1, hs, by simpa using hvis 0 pre x (List.mem_filter.mp hm).1⟩

/-- `.license` sibling: when it exists it replaces the file's own content as the source. -/
theorem C04_sibling {α} (file sib : α) : ownSource file (some sib) = sib ∧ ownSource file none = file := by
  simp [ownSource]

-- Non-vacuity: the very configuration on which the unrepaired tool lost the licence
-- (outer `closest` with copyright only, inner `closest` with a licence only, a file with
-- its own copyright): the licence of the inner REUSE.toml is attributed.
example :
    (⟨.lic, "MIT", .toml 1⟩ : Item) ∈ itemsOf (reuseInfoOf
      [some ⟨.closest, ["2020 Outer"], []⟩, some ⟨.closest, [], ["MIT"]⟩]
      ⟨["2021 Own"], [], .own⟩) := by decide

example :
    itemsOf (reuseInfoOf [some ⟨.aggregate, ["A"], ["MIT"]⟩, some ⟨.override, ["B"], ["ISC"]⟩, some ⟨.aggregate, ["C"], []⟩]
      ⟨["Own"], ["0BSD"], .own⟩)
    = [⟨.cpr, "B", .toml 1⟩, ⟨.lic, "ISC", .toml 1⟩, ⟨.cpr, "A", .toml 0⟩, ⟨.lic, "MIT", .toml 0⟩] := by decide

end C04
