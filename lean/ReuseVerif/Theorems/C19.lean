/-
Property C19 — download never overwrites and supplies exactly the missing licences.

All theorems are about `Model.download` (the function the driver op `download` executes),
for every file system, every identifier list, every network oracle `fetch` (`none` = the
transfer failed), every invocation directory / root / VCS flag.  The destination test is
the repaired one (fixes/download-dangling-symlink.diff).
-/
import ReuseVerif.Lemmas.Download
import ReuseVerif.Spec.Download

namespace C19
open Py Model Spec Model.Download Spec.Download

variable (fetch : Text → Option Text) (e : Env) (missing : List Text) (a : Args) (fs : Fs)

/-- Nothing that exists — file, directory or symbolic link — is replaced, altered or removed,
    whatever is requested and whatever the network does. -/
theorem C19_no_overwrite {r : Run} {exit : Nat} (h : download fetch e missing a fs = .done r exit) :
    Preserves fs r.fs := by
  obtain ⟨_, hr, _⟩ := done_inv h
  subst hr
  exact fun p n hp => loop_preserves _ _ _ _ _ p n hp

/-- Everything the command creates is `LICENSES/<id>.txt` (a regular file) for a requested
    identifier with its '+' stripped, or the `--output` path, or the directory holding it —
    and was absent before. -/
theorem C19_write_set {r : Run} {exit : Nat} (h : download fetch e missing a fs = .done r exit)
    (p : Path) (n : Node) (hn : r.fs.get p = some n) (hc : fs.get p ≠ some n) :
    fs.get p = none ∧ Allowed e missing a p n := by
  obtain ⟨_, hr, _⟩ := done_inv h
  subst hr
  rcases loop_locus fetch a.source (destOf e a.output) fs (targets missing a) p with
    h' | ⟨hnone, id, hid, h'⟩
  · rw [h'] at hn; exact absurd hn hc
  · refine ⟨hnone, ?_⟩
    obtain ⟨i, hi, rfl⟩ := mem_targets.mp hid
    cases ho : a.output with
    | some o =>
      simp only [ho, destOf] at h' hn
      rcases h' with ⟨rfl, hd⟩ | ⟨rfl, _, t, ht⟩
      · rw [hd] at hn; cases hn; exact .outputDir o ho
      · rw [ht] at hn; cases hn; exact .output _ t ho
    | none =>
      simp only [ho, destOf] at h' hn
      rcases h' with ⟨hp, hd⟩ | ⟨rfl, _, t, ht⟩
      · rw [hd] at hn; cases hn
        rw [hp, List.dropLast_concat]; exact .licensesDir ho
      · rw [ht] at hn; cases hn; exact .licence i t ho hi

/-- A usage error (exit status 2) happens before any effect: the model returns no new file
    system at all, and it is decided by the arguments and the initial tree only — never by the
    network. -/
theorem C19_usage_first (g : Text → Option Text) :
    download fetch e missing a fs = .usage ↔ download g e missing a fs = .usage := by
  unfold download
  split <;> simp

/-- Batch independence: each identifier of a command fares exactly as it would alone on the
    initial tree — same outcome, same node at its destination at the end, network consulted
    or not — at any position, whatever happens to the others. -/
theorem C19_batch {r : Run} {exit : Nat} (h : download fetch e missing a fs = .done r exit)
    (id : Text) (hid : id ∈ targets missing a) :
    r.outcomes.lookup id = some (putLicense fetch fs a.source id (destOf e a.output id)).outcome ∧
    r.fs.get (destOf e a.output id)
      = (putLicense fetch fs a.source id (destOf e a.output id)).fs.get (destOf e a.output id) ∧
    (id ∈ r.calls ↔ (putLicense fetch fs a.source id (destOf e a.output id)).fetched = true) := by
  obtain ⟨hu, hr, _⟩ := done_inv h
  subst hr
  cases ho : a.output with
  | none =>
    have hd : destOf e none = licDest (licensesDir e) := rfl
    rw [hd]
    refine loop_batch fetch a.source (licensesDir e) fs id ?_ _ fs (Sim.refl _ _ _ _) hid
      (nodup_dedup _)
    intro s hs
    refine ⟨?_, source_ne_licensesDir e s id⟩
    intro hnone
    simp [usageError, hs, hnone] at hu
  | some o =>
    -- at most one identifier: the batch is that single step
    have hlen : (targets missing a).length ≤ 1 := by
      have hall : a.all = false := by
        cases hall : a.all with
        | false => rfl
        | true => simp [usageError, ho, hall] at hu
      have hids : a.ids.length ≤ 1 := by
        by_cases hl : a.ids.length > 1
        · simp [usageError, ho, hl] at hu
        · omega
      unfold targets
      rw [hall]
      simp only [Bool.false_eq_true, if_false]
      match hq : a.ids with
      | [] => simp [dedup]
      | [x] => simp [dedup]
      | _ :: _ :: _ => rw [hq] at hids; simp at hids
    match ht : targets missing a with
    | [] => rw [ht] at hid; cases hid
    | [x] =>
      rw [ht] at hid
      have : id = x := by simpa using hid
      subst this
      by_cases hf : (putLicense fetch fs a.source id o).fetched = true <;> simp [loop, destOf, hf]
    | _ :: _ :: _ => rw [ht] at hlen; simp at hlen

/-- No debris: when the transfer fails for an identifier, nothing appears at its destination
    (no partial file), at any position of a batch. -/
theorem C19_no_debris {r : Run} {exit : Nat} (h : download fetch e missing a fs = .done r exit)
    (id : Text) (hid : id ∈ targets missing a) (hr : isLicenseRef id = false) (hf : fetch id = none) :
    r.fs.get (destOf e a.output id) = fs.get (destOf e a.output id) ∧
    r.outcomes.lookup id ≠ some .ok := by
  obtain ⟨h1, h2, _⟩ := C19_batch fetch e missing a fs h id hid
  have hne := putLicense_no_text fetch fs a.source id (destOf e a.output id) hr hf
  rw [h1, h2]
  exact ⟨putLicense_failed _ _ _ _ _ hne, by simpa using hne⟩

/-- The exit status reports failure exactly: 1 iff some identifier was not supplied, else 0. -/
theorem C19_exit {r : Run} {exit : Nat} (h : download fetch e missing a fs = .done r exit) :
    (exit = 1 ↔ ∃ o ∈ r.outcomes, o.2 ≠ .ok) ∧ (exit = 0 ↔ ∀ o ∈ r.outcomes, o.2 = .ok) := by
  obtain ⟨_, _, he⟩ := done_inv h
  subst he
  unfold exitOf
  by_cases hany : r.outcomes.any (fun o => o.2 != .ok) = true
  · rw [if_pos hany]
    simp only [List.any_eq_true, bne_iff_ne] at hany
    obtain ⟨o, ho, hne⟩ := hany
    exact ⟨⟨fun _ => ⟨o, ho, hne⟩, fun _ => rfl⟩,
      ⟨fun h0 => (by cases h0), fun hall => absurd (hall o ho) hne⟩⟩
  · rw [if_neg hany]
    simp only [List.any_eq_true, bne_iff_ne, not_exists, not_and, Decidable.not_not] at hany
    exact ⟨⟨fun h1 => (by cases h1), fun ⟨o, ho, hne⟩ => absurd (hany o ho) hne⟩,
      ⟨fun _ => hany, fun _ => rfl⟩⟩

/-- A failed transfer is reported: exit status 1. -/
theorem C19_exit_on_failure {r : Run} {exit : Nat} (h : download fetch e missing a fs = .done r exit)
    (id : Text) (hid : id ∈ targets missing a) (hr : isLicenseRef id = false) (hf : fetch id = none) :
    exit = 1 := by
  obtain ⟨h1, _, _⟩ := C19_batch fetch e missing a fs h id hid
  have hne := putLicense_no_text fetch fs a.source id (destOf e a.output id) hr hf
  refine ((C19_exit fetch e missing a fs h).1).mpr ⟨(id, _), ?_, hne⟩
  have := List.lookup_eq_some_iff.mp h1
  obtain ⟨l1, l2, hl, _⟩ := this
  rw [hl]; simp

/-- 'ID+' is handled as 'ID'. -/
theorem C19_plus (id : Text) (l1 l2 : List Text) (hp : noPlus id = true) :
    download fetch e missing { a with ids := l1 ++ (id ++ ['+']) :: l2 } fs =
    download fetch e missing { a with ids := l1 ++ id :: l2 } fs := by
  have h1 : stripPlus (id ++ ['+']) = id := by
    unfold stripPlus
    have : endsWith (id ++ ['+']) ['+'] = true := by simp [endsWith]
    rw [if_pos this]; simp
  have h2 : stripPlus id = id := by
    unfold stripPlus
    unfold noPlus at hp
    have : endsWith id ['+'] = false := by simpa using hp
    simp [this]
  have hE : (l1 ++ (id ++ ['+']) :: l2).isEmpty = (l1 ++ id :: l2).isEmpty := by
    cases l1 <;> rfl
  have hL : (l1 ++ (id ++ ['+']) :: l2).length = (l1 ++ id :: l2).length := by simp
  have hM : List.map stripPlus (if a.all = true then missing else l1 ++ (id ++ ['+']) :: l2) =
      List.map stripPlus (if a.all = true then missing else l1 ++ id :: l2) := by
    split
    · rfl
    · simp [h1, h2]
  unfold download usageError targets
  simp only [hE, hL, hM]

/-- LicenseRef- licences are created without the network: the oracle is never consulted for
    one (call log), and the whole result does not depend on what the oracle would answer for
    LicenseRef- identifiers. -/
theorem C19_licenseref_offline {r : Run} {exit : Nat} (h : download fetch e missing a fs = .done r exit) :
    (∀ c ∈ r.calls, isLicenseRef c = false ∧ c ∈ targets missing a) ∧
    (∀ g : Text → Option Text, (∀ id, isLicenseRef id = false → fetch id = g id) →
      download g e missing a fs = .done r exit) := by
  obtain ⟨hu, hr, he⟩ := done_inv h
  constructor
  · subst hr
    exact fun c hc => ⟨(loop_calls _ _ _ _ _ c hc).2, (loop_calls _ _ _ _ _ c hc).1⟩
  · intro g hg
    rw [← h]
    unfold download
    rw [loop_fetch_congr g fetch a.source (destOf e a.output) fs (targets missing a)
      (fun id _ hr => (hg id hr).symm)]

/-- What a supplied licence holds: exactly the text the network returned (no header, nothing
    partial); a LicenseRef- without `--source` is an empty file. -/
theorem C19_text {r : Run} {exit : Nat} (h : download fetch e missing a fs = .done r exit)
    (id : Text) (hid : id ∈ targets missing a) (hok : r.outcomes.lookup id = some .ok) :
    (isLicenseRef id = false → ∃ t, fetch id = some t ∧
        r.fs.get (destOf e a.output id) = some (.file t)) ∧
    (isLicenseRef id = true → a.source = none →
        r.fs.get (destOf e a.output id) = some (.file [])) := by
  obtain ⟨h1, h2, _⟩ := C19_batch fetch e missing a fs h id hid
  rw [h1] at hok
  rw [h2]
  exact putLicense_text fetch fs a.source id _ (by simpa using hok)

/-- After a fully successful `download --all`, every licence lint reported missing has its
    file `LICENSES/<id>.txt` ('+' stripped) in the project's licences directory. -/
theorem C19_all_closes {r : Run} (hall : a.all = true)
    (h : download fetch e missing a fs = .done r 0) (m : Text) (hm : m ∈ missing) :
    ∃ t, r.fs.get (licensesDir e ++ [stripPlus m ++ txtSuffix]) = some (.file t) := by
  obtain ⟨hu, hr, _⟩ := done_inv h
  have ho : a.output = none := by
    cases ho : a.output with
    | none => rfl
    | some o => simp [usageError, ho, hall] at hu
  have hok := ((C19_exit fetch e missing a fs h).2).mp rfl
  have hid : stripPlus m ∈ targets missing a :=
    mem_targets.mpr ⟨m, by simp [requested, hall, hm], rfl⟩
  subst hr
  have hk := loop_keys fetch a.source (destOf e a.output) fs (targets missing a)
  rw [← hk, List.mem_map] at hid
  obtain ⟨⟨i, o⟩, hio, hi⟩ := hid
  simp only at hi
  subst hi
  have : o = .ok := hok _ hio
  subst this
  have := loop_ok_file fetch a.source (destOf e a.output) fs (targets missing a) _ hio
  have hd : destOf e a.output (stripPlus m) = licensesDir e ++ [stripPlus m ++ txtSuffix] := by
    rw [ho]; rfl
  rw [hd] at this
  exact this

-- Non-vacuity: concrete commands satisfying the hypotheses used above.
section examples

private def proj : Text := "proj".toList
private def exFs : Fs := [([], .dir), ([proj], .dir), ([proj, "LICENSES".toList], .dir),
  ([proj, "LICENSES".toList, "0BSD.txt".toList], .link "../../elsewhere".toList)]
private def exEnv : Env := ⟨[proj], [proj], true⟩
private def exFetch : Text → Option Text :=
  fun id => if id = "MIT".toList then some "MIT text".toList else none

/-- a batch with a success, a failed transfer, a LicenseRef- and a dangling link at a destination:
    runs to completion with exit status 1 -/
example : ∃ r, download exFetch exEnv []
    ⟨["MIT+".toList, "Foo-1.0".toList, "LicenseRef-x".toList, "0BSD".toList], false, none, none⟩ exFs
      = .done r 1 ∧
    r.fs.get [proj, "LICENSES".toList, "MIT.txt".toList] = some (.file "MIT text".toList) ∧
    r.fs.get [proj, "LICENSES".toList, "Foo-1.0.txt".toList] = none ∧
    r.fs.get [proj, "LICENSES".toList, "LicenseRef-x.txt".toList] = some (.file []) ∧
    r.fs.get [proj, "LICENSES".toList, "0BSD.txt".toList] = some (.link "../../elsewhere".toList) ∧
    r.calls = ["MIT".toList, "Foo-1.0".toList] := by
  refine ⟨_, rfl, ?_, ?_, ?_, ?_, ?_⟩ <;> decide

/-- `--all` with exit status 0 (hypotheses of `C19_all_closes`) -/
example : ∃ r, download exFetch exEnv ["MIT+".toList] ⟨[], true, none, none⟩ exFs = .done r 0 :=
  ⟨_, rfl⟩

/-- `--output` together with two identifiers is a usage error -/
example : download exFetch exEnv [] ⟨["MIT".toList, "MIT+".toList], false, some [proj, "x".toList], none⟩ exFs
    = .usage := rfl

example : "MIT".toList ∈ targets [] ⟨["MIT+".toList, "MIT".toList], false, none, none⟩ := by decide
example : isLicenseRef "Foo-1.0".toList = false ∧ exFetch "Foo-1.0".toList = none := by decide
example : isLicenseRef "LicenseRef-x".toList = true := by decide
example : noPlus "MIT".toList = true ∧ noPlus "MIT+".toList = false := by decide

end examples

end C19
