import ReuseVerif.Model.Download
namespace C19
open Model
theorem C19_placeholder : stripPlus ['M', '+'] = ['M'] := by decide
end C19
