/-
C08 — annotate changes nothing but the header.

Model: `Model.findAndReplaceHeader`, `Model.addNewHeader`, `Model.annotateText`, `Model.annotateFile`
(src/reuse/header.py, src/reuse/_annotate.py).  Spec: `Spec.Splice` / `Spec.SpliceAt` (Spec/Splice.lean).
The header generator is arbitrary: whatever `createHeader` returned is the block `hdr` of the statements
(template, style, merging of old information are the business of C07 / C09).
-/
import ReuseVerif.Lemmas.Splice
import ReuseVerif.Lemmas.FirstLine
import ReuseVerif.Lemmas.C08FirstLineOld
import ReuseVerif.Lemmas.C08SpliceGeneral
import ReuseVerif.Lemmas.C08FirstLineGeneral
namespace C08
open Py Model Spec C08L C10L

/-- what `find_and_replace_header` writes is `place_header` applied to the sections `Spec.replaceSections` -/
theorem C08_replace_sections {c : HdrCfg} {info : Extracted} {t out : Text}
    (h : findAndReplaceHeader c info t = .ok out) :
    ∃ hdr, createHeader c info (replaceSections c t).2.1 = .ok hdr ∧
      out = placeHeader hdr (replaceSections c t).1 (replaceSections c t).2.2 (!(replaceSections c t).2.1.isEmpty) := by
  unfold findAndReplaceHeader at h
  unfold replaceSections
  simp only [bind, Except.bind, pure, Except.pure] at h
  split at h
  · cases h
  · rename_i hdr hc
    simp only [Except.ok.injEq] at h
    exact ⟨hdr, hc, h.symm⟩

/-- what `add_new_header` writes is `place_header` applied to (shebang lines, rest) -/
theorem C08_add_sections {c : HdrCfg} {info : Extracted} {t out : Text}
    (h : addNewHeader c info t = .ok out) :
    ∃ hdr, createHeader c info [] = .ok hdr ∧
      out = placeHeader hdr (addSections c t).1 (addSections c t).2 false := by
  unfold addNewHeader at h
  unfold addSections
  simp only [bind, Except.bind, pure, Except.pure] at h
  split at h
  · cases h
  · rename_i hdr hc
    simp only [Except.ok.injEq] at h
    exact ⟨hdr, hc, h.symm⟩

/-- **Replacing mode.**  For every text whose only line boundary is `\n` (the state after
    `add_header_to_file` normalised a file with one line-ending convention), every style but the
    `.license` pseudo style and every header generator: a successful `find_and_replace_header` returns
    the text with exactly one region `old` replaced by the new block — `pre` above it loses only white
    space at its ends, `post` below it is kept byte for byte (or dropped when it is white space only),
    one empty line separates.  When the old block ends a text that has no final newline, the block is
    read with the line end the tool gives it (`pre ++ old ++ post = t ++ "\n"`, `post = []`). -/
theorem C08_splice_replace {c : HdrCfg} {info : Extracted} {t out : Text}
    (hstyle : (c.style.name == "EmptyCommentStyle") = false) (hno : NoExoticBreaks t)
    (h : findAndReplaceHeader c info t = .ok out) :
    ∃ hdr oldHdr pre old post, createHeader c info oldHdr = .ok hdr ∧
      (pre ++ old ++ post = t ∨ (pre ++ old ++ post = t ++ ['\n'] ∧ post = [])) ∧
      SpliceAt hdr pre post out := by
  obtain ⟨hdr, hc, hout⟩ := C08_replace_sections h
  -- the locator's sections
  have hloc : ∃ b0 h0 a0, replaceSections c t = moveShebang c.style.shebangs b0 h0 a0 ∧
      (b0 ++ h0 ++ a0 = t ∨ (b0 ++ h0 ++ a0 = t ++ ['\n'] ∧ a0 = [])) := by
    unfold replaceSections
    simp only [hstyle, Bool.false_eq_true, if_false]
    cases hf : findFirstSpdxComment c t with
    | none => exact ⟨[], [], t, rfl, Or.inl rfl⟩
    | some x =>
      obtain ⟨b, hh, a⟩ := x
      exact ⟨b, hh, a, rfl, locator_text hno hf⟩
  obtain ⟨b0, h0, a0, hsec, htext⟩ := hloc
  rw [hsec] at hout hc
  have hspec := moveShebang_spec c.style.shebangs b0 h0 a0
  generalize moveShebang c.style.shebangs b0 h0 a0 = m at hout hc hspec
  obtain ⟨m1, m2, m3⟩ := m
  simp only [] at hout hc hspec
  have hsp : SpliceAt hdr m1 m3 out := by rw [hout]; exact placeHeader_spliceAt hdr m1 m3 _
  rcases hspec with hk | ⟨hb, hh, ha⟩ | ⟨hb, hh, hh1, ha⟩
  · simp only [Prod.mk.injEq] at hk
    obtain ⟨rfl, rfl, rfl⟩ := hk
    exact ⟨hdr, _, m1, m2, m3, hc, htext, hsp⟩
  · subst ha
    refine ⟨hdr, _, b0 ++ m1, m2, m3, hc, ?_, ?_⟩
    · have : b0 ++ m1 ++ m2 ++ m3 = b0 ++ h0 ++ m3 := by rw [← hh]; simp
      rw [this]; exact htext
    · obtain ⟨a, b, ho, hA, hB⟩ := hsp
      exact ⟨a, b, ho, above_prepend_blank hb hA, hB⟩
  · subst hb; subst hh; subst hh1
    refine ⟨hdr, _, m1, [], m3, hc, ?_, hsp⟩
    simp only [List.append_nil, List.nil_append] at htext ⊢
    rw [ha]
    rcases htext with h1 | ⟨h1, h2⟩
    · exact Or.inl h1
    · right
      refine ⟨h1, ?_⟩
      exact (List.append_eq_nil_iff.mp (ha.trans h2)).2

/-- **Table obligation.**  The pseudo styles declare no first-line markers. -/
theorem C08_pseudo_table : ∀ s ∈ Generated.styles, s.isEmptyStyle = true → s.shebangs = [] := by
  decide +kernel

/-- **Replacing mode, no hypothesis on the text** (`NoExoticBreaks` lifted).  For every style of the table but the
    `.license` pseudo style, every request and *every* text: a successful `find_and_replace_header` cuts the text
    as `pre ++ old ++ post = t` — `pre` is what stands above the block found, `post` what `_find_first_spdx_comment`
    leaves below it, `old` the region between — and
    * either the output is `SpliceAt hdr pre post` (above: `pre` without white space at its ends and one empty line;
      below: `post` byte for byte, possibly after one empty line) — in particular every character outside `old` is
      kept, whatever line boundaries the text uses;
    * or `pre` is white space only and the shebang loop took marker lines *out of the block found*: what stands
      above the header is then `sbl`, the first `j` lines of the text from the block on as `str.splitlines()`
      reads them (`splitLines sbl = (splitLines (old ++ post)).take j`), each written with a `\n` line end, and the
      output is `SpliceAt hdr sbl post` — a form feed or a lone `\r` between two marker lines is rewritten to `\n`,
      no line is lost or reordered.
    Under `NoExoticBreaks`, `C08_splice_replace` says more in the second case (`sbl` is a substring of the text). -/
theorem C08_splice_replace_general {c : HdrCfg} {info : Extracted} {t out : Text} (hs : c.style ∈ Generated.styles)
    (hstyle : (c.style.name == "EmptyCommentStyle") = false)
    (h : findAndReplaceHeader c info t = .ok out) :
    ∃ hdr oldHdr pre old post, createHeader c info oldHdr = .ok hdr ∧ pre ++ old ++ post = t ∧
      (SpliceAt hdr pre post out ∨
       (Blank pre ∧ ∃ j sbl, sbl = (((splitLines (old ++ post)).take j).map (· ++ ['\n'])).flatten ∧
          splitLines sbl = (splitLines (old ++ post)).take j ∧ SpliceAt hdr sbl post out)) :=
  splice_replace_general hstyle (C08_pseudo_table _ hs) h

/-- **The `.license` pseudo style** (no shebang list): everything from the first position on whose rest
    holds REUSE information — the whole file when there is none — is the block; what stands above is kept
    as in the other styles, nothing stands below. -/
theorem C08_splice_license {c : HdrCfg} {info : Extracted} {t out : Text}
    (hstyle : (c.style.name == "EmptyCommentStyle") = true) (hsb : c.style.shebangs = [])
    (h : findAndReplaceHeader c info t = .ok out) :
    ∃ hdr oldHdr pre old, createHeader c info oldHdr = .ok hdr ∧ pre ++ old = t ∧ SpliceAt hdr pre [] out := by
  obtain ⟨hdr, hc, hout⟩ := C08_replace_sections h
  have hsec : ∃ b0 h0 r, replaceSections c t = (b0, h0, []) ∧ b0 ++ r = t := by
    unfold replaceSections
    simp only [hstyle, if_true, hsb, moveShebang]
    cases hf : findFirstSpdxComment c t with
    | none => exact ⟨[], [], t, rfl, rfl⟩
    | some x =>
      obtain ⟨b, hh, a⟩ := x
      obtain ⟨r, _, hbr, _⟩ := findFirst_spec hf
      exact ⟨b, hh, r, rfl, hbr⟩
  obtain ⟨b0, h0, r, hs, hbr⟩ := hsec
  rw [hs] at hout hc
  refine ⟨hdr, _, b0, r, hc, hbr, ?_⟩
  rw [hout]
  exact placeHeader_spliceAt hdr b0 [] _

/-- **`--no-replace`.**  For every text, style and header generator: a successful `add_new_header`
    returns the text with the new block inserted — after the leading shebang lines when the text starts
    with one of the style's first-line markers, else at the top; nothing is removed (`old = []`). -/
theorem C08_splice_add {c : HdrCfg} {info : Extracted} {t out : Text}
    (h : addNewHeader c info t = .ok out) :
    ∃ hdr pre post, createHeader c info [] = .ok hdr ∧ pre ++ [] ++ post = t ∧ SpliceAt hdr pre post out := by
  obtain ⟨hdr, hc, hout⟩ := C08_add_sections h
  refine ⟨hdr, (addSections c t).1, (addSections c t).2, hc, ?_, ?_⟩
  · unfold addSections
    split
    · simpa using extractShebang_append _ t
    · rfl
  · rw [hout]; exact placeHeader_spliceAt _ _ _ _

/-- the splice relation in the property's words: `Splice hdr t out` -/
theorem C08_splice_add_rel {c : HdrCfg} {info : Extracted} {t out : Text}
    (h : addNewHeader c info t = .ok out) : ∃ hdr, Splice hdr t out := by
  obtain ⟨hdr, pre, post, _, ht, hs⟩ := C08_splice_add h
  exact ⟨hdr, pre, [], post, ht.symm, hs⟩

/-- **Below the header.**  Text below the block that is not white space only is a suffix of the output:
    every line below the header is kept byte for byte, in order, and the file keeps the presence or
    absence of a final newline. -/
theorem C08_tail {hdr pre old post out : Text} (hs : SpliceAt hdr pre post out) (hnb : ¬ Blank post) :
    post <:+ out ∧ out.getLast? = (pre ++ old ++ post).getLast? := by
  obtain ⟨a, b, ho, _, hB⟩ := hs
  have hne : post ≠ [] := fun h => hnb (by rw [h]; decide)
  have hsuf : post <:+ out := by
    cases hB with
    | none hb => exact absurd hb hnb
    | same _ => exact ⟨a ++ hdr ++ ['\n'], by rw [ho]⟩
    | line _ => exact ⟨a ++ hdr ++ ['\n'] ++ ['\n'], by rw [ho]; simp⟩
  refine ⟨hsuf, ?_⟩
  obtain ⟨u, hu⟩ := hsuf
  rw [← hu, getLast?_append_ne _ hne, getLast?_append_ne _ hne]

/-- a file that ends with the header block ends with the block's own line end -/
theorem C08_tail_blank {hdr pre post out : Text} (hs : SpliceAt hdr pre post out) (hb : Blank post) :
    ∃ a, out = a ++ hdr ++ ['\n'] ∧ Above pre a := by
  obtain ⟨a, b, ho, hA, hB⟩ := hs
  cases hB with
  | none _ => exact ⟨a, by simpa using ho, hA⟩
  | same hnb => exact absurd hb hnb
  | line hnb => exact absurd hb hnb

/-- **Above the header.**  Text above the block that is not white space only stays at the start of the
    output, without the white space at its ends, followed by one empty line and the header. -/
theorem C08_head {hdr pre post out : Text} (hs : SpliceAt hdr pre post out) (hnb : ¬ Blank pre) :
    ∃ w₁ core w₂, pre = w₁ ++ core ++ w₂ ∧ Blank w₁ ∧ Blank w₂ ∧ core ≠ [] ∧
      (core ++ ['\n', '\n'] ++ hdr ++ ['\n']) <+: out := by
  obtain ⟨a, b, ho, hA, _⟩ := hs
  cases hA with
  | none hb => exact absurd hb hnb
  | kept w₁ core w₂ hp h1 h2 hne _ => exact ⟨w₁, core, w₂, hp, h1, h2, hne, b, by rw [ho]⟩

/-- … so text below the block that is not white space only is a suffix of the output, for every text -/
theorem C08_tail_general {c : HdrCfg} {info : Extracted} {t out : Text} (hs : c.style ∈ Generated.styles)
    (hstyle : (c.style.name == "EmptyCommentStyle") = false)
    (h : findAndReplaceHeader c info t = .ok out) :
    ∃ pre old post, pre ++ old ++ post = t ∧ (¬ Blank post → post <:+ out ∧ out.getLast? = t.getLast?) := by
  obtain ⟨hdr, _, pre, old, post, _, hcut, hsp⟩ := C08_splice_replace_general hs hstyle h
  refine ⟨pre, old, post, hcut, fun hnb => ?_⟩
  rcases hsp with hsp | ⟨_, _, sbl, _, _, hsp⟩
  · have := C08_tail (old := old) hsp hnb
    rw [hcut] at this; exact this
  · have := C08_tail (old := old) hsp hnb
    refine ⟨this.1, ?_⟩
    have hne : post ≠ [] := fun h0 => hnb (by rw [h0]; decide)
    rw [this.2, ← hcut, getLast?_append_ne _ hne, getLast?_append_ne _ hne]

/-- **Line endings, CRLF.**  Annotating the CRLF form of an LF text gives the CRLF form of what annotating
    the LF text gives: every line break written is CRLF and nothing else differs. -/
theorem C08_line_endings_crlf (c : HdrCfg) (replace : Bool) (info : Extracted) (u : Text)
    (hcr : NoCR u) (hlf : '\n' ∈ u) :
    annotateText c replace false info (toCRLF u) = (annotateText c replace false info u).mapWritten toCRLF := by
  unfold annotateText
  simp only [Bool.false_and, Bool.false_eq_true, if_false, detect_crlf hlf, detect_lf hcr, replace_crlf_back u hcr,
    replace_lf_lf]
  cases (if replace = true then findAndReplaceHeader c info u else addNewHeader c info u) with
  | error e => rfl
  | ok o =>
    simp only [AnnotateOut.mapWritten, replace_lf_crlf]
    rfl

/-- **Line endings, CR.** -/
theorem C08_line_endings_cr (c : HdrCfg) (replace : Bool) (info : Extracted) (u : Text)
    (hcr : NoCR u) (hlf : '\n' ∈ u) :
    annotateText c replace false info (toCR u) = (annotateText c replace false info u).mapWritten toCR := by
  unfold annotateText
  simp only [Bool.false_and, Bool.false_eq_true, if_false, detect_cr hlf, detect_lf hcr, replace_cr_back u hcr,
    replace_lf_lf]
  cases (if replace = true then findAndReplaceHeader c info u else addNewHeader c info u) with
  | error e => rfl
  | ok o =>
    simp only [AnnotateOut.mapWritten, replace_lf_cr]
    rfl

/-- **Line endings, LF.**  On a text without carriage return nothing is translated: what is written is what
    `find_and_replace_header` / `add_new_header` returned. -/
theorem C08_line_endings_lf (c : HdrCfg) (replace : Bool) (info : Extracted) (u : Text) (hcr : NoCR u) :
    annotateText c replace false info u =
      match (if replace then findAndReplaceHeader c info u else addNewHeader c info u) with
      | .ok o => .written o
      | .error e => .failed e := by
  unfold annotateText
  simp only [Bool.false_and, Bool.false_eq_true, if_false, detect_lf hcr, replace_lf_lf]
  cases (if replace = true then findAndReplaceHeader c info u else addNewHeader c info u) <;> rfl

/-- **Byte order mark.**  A leading U+FEFF is set aside and stays the first character of what is written. -/
theorem C08_bom (c : HdrCfg) (replace skip : Bool) (info : Extracted) (t : Text) :
    annotateFile c replace skip info (bomChar :: t) =
      (annotateText c replace skip info t).mapWritten (bomChar :: ·) := by
  simp [annotateFile]

/-- without a byte order mark `annotateFile` is `annotateText` -/
theorem C08_no_bom (c : HdrCfg) (replace skip : Bool) (info : Extracted) (t : Text)
    (h : t.head? ≠ some bomChar) : annotateFile c replace skip info t = annotateText c replace skip info t := by
  cases t with
  | nil => rfl
  | cons ch cs =>
    have : (ch == bomChar) = false := by
      simp only [List.head?_cons, ne_eq, Option.some.injEq] at h
      simpa using h
    simp [annotateFile, this]

/-- **Table obligation.**  Every first-line marker of every style of the generated table is non-empty, contains
    no line boundary and is not white space only. -/
theorem C08_shebang_table : ∀ s ∈ Generated.styles, ∀ sb ∈ s.shebangs, sb ≠ [] ∧ NoBreak sb ∧ ¬ Blank sb := by
  decide +kernel

/-- what `place_header` puts first when non-blank shebang lines stand above -/
theorem placed_first {hdr sbl rest out sb : Text} (ex : Bool) (hout : out = placeHeader hdr sbl rest ex)
    (hpre : sb <+: sbl) (hnb : ¬ Blank sb) : (rstrip sbl ++ ['\n', '\n']) <+: out := by
  have hnbl : ¬ Blank sbl := not_blank_of_prefix hpre hnb
  have : (strip sbl).isEmpty = false := by
    cases h : (strip sbl).isEmpty with
    | false => rfl
    | true => exact absurd ((strip_isEmpty_iff _).mp h) hnbl
  rw [hout, placeHeader_parts]
  simp only [aboveOf, this, Bool.false_eq_true, if_false]
  exact ⟨hdr ++ ['\n'] ++ belowOf rest ex, by simp⟩

/-- **Shebang stays first, `--no-replace`.**  For every style of the table: when the text starts with one of the
    style's first-line markers (`sb`, the first that fits), the output starts with the text's leading marker lines
    `sbl` — without their trailing white space — followed by one empty line; `t = sbl ++ rest`, `sbl` starts with `sb`. -/
theorem C08_first_line_add {c : HdrCfg} {info : Extracted} {t out sb : Text} (hs : c.style ∈ Generated.styles)
    (h : addNewHeader c info t = .ok out) (hf : c.style.shebangs.find? (startsWith t ·) = some sb) :
    ∃ sbl rest, t = sbl ++ rest ∧ sb <+: sbl ∧ (rstrip sbl ++ ['\n', '\n']) <+: out := by
  obtain ⟨hdr, _, hout⟩ := C08_add_sections h
  obtain ⟨hne, hnbk, hnb⟩ := C08_shebang_table _ hs sb (List.mem_of_find?_eq_some hf)
  have hst : startsWith t sb = true := by simpa using List.find?_some hf
  have hsec : addSections c t = extractShebang sb t := by simp [addSections, hf]
  rw [hsec] at hout
  have hpre := extractShebang_starts hne hnbk hst
  exact ⟨_, _, (extractShebang_append sb t).symm, hpre, placed_first false hout hpre hnb⟩

/-- **Shebang stays first, replacing mode, no header in the file yet.**  Same conclusion. (With a header in the
    file the shebang is the first line of `pre` or of the old block, see `moveShebang_spec`; those cases are
    covered by the correspondence and the oracle's first-line clause.) -/
theorem C08_first_line_replace_new {c : HdrCfg} {info : Extracted} {t out sb : Text} (hs : c.style ∈ Generated.styles)
    (hstyle : (c.style.name == "EmptyCommentStyle") = false)
    (h : findAndReplaceHeader c info t = .ok out) (hnone : findFirstSpdxComment c t = none)
    (hf : c.style.shebangs.find? (startsWith t ·) = some sb) :
    ∃ sbl rest, t = sbl ++ rest ∧ sb <+: sbl ∧ (rstrip sbl ++ ['\n', '\n']) <+: out := by
  obtain ⟨hdr, _, hout⟩ := C08_replace_sections h
  obtain ⟨hne, hnbk, hnb⟩ := C08_shebang_table _ hs sb (List.mem_of_find?_eq_some hf)
  have hst : startsWith t sb = true := by simpa using List.find?_some hf
  have hsec : replaceSections c t = ((extractShebang sb t).1, [], (extractShebang sb t).2) := by
    unfold replaceSections
    simp only [hnone, hstyle, Bool.false_eq_true, if_false]
    rw [moveShebang_nil _ _ (fun x hx => (C08_shebang_table _ hs x hx).1), hf]
  rw [hsec] at hout
  have hpre := extractShebang_starts hne hnbk hst
  exact ⟨_, _, (extractShebang_append sb t).symm, hpre, placed_first _ hout hpre hnb⟩

/-- **Shebang stays first, replacing mode, a header already in the file.**  For every style of the table, every
    text whose only line boundary is `\n`: when the text starts with one of the style's first-line markers (`sb`,
    the first that fits) and `_find_first_spdx_comment` finds a block, then `t = sbl ++ rest`, `sbl` starts with
    `sb`, and the output starts with `rstrip sbl ++ "\n\n"`.  Two situations: the old block stands below other text
    — then `sbl` is everything above it, which begins with the marker line (white space above a block cannot hold
    the marker, so the text above is not blank and the shebang loop does nothing); or the old block stands at the
    top and the marker line is *inside* it (`#!/bin/sh` directly followed by `# SPDX-…` in the Python style) —
    then the loop picks the first marker the block starts with, which is `sb`, and `sbl` is the block's leading
    marker lines, moved out of the block and kept first.  (`NoExoticBreaks` is needed in the second situation only,
    `b0 = ""`: with a form feed inside the block the marker lines moved out are not a substring of the text — the
    break is rewritten to `\n`; see `C08_splice_replace_general` for the line-level statement.) -/
theorem C08_first_line_replace_old {c : HdrCfg} {info : Extracted} {t out sb b0 h0 a0 : Text}
    (hs : c.style ∈ Generated.styles) (hstyle : (c.style.name == "EmptyCommentStyle") = false)
    (hno : b0 = [] → NoExoticBreaks t) (h : findAndReplaceHeader c info t = .ok out)
    (hsome : findFirstSpdxComment c t = some (b0, h0, a0))
    (hf : c.style.shebangs.find? (startsWith t ·) = some sb) :
    ∃ sbl rest, t = sbl ++ rest ∧ sb <+: sbl ∧ (rstrip sbl ++ ['\n', '\n']) <+: out := by
  obtain ⟨hdr, _, hout⟩ := C08_replace_sections h
  have hsec : replaceSections c t = moveShebang c.style.shebangs b0 h0 a0 := by
    unfold replaceSections
    simp only [hsome, hstyle, Bool.false_eq_true, if_false]
  rw [hsec] at hout
  rw [hout]
  exact first_line_old hno hsome (C08_shebang_table _ hs) hf hdr

/-- **Shebang stays first, replacing mode** (with or without a header in the file): `C08_first_line_replace_new`
    and `C08_first_line_replace_old` together. -/
theorem C08_first_line_replace {c : HdrCfg} {info : Extracted} {t out sb : Text}
    (hs : c.style ∈ Generated.styles) (hstyle : (c.style.name == "EmptyCommentStyle") = false)
    (hno : NoExoticBreaks t) (h : findAndReplaceHeader c info t = .ok out)
    (hf : c.style.shebangs.find? (startsWith t ·) = some sb) :
    ∃ sbl rest, t = sbl ++ rest ∧ sb <+: sbl ∧ (rstrip sbl ++ ['\n', '\n']) <+: out := by
  cases hfound : findFirstSpdxComment c t with
  | none => exact C08_first_line_replace_new hs hstyle h hfound hf
  | some x =>
    obtain ⟨b0, h0, a0⟩ := x
    exact C08_first_line_replace_old hs hstyle (fun _ => hno) h hfound hf

/-- **First line stays first, replacing mode, every text** (no hypothesis on line boundaries; line level).  For
    every style of the table, every request and every text that starts with one of the style's first-line markers
    (`sb`, the first that fits): the text's first line `l` — as `str.splitlines()` reads it — starts with `sb`, and
    the first line of the output is `l`, or `l` without its trailing white space (when nothing but white space
    follows it above the header).  Covers: no header in the file, marker line above the old block, marker line
    inside the old block at the top (also when a form feed or a lone `\r` separates it from the rest of the block:
    the boundary is rewritten to `\n`, the line stays first). -/
theorem C08_first_line_general {c : HdrCfg} {info : Extracted} {t out sb : Text}
    (hs : c.style ∈ Generated.styles) (hstyle : (c.style.name == "EmptyCommentStyle") = false)
    (h : findAndReplaceHeader c info t = .ok out)
    (hf : c.style.shebangs.find? (startsWith t ·) = some sb) :
    ∃ l ls, splitLines t = l :: ls ∧ sb <+: l ∧
      ((splitLines out).head? = some l ∨ (splitLines out).head? = some (rstrip l)) := by
  obtain ⟨hdr, _, hout⟩ := C08_replace_sections h
  have hmem := List.mem_of_find?_eq_some hf
  obtain ⟨hne, hnbk, hnb⟩ := C08_shebang_table _ hs sb hmem
  have hst : startsWith t sb = true := by simpa using List.find?_some hf
  cases hfound : findFirstSpdxComment c t with
  | none =>
    have hsec : replaceSections c t = ((extractShebang sb t).1, [], (extractShebang sb t).2) := by
      unfold replaceSections
      simp only [hfound, hstyle, Bool.false_eq_true, if_false]
      rw [moveShebang_nil _ _ (fun x hx => (C08_shebang_table _ hs x hx).1), hf]
    rw [hsec] at hout
    obtain ⟨l, ls, hlines, hlnb, hsbl, hbeg⟩ := first_line_of_extract hne hnbk hst
    exact ⟨l, ls, hlines, hsbl,
      first_line_placed hlnb hbeg (placed_first _ hout (extractShebang_starts hne hnbk hst) hnb)⟩
  | some x =>
    obtain ⟨b0, h0, a0⟩ := x
    have hsec : replaceSections c t = moveShebang c.style.shebangs b0 h0 a0 := by
      unfold replaceSections
      simp only [hfound, hstyle, Bool.false_eq_true, if_false]
    rw [hsec] at hout
    obtain ⟨l, ls, hlines, hlnb, hbeg, sbl, hbsbl, hpre⟩ :=
      first_line_general_old (C08_pseudo_table _ hs) hfound (C08_shebang_table _ hs) hmem hst hdr
    rw [← hout] at hpre
    exact ⟨l, ls, hlines, prefix_of_line (List.isPrefixOf_iff_prefix.mp hst) hnbk hbeg, first_line_placed hlnb hbsbl hpre⟩

/-- the same for `--no-replace` -/
theorem C08_first_line_add_general {c : HdrCfg} {info : Extracted} {t out sb : Text}
    (hs : c.style ∈ Generated.styles) (h : addNewHeader c info t = .ok out)
    (hf : c.style.shebangs.find? (startsWith t ·) = some sb) :
    ∃ l ls, splitLines t = l :: ls ∧ sb <+: l ∧
      ((splitLines out).head? = some l ∨ (splitLines out).head? = some (rstrip l)) := by
  obtain ⟨hdr, _, hout⟩ := C08_add_sections h
  obtain ⟨hne, hnbk, hnb⟩ := C08_shebang_table _ hs sb (List.mem_of_find?_eq_some hf)
  have hst : startsWith t sb = true := by simpa using List.find?_some hf
  have hsec : addSections c t = extractShebang sb t := by simp [addSections, hf]
  rw [hsec] at hout
  obtain ⟨l, ls, hlines, hlnb, hsbl, hbeg⟩ := first_line_of_extract hne hnbk hst
  exact ⟨l, ls, hlines, hsbl,
    first_line_placed hlnb hbeg (placed_first false hout (extractShebang_starts hne hnbk hst) hnb)⟩

/-! ### non-vacuity: the hypotheses are satisfiable, the relation is not trivial

(That `findAndReplaceHeader … = .ok out` is satisfiable is shown on every run by the correspondence streams —
thousands of distinct written results; the kernel cannot evaluate the regular-expression reader the header guard
calls, so no closed example is stated here.) -/

example : NoExoticBreaks "#!/bin/sh\n# SPDX-License-Identifier: MIT\n\tx = 1\n".toList := by decide
example : ¬ NoExoticBreaks "a\x0cb".toList := by decide
example : NoCR "a\nb\n".toList ∧ '\n' ∈ "a\nb\n".toList := by decide
example : toCRLF "a\nb\n".toList = "a\r\nb\r\n".toList ∧ toCR "a\nb\n".toList = "a\rb\r".toList := by decide
example : placeHeader "# h".toList "#!/bin/sh  \n".toList "x = 1\n".toList false = "#!/bin/sh\n\n# h\n\nx = 1\n".toList := by decide
example : placeHeader "# h".toList " \n".toList "\nx = 1".toList true = "# h\n\nx = 1".toList := by decide
example : SpliceAt "# h".toList "#!/bin/sh  \n".toList "x = 1\n".toList "#!/bin/sh\n\n# h\n\nx = 1\n".toList :=
  placeHeader_spliceAt "# h".toList "#!/bin/sh  \n".toList "x = 1\n".toList false
/-- the two situations of `C08_first_line_replace_old`: marker line inside the old block at the top (moved out, kept
    first), and marker line above the old block (nothing moved) -/
example : moveShebang ["#!".toList] [] "#!/bin/sh\n# SPDX-License-Identifier: MIT\n".toList "x\n".toList =
    ("#!/bin/sh\n".toList, "# SPDX-License-Identifier: MIT\n".toList, "x\n".toList) := by decide +kernel
example : moveShebang ["#!".toList] "#!/bin/sh\n\n".toList "# SPDX-License-Identifier: MIT\n".toList "x\n".toList =
    ("#!/bin/sh\n\n".toList, "# SPDX-License-Identifier: MIT\n".toList, "x\n".toList) := by decide +kernel
example : placeHeader "# h".toList "#!/bin/sh\n".toList "x\n".toList true = "#!/bin/sh\n\n# h\nx\n".toList := by decide +kernel
/-- the second alternative of `C08_splice_replace_general`: a form feed between the shebang and the header — the
    block is read as two lines, the marker line moved out of it is written with `\n` -/
example : splitLines "#!/bin/sh\x0c# SPDX-License-Identifier: MIT\nx\n".toList =
    ["#!/bin/sh".toList, "# SPDX-License-Identifier: MIT".toList, "x".toList] := by decide +kernel
example : (extractShebang "#!".toList "#!/bin/sh\n# SPDX-License-Identifier: MIT\n".toList).1 = "#!/bin/sh\n".toList := by
  decide +kernel
/-- the two alternatives of `C08_first_line_general`: the first line loses its trailing blanks when it is the only
    marker line, and is kept exactly when another marker line follows it -/
example : (splitLines (placeHeader "# h".toList "#!/bin/sh \n".toList "x\n".toList false)).head? = some (rstrip "#!/bin/sh ".toList) := by
  decide +kernel
example : (splitLines (placeHeader "# h".toList "#!/bin/sh \n#!x\n".toList "x\n".toList false)).head? = some "#!/bin/sh ".toList := by
  decide +kernel
/-- the relation excludes something: text below the header cannot lose a character -/
example : ¬ Below "x = 1\n".toList "x = 1".toList := by
  intro h; cases h

end C08
