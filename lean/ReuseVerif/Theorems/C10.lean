/-
C10 — re-running annotate with the same arguments changes nothing.

`C10_second_run` is the idempotence theorem under the decidable hypothesis `Spec.secondRunOK` ("the header
just written is found again, at its place, and reproduces itself"), which the driver evaluates on every case
of the correspondence (stream `theorem`).  `C10_table` discharges the style-level core of that hypothesis over
the generated style table; `C10_n_runs` lifts one repeated run to any number of runs.
-/
import ReuseVerif.Lemmas.Idem
import ReuseVerif.Lemmas.ReadBack
import ReuseVerif.Lemmas.C10MultiReadBack
import ReuseVerif.Theorems.C08
namespace C10
open Py Model Spec C08L C10L

/-- the three parts `firstRunParts` names are what the run writes -/
theorem C10_first_run {c : HdrCfg} {info : Extracted} {t a hdr b : Text}
    (h : firstRunParts c info t = some (a, hdr, b)) :
    findAndReplaceHeader c info t = .ok (a ++ hdr ++ ['\n'] ++ b) := by
  obtain ⟨hc, rfl, rfl⟩ := firstRunParts_some h
  rw [findAndReplace_eq, hc]
  simp only [placeHeader_parts]

/-- **Idempotence (partial: hypothesis `secondRunOK`).**  For every configuration (style, template, options),
    request and text: if the replacing run writes `a ++ hdr ++ "\n" ++ b` and the written header is found again
    exactly and reproduces itself (`secondRunOK`, decidable, evaluated per case by the driver), then running the
    same command on the written text returns the written text.
    Full statement (not proved in general): `secondRunOK` holds for every style with `StyleIdem`, every
    well-formed request and every body free of REUSE tags; what is missing is (i) that the locator finds no
    REUSE block in `a` and reads the created block back for *every* header text (`C10_table` decides it on
    representative texts per style), and (ii) that extraction from the written header returns the merged
    request (C07 / C02). -/
theorem C10_second_run_partial {c : HdrCfg} {info : Extracted} {t a hdr b : Text}
    (h1 : firstRunParts c info t = some (a, hdr, b)) (h2 : secondRunOK c info a hdr b = true) :
    findAndReplaceHeader c info (a ++ hdr ++ ['\n'] ++ b) = .ok (a ++ hdr ++ ['\n'] ++ b) := by
  -- the parts are in placed form
  obtain ⟨x, y, e, rfl, rfl⟩ : ∃ x y e, a = aboveOf x ∧ b = belowOf y e := by
    obtain ⟨_, ha, hb⟩ := firstRunParts_some h1
    exact ⟨_, _, _, ha, hb⟩
  unfold secondRunOK at h2
  split at h2
  · rename_i a' old b' hf
    simp only [Bool.and_eq_true] at h2
    obtain ⟨⟨⟨⟨ha, hb⟩, hne⟩, hsb⟩, hok⟩ := h2
    have ha := beq_iff_eq.mp ha
    subst ha
    have hne' : old ≠ [] := by cases old <;> simp_all
    have hafter : (if (c.style.name == "EmptyCommentStyle") = true then [] else b') = belowOf y e := by
      by_cases hE : (c.style.name == "EmptyCommentStyle") = true
      · simp only [hE, if_true] at hb ⊢
        exact (List.isEmpty_iff.mp hb).symm
      · simp only [hE, Bool.false_eq_true, if_false] at hb ⊢
        exact beq_iff_eq.mp hb
    unfold findAndReplaceHeader
    simp only [bind, Except.bind, pure, Except.pure, hf, hafter]
    rw [moveShebang_keep _ _ _ _ hne' hsb]
    simp only [okText_eq hok]
    have : (!old.isEmpty) = true := hne
    rw [this, placeHeader_fix]
  · cases h2

/-- **Any number of runs.**  When the second run changes nothing, no later run does: `n + 1` runs give what one run gives. -/
theorem C10_n_runs {c : HdrCfg} {info : Extracted} {t o : Text}
    (h1 : findAndReplaceHeader c info t = .ok o) (h2 : findAndReplaceHeader c info o = .ok o) (n : Nat) :
    runs c info (n + 1) t = .ok o := by
  have hfix : ∀ n, runs c info n o = .ok o := by
    intro n
    induction n with
    | zero => rfl
    | succ n ih => simp only [runs, h2, ih]
  simp only [runs, h1, hfix n]

/-- idempotence and N runs together, from the decidable hypothesis -/
theorem C10_idem_partial {c : HdrCfg} {info : Extracted} {t a hdr b : Text}
    (h1 : firstRunParts c info t = some (a, hdr, b)) (h2 : secondRunOK c info a hdr b = true) (n : Nat) :
    runs c info (n + 1) t = .ok (a ++ hdr ++ ['\n'] ++ b) :=
  C10_n_runs (C10_first_run h1) (C10_second_run_partial h1 h2) n

/-- at the level of the file (`add_header_to_file`, LF text without byte order mark): the second run writes the
    same characters -/
theorem C10_idem_text_partial {c : HdrCfg} {info : Extracted} {t a hdr b : Text}
    (h1 : firstRunParts c info t = some (a, hdr, b)) (h2 : secondRunOK c info a hdr b = true)
    (hcr : NoCR t) (hcr' : NoCR (a ++ hdr ++ ['\n'] ++ b)) :
    annotateText c true false info t = .written (a ++ hdr ++ ['\n'] ++ b) ∧
    annotateText c true false info (a ++ hdr ++ ['\n'] ++ b) = .written (a ++ hdr ++ ['\n'] ++ b) := by
  rw [C08.C08_line_endings_lf c true info t hcr, C08.C08_line_endings_lf c true info _ hcr']
  simp only [if_true, C10_first_run h1, C10_second_run_partial h1 h2, and_self]

/-- … and for the CRLF form of the same file -/
theorem C10_idem_crlf_partial {c : HdrCfg} {info : Extracted} {t a hdr b : Text}
    (h1 : firstRunParts c info t = some (a, hdr, b)) (h2 : secondRunOK c info a hdr b = true)
    (hcr : NoCR t) (hlf : '\n' ∈ t) (hcr' : NoCR (a ++ hdr ++ ['\n'] ++ b)) :
    annotateText c true false info (toCRLF t) = .written (toCRLF (a ++ hdr ++ ['\n'] ++ b)) ∧
    annotateText c true false info (toCRLF (a ++ hdr ++ ['\n'] ++ b)) = .written (toCRLF (a ++ hdr ++ ['\n'] ++ b)) := by
  obtain ⟨e1, e2⟩ := C10_idem_text_partial h1 h2 hcr hcr'
  rw [C08.C08_line_endings_crlf c true info t hcr hlf,
    C08.C08_line_endings_crlf c true info _ hcr' (by simp), e1, e2]
  exact ⟨rfl, rfl⟩

/-- **Table obligation.**  For every style of the generated table that recognises single-line comments by
    prefix (no regular expression) and every mode the style supports, the block `create_comment` produces for
    each representative header text is exactly what `comment_at_first_character` reads back — at the end of the
    text, before an empty line followed by code, by a comment of the same style, by a terminator line.  In
    particular a multi-line opener is not taken for a single-line comment (Julia's `#=`). -/
theorem C10_table : ∀ s ∈ Generated.styles, s.singleRe = none → ∀ m, supported s m = true → StyleIdem s m := by
  decide +kernel

/-- **Table obligation, single-line mode.**  Every style of the generated table that writes single-line comments
    satisfies `SingleOK`: marker and indentation contain no line boundary, an empty line is not a comment (the
    marker is non-empty; a regular-expression marker — Lisp — cannot match the empty string), and the multi-line
    opener neither is a prefix of nor extends `marker + indentation`. -/
theorem C10_single_table : ∀ s ∈ Generated.styles, s.canSingle = true → s.isEmptyStyle = false → SingleOK s := by
  decide +kernel

/-- **Single-line read-back for every header text.**  For every style of the table that writes single-line
    comments (the default mode), every text whose only line boundary is `\n`, and whatever follows the header's
    line end — the end of the text, or an empty line and then anything: `comment_at_first_character` returns
    exactly the block `create_comment` produced.  (The multi-line mode is decided on representative texts by
    `C10_table`.) -/
theorem C10_single_readback (s : Generated.Style) (hs : s ∈ Generated.styles) (hc : s.canSingle = true)
    (he : s.isEmptyStyle = false) (text : Text) (hno : NoExoticBreaks text) (blk : Text)
    (hblk : createComment s text false = .ok blk) (rest : Text) (hrest : rest = [] ∨ ∃ r, rest = '\n' :: r) :
    commentAtFirst s (blk ++ '\n' :: rest) = .ok blk := by
  have hS := C10_single_table s hs hc he
  have : createComment s text false = createSingle s text := by simp [createComment, he, hc]
  rw [this] at hblk
  exact single_readback hS text hno blk hblk rest hrest

example : ∃ s ∈ Generated.styles, s.name = "LispCommentStyle" ∧ s.canSingle = true ∧ s.isEmptyStyle = false := by decide

/-- **Table obligation, multi-line mode.**  Every style of the generated table that can write multi-line comments
    satisfies `MultiOK`: no marker or indentation contains a line boundary; the opener does not end with the
    terminator; the prefix of a body line (`indentation + middle marker`) does not end with the terminator; and
    no non-empty end of `prefix + indentation` is a proper beginning of the terminator — so a text line that
    does not *contain* the terminator cannot complete one across the boundary between marker and text. -/
theorem C10_multi_table : ∀ s ∈ Generated.styles, s.canMulti = true → s.isEmptyStyle = false → MultiOK s := by
  decide +kernel

/-- **Multi-line read-back for every header text.**  For every style of the table that can write multi-line
    comments, every text whose only line boundary is `\n` and that does not contain the style's terminator (the
    guard of `_create_comment_multi`; with it `createMulti` fails and nothing is written), and *whatever* follows
    the block's line end: `comment_at_first_character` returns exactly the block `_create_comment_multi`
    produced — the opener is recognised (also where it looks like a single-line comment: Julia's `#=`), and the
    first line that ends with the terminator is the block's last line.  Supersedes the multi-line half of
    `C10_table` (11 representative texts × 5 continuations) by a statement for all texts and continuations. -/
theorem C10_multi_readback (s : Generated.Style) (hs : s ∈ Generated.styles) (hc : s.canMulti = true)
    (he : s.isEmptyStyle = false) (text : Text) (hno : NoExoticBreaks text) (blk : Text)
    (hblk : createMulti s text = .ok blk) (rest : Text) :
    commentAtFirst s (blk ++ '\n' :: rest) = .ok blk :=
  multi_readback (C10_multi_table s hs hc he) text hno blk hblk rest

/-- the same through `create_comment`: `--multi-line`, or a style without single-line comments -/
theorem C10_multi_readback_comment (s : Generated.Style) (hs : s ∈ Generated.styles) (he : s.isEmptyStyle = false)
    (forceMulti : Bool) (hm : forceMulti = true ∨ s.canSingle = false) (text : Text) (hno : NoExoticBreaks text)
    (blk : Text) (hblk : createComment s text forceMulti = .ok blk) (rest : Text) :
    commentAtFirst s (blk ++ '\n' :: rest) = .ok blk := by
  have h1 : createComment s text forceMulti = createMulti s text := by
    rcases hm with h | h <;> simp [createComment, he, h]
  rw [h1] at hblk
  have hc : s.canMulti = true := by
    cases hcm : s.canMulti with
    | true => rfl
    | false => simp [createMulti, hcm] at hblk
  exact C10_multi_readback s hs hc he text hno blk hblk rest

/-- the condition excludes something: a C-like style written without the blank between `*` and the text —
    the text line `/` (which does not contain `*/`) would end the block early -/
example : ¬ MultiOK (⟨"X", "x", [], none, [], "/*".toList, "*".toList, "*/".toList, " ".toList, [], " ".toList, []⟩ : Generated.Style) := by
  decide +kernel
example : ∃ s ∈ Generated.styles, s.name = "JuliaCommentStyle" ∧ s.canMulti = true ∧ s.isEmptyStyle = false := by decide
example : okComment (createMulti (⟨"X", "x", [], none, [], "/*".toList, "*".toList, "*/".toList, " ".toList, " ".toList, " ".toList, []⟩ : Generated.Style)
    "a\n\nb".toList) "/*\n * a\n *\n * b\n */".toList = true := by decide +kernel

/-! ### non-vacuity

(`secondRunOK` holds on most cases of stream `theorem` — counted as the stream's non-trivial cases on every run; it
calls the regular-expression reader, which the kernel cannot evaluate, so no closed example is stated here.) -/

example : ∃ s ∈ Generated.styles, s.name = "JuliaCommentStyle" ∧ s.singleRe = none ∧ supported s true = true := by decide
example : aboveOf "#!/bin/sh \n".toList = "#!/bin/sh\n\n".toList ∧ belowOf "x\n".toList false = "\nx\n".toList := by decide
example : placeHeader "# h".toList (aboveOf "#!/bin/sh \n".toList) (belowOf "x\n".toList false) true =
    "#!/bin/sh\n\n# h\n\nx\n".toList := by decide
/-- the style predicate excludes something: a Julia-like style whose reader tries the single-line marker on the
    opener line is the defect this property found; here, a style whose terminator equals its opener is refused -/
example : ¬ StyleIdem (⟨"X", "x", [], none, [], "%%".toList, [], "%%".toList, [], [], [], []⟩ : Generated.Style) true := by
  decide +kernel

end C10
