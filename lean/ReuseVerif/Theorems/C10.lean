/-
C10 — re-running annotate with the same arguments changes nothing.

`C10_second_run` is the idempotence theorem under the decidable hypothesis `Spec.secondRunOK` ("the header
just written is found again, at its place, and reproduces itself"), which the driver evaluates on every case
of the correspondence (stream `theorem`).  `C10_table` discharges the style-level core of that hypothesis over
the generated style table; `C10_n_runs` lifts one repeated run to any number of runs.
-/
import ReuseVerif.Lemmas.Idem
import ReuseVerif.Lemmas.ReadBack
import ReuseVerif.Lemmas.C10MultiReadBack
import ReuseVerif.Lemmas.C10Locator
import ReuseVerif.Theorems.C08
namespace C10
open Py Model Spec C08L C10L

/-- the three parts `firstRunParts` names are what the run writes -/
theorem C10_first_run {c : HdrCfg} {info : Extracted} {t a hdr b : Text}
    (h : firstRunParts c info t = some (a, hdr, b)) :
    findAndReplaceHeader c info t = .ok (a ++ hdr ++ ['\n'] ++ b) := by
  obtain ⟨hc, rfl, rfl⟩ := firstRunParts_some h
  rw [findAndReplace_eq, hc]
  simp only [placeHeader_parts]

/-- **Idempotence (partial: hypothesis `secondRunOK`).**  For every configuration (style, template, options),
    request and text: if the replacing run writes `a ++ hdr ++ "\n" ++ b` and the written header is found again
    exactly and reproduces itself (`secondRunOK`, decidable, evaluated per case by the driver), then running the
    same command on the written text returns the written text.
    Full statement (not proved in general): `secondRunOK` holds for every style with `StyleIdem`, every
    well-formed request and every body free of REUSE tags; what is missing is (i) that the locator finds no
    REUSE block in `a` and reads the created block back for *every* header text (`C10_table` decides it on
    representative texts per style), and (ii) that extraction from the written header returns the merged
    request (C07 / C02). -/
theorem C10_second_run_partial {c : HdrCfg} {info : Extracted} {t a hdr b : Text}
    (h1 : firstRunParts c info t = some (a, hdr, b)) (h2 : secondRunOK c info a hdr b = true) :
    findAndReplaceHeader c info (a ++ hdr ++ ['\n'] ++ b) = .ok (a ++ hdr ++ ['\n'] ++ b) := by
  -- the parts are in placed form
  obtain ⟨x, y, e, rfl, rfl⟩ : ∃ x y e, a = aboveOf x ∧ b = belowOf y e := by
    obtain ⟨_, ha, hb⟩ := firstRunParts_some h1
    exact ⟨_, _, _, ha, hb⟩
  unfold secondRunOK at h2
  split at h2
  · rename_i a' old b' hf
    simp only [Bool.and_eq_true] at h2
    obtain ⟨⟨⟨⟨ha, hb⟩, hne⟩, hsb⟩, hok⟩ := h2
    have ha := beq_iff_eq.mp ha
    subst ha
    have hne' : old ≠ [] := by cases old <;> simp_all
    have hafter : (if (c.style.name == "EmptyCommentStyle") = true then [] else b') = belowOf y e := by
      by_cases hE : (c.style.name == "EmptyCommentStyle") = true
      · simp only [hE, if_true] at hb ⊢
        exact (List.isEmpty_iff.mp hb).symm
      · simp only [hE, Bool.false_eq_true, if_false] at hb ⊢
        exact beq_iff_eq.mp hb
    unfold findAndReplaceHeader
    simp only [bind, Except.bind, pure, Except.pure, hf, hafter]
    rw [moveShebang_keep _ _ _ _ hne' hsb]
    simp only [okText_eq hok]
    have : (!old.isEmpty) = true := hne
    rw [this, placeHeader_fix]
  · cases h2

/-- **Any number of runs.**  When the second run changes nothing, no later run does: `n + 1` runs give what one run gives. -/
theorem C10_n_runs {c : HdrCfg} {info : Extracted} {t o : Text}
    (h1 : findAndReplaceHeader c info t = .ok o) (h2 : findAndReplaceHeader c info o = .ok o) (n : Nat) :
    runs c info (n + 1) t = .ok o := by
  have hfix : ∀ n, runs c info n o = .ok o := by
    intro n
    induction n with
    | zero => rfl
    | succ n ih => simp only [runs, h2, ih]
  simp only [runs, h1, hfix n]

/-- idempotence and N runs together, from the decidable hypothesis -/
theorem C10_idem_partial {c : HdrCfg} {info : Extracted} {t a hdr b : Text}
    (h1 : firstRunParts c info t = some (a, hdr, b)) (h2 : secondRunOK c info a hdr b = true) (n : Nat) :
    runs c info (n + 1) t = .ok (a ++ hdr ++ ['\n'] ++ b) :=
  C10_n_runs (C10_first_run h1) (C10_second_run_partial h1 h2) n

/-- at the level of the file (`add_header_to_file`, LF text without byte order mark): the second run writes the
    same characters -/
theorem C10_idem_text_partial {c : HdrCfg} {info : Extracted} {t a hdr b : Text}
    (h1 : firstRunParts c info t = some (a, hdr, b)) (h2 : secondRunOK c info a hdr b = true)
    (hcr : NoCR t) (hcr' : NoCR (a ++ hdr ++ ['\n'] ++ b)) :
    annotateText c true false info t = .written (a ++ hdr ++ ['\n'] ++ b) ∧
    annotateText c true false info (a ++ hdr ++ ['\n'] ++ b) = .written (a ++ hdr ++ ['\n'] ++ b) := by
  rw [C08.C08_line_endings_lf c true info t hcr, C08.C08_line_endings_lf c true info _ hcr']
  simp only [if_true, C10_first_run h1, C10_second_run_partial h1 h2, and_self]

/-- … and for the CRLF form of the same file -/
theorem C10_idem_crlf_partial {c : HdrCfg} {info : Extracted} {t a hdr b : Text}
    (h1 : firstRunParts c info t = some (a, hdr, b)) (h2 : secondRunOK c info a hdr b = true)
    (hcr : NoCR t) (hlf : '\n' ∈ t) (hcr' : NoCR (a ++ hdr ++ ['\n'] ++ b)) :
    annotateText c true false info (toCRLF t) = .written (toCRLF (a ++ hdr ++ ['\n'] ++ b)) ∧
    annotateText c true false info (toCRLF (a ++ hdr ++ ['\n'] ++ b)) = .written (toCRLF (a ++ hdr ++ ['\n'] ++ b)) := by
  obtain ⟨e1, e2⟩ := C10_idem_text_partial h1 h2 hcr hcr'
  rw [C08.C08_line_endings_crlf c true info t hcr hlf,
    C08.C08_line_endings_crlf c true info _ hcr' (by simp), e1, e2]
  exact ⟨rfl, rfl⟩

/-- **Table obligation.**  For every style of the generated table that recognises single-line comments by
    prefix (no regular expression) and every mode the style supports, the block `create_comment` produces for
    each representative header text is exactly what `comment_at_first_character` reads back — at the end of the
    text, before an empty line followed by code, by a comment of the same style, by a terminator line.  In
    particular a multi-line opener is not taken for a single-line comment (Julia's `#=`). -/
theorem C10_table : ∀ s ∈ Generated.styles, s.singleRe = none → ∀ m, supported s m = true → StyleIdem s m := by
  decide +kernel

/-- **Table obligation, single-line mode.**  Every style of the generated table that writes single-line comments
    satisfies `SingleOK`: marker and indentation contain no line boundary, an empty line is not a comment (the
    marker is non-empty; a regular-expression marker — Lisp — cannot match the empty string), and the multi-line
    opener neither is a prefix of nor extends `marker + indentation`. -/
theorem C10_single_table : ∀ s ∈ Generated.styles, s.canSingle = true → s.isEmptyStyle = false → SingleOK s := by
  decide +kernel

/-- **Single-line read-back for every header text.**  For every style of the table that writes single-line
    comments (the default mode), every text whose only line boundary is `\n`, and whatever follows the header's
    line end — the end of the text, or an empty line and then anything: `comment_at_first_character` returns
    exactly the block `create_comment` produced.  (The multi-line mode is decided on representative texts by
    `C10_table`.) -/
theorem C10_single_readback (s : Generated.Style) (hs : s ∈ Generated.styles) (hc : s.canSingle = true)
    (he : s.isEmptyStyle = false) (text : Text) (hno : NoExoticBreaks text) (blk : Text)
    (hblk : createComment s text false = .ok blk) (rest : Text) (hrest : rest = [] ∨ ∃ r, rest = '\n' :: r) :
    commentAtFirst s (blk ++ '\n' :: rest) = .ok blk := by
  have hS := C10_single_table s hs hc he
  have : createComment s text false = createSingle s text := by simp [createComment, he, hc]
  rw [this] at hblk
  exact single_readback hS text hno blk hblk rest hrest

example : ∃ s ∈ Generated.styles, s.name = "LispCommentStyle" ∧ s.canSingle = true ∧ s.isEmptyStyle = false := by decide

/-- **Table obligation, multi-line mode.**  Every style of the generated table that can write multi-line comments
    satisfies `MultiOK`: no marker or indentation contains a line boundary; the opener does not end with the
    terminator; the prefix of a body line (`indentation + middle marker`) does not end with the terminator; and
    no non-empty end of `prefix + indentation` is a proper beginning of the terminator — so a text line that
    does not *contain* the terminator cannot complete one across the boundary between marker and text. -/
theorem C10_multi_table : ∀ s ∈ Generated.styles, s.canMulti = true → s.isEmptyStyle = false → MultiOK s := by
  decide +kernel

/-- **Multi-line read-back for every header text.**  For every style of the table that can write multi-line
    comments, every text whose only line boundary is `\n` and that does not contain the style's terminator (the
    guard of `_create_comment_multi`; with it `createMulti` fails and nothing is written), and *whatever* follows
    the block's line end: `comment_at_first_character` returns exactly the block `_create_comment_multi`
    produced — the opener is recognised (also where it looks like a single-line comment: Julia's `#=`), and the
    first line that ends with the terminator is the block's last line.  Supersedes the multi-line half of
    `C10_table` (11 representative texts × 5 continuations) by a statement for all texts and continuations. -/
theorem C10_multi_readback (s : Generated.Style) (hs : s ∈ Generated.styles) (hc : s.canMulti = true)
    (he : s.isEmptyStyle = false) (text : Text) (hno : NoExoticBreaks text) (blk : Text)
    (hblk : createMulti s text = .ok blk) (rest : Text) :
    commentAtFirst s (blk ++ '\n' :: rest) = .ok blk :=
  multi_readback (C10_multi_table s hs hc he) text hno blk hblk rest

/-- the same through `create_comment`: `--multi-line`, or a style without single-line comments -/
theorem C10_multi_readback_comment (s : Generated.Style) (hs : s ∈ Generated.styles) (he : s.isEmptyStyle = false)
    (forceMulti : Bool) (hm : forceMulti = true ∨ s.canSingle = false) (text : Text) (hno : NoExoticBreaks text)
    (blk : Text) (hblk : createComment s text forceMulti = .ok blk) (rest : Text) :
    commentAtFirst s (blk ++ '\n' :: rest) = .ok blk := by
  have h1 : createComment s text forceMulti = createMulti s text := by
    rcases hm with h | h <;> simp [createComment, he, h]
  rw [h1] at hblk
  have hc : s.canMulti = true := by
    cases hcm : s.canMulti with
    | true => rfl
    | false => simp [createMulti, hcm] at hblk
  exact C10_multi_readback s hs hc he text hno blk hblk rest

/-- the condition excludes something: a C-like style written without the blank between `*` and the text —
    the text line `/` (which does not contain `*/`) would end the block early -/
example : ¬ MultiOK (⟨"X", "x", [], none, [], "/*".toList, "*".toList, "*/".toList, " ".toList, [], " ".toList, []⟩ : Generated.Style) := by
  decide +kernel
example : ∃ s ∈ Generated.styles, s.name = "JuliaCommentStyle" ∧ s.canMulti = true ∧ s.isEmptyStyle = false := by decide
example : okComment (createMulti (⟨"X", "x", [], none, [], "/*".toList, "*".toList, "*/".toList, " ".toList, " ".toList, " ".toList, []⟩ : Generated.Style)
    "a\n\nb".toList) "/*\n * a\n *\n * b\n */".toList = true := by decide +kernel

/-! ### the second run's locator: `secondRunOK` discharged up to "the header reproduces itself" -/

/-- both read-back conditions hold for every style of the generated table but the two pseudo styles -/
theorem C10_style_table (s : Generated.Style) (hs : s ∈ Generated.styles) (he : s.isEmptyStyle = false) : StyleOK s :=
  ⟨he, fun hc => C10_single_table s hs hc he, fun hc => C10_multi_table s hs hc he⟩

/-- **Table obligation, first-line markers.**  No first-line marker of a style can begin a comment block of that
    style — with one exception, TeX's `% !TEX`, which extends `marker + indentation` (`% `): a header whose first
    text line starts with `!TEX` would be taken for a first-line declaration (hypothesis `htex` below). -/
theorem C10_shebang_free_table :
    ∀ s ∈ Generated.styles, ∀ sb ∈ s.shebangs, sb ≠ "% !TEX".toList → ShebangFree s sb := by
  decide +kernel

/-- with nothing above the header (`a = ""`: the header stands first) the locator meets nothing before it -/
theorem C10_nothing_above_top (c : HdrCfg) (rest : Text) : nothingAbove c [] rest = true := by
  unfold nothingAbove
  rw [List.all_eq_true]
  intro p _
  simp

/-- **The locator finds the header the tool wrote, at its place.**  For every style of the table (not a pseudo
    style) and a template that is not pre-commented: let `hdr` be what `create_header` returned, free of exotic
    line boundaries and carrying REUSE information; `a` empty or ending a line; `b` arbitrary in multi-line mode,
    empty or starting with a line end in single-line mode.  If nothing above the header is a comment block with
    REUSE information (`nothingAbove`), `_find_first_spdx_comment` on `a ++ hdr ++ "\n" ++ b` returns exactly
    `(a, hdr ++ "\n", b)`.  Uses `C10_single_readback` / `C10_multi_readback` for every header text. -/
theorem C10_locator_finds {c : HdrCfg} {info : Extracted} {old a hdr b : Text} (hs : c.style ∈ Generated.styles)
    (he : c.style.isEmptyStyle = false) (hcom : c.commented = false)
    (hcreate : createHeader c info old = .ok hdr) (hno : NoExoticBreaks hdr)
    (ha : a = [] ∨ ∃ a0, a = a0 ++ ['\n'])
    (hb : multiMode c.style c.forceMulti = true ∨ b = [] ∨ ∃ r, b = '\n' :: r)
    (hinfo : containsReuseInfo c.parses hdr = true)
    (habove : nothingAbove c a (hdr ++ '\n' :: b) = true) :
    findFirstSpdxComment c (a ++ hdr ++ ['\n'] ++ b) = some (a, hdr ++ ['\n'], b) :=
  locator_finds (C10_style_table _ hs he) hcom hcreate hno ha hb hinfo habove

/-- **`secondRunOK` from its remaining parts.**  Everything `secondRunOK` asks for is derived — the locator
    returns exactly the written block between exactly the written parts, the block is non-empty and is not
    taken for a first-line declaration — except that `create_header` on the block found and the same request
    gives the block again (`hrepro`: extraction returns the request and the renderer is a function of the sorted
    sets — C07's guard, C02), under the hypotheses of `C10_locator_finds`. -/
theorem C10_second_run_ok {c : HdrCfg} {info : Extracted} {t a hdr b : Text} (hs : c.style ∈ Generated.styles)
    (he : c.style.isEmptyStyle = false) (hcom : c.commented = false)
    (h1 : firstRunParts c info t = some (a, hdr, b)) (hno : NoExoticBreaks hdr)
    (hb : multiMode c.style c.forceMulti = true ∨ b = [] ∨ ∃ r, b = '\n' :: r)
    (htex : startsWith hdr "% !TEX".toList = false)
    (hinfo : containsReuseInfo c.parses hdr = true)
    (habove : nothingAbove c a (hdr ++ '\n' :: b) = true)
    (hrepro : createHeader c info (hdr ++ ['\n']) = .ok hdr) :
    secondRunOK c info a hdr b = true := by
  obtain ⟨hcreate, ha, _⟩ := firstRunParts_some h1
  have hsty := C10_style_table _ hs he
  have hfind := locator_finds hsty hcom hcreate hno (by rw [ha]; exact aboveOf_shape _) hb hinfo habove
  have hname : (c.style.name == "EmptyCommentStyle") = false := by
    simp only [Generated.Style.isEmptyStyle, Bool.or_eq_false_iff] at he
    exact he.1
  have hsb : c.style.shebangs.all (fun sb => !(startsWith (hdr ++ ['\n']) sb)) = true := by
    rw [List.all_eq_true]
    intro sb hsb
    have hnb := (C08.C08_shebang_table _ hs sb hsb).2.1
    have : startsWith hdr sb = false := by
      by_cases htx : sb = "% !TEX".toList
      · rw [htx]; exact htex
      · exact header_no_shebang hsty hcom hcreate hno sb (C10_shebang_free_table _ hs sb hsb htx)
    simp [startsWith_lf_iff hnb this]
  unfold secondRunOK
  rw [hfind]
  simp only [hname, Bool.false_eq_true, if_false, hsb, hrepro, okText, beq_self_eq_true, Bool.and_true, Bool.true_and]
  simp

/-- **Idempotence with fewer hypotheses (partial).**  For every style of the generated table (both modes; not the
    `.license` pseudo style), every template that is not pre-commented, every request and every text `t`: if
    the replacing run writes `a ++ hdr ++ "\n" ++ b` (`h1`), then `n + 1` runs give that text, provided
    * `hno`  — the written header has no line boundary other than `\n` (decidable on the output);
    * `hb`   — in single-line mode, what follows the header's line end is empty or starts with an empty line
               (always so when the file had no header before: `C10_idem_fresh_partial2`; with an old header and
               no empty line below it, a same-style comment directly below would join the block);
    * `htex` — the header does not start with `% !TEX` (trivial outside the TeX style);
    * `hinfo`, `habove` — the header carries REUSE information and nothing above it is a comment block with REUSE
               information (statements about `extract_reuse_info` on arbitrary comment blocks: C02 / C09);
    * `hrepro` — `create_header` on the written block and the same request returns the block (C07's guard + C02:
               extraction returns the merged request; the renderer is a function of the sorted sets).
    Against `C10_idem_partial`: the locator part of `secondRunOK` (block found exactly, at its place, for every
    header text in both modes; not a shebang; non-empty) is now proved; what remains is `hrepro` and the two
    extraction facts `hinfo`, `habove`. -/
theorem C10_idem_partial2 {c : HdrCfg} {info : Extracted} {t a hdr b : Text} (hs : c.style ∈ Generated.styles)
    (he : c.style.isEmptyStyle = false) (hcom : c.commented = false)
    (h1 : firstRunParts c info t = some (a, hdr, b)) (hno : NoExoticBreaks hdr)
    (hb : multiMode c.style c.forceMulti = true ∨ b = [] ∨ ∃ r, b = '\n' :: r)
    (htex : startsWith hdr "% !TEX".toList = false)
    (hinfo : containsReuseInfo c.parses hdr = true)
    (habove : nothingAbove c a (hdr ++ '\n' :: b) = true)
    (hrepro : createHeader c info (hdr ++ ['\n']) = .ok hdr) (n : Nat) :
    runs c info (n + 1) t = .ok (a ++ hdr ++ ['\n'] ++ b) :=
  C10_idem_partial h1 (C10_second_run_ok hs he hcom h1 hno hb htex hinfo habove hrepro) n

/-- **The property's case: no header in the file before** (bodies free of REUSE tags).  `hb` holds by
    construction — `place_header` separates a new header from what follows by an empty line. -/
theorem C10_idem_fresh_partial2 {c : HdrCfg} {info : Extracted} {t a hdr b : Text} (hs : c.style ∈ Generated.styles)
    (he : c.style.isEmptyStyle = false) (hcom : c.commented = false)
    (hfresh : findFirstSpdxComment c t = none)
    (h1 : firstRunParts c info t = some (a, hdr, b)) (hno : NoExoticBreaks hdr)
    (htex : startsWith hdr "% !TEX".toList = false)
    (hinfo : containsReuseInfo c.parses hdr = true)
    (habove : nothingAbove c a (hdr ++ '\n' :: b) = true)
    (hrepro : createHeader c info (hdr ++ ['\n']) = .ok hdr) (n : Nat) :
    runs c info (n + 1) t = .ok (a ++ hdr ++ ['\n'] ++ b) := by
  refine C10_idem_partial2 hs he hcom h1 hno ?_ htex hinfo habove hrepro n
  right
  obtain ⟨_, _, hbelow⟩ := firstRunParts_some h1
  have hold : (replaceSections c t).2.1 = [] := by
    unfold replaceSections
    simp only [hfresh]
    have := moveShebang_spec c.style.shebangs [] [] (if (c.style.name == "EmptyCommentStyle") = true then [] else t)
    rcases this with h | ⟨_, h, _⟩ | ⟨_, _, h, _⟩
    · rw [h]
    · exact (List.append_eq_nil_iff.mp h).2
    · exact h
  rw [hold] at hbelow
  rw [hbelow]
  exact belowOf_fresh_shape _

/-- … and when moreover nothing stands above the header (no shebang lines: `a = ""`), `habove` is void -/
theorem C10_idem_top_partial2 {c : HdrCfg} {info : Extracted} {t hdr b : Text} (hs : c.style ∈ Generated.styles)
    (he : c.style.isEmptyStyle = false) (hcom : c.commented = false)
    (hfresh : findFirstSpdxComment c t = none)
    (h1 : firstRunParts c info t = some ([], hdr, b)) (hno : NoExoticBreaks hdr)
    (htex : startsWith hdr "% !TEX".toList = false)
    (hinfo : containsReuseInfo c.parses hdr = true)
    (hrepro : createHeader c info (hdr ++ ['\n']) = .ok hdr) (n : Nat) :
    runs c info (n + 1) t = .ok (hdr ++ ['\n'] ++ b) := by
  have := C10_idem_fresh_partial2 hs he hcom hfresh h1 hno htex hinfo (C10_nothing_above_top c _) hrepro n
  simpa using this

/-- `C10_idem_partial2` at the level of the file (`add_header_to_file`): an LF file and its CRLF form — both runs
    write the same characters (through `C08_line_endings_lf` / `_crlf`) -/
theorem C10_idem_text_partial2 {c : HdrCfg} {info : Extracted} {t a hdr b : Text} (hs : c.style ∈ Generated.styles)
    (he : c.style.isEmptyStyle = false) (hcom : c.commented = false)
    (h1 : firstRunParts c info t = some (a, hdr, b)) (hno : NoExoticBreaks hdr)
    (hb : multiMode c.style c.forceMulti = true ∨ b = [] ∨ ∃ r, b = '\n' :: r)
    (htex : startsWith hdr "% !TEX".toList = false)
    (hinfo : containsReuseInfo c.parses hdr = true)
    (habove : nothingAbove c a (hdr ++ '\n' :: b) = true)
    (hrepro : createHeader c info (hdr ++ ['\n']) = .ok hdr)
    (hcr : NoCR t) (hcr' : NoCR (a ++ hdr ++ ['\n'] ++ b)) :
    (annotateText c true false info t = .written (a ++ hdr ++ ['\n'] ++ b) ∧
     annotateText c true false info (a ++ hdr ++ ['\n'] ++ b) = .written (a ++ hdr ++ ['\n'] ++ b)) ∧
    ('\n' ∈ t →
      annotateText c true false info (toCRLF t) = .written (toCRLF (a ++ hdr ++ ['\n'] ++ b)) ∧
      annotateText c true false info (toCRLF (a ++ hdr ++ ['\n'] ++ b)) = .written (toCRLF (a ++ hdr ++ ['\n'] ++ b))) := by
  have h2 := C10_second_run_ok hs he hcom h1 hno hb htex hinfo habove hrepro
  exact ⟨C10_idem_text_partial h1 h2 hcr hcr', fun hlf => C10_idem_crlf_partial h1 h2 hcr hlf hcr'⟩

/-- a style of the table: the C style's block for a three-line text -/
example : ∃ s ∈ Generated.styles, s.name = "CCommentStyle" ∧
    okComment (createMulti s "a\n\nb".toList) "/*\n * a\n *\n * b\n */".toList = true := by decide +kernel

/-- **The `.license` pseudo style** (`--force-dot-license`, files without a comment style), the property's case: the
    `.license` file holds no REUSE information before.  The run writes the header and its line end, nothing else
    (`a = ""`, `b = ""`); for this style the whole text is the block, so the second run finds `hdr ++ "\n"` at the
    first position as soon as it carries REUSE information (`hinfo`), and `n + 1` runs give `hdr ++ "\n"` when
    `create_header` on that block (with the line end the locator adds) and the same request returns `hdr` (`hrepro`). -/
theorem C10_idem_license_partial2 {c : HdrCfg} {info : Extracted} {t a hdr b : Text} (hs : c.style ∈ Generated.styles)
    (hname : (c.style.name == "EmptyCommentStyle") = true) (hfresh : findFirstSpdxComment c t = none)
    (h1 : firstRunParts c info t = some (a, hdr, b))
    (hinfo : containsReuseInfo c.parses (hdr ++ ['\n']) = true)
    (hrepro : createHeader c info (hdr ++ ['\n', '\n']) = .ok hdr) (n : Nat) :
    a = [] ∧ b = [] ∧ runs c info (n + 1) t = .ok (hdr ++ ['\n']) := by
  have hes : c.style.isEmptyStyle = true := by simp [Generated.Style.isEmptyStyle, hname]
  have hsb : c.style.shebangs = [] := C08.C08_pseudo_table _ hs hes
  obtain ⟨_, ha, hb⟩ := firstRunParts_some h1
  have hsec : replaceSections c t = ([], [], []) := by
    unfold replaceSections
    simp only [hfresh, hname, if_true, hsb, moveShebang]
  rw [hsec] at ha hb
  have ha' : a = [] := by rw [ha]; decide
  have hb' : b = [] := by rw [hb]; simp [belowOf]; decide
  subst ha' hb'
  refine ⟨rfl, rfl, ?_⟩
  have hfind : findFirstSpdxComment c ([] ++ hdr ++ ['\n'] ++ []) = some ([], hdr ++ ['\n'] ++ ['\n'], []) := by
    unfold findFirstSpdxComment
    rw [lineStartSuffixes_eq, List.findSome?_cons]
    have hc : commentAtFirst c.style ([] ++ hdr ++ ['\n'] ++ []) = .ok (hdr ++ ['\n']) := by
      unfold commentAtFirst
      simp [hes]
    simp only [hc]
    simp [hinfo]
  have h2 : secondRunOK c info [] hdr [] = true := by
    unfold secondRunOK
    rw [hfind]
    simp only [hname, if_true, hsb, okText]
    have : hdr ++ ['\n'] ++ ['\n'] = hdr ++ ['\n', '\n'] := by simp
    rw [this, hrepro]
    simp
  simpa using C10_idem_partial h1 h2 n

/-- the marker condition excludes something (TeX's `% !TEX` against `% `), and holds elsewhere -/
example : ∃ s ∈ Generated.styles, s.name = "TexCommentStyle" ∧ ¬ ShebangFree s "% !TEX".toList ∧ ShebangFree s "%!TEX".toList := by
  decide +kernel
example : multiMode (⟨"X", "x", "#".toList, none, " ".toList, [], [], [], [], [], [], []⟩ : Generated.Style) false = false := by decide
example : belowOf "x\n".toList false = "\nx\n".toList ∧ aboveOf "#!/bin/sh\n".toList = "#!/bin/sh\n\n".toList := by decide

/-! ### non-vacuity

(`secondRunOK` holds on most cases of stream `theorem` — counted as the stream's non-trivial cases on every run; it
calls the regular-expression reader, which the kernel cannot evaluate, so no closed example is stated here.) -/

example : ∃ s ∈ Generated.styles, s.name = "JuliaCommentStyle" ∧ s.singleRe = none ∧ supported s true = true := by decide
example : aboveOf "#!/bin/sh \n".toList = "#!/bin/sh\n\n".toList ∧ belowOf "x\n".toList false = "\nx\n".toList := by decide
example : placeHeader "# h".toList (aboveOf "#!/bin/sh \n".toList) (belowOf "x\n".toList false) true =
    "#!/bin/sh\n\n# h\n\nx\n".toList := by decide
/-- the style predicate excludes something: a Julia-like style whose reader tries the single-line marker on the
    opener line is the defect this property found; here, a style whose middle marker is its terminator is refused
    (every body line would end the block).  A terminator that equals the opener is fine: on the first line the
    reader sets the opener aside. -/
example : ¬ StyleIdem (⟨"X", "x", [], none, [], "/*".toList, "*/".toList, "*/".toList, [], [], [], []⟩ : Generated.Style) true := by
  decide +kernel
example : StyleIdem (⟨"X", "x", [], none, [], "%%".toList, [], "%%".toList, [], [], [], []⟩ : Generated.Style) true := by
  decide +kernel

end C10
