/-
C10 — re-running annotate with the same arguments changes nothing.

`C10_second_run` is the idempotence theorem under the decidable hypothesis `Spec.secondRunOK` ("the header
just written is found again, at its place, and reproduces itself"), which the driver evaluates on every case
of the correspondence (stream `theorem`).  `C10_table` discharges the style-level core of that hypothesis over
the generated style table; `C10_n_runs` lifts one repeated run to any number of runs.
-/
import ReuseVerif.Lemmas.Idem
import ReuseVerif.Lemmas.ReadBack
import ReuseVerif.Lemmas.C10MultiReadBack
import ReuseVerif.Lemmas.C10Locator
import ReuseVerif.Theorems.C08
import ReuseVerif.Theorems.C20
import ReuseVerif.Lemmas.C10OrderAnnotate
namespace C10
open Py Model Spec C08L C10L C10Order

/-- the three parts `firstRunParts` names are what the run writes -/
theorem C10_first_run {c : HdrCfg} {info : Extracted} {t a hdr b : Text}
    (h : firstRunParts c info t = some (a, hdr, b)) :
    findAndReplaceHeader c info t = .ok (a ++ hdr ++ ['\n'] ++ b) := by
  obtain ⟨hc, rfl, rfl⟩ := firstRunParts_some h
  rw [findAndReplace_eq, hc]
  simp only [placeHeader_parts]

/-- **Idempotence (partial: hypothesis `secondRunOK`).**  For every configuration (style, template, options),
    request and text: if the replacing run writes `a ++ hdr ++ "\n" ++ b` and the written header is found again
    exactly and reproduces itself (`secondRunOK`, decidable, evaluated per case by the driver), then running the
    same command on the written text returns the written text.
    Full statement (not proved in general): `secondRunOK` holds for every style with `StyleIdem`, every
    well-formed request and every body free of REUSE tags; what is missing is (i) that the locator finds no
    REUSE block in `a` and reads the created block back for *every* header text (`C10_table` decides it on
    representative texts per style), and (ii) that extraction from the written header returns the merged
    request (C07 / C02). -/
theorem C10_second_run_partial {c : HdrCfg} {info : Extracted} {t a hdr b : Text}
    (h1 : firstRunParts c info t = some (a, hdr, b)) (h2 : secondRunOK c info a hdr b = true) :
    findAndReplaceHeader c info (a ++ hdr ++ ['\n'] ++ b) = .ok (a ++ hdr ++ ['\n'] ++ b) := by
  -- the parts are in placed form
  obtain ⟨x, y, e, rfl, rfl⟩ : ∃ x y e, a = aboveOf x ∧ b = belowOf y e := by
    obtain ⟨_, ha, hb⟩ := firstRunParts_some h1
    exact ⟨_, _, _, ha, hb⟩
  unfold secondRunOK at h2
  split at h2
  · rename_i a' old b' hf
    simp only [Bool.and_eq_true] at h2
    obtain ⟨⟨⟨⟨ha, hb⟩, hne⟩, hsb⟩, hok⟩ := h2
    have ha := beq_iff_eq.mp ha
    subst ha
    have hne' : old ≠ [] := by cases old <;> simp_all
    have hafter : (if (c.style.name == "EmptyCommentStyle") = true then [] else b') = belowOf y e := by
      by_cases hE : (c.style.name == "EmptyCommentStyle") = true
      · simp only [hE, if_true] at hb ⊢
        exact (List.isEmpty_iff.mp hb).symm
      · simp only [hE, Bool.false_eq_true, if_false] at hb ⊢
        exact beq_iff_eq.mp hb
    unfold findAndReplaceHeader
    simp only [bind, Except.bind, pure, Except.pure, hf, hafter]
    rw [moveShebang_keep _ _ _ _ hne' hsb]
    simp only [okText_eq hok]
    have : (!old.isEmpty) = true := hne
    rw [this, placeHeader_fix]
  · cases h2

/-- **Any number of runs.**  When the second run changes nothing, no later run does: `n + 1` runs give what one run gives. -/
theorem C10_n_runs {c : HdrCfg} {info : Extracted} {t o : Text}
    (h1 : findAndReplaceHeader c info t = .ok o) (h2 : findAndReplaceHeader c info o = .ok o) (n : Nat) :
    runs c info (n + 1) t = .ok o := by
  have hfix : ∀ n, runs c info n o = .ok o := by
    intro n
    induction n with
    | zero => rfl
    | succ n ih => simp only [runs, h2, ih]
  simp only [runs, h1, hfix n]

/-- idempotence and N runs together, from the decidable hypothesis -/
theorem C10_idem_partial {c : HdrCfg} {info : Extracted} {t a hdr b : Text}
    (h1 : firstRunParts c info t = some (a, hdr, b)) (h2 : secondRunOK c info a hdr b = true) (n : Nat) :
    runs c info (n + 1) t = .ok (a ++ hdr ++ ['\n'] ++ b) :=
  C10_n_runs (C10_first_run h1) (C10_second_run_partial h1 h2) n

/-- at the level of the file (`add_header_to_file`, LF text without byte order mark): the second run writes the
    same characters -/
theorem C10_idem_text_partial {c : HdrCfg} {info : Extracted} {t a hdr b : Text}
    (h1 : firstRunParts c info t = some (a, hdr, b)) (h2 : secondRunOK c info a hdr b = true)
    (hcr : NoCR t) (hcr' : NoCR (a ++ hdr ++ ['\n'] ++ b)) :
    annotateText c true false info t = .written (a ++ hdr ++ ['\n'] ++ b) ∧
    annotateText c true false info (a ++ hdr ++ ['\n'] ++ b) = .written (a ++ hdr ++ ['\n'] ++ b) := by
  rw [C08.C08_line_endings_lf c true info t hcr, C08.C08_line_endings_lf c true info _ hcr']
  simp only [if_true, C10_first_run h1, C10_second_run_partial h1 h2, and_self]

/-- … and for the CRLF form of the same file -/
theorem C10_idem_crlf_partial {c : HdrCfg} {info : Extracted} {t a hdr b : Text}
    (h1 : firstRunParts c info t = some (a, hdr, b)) (h2 : secondRunOK c info a hdr b = true)
    (hcr : NoCR t) (hlf : '\n' ∈ t) (hcr' : NoCR (a ++ hdr ++ ['\n'] ++ b)) :
    annotateText c true false info (toCRLF t) = .written (toCRLF (a ++ hdr ++ ['\n'] ++ b)) ∧
    annotateText c true false info (toCRLF (a ++ hdr ++ ['\n'] ++ b)) = .written (toCRLF (a ++ hdr ++ ['\n'] ++ b)) := by
  obtain ⟨e1, e2⟩ := C10_idem_text_partial h1 h2 hcr hcr'
  rw [C08.C08_line_endings_crlf c true info t hcr hlf,
    C08.C08_line_endings_crlf c true info _ hcr' (by simp), e1, e2]
  exact ⟨rfl, rfl⟩

/-- **Table obligation.**  For every style of the generated table that recognises single-line comments by
    prefix (no regular expression) and every mode the style supports, the block `create_comment` produces for
    each representative header text is exactly what `comment_at_first_character` reads back — at the end of the
    text, before an empty line followed by code, by a comment of the same style, by a terminator line.  In
    particular a multi-line opener is not taken for a single-line comment (Julia's `#=`). -/
theorem C10_table : ∀ s ∈ Generated.styles, s.singleRe = none → ∀ m, supported s m = true → StyleIdem s m := by
  decide +kernel

/-- **Table obligation, single-line mode.**  Every style of the generated table that writes single-line comments
    satisfies `SingleOK`: marker and indentation contain no line boundary, an empty line is not a comment (the
    marker is non-empty; a regular-expression marker — Lisp — cannot match the empty string), and the multi-line
    opener neither is a prefix of nor extends `marker + indentation`. -/
theorem C10_single_table : ∀ s ∈ Generated.styles, s.canSingle = true → s.isEmptyStyle = false → SingleOK s := by
  decide +kernel

/-- **Single-line read-back for every header text.**  For every style of the table that writes single-line
    comments (the default mode), every text whose only line boundary is `\n`, and whatever follows the header's
    line end — the end of the text, or an empty line and then anything: `comment_at_first_character` returns
    exactly the block `create_comment` produced.  (The multi-line mode is decided on representative texts by
    `C10_table`.) -/
theorem C10_single_readback (s : Generated.Style) (hs : s ∈ Generated.styles) (hc : s.canSingle = true)
    (he : s.isEmptyStyle = false) (text : Text) (hno : NoExoticBreaks text) (blk : Text)
    (hblk : createComment s text false = .ok blk) (rest : Text) (hrest : rest = [] ∨ ∃ r, rest = '\n' :: r) :
    commentAtFirst s (blk ++ '\n' :: rest) = .ok blk := by
  have hS := C10_single_table s hs hc he
  have : createComment s text false = createSingle s text := by simp [createComment, he, hc]
  rw [this] at hblk
  exact single_readback hS text hno blk hblk rest hrest

example : ∃ s ∈ Generated.styles, s.name = "LispCommentStyle" ∧ s.canSingle = true ∧ s.isEmptyStyle = false := by decide

/-- **Table obligation, multi-line mode.**  Every style of the generated table that can write multi-line comments
    satisfies `MultiOK`: no marker or indentation contains a line boundary; the opener does not end with the
    terminator; the prefix of a body line (`indentation + middle marker`) does not end with the terminator; and
    no non-empty end of `prefix + indentation` is a proper beginning of the terminator — so a text line that
    does not *contain* the terminator cannot complete one across the boundary between marker and text. -/
theorem C10_multi_table : ∀ s ∈ Generated.styles, s.canMulti = true → s.isEmptyStyle = false → MultiOK s := by
  decide +kernel

/-- **Multi-line read-back for every header text.**  For every style of the table that can write multi-line
    comments, every text whose only line boundary is `\n` and that does not contain the style's terminator (the
    guard of `_create_comment_multi`; with it `createMulti` fails and nothing is written), and *whatever* follows
    the block's line end: `comment_at_first_character` returns exactly the block `_create_comment_multi`
    produced — the opener is recognised (also where it looks like a single-line comment: Julia's `#=`), and the
    first line that ends with the terminator is the block's last line.  Supersedes the multi-line half of
    `C10_table` (11 representative texts × 5 continuations) by a statement for all texts and continuations. -/
theorem C10_multi_readback (s : Generated.Style) (hs : s ∈ Generated.styles) (hc : s.canMulti = true)
    (he : s.isEmptyStyle = false) (text : Text) (hno : NoExoticBreaks text) (blk : Text)
    (hblk : createMulti s text = .ok blk) (rest : Text) :
    commentAtFirst s (blk ++ '\n' :: rest) = .ok blk :=
  multi_readback (C10_multi_table s hs hc he) text hno blk hblk rest

/-- the same through `create_comment`: `--multi-line`, or a style without single-line comments -/
theorem C10_multi_readback_comment (s : Generated.Style) (hs : s ∈ Generated.styles) (he : s.isEmptyStyle = false)
    (forceMulti : Bool) (hm : forceMulti = true ∨ s.canSingle = false) (text : Text) (hno : NoExoticBreaks text)
    (blk : Text) (hblk : createComment s text forceMulti = .ok blk) (rest : Text) :
    commentAtFirst s (blk ++ '\n' :: rest) = .ok blk := by
  have h1 : createComment s text forceMulti = createMulti s text := by
    rcases hm with h | h <;> simp [createComment, he, h]
  rw [h1] at hblk
  have hc : s.canMulti = true := by
    cases hcm : s.canMulti with
    | true => rfl
    | false => simp [createMulti, hcm] at hblk
  exact C10_multi_readback s hs hc he text hno blk hblk rest

/-- the condition excludes something: a C-like style written without the blank between `*` and the text —
    the text line `/` (which does not contain `*/`) would end the block early -/
example : ¬ MultiOK (⟨"X", "x", [], none, [], "/*".toList, "*".toList, "*/".toList, " ".toList, [], " ".toList, []⟩ : Generated.Style) := by
  decide +kernel
example : ∃ s ∈ Generated.styles, s.name = "JuliaCommentStyle" ∧ s.canMulti = true ∧ s.isEmptyStyle = false := by decide
example : okComment (createMulti (⟨"X", "x", [], none, [], "/*".toList, "*".toList, "*/".toList, " ".toList, " ".toList, " ".toList, []⟩ : Generated.Style)
    "a\n\nb".toList) "/*\n * a\n *\n * b\n */".toList = true := by decide +kernel

/-! ### the second run's locator: `secondRunOK` discharged up to "the header reproduces itself" -/

/-- both read-back conditions hold for every style of the generated table but the two pseudo styles -/
theorem C10_style_table (s : Generated.Style) (hs : s ∈ Generated.styles) (he : s.isEmptyStyle = false) : StyleOK s :=
  ⟨he, fun hc => C10_single_table s hs hc he, fun hc => C10_multi_table s hs hc he⟩

/-- **Table obligation, first-line markers.**  No first-line marker of a style can begin a comment block of that
    style — with one exception, TeX's `% !TEX`, which extends `marker + indentation` (`% `): a header whose first
    text line starts with `!TEX` would be taken for a first-line declaration (hypothesis `htex` below). -/
theorem C10_shebang_free_table :
    ∀ s ∈ Generated.styles, ∀ sb ∈ s.shebangs, sb ≠ "% !TEX".toList → ShebangFree s sb := by
  decide +kernel

/-- with nothing above the header (`a = ""`: the header stands first) the locator meets nothing before it -/
theorem C10_nothing_above_top (c : HdrCfg) (rest : Text) : nothingAbove c [] rest = true := by
  unfold nothingAbove
  rw [List.all_eq_true]
  intro p _
  simp

/-- **The locator finds the header the tool wrote, at its place.**  For every style of the table (not a pseudo
    style) and a template that is not pre-commented: let `hdr` be what `create_header` returned, free of exotic
    line boundaries and carrying REUSE information; `a` empty or ending a line; `b` arbitrary in multi-line mode,
    empty or starting with a line end in single-line mode.  If nothing above the header is a comment block with
    REUSE information (`nothingAbove`), `_find_first_spdx_comment` on `a ++ hdr ++ "\n" ++ b` returns exactly
    `(a, hdr ++ "\n", b)`.  Uses `C10_single_readback` / `C10_multi_readback` for every header text. -/
theorem C10_locator_finds {c : HdrCfg} {info : Extracted} {old a hdr b : Text} (hs : c.style ∈ Generated.styles)
    (he : c.style.isEmptyStyle = false) (hcom : c.commented = false)
    (hcreate : createHeader c info old = .ok hdr) (hno : NoExoticBreaks hdr)
    (ha : a = [] ∨ ∃ a0, a = a0 ++ ['\n'])
    (hb : multiMode c.style c.forceMulti = true ∨ b = [] ∨ ∃ r, b = '\n' :: r)
    (hinfo : containsReuseInfo c.parses hdr = true)
    (habove : nothingAbove c a (hdr ++ '\n' :: b) = true) :
    findFirstSpdxComment c (a ++ hdr ++ ['\n'] ++ b) = some (a, hdr ++ ['\n'], b) :=
  locator_finds (C10_style_table _ hs he) hcom hcreate hno ha hb hinfo habove

/-- **`secondRunOK` from its remaining parts.**  Everything `secondRunOK` asks for is derived — the locator
    returns exactly the written block between exactly the written parts, the block is non-empty and is not
    taken for a first-line declaration — except that `create_header` on the block found and the same request
    gives the block again (`hrepro`: extraction returns the request and the renderer is a function of the sorted
    sets — C07's guard, C02), under the hypotheses of `C10_locator_finds`. -/
theorem C10_second_run_ok {c : HdrCfg} {info : Extracted} {t a hdr b : Text} (hs : c.style ∈ Generated.styles)
    (he : c.style.isEmptyStyle = false) (hcom : c.commented = false)
    (h1 : firstRunParts c info t = some (a, hdr, b)) (hno : NoExoticBreaks hdr)
    (hb : multiMode c.style c.forceMulti = true ∨ b = [] ∨ ∃ r, b = '\n' :: r)
    (htex : startsWith hdr "% !TEX".toList = false)
    (hinfo : containsReuseInfo c.parses hdr = true)
    (habove : nothingAbove c a (hdr ++ '\n' :: b) = true)
    (hrepro : createHeader c info (hdr ++ ['\n']) = .ok hdr) :
    secondRunOK c info a hdr b = true := by
  obtain ⟨hcreate, ha, _⟩ := firstRunParts_some h1
  have hsty := C10_style_table _ hs he
  have hfind := locator_finds hsty hcom hcreate hno (by rw [ha]; exact aboveOf_shape _) hb hinfo habove
  have hname : (c.style.name == "EmptyCommentStyle") = false := by
    simp only [Generated.Style.isEmptyStyle, Bool.or_eq_false_iff] at he
    exact he.1
  have hsb : c.style.shebangs.all (fun sb => !(startsWith (hdr ++ ['\n']) sb)) = true := by
    rw [List.all_eq_true]
    intro sb hsb
    have hnb := (C08.C08_shebang_table _ hs sb hsb).2.1
    have : startsWith hdr sb = false := by
      by_cases htx : sb = "% !TEX".toList
      · rw [htx]; exact htex
      · exact header_no_shebang hsty hcom hcreate hno sb (C10_shebang_free_table _ hs sb hsb htx)
    simp [startsWith_lf_iff hnb this]
  unfold secondRunOK
  rw [hfind]
  simp only [hname, Bool.false_eq_true, if_false, hsb, hrepro, okText, beq_self_eq_true, Bool.and_true, Bool.true_and]
  simp

/-- **Idempotence with fewer hypotheses (partial).**  For every style of the generated table (both modes; not the
    `.license` pseudo style), every template that is not pre-commented, every request and every text `t`: if
    the replacing run writes `a ++ hdr ++ "\n" ++ b` (`h1`), then `n + 1` runs give that text, provided
    * `hno`  — the written header has no line boundary other than `\n` (decidable on the output);
    * `hb`   — in single-line mode, what follows the header's line end is empty or starts with an empty line
               (always so when the file had no header before: `C10_idem_fresh_partial2`; with an old header and
               no empty line below it, a same-style comment directly below would join the block);
    * `htex` — the header does not start with `% !TEX` (trivial outside the TeX style);
    * `hinfo`, `habove` — the header carries REUSE information and nothing above it is a comment block with REUSE
               information (statements about `extract_reuse_info` on arbitrary comment blocks: C02 / C09);
    * `hrepro` — `create_header` on the written block and the same request returns the block (C07's guard + C02:
               extraction returns the merged request; the renderer is a function of the sorted sets).
    Against `C10_idem_partial`: the locator part of `secondRunOK` (block found exactly, at its place, for every
    header text in both modes; not a shebang; non-empty) is now proved; what remains is `hrepro` and the two
    extraction facts `hinfo`, `habove`. -/
theorem C10_idem_partial2 {c : HdrCfg} {info : Extracted} {t a hdr b : Text} (hs : c.style ∈ Generated.styles)
    (he : c.style.isEmptyStyle = false) (hcom : c.commented = false)
    (h1 : firstRunParts c info t = some (a, hdr, b)) (hno : NoExoticBreaks hdr)
    (hb : multiMode c.style c.forceMulti = true ∨ b = [] ∨ ∃ r, b = '\n' :: r)
    (htex : startsWith hdr "% !TEX".toList = false)
    (hinfo : containsReuseInfo c.parses hdr = true)
    (habove : nothingAbove c a (hdr ++ '\n' :: b) = true)
    (hrepro : createHeader c info (hdr ++ ['\n']) = .ok hdr) (n : Nat) :
    runs c info (n + 1) t = .ok (a ++ hdr ++ ['\n'] ++ b) :=
  C10_idem_partial h1 (C10_second_run_ok hs he hcom h1 hno hb htex hinfo habove hrepro) n

/-- **The property's case: no header in the file before** (bodies free of REUSE tags).  `hb` holds by
    construction — `place_header` separates a new header from what follows by an empty line. -/
theorem C10_idem_fresh_partial2 {c : HdrCfg} {info : Extracted} {t a hdr b : Text} (hs : c.style ∈ Generated.styles)
    (he : c.style.isEmptyStyle = false) (hcom : c.commented = false)
    (hfresh : findFirstSpdxComment c t = none)
    (h1 : firstRunParts c info t = some (a, hdr, b)) (hno : NoExoticBreaks hdr)
    (htex : startsWith hdr "% !TEX".toList = false)
    (hinfo : containsReuseInfo c.parses hdr = true)
    (habove : nothingAbove c a (hdr ++ '\n' :: b) = true)
    (hrepro : createHeader c info (hdr ++ ['\n']) = .ok hdr) (n : Nat) :
    runs c info (n + 1) t = .ok (a ++ hdr ++ ['\n'] ++ b) := by
  refine C10_idem_partial2 hs he hcom h1 hno ?_ htex hinfo habove hrepro n
  right
  obtain ⟨_, _, hbelow⟩ := firstRunParts_some h1
  have hold : (replaceSections c t).2.1 = [] := by
    unfold replaceSections
    simp only [hfresh]
    have := moveShebang_spec c.style.shebangs [] [] (if (c.style.name == "EmptyCommentStyle") = true then [] else t)
    rcases this with h | ⟨_, h, _⟩ | ⟨_, _, h, _⟩
    · rw [h]
    · exact (List.append_eq_nil_iff.mp h).2
    · exact h
  rw [hold] at hbelow
  rw [hbelow]
  exact belowOf_fresh_shape _

/-- … and when moreover nothing stands above the header (no shebang lines: `a = ""`), `habove` is void -/
theorem C10_idem_top_partial2 {c : HdrCfg} {info : Extracted} {t hdr b : Text} (hs : c.style ∈ Generated.styles)
    (he : c.style.isEmptyStyle = false) (hcom : c.commented = false)
    (hfresh : findFirstSpdxComment c t = none)
    (h1 : firstRunParts c info t = some ([], hdr, b)) (hno : NoExoticBreaks hdr)
    (htex : startsWith hdr "% !TEX".toList = false)
    (hinfo : containsReuseInfo c.parses hdr = true)
    (hrepro : createHeader c info (hdr ++ ['\n']) = .ok hdr) (n : Nat) :
    runs c info (n + 1) t = .ok (hdr ++ ['\n'] ++ b) := by
  have := C10_idem_fresh_partial2 hs he hcom hfresh h1 hno htex hinfo (C10_nothing_above_top c _) hrepro n
  simpa using this

/-- `C10_idem_partial2` at the level of the file (`add_header_to_file`): an LF file and its CRLF form — both runs
    write the same characters (through `C08_line_endings_lf` / `_crlf`) -/
theorem C10_idem_text_partial2 {c : HdrCfg} {info : Extracted} {t a hdr b : Text} (hs : c.style ∈ Generated.styles)
    (he : c.style.isEmptyStyle = false) (hcom : c.commented = false)
    (h1 : firstRunParts c info t = some (a, hdr, b)) (hno : NoExoticBreaks hdr)
    (hb : multiMode c.style c.forceMulti = true ∨ b = [] ∨ ∃ r, b = '\n' :: r)
    (htex : startsWith hdr "% !TEX".toList = false)
    (hinfo : containsReuseInfo c.parses hdr = true)
    (habove : nothingAbove c a (hdr ++ '\n' :: b) = true)
    (hrepro : createHeader c info (hdr ++ ['\n']) = .ok hdr)
    (hcr : NoCR t) (hcr' : NoCR (a ++ hdr ++ ['\n'] ++ b)) :
    (annotateText c true false info t = .written (a ++ hdr ++ ['\n'] ++ b) ∧
     annotateText c true false info (a ++ hdr ++ ['\n'] ++ b) = .written (a ++ hdr ++ ['\n'] ++ b)) ∧
    ('\n' ∈ t →
      annotateText c true false info (toCRLF t) = .written (toCRLF (a ++ hdr ++ ['\n'] ++ b)) ∧
      annotateText c true false info (toCRLF (a ++ hdr ++ ['\n'] ++ b)) = .written (toCRLF (a ++ hdr ++ ['\n'] ++ b))) := by
  have h2 := C10_second_run_ok hs he hcom h1 hno hb htex hinfo habove hrepro
  exact ⟨C10_idem_text_partial h1 h2 hcr hcr', fun hlf => C10_idem_crlf_partial h1 h2 hcr hlf hcr'⟩

/-- a style of the table: the C style's block for a three-line text -/
example : ∃ s ∈ Generated.styles, s.name = "CCommentStyle" ∧
    okComment (createMulti s "a\n\nb".toList) "/*\n * a\n *\n * b\n */".toList = true := by decide +kernel

/-- **The `.license` pseudo style** (`--force-dot-license`, files without a comment style), the property's case: the
    `.license` file holds no REUSE information before.  The run writes the header and its line end, nothing else
    (`a = ""`, `b = ""`); for this style the whole text is the block, so the second run finds `hdr ++ "\n"` at the
    first position as soon as it carries REUSE information (`hinfo`), and `n + 1` runs give `hdr ++ "\n"` when
    `create_header` on that block (with the line end the locator adds) and the same request returns `hdr` (`hrepro`). -/
theorem C10_idem_license_partial2 {c : HdrCfg} {info : Extracted} {t a hdr b : Text} (hs : c.style ∈ Generated.styles)
    (hname : (c.style.name == "EmptyCommentStyle") = true) (hfresh : findFirstSpdxComment c t = none)
    (h1 : firstRunParts c info t = some (a, hdr, b))
    (hinfo : containsReuseInfo c.parses (hdr ++ ['\n']) = true)
    (hrepro : createHeader c info (hdr ++ ['\n', '\n']) = .ok hdr) (n : Nat) :
    a = [] ∧ b = [] ∧ runs c info (n + 1) t = .ok (hdr ++ ['\n']) := by
  have hes : c.style.isEmptyStyle = true := by simp [Generated.Style.isEmptyStyle, hname]
  have hsb : c.style.shebangs = [] := C08.C08_pseudo_table _ hs hes
  obtain ⟨_, ha, hb⟩ := firstRunParts_some h1
  have hsec : replaceSections c t = ([], [], []) := by
    unfold replaceSections
    simp only [hfresh, hname, if_true, hsb, moveShebang]
  rw [hsec] at ha hb
  have ha' : a = [] := by rw [ha]; decide
  have hb' : b = [] := by rw [hb]; simp [belowOf]; decide
  subst ha' hb'
  refine ⟨rfl, rfl, ?_⟩
  have hfind : findFirstSpdxComment c ([] ++ hdr ++ ['\n'] ++ []) = some ([], hdr ++ ['\n'] ++ ['\n'], []) := by
    unfold findFirstSpdxComment
    rw [lineStartSuffixes_eq, List.findSome?_cons]
    have hc : commentAtFirst c.style ([] ++ hdr ++ ['\n'] ++ []) = .ok (hdr ++ ['\n']) := by
      unfold commentAtFirst
      simp [hes]
    simp only [hc]
    simp [hinfo]
  have h2 : secondRunOK c info [] hdr [] = true := by
    unfold secondRunOK
    rw [hfind]
    simp only [hname, if_true, hsb, okText]
    have : hdr ++ ['\n'] ++ ['\n'] = hdr ++ ['\n', '\n'] := by simp
    rw [this, hrepro]
    simp
  simpa using C10_idem_partial h1 h2 n

/-- the marker condition excludes something (TeX's `% !TEX` against `% `), and holds elsewhere -/
example : ∃ s ∈ Generated.styles, s.name = "TexCommentStyle" ∧ ¬ ShebangFree s "% !TEX".toList ∧ ShebangFree s "%!TEX".toList := by
  decide +kernel
example : multiMode (⟨"X", "x", "#".toList, none, " ".toList, [], [], [], [], [], [], []⟩ : Generated.Style) false = false := by decide
example : belowOf "x\n".toList false = "\nx\n".toList ∧ aboveOf "#!/bin/sh\n".toList = "#!/bin/sh\n\n".toList := by decide

/-! ### the order of the requested sets

The requested copyright lines, contributor lines and licence expressions are Python `set`s; their iteration
order differs between processes (string hash seed).  In the model they are lists.  The theorems below say that
what is written depends on the *members* only: a second run in another process hands `create_header` another
order of the same sets, and the idempotence theorems above — stated for one fixed list order — carry over.
(Same statement that C14 rests on for the annotate side: results do not depend on the hash seed.) -/

/-- **Python's `<` on `str` (code point order) is a strict total order** on texts: irreflexive, transitive,
    and two texts neither of which is below the other are equal. -/
theorem C10_text_order :
    (∀ a : Text, textLt a a = false) ∧
    (∀ a b c : Text, textLt a b = true → textLt b c = true → textLt a c = true) ∧
    (∀ a b : Text, textLt a b = false → textLt b a = false → a = b) :=
  ⟨textLt_irrefl, fun _ _ _ => textLt_trans, fun _ _ => textLt_trichotomy⟩

/-- **`sorted(...)` is a function of the multiset.**  Permutations of one list sort to the same list. -/
theorem C10_sorted_order {l₁ l₂ : List Text} (h : l₁.Perm l₂) : sortTexts l₁ = sortTexts l₂ :=
  sortTexts_perm_eq h

/-- … namely to *the* ascending permutation of the input: the result is a permutation of the input, ascending
    in code point order, and the only such list. -/
theorem C10_sorted_spec (l : List Text) :
    (sortTexts l).Perm l ∧ (sortTexts l).Pairwise (fun a b => textLt b a = false) ∧
    ∀ s : List Text, s.Perm l → s.Pairwise (fun a b => textLt b a = false) → sortTexts l = s :=
  ⟨sortTexts_perm l, sortTexts_sorted l, fun _ hp hs => sortTexts_unique hp hs⟩

/-- **`_create_new_header` does not depend on the order of the three sets.**  For every configuration (style,
    template, options): two requests whose sections are pairwise permutations of each other give the same
    result — the same header text, or the same refusal. -/
theorem C10_new_header_order (c : HdrCfg) {i j : Extracted} (hc : i.cpr.Perm j.cpr) (hn : i.con.Perm j.con)
    (hl : i.lic.Perm j.lic) : createNewHeader c i = createNewHeader c j :=
  createNewHeader_perm c hc hn hl

/-- **`merge_copyright_lines` does not depend on the order of the set.**  It iterates over `sorted(...)`
    (fixes/c10-merge-order.diff), so permutations of one list — two iteration orders of one set — merge to the
    same list, ties or not. -/
theorem C10_merge_order {l₁ l₂ : List Text} (h : l₁.Perm l₂) : mergeLines l₁ = mergeLines l₂ :=
  mergeLines_perm_eq h

/-- the same as `C10_merge_order`, spelled with the sort (how the repair was proposed) -/
theorem C10_merge_sorted_order {l₁ l₂ : List Text} (h : l₁.Perm l₂) :
    mergeLinesWith Generated.endRe (sortTexts l₁) = mergeLinesWith Generated.endRe (sortTexts l₂) :=
  mergeLines_perm_eq h

/-- **`create_header` does not depend on the order of the requested sets**, with and without
    `--merge-copyrights`.  For every configuration, every existing header text (also none): requests that are
    permutations of each other give the same result. -/
theorem C10_header_order (c : HdrCfg) {i j : Extracted} (header : Text)
    (hc : i.cpr.Perm j.cpr) (hn : i.con.Perm j.con) (hl : i.lic.Perm j.lic) :
    createHeader c i header = createHeader c j header :=
  createHeader_order c header ⟨hc, hn, hl⟩

/-- … in the form "the same sets": duplicate-free lists with the same members. -/
theorem C10_header_order_sets (c : HdrCfg) {i j : Extracted} (header : Text)
    (hc : ∀ x, x ∈ i.cpr ↔ x ∈ j.cpr) (hn : ∀ x, x ∈ i.con ↔ x ∈ j.con) (hl : ∀ x, x ∈ i.lic ↔ x ∈ j.lic)
    (di : i.cpr.Nodup ∧ i.con.Nodup ∧ i.lic.Nodup) (dj : j.cpr.Nodup ∧ j.con.Nodup ∧ j.lic.Nodup) :
    createHeader c i header = createHeader c j header :=
  createHeader_order c header (.of_sameMembers hc hn hl di dj)

/-- … and when a header exists the requests need not even be duplicate-free: `create_header` forms unions with
    what the header declares, so only the members count. -/
theorem C10_header_order_old_sets (c : HdrCfg) {i j : Extracted} {header : Text}
    (hne : header ≠ [])
    (hc : ∀ x, x ∈ i.cpr ↔ x ∈ j.cpr) (hn : ∀ x, x ∈ i.con ↔ x ∈ j.con) (hl : ∀ x, x ∈ i.lic ↔ x ∈ j.lic) :
    createHeader c i header = createHeader c j header :=
  createHeader_sameMembers_old c (by cases header <;> simp_all) hc hn hl

/-! #### why the sort is needed: the loop of `merge_copyright_lines` on an unsorted input

`mergeLinesWith` is the loop on the lines in the order in which they are met — until the repair, the iteration
order of the set. -/

/-- **The loop on two orders of one set (partial: no ties).**  The merged lines are the same up to order when,
    for every holder of the input, (i) all most frequent prefixes of the holder's lines lead to the same prefix text
    (`TieFree`: e.g. the holder's lines carry one prefix, or one prefix is strictly most frequent) and (ii) no two
    different year texts stated for the holder have the same numeric value (`YearsInj`: e.g. all years are four
    ASCII digits) — `MergeStable`, a property of the set, decidable.
    Full statement (FALSE in the model, and in the code before the repair, see `C10_merge_prefix_tie`): without `hs`. -/
theorem C10_merge_order_partial (endRe : Re) {l₁ l₂ : List Text} (h : l₁.Perm l₂)
    (hs : MergeStable (parseLines endRe l₁)) : (mergeLinesWith endRe l₁).Perm (mergeLinesWith endRe l₂) :=
  mergeLinesWith_perm endRe h hs

/-- the sufficient conditions named above -/
theorem C10_merge_stable_of {parsed : List Parsed}
    (hp : ∀ x ∈ parsed, (∀ a ∈ prefixesOf parsed x.1, ∀ b ∈ prefixesOf parsed x.1, a = b) ∨
      ∃ m, ∀ p ∈ prefixesOf parsed x.1, p ≠ m → (prefixesOf parsed x.1).count p < (prefixesOf parsed x.1).count m)
    (hy : ∀ x ∈ parsed, ∀ y ∈ yearsOf parsed x.1, asciiYear y = true) : MergeStable parsed := by
  intro x hx
  refine ⟨?_, yearsInj_of_ascii (hy x hx)⟩
  rcases hp x hx with h | ⟨m, h⟩
  · exact tieFree_of_one_prefix h
  · exact tieFree_of_strict_max m h

/-- **The negation witness: a prefix tie.**  One holder, one year, the prefixes `Copyright` and `©` once each:
    the merged line carries the prefix of the line met first.  At the level of the parsed lines (closed terms), and
    at the level of the lines for every END pattern for which `X` is a well-formed holder (`Notice.ok`, as in
    `C20_merge_lines`).  Replayed against the code before the repair: `findings/C10-merge-order.json`. -/
theorem C10_merge_prefix_tie :
    [tieWord, tieSign].Perm [tieSign, tieWord] ∧
    mergeParsed [tieWord, tieSign] = ["Copyright 2019 X".toList] ∧
    mergeParsed [tieSign, tieWord] = ["© 2019 X".toList] ∧
    ¬ MergeStable [tieWord, tieSign] := prefix_tie_witness

theorem C10_merge_prefix_tie_lines (endRe : Re) (hX : WFHolderL endRe "X".toList = true) :
    mergeLinesWith endRe ["Copyright 2019 X".toList, "© 2019 X".toList] = ["Copyright 2019 X".toList] ∧
    mergeLinesWith endRe ["© 2019 X".toList, "Copyright 2019 X".toList] = ["© 2019 X".toList] := by
  have hrb : ReadBack endRe := fun x hx y hy h hw hn => C20.C20_make_parse endRe x hx y hy h hw hn
  let n1 : Notice := ⟨("Copyright".toList, CPat.word, []), .single "2019".toList, "X".toList⟩
  let n2 : Notice := ⟨("©".toList, CPat.sign, []), .single "2019".toList, "X".toList⟩
  have ok1 : n1.ok endRe := ⟨by simp [n1, prefixShapes], by decide, hX, by decide⟩
  have ok2 : n2.ok endRe := ⟨by simp [n2, prefixShapes], by decide, hX, by decide⟩
  have p12 := parseLines_notices endRe hrb [n1, n2] (by
    intro n hn; simp only [List.mem_cons, List.not_mem_nil, or_false] at hn; rcases hn with rfl | rfl <;> assumption)
  have p21 := parseLines_notices endRe hrb [n2, n1] (by
    intro n hn; simp only [List.mem_cons, List.not_mem_nil, or_false] at hn; rcases hn with rfl | rfl <;> assumption)
  have e12 : [n1, n2].map Notice.line = ["Copyright 2019 X".toList, "© 2019 X".toList] := by decide
  have e21 : [n2, n1].map Notice.line = ["© 2019 X".toList, "Copyright 2019 X".toList] := by decide
  rw [e12] at p12
  rw [e21] at p21
  rw [mergeLinesWith_eq, mergeLinesWith_eq, p12, p21]
  exact ⟨by decide, by decide⟩

/-- the hypothesis of `C10_merge_prefix_tie_lines` is satisfiable (an END pattern that only knows `}`) -/
example : WFHolderL (Re.chr '}') "X".toList = true := by
  have hbt : ∀ (c : Char) (cs : Text), c ≠ '}' → endAccepts (Re.chr '}') (c :: cs) = false := by
    intro c cs h
    have : ('}' == c) = false := by simpa using fun e : '}' = c => h e.symm
    simp [endAccepts, Re.bt, this]
  simp [WFHolderL, noEndSuffix, hbt, parenStart, hasTag, dashYear, isReSpace, isReDigit, Re.inRanges,
    Generated.spaceRanges, Generated.digitRanges] <;> decide

/-- the second kind of tie: the same year in two scripts (`int('2019') == int('２０１９')`) -/
theorem C10_merge_year_tie :
    mergeParsed [yearAscii, yearWide] = ["© 2019 X".toList] ∧
    mergeParsed [yearWide, yearAscii] = ["© ２０１９ X".toList] ∧
    ¬ MergeStable [yearAscii, yearWide] := year_tie_witness

/-- with the sort both orders of the tie give the line of the prefix that sorts first (`C` before `©`) -/
example : sortTexts ["© 2019 X".toList, "Copyright 2019 X".toList] = ["Copyright 2019 X".toList, "© 2019 X".toList] ∧
    sortTexts ["Copyright 2019 X".toList, "© 2019 X".toList] = ["Copyright 2019 X".toList, "© 2019 X".toList] := by decide

/-- kept from before the repair (`mergeLines` then was the loop on the unsorted input, and `hstable` — no ties
    among the lines the merge step receives — was needed); superseded by `C10_header_order` -/
theorem C10_header_order_merge_partial (c : HdrCfg) {i j : Extracted} (header : Text)
    (hc : i.cpr.Perm j.cpr) (hn : i.con.Perm j.con) (hl : i.lic.Perm j.lic)
    (_hstable : c.merge = true → MergeStable (parseLines Generated.endRe (cprInput i header))) :
    createHeader c i header = createHeader c j header :=
  C10_header_order c header hc hn hl

/-! #### text and file level -/

/-- **What `add_header_to_file` writes does not depend on the order of the requested sets.**  For every
    configuration (with and without `--merge-copyrights`, `--no-replace`, `--skip-existing`), every file text (any
    line ending, with or without byte order mark): requests that are permutations of each other give the same
    outcome — the same text written, or skipped, or the same failure. -/
theorem C10_annotate_order (c : HdrCfg) (replace skip : Bool) {i j : Extracted} (text : Text)
    (hc : i.cpr.Perm j.cpr) (hn : i.con.Perm j.con) (hl : i.lic.Perm j.lic) :
    annotateFile c replace skip i text = annotateFile c replace skip j text ∧
    annotateText c replace skip i text = annotateText c replace skip j text :=
  ⟨annotateFile_order c replace skip text ⟨hc, hn, hl⟩, annotateText_order c replace skip text ⟨hc, hn, hl⟩⟩

/-- kept from before the repair; superseded by `C10_annotate_order` -/
theorem C10_annotate_order_merge_partial (c : HdrCfg) (replace skip : Bool) {i j : Extracted} (text : Text)
    (hc : i.cpr.Perm j.cpr) (hn : i.con.Perm j.con) (hl : i.lic.Perm j.lic)
    (_hstable : c.merge = true →
      MergeStable (parseLines Generated.endRe (cprInput i (headerSeen c replace (afterBom text))))) :
    annotateFile c replace skip i text = annotateFile c replace skip j text :=
  (C10_annotate_order c replace skip text hc hn hl).1

/-- **Idempotence across processes.**  Under the hypotheses of `C10_idem_partial2` as they are (stated for one
    list order `info` of the requested sets; with or without `--merge-copyrights`): every sequence of one or more
    runs, *each handing `create_header` its own order of the same sets* (`j`, then `js`), gives what one run with
    `info` gives.  In particular a second run in a process with another hash seed changes nothing. -/
theorem C10_idem_any_order {c : HdrCfg} {info : Extracted} {t a hdr b : Text} (hs : c.style ∈ Generated.styles)
    (he : c.style.isEmptyStyle = false) (hcom : c.commented = false)
    (h1 : firstRunParts c info t = some (a, hdr, b)) (hno : NoExoticBreaks hdr)
    (hb : multiMode c.style c.forceMulti = true ∨ b = [] ∨ ∃ r, b = '\n' :: r)
    (htex : startsWith hdr "% !TEX".toList = false)
    (hinfo : containsReuseInfo c.parses hdr = true)
    (habove : nothingAbove c a (hdr ++ '\n' :: b) = true)
    (hrepro : createHeader c info (hdr ++ ['\n']) = .ok hdr)
    (j : Extracted) (js : List Extracted)
    (hj : PermInfo info j) (hjs : ∀ k ∈ js, PermInfo info k) :
    runsSeq c (j :: js) t = .ok (a ++ hdr ++ ['\n'] ++ b) :=
  runsSeq_fix c (C10_first_run h1)
    (C10_second_run_partial h1 (C10_second_run_ok hs he hcom h1 hno hb htex hinfo habove hrepro))
    j js hj hjs

/-- kept from before the repair (`hst1`, `hst2`: no ties among the lines the merge step receives in the first and
    in the later runs); superseded by `C10_idem_any_order` -/
theorem C10_idem_any_order_merge_partial {c : HdrCfg} {info : Extracted} {t a hdr b : Text}
    (hs : c.style ∈ Generated.styles)
    (he : c.style.isEmptyStyle = false) (hcom : c.commented = false)
    (h1 : firstRunParts c info t = some (a, hdr, b)) (hno : NoExoticBreaks hdr)
    (hb : multiMode c.style c.forceMulti = true ∨ b = [] ∨ ∃ r, b = '\n' :: r)
    (htex : startsWith hdr "% !TEX".toList = false)
    (hinfo : containsReuseInfo c.parses hdr = true)
    (habove : nothingAbove c a (hdr ++ '\n' :: b) = true)
    (hrepro : createHeader c info (hdr ++ ['\n']) = .ok hdr)
    (_hst1 : c.merge = true → MergeStable (parseLines Generated.endRe (cprInput info (replaceSections c t).2.1)))
    (_hst2 : c.merge = true → MergeStable (parseLines Generated.endRe
      (cprInput info (replaceSections c (a ++ hdr ++ ['\n'] ++ b)).2.1)))
    (j : Extracted) (js : List Extracted) (hj : PermInfo info j) (hjs : ∀ k ∈ js, PermInfo info k) :
    runsSeq c (j :: js) t = .ok (a ++ hdr ++ ['\n'] ++ b) :=
  C10_idem_any_order hs he hcom h1 hno hb htex hinfo habove hrepro j js hj hjs

/-- `runsSeq` with one order throughout is `runs` -/
theorem C10_runs_seq_same (c : HdrCfg) (i : Extracted) (n : Nat) (t : Text) :
    runsSeq c (List.replicate n i) t = runs c i n t := runsSeq_replicate c i n t

/-- **Idempotence across processes at the level of the file** (`add_header_to_file`; hypotheses of
    `C10_idem_text_partial2` as they are): the first run with order `j` and the second run with order `k` of the
    same sets write the same characters, for the LF file and for its CRLF form. -/
theorem C10_idem_text_any_order {c : HdrCfg} {info : Extracted} {t a hdr b : Text} (hs : c.style ∈ Generated.styles)
    (he : c.style.isEmptyStyle = false) (hcom : c.commented = false)
    (h1 : firstRunParts c info t = some (a, hdr, b)) (hno : NoExoticBreaks hdr)
    (hb : multiMode c.style c.forceMulti = true ∨ b = [] ∨ ∃ r, b = '\n' :: r)
    (htex : startsWith hdr "% !TEX".toList = false)
    (hinfo : containsReuseInfo c.parses hdr = true)
    (habove : nothingAbove c a (hdr ++ '\n' :: b) = true)
    (hrepro : createHeader c info (hdr ++ ['\n']) = .ok hdr)
    (hcr : NoCR t) (hcr' : NoCR (a ++ hdr ++ ['\n'] ++ b))
    {j k : Extracted} (hj : PermInfo info j) (hk : PermInfo info k) :
    (annotateText c true false j t = .written (a ++ hdr ++ ['\n'] ++ b) ∧
     annotateText c true false k (a ++ hdr ++ ['\n'] ++ b) = .written (a ++ hdr ++ ['\n'] ++ b)) ∧
    ('\n' ∈ t →
      annotateText c true false j (toCRLF t) = .written (toCRLF (a ++ hdr ++ ['\n'] ++ b)) ∧
      annotateText c true false k (toCRLF (a ++ hdr ++ ['\n'] ++ b)) = .written (toCRLF (a ++ hdr ++ ['\n'] ++ b))) := by
  have base := C10_idem_text_partial2 hs he hcom h1 hno hb htex hinfo habove hrepro hcr hcr'
  have ej : ∀ u, annotateText c true false j u = annotateText c true false info u := fun u =>
    (annotateText_order c true false u hj).symm
  have ek : ∀ u, annotateText c true false k u = annotateText c true false info u := fun u =>
    (annotateText_order c true false u hk).symm
  simp only [ej, ek]
  exact base

/-! non-vacuity: two orders of one request with two lines per section -/

def orderA : Extracted :=
  ⟨["MIT".toList, "Apache-2.0".toList],
   ["SPDX-FileCopyrightText: 2019 Jane Doe".toList, "SPDX-FileCopyrightText: 2020 Acme Ltd.".toList],
   ["Ann".toList, "Bob".toList]⟩
def orderB : Extracted :=
  ⟨["Apache-2.0".toList, "MIT".toList],
   ["SPDX-FileCopyrightText: 2020 Acme Ltd.".toList, "SPDX-FileCopyrightText: 2019 Jane Doe".toList],
   ["Bob".toList, "Ann".toList]⟩

example : PermInfo orderA orderB ∧ orderA ≠ orderB := ⟨⟨by decide, by decide, by decide⟩, by decide⟩
example : orderA.cpr.Nodup ∧ orderA.con.Nodup ∧ orderA.lic.Nodup ∧ ∀ x, x ∈ orderA.lic ↔ x ∈ orderB.lic := by
  refine ⟨by decide, by decide, by decide, fun x => ?_⟩
  simp [orderA, orderB, or_comm]
example : sortTexts orderA.lic = ["Apache-2.0".toList, "MIT".toList] ∧ sortTexts orderB.lic = sortTexts orderA.lic ∧
    sortTexts orderA.cpr = sortTexts orderB.cpr ∧ sortTexts orderA.con = ["Ann".toList, "Bob".toList] := by decide
/-- upper case before lower case, ASCII before the rest: code point order, not alphabetical order -/
example : sortTexts ["b".toList, "B".toList, "©".toList, "a".toList, "".toList] =
    ["".toList, "B".toList, "a".toList, "b".toList, "©".toList] := by decide
/-- `MergeStable` is satisfiable with several lines, prefixes and years of one holder (two lines with `©`, one
    with `Copyright`: `©` is strictly most frequent) — and `C10_merge_stable_of` applies to it -/
example : MergeStable [("X".toList, ["2019".toList], "©".toList), ("X".toList, ["2021".toList, "2016".toList], "©".toList),
    ("X".toList, [], "Copyright".toList), ("Y".toList, ["2020".toList], "Copyright".toList)] := by decide
example : mergeParsed [("X".toList, ["2019".toList], "©".toList), ("X".toList, ["2021".toList, "2016".toList], "©".toList),
    ("X".toList, [], "Copyright".toList), ("Y".toList, ["2020".toList], "Copyright".toList)] =
    ["© 2016 - 2021 X".toList, "Copyright 2020 Y".toList] := by decide
/-- a tie between two prefixes outside the table does not matter (both are written as the `spdx` text) -/
example : TieFree ["Copyright  (C)".toList, "Copyright  ©".toList] := by decide
example : afterBom (bomChar :: "x".toList) = "x".toList ∧ afterBom "x".toList = "x".toList := by decide

/-! ### non-vacuity

(`secondRunOK` holds on most cases of stream `theorem` — counted as the stream's non-trivial cases on every run; it
calls the regular-expression reader, which the kernel cannot evaluate, so no closed example is stated here.) -/

example : ∃ s ∈ Generated.styles, s.name = "JuliaCommentStyle" ∧ s.singleRe = none ∧ supported s true = true := by decide
example : aboveOf "#!/bin/sh \n".toList = "#!/bin/sh\n\n".toList ∧ belowOf "x\n".toList false = "\nx\n".toList := by decide
example : placeHeader "# h".toList (aboveOf "#!/bin/sh \n".toList) (belowOf "x\n".toList false) true =
    "#!/bin/sh\n\n# h\n\nx\n".toList := by decide
/-- the style predicate excludes something: a Julia-like style whose reader tries the single-line marker on the
    opener line is the defect this property found; here, a style whose middle marker is its terminator is refused
    (every body line would end the block).  A terminator that equals the opener is fine: on the first line the
    reader sets the opener aside. -/
example : ¬ StyleIdem (⟨"X", "x", [], none, [], "/*".toList, "*/".toList, "*/".toList, [], [], [], []⟩ : Generated.Style) true := by
  decide +kernel
example : StyleIdem (⟨"X", "x", [], none, [], "%%".toList, [], "%%".toList, [], [], [], []⟩ : Generated.Style) true := by
  decide +kernel

end C10
