/-
Property C17 — convert-dep5 produces an equivalent REUSE.toml.
`…_partial`: the glob theorem carries `dep5Plain` (no `?` wildcard, no asterisk
run directly followed by `/`); both excluded shapes are genuine differences
between the two glob languages and are listed in known_findings.json with a
replayed witness each.  The full statement (for every valid dep5 glob) is false.
-/
import ReuseVerif.Lemmas.Dep5

namespace C17
open Py Py.Re Spec Model

/-- For every plain dep5 glob and every path, python-debian's matcher and the
    REUSE.toml matcher of the converted glob agree. -/
theorem C17_glob_partial (d p : Text) (h : dep5Plain d = true) :
    dep5Match d p = globMatch (convertGlob d) p := by
  obtain ⟨bs, hbs, hiff⟩ := dep5_equiv d h
  unfold dep5Match globMatch
  rw [hbs]
  rw [Bool.eq_iff_iff, fullMatch_iff, fullMatch_iff]
  exact hiff p

/-- A paragraph with several globs matches on one side iff it does on the other. -/
theorem C17_paragraph (gs : List Text) (p : Text) (h : ∀ g ∈ gs, dep5Plain g = true) :
    gs.any (dep5Match · p) = itemMatches (gs.map convertGlob) p := by
  unfold itemMatches
  induction gs with
  | nil => rfl
  | cons g gs ih =>
    simp only [List.any_cons, List.map_cons]
    rw [C17_glob_partial g p (h g (by simp)), ih (fun g' hg' => h g' (by simp [hg']))]

/-- Whole files: the last matching paragraph wins before the conversion, the last
    matching table wins after it, and they carry the same information — for any
    number of paragraphs and any path. -/
theorem C17_last_wins {α} (ps : List (Para α)) (p : Text)
    (h : ∀ q ∈ ps, ∀ g ∈ q.globs, dep5Plain g = true) :
    dep5Find ps p = tomlFind (convertParas ps) p := by
  unfold dep5Find tomlFind convertParas
  rw [← List.map_reverse]
  have h' : ∀ q ∈ ps.reverse, ∀ g ∈ q.globs, dep5Plain g = true :=
    fun q hq => h q (List.mem_reverse.mp hq)
  generalize ps.reverse = l at h'
  induction l with
  | nil => rfl
  | cons q l ih =>
    simp only [List.map_cons, List.find?_cons]
    rw [C17_paragraph q.globs p (h' q (by simp))]
    cases itemMatches (q.globs.map convertGlob) p
    · exact ih (fun q' hq' => h' q' (by simp [hq']))
    · rfl

/-- The dep5 file is removed only after REUSE.toml has been written: in every
    intermediate state of the command, if `.reuse/dep5` is gone then `REUSE.toml`
    exists. -/
theorem C17_order (render : Text → Text) (fs : ConvFs) (steps : List ConvStep) (d : Text)
    (hd : fs.dep5 = some d) (h : convertCmd render fs = .ok steps) (k : Nat) :
    ((steps.take k).foldl applyStep fs).dep5 = none →
      ((steps.take k).foldl applyStep fs).toml.isSome = true := by
  unfold convertCmd at h
  rw [hd] at h
  cases h
  match k with
  | 0 => simp [hd]
  | 1 => simp [applyStep, hd]
  | k + 2 => simp [applyStep]

/-- Without a dep5 file the command refuses and performs no step. -/
theorem C17_refuse (render : Text → Text) (fs : ConvFs) (h : fs.dep5 = none) :
    convertCmd render fs = .error () := by
  unfold convertCmd; rw [h]

/-- With a dep5 file, the final state has REUSE.toml (the rendering) and no dep5. -/
theorem C17_final (render : Text → Text) (fs : ConvFs) (d : Text) (hd : fs.dep5 = some d) :
    ∃ steps, convertCmd render fs = .ok steps ∧
      steps.foldl applyStep fs = { dep5 := none, toml := some (render d) } := by
  refine ⟨[.writeToml (render d), .unlinkDep5], ?_, ?_⟩
  · unfold convertCmd; rw [hd]
  · simp [applyStep]

-- Non-vacuity.
example : dep5Plain "src/*.c".toList = true := by
  rw [show "src/*.c".toList = ['s', 'r', 'c', '/', '*', '.', 'c'] from rfl]
  simp [dep5Plain, isStar]
example : dep5Plain "a?".toList = false := by
  rw [show "a?".toList = ['a', '?'] from rfl]
  simp [dep5Plain]

end C17
