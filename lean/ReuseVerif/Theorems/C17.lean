/-
Property C17 — convert-dep5 produces an equivalent REUSE.toml.
`…_partial`: the glob theorem carries `dep5Plain` (no `?` wildcard, no asterisk
run directly followed by `/`); both excluded shapes are genuine differences
between the two glob languages and are listed in known_findings.json with a
replayed witness each.  The full statement (for every valid dep5 glob) is false.
-/
import ReuseVerif.Lemmas.Dep5
import ReuseVerif.Lemmas.C17Witness

namespace C17
open Py Py.Re Spec Model

/-- For every plain dep5 glob and every path, python-debian's matcher and the
    REUSE.toml matcher of the converted glob agree. -/
theorem C17_glob_partial (d p : Text) (h : dep5Plain d = true) :
    dep5Match d p = globMatch (convertGlob d) p := by
  obtain ⟨bs, hbs, hiff⟩ := dep5_equiv d h
  unfold dep5Match globMatch
  rw [hbs]
  rw [Bool.eq_iff_iff, fullMatch_iff, fullMatch_iff]
  exact hiff p

/-- A paragraph with several globs matches on one side iff it does on the other. -/
theorem C17_paragraph (gs : List Text) (p : Text) (h : ∀ g ∈ gs, dep5Plain g = true) :
    gs.any (dep5Match · p) = itemMatches (gs.map convertGlob) p := by
  unfold itemMatches
  induction gs with
  | nil => rfl
  | cons g gs ih =>
    simp only [List.any_cons, List.map_cons]
    rw [C17_glob_partial g p (h g (by simp)), ih (fun g' hg' => h g' (by simp [hg']))]

/-- Whole files: the last matching paragraph wins before the conversion, the last
    matching table wins after it, and they carry the same information — for any
    number of paragraphs and any path. -/
theorem C17_last_wins {α} (ps : List (Para α)) (p : Text)
    (h : ∀ q ∈ ps, ∀ g ∈ q.globs, dep5Plain g = true) :
    dep5Find ps p = tomlFind (convertParas ps) p := by
  unfold dep5Find tomlFind convertParas
  rw [← List.map_reverse]
  have h' : ∀ q ∈ ps.reverse, ∀ g ∈ q.globs, dep5Plain g = true :=
    fun q hq => h q (List.mem_reverse.mp hq)
  generalize ps.reverse = l at h'
  induction l with
  | nil => rfl
  | cons q l ih =>
    simp only [List.map_cons, List.find?_cons]
    rw [C17_paragraph q.globs p (h' q (by simp))]
    cases itemMatches (q.globs.map convertGlob) p
    · exact ih (fun q' hq' => h' q' (by simp [hq']))
    · rfl

/-- The dep5 file is removed only after REUSE.toml has been written: in every
    intermediate state of the command, if `.reuse/dep5` is gone then `REUSE.toml`
    exists. -/
theorem C17_order (render : Text → Text) (fs : ConvFs) (steps : List ConvStep) (d : Text)
    (hd : fs.dep5 = some d) (h : convertCmd render fs = .ok steps) (k : Nat) :
    ((steps.take k).foldl applyStep fs).dep5 = none →
      ((steps.take k).foldl applyStep fs).toml.isSome = true := by
  unfold convertCmd at h
  rw [hd] at h
  cases h
  match k with
  | 0 => simp [hd]
  | 1 => simp [applyStep, hd]
  | k + 2 => simp [applyStep]

/-- Without a dep5 file the command refuses and performs no step. -/
theorem C17_refuse (render : Text → Text) (fs : ConvFs) (h : fs.dep5 = none) :
    convertCmd render fs = .error () := by
  unfold convertCmd; rw [h]

/-- With a dep5 file, the final state has REUSE.toml (the rendering) and no dep5. -/
theorem C17_final (render : Text → Text) (fs : ConvFs) (d : Text) (hd : fs.dep5 = some d) :
    ∃ steps, convertCmd render fs = .ok steps ∧
      steps.foldl applyStep fs = { dep5 := none, toml := some (render d) } := by
  refine ⟨[.writeToml (render d), .unlinkDep5], ?_, ?_⟩
  · unfold convertCmd; rw [hd]
  · simp [applyStep]

/-! ### The two exclusions of `dep5Plain` are necessary -/

/-- **Every valid dep5 glob with a `?` wildcard has a path on which the two matchers differ.**
    The path `dep5Witness d` (each `*` read as nothing, each `?` as `x`, every other character as
    itself) is matched by python-debian's expression of `d`; the converted glob keeps the `?`, which
    REUSE.toml reads literally, so every path it matches contains at least one `?` more than the
    witness does (`glob_reqQ_le`, `reqQ_convert`, `witness_count_q`). -/
theorem C17_question_always_differs (d : Text) (hv : (dep5Blocks d).isSome = true) (hq : hasQ d = true) :
    dep5Match d (dep5Witness d) = true ∧ globMatch (convertGlob d) (dep5Witness d) = false := by
  obtain ⟨bs, hbs⟩ := Option.isSome_iff_exists.mp hv
  constructor
  · unfold dep5Match
    rw [hbs]
    exact (fullMatch_iff _ _).mpr (dep5Witness_matches d bs hbs)
  · rw [Bool.eq_false_iff]
    intro hm
    unfold globMatch at hm
    have h1 := glob_reqQ_le (convertGlob d) _ ((fullMatch_iff _ _).mp hm)
    rw [reqQ_convert] at h1
    have h2 := witness_count_q d
    rw [hq] at h2
    simp only [if_true] at h2
    omega

/-- **Every glob that starts with an asterisk run followed by `/` (and is plain otherwise) has a path
    on which the two matchers differ.**  dep5's `*/r` demands a `/` in front of what `r` matches;
    the converted `**/r` may stand for no directory at all.  The path is the witness of `r`:
    REUSE.toml matches it (`C17_glob_partial` on `r`), python-debian does not, because every path
    it matches has one `/` more than the witness (`dep5_reqSlash_le`, `witness_count_slash`). -/
theorem C17_star_slash_differs (m : Nat) (r : Text) (hr : dep5Plain r = true) :
    dep5Match ('*' :: (List.replicate m '*' ++ '/' :: r)) (dep5Witness r) = false ∧
    globMatch (convertGlob ('*' :: (List.replicate m '*' ++ '/' :: r))) (dep5Witness r) = true := by
  obtain ⟨bs, hbs, hiff⟩ := dep5_equiv r hr
  have hw := dep5Witness_matches r bs hbs
  constructor
  · rw [Bool.eq_false_iff]
    intro hm
    -- the dep5 expression of the whole glob
    have hb : dep5Blocks ('*' :: (List.replicate m '*' ++ '/' :: r)) =
        some (List.replicate (m + 1) (.star anyChar) ++ .chr '/' :: bs) := by
      have h1 := dep5Blocks_stars (m + 1) ('/' :: r)
      rw [List.replicate_succ, List.cons_append] at h1
      rw [h1, dep5Blocks_lit r (by decide) (by decide) (by decide), hbs]
      simp [List.replicate_succ]
    unfold dep5Match at hm
    rw [hb] at hm
    have h1 := dep5_reqSlash_le _ _ hb _ ((fullMatch_iff _ _).mp hm)
    have h2 := witness_count_slash r bs hbs
    have h3 : reqSlash ('*' :: (List.replicate m '*' ++ '/' :: r)) = reqSlash r + 1 := by
      have : ∀ k, reqSlash (List.replicate k '*' ++ '/' :: r) = reqSlash r + 1 := by
        intro k
        induction k with
        | zero => simp [reqSlash_cons r (show ('/' : Char) ≠ '\\' from by decide)]; omega
        | succ k ih => rw [List.replicate_succ, List.cons_append, reqSlash_cons _ (by decide), ih]; simp
      have := this (m + 1)
      rwa [List.replicate_succ, List.cons_append] at this
    omega
  · unfold globMatch
    rw [fullMatch_iff]
    have hstar : ('/' :: r).head? ≠ some '*' := by simp
    rw [convert_star m ('/' :: r) hstar, convert_lit r (by decide) (by decide)]
    have hk : ∃ k, (if m = 0 then 2 else m + 1) = k + 2 := by
      by_cases hm : m = 0
      · exact ⟨0, by simp [hm]⟩
      · exact ⟨m - 1, by simp [hm]; omega⟩
    obtain ⟨k, hk⟩ := hk
    rw [hk, List.replicate_succ, List.cons_append, translate_starDir (k + 1) _ (by omega), matches_seq_cons]
    exact ⟨[], _, rfl, matches_dirsOpt.mpr (.inl rfl), (hiff _).mp hw⟩

/-! ### Paragraph order -/

/-- The converted table list is the paragraph list in the same order: as many tables as
    paragraphs, the `i`-th table carries the payload of the `i`-th paragraph and the converted
    globs of the `i`-th paragraph, in their order. -/
theorem C17_tables_order {α} (ps : List (Para α)) :
    (convertParas ps).length = ps.length ∧
    (convertParas ps).map (·.info) = ps.map (·.info) ∧
    ∀ i : Nat, ((convertParas ps)[i]?).map (fun q : Para α => q.globs) =
      (ps[i]?).map (fun q : Para α => q.globs.map convertGlob) := by
  unfold convertParas
  refine ⟨by simp, by simp [List.map_map, Function.comp_def], ?_⟩
  intro i
  rw [List.getElem?_map]
  cases ps[i]? <;> rfl

/-- Last match wins on both sides, for any number of paragraphs, under a hypothesis on the given
    path only: if every paragraph matches `p` before the conversion exactly when its table does
    after it (true for all paths when the globs are plain — `C17_paragraph` —, and true for many
    paths of non-plain globs), the same payload is selected. -/
theorem C17_last_wins_pathwise {α} (ps : List (Para α)) (p : Text)
    (h : ∀ q ∈ ps, q.globs.any (dep5Match · p) = itemMatches (q.globs.map convertGlob) p) :
    dep5Find ps p = tomlFind (convertParas ps) p := by
  unfold dep5Find tomlFind convertParas
  rw [← List.map_reverse]
  have h' : ∀ q ∈ ps.reverse, q.globs.any (dep5Match · p) = itemMatches (q.globs.map convertGlob) p :=
    fun q hq => h q (List.mem_reverse.mp hq)
  generalize ps.reverse = l at h'
  induction l with
  | nil => rfl
  | cons q l ih =>
    simp only [List.map_cons, List.find?_cons]
    rw [h' q (by simp)]
    cases itemMatches (q.globs.map convertGlob) p
    · exact ih (fun q' hq' => h' q' (by simp [hq']))
    · rfl

-- Non-vacuity.
example : dep5Plain "src/*.c".toList = true := by
  rw [show "src/*.c".toList = ['s', 'r', 'c', '/', '*', '.', 'c'] from rfl]
  simp [dep5Plain, isStar]
example : dep5Plain "a?".toList = false := by
  rw [show "a?".toList = ['a', '?'] from rfl]
  simp [dep5Plain]
example : hasQ "src/?.c".toList = true ∧ dep5Witness "src/?.c".toList = "src/x.c".toList ∧
    hasQ "a\\?".toList = false ∧ dep5Witness "*/doc/*.md".toList = "/doc/.md".toList := by decide

end C17
