/-
Property C16 — malformed input yields a diagnostic and a defined exit status,
never a crash.

All theorems are about the model with the repairs (`g = true`), which is what
the driver executes; the `…_witness` theorems show on the model without them
(`g = false`) that the crash outcome is real.  `…_partial`: loading a project
carries the hypothesis that the files in LICENSES/ resolve to distinct
identifiers; the excluded shape ends in a `RuntimeError` traceback (recorded in
known_findings.json, witness below).  The full statement (for every
configuration, without that hypothesis) is false.
-/
import ReuseVerif.Lemmas.TomlValidate

namespace C16
open Py Model.Toml Model.Toml.TomlVal Spec.Toml

/-! ### REUSE.toml: any value tree -/

/-- Validation of a REUSE.toml document whose keys hold values of any type,
    shape and depth ends in a value or in a parse error that names the file. -/
theorem C16_toml_total (parses : Text → ExprRes) (src : Text) (doc : List (Text × TomlVal)) :
    (∃ t, fromDict true parses src doc = .ok t) ∨
    (∃ k, fromDict true parses src doc = .error (.parse k (some src))) := by
  have h := fromDict_sourced parses src doc
  generalize fromDict true parses src doc = r at h
  cases r with
  | ok t => exact .inl ⟨t, rfl⟩
  | error e =>
    cases e with
    | parse k s =>
      cases s with
      | none => exact absurd h (by simp [Sourced, sourcedErr])
      | some s => simp only [Sourced, sourcedErr] at h; subst h; exact .inr ⟨k, rfl⟩
    | conflict t d => exact absurd h (by simp [Sourced, sourcedErr])
    | os => exact absurd h (by simp [Sourced, sourcedErr])
    | crash c => exact absurd h (by simp [Sourced, sourcedErr])

/-- … in particular never in one of Python's own exceptions. -/
theorem C16_toml_never_crash (parses : Text → ExprRes) (src : Text) (doc : List (Text × TomlVal))
    (c : Crash) : fromDict true parses src doc ≠ .error (.crash c) := by
  rcases C16_toml_total parses src doc with ⟨t, h⟩ | ⟨k, h⟩ <;> rw [h] <;> simp

/-- Whatever the bytes of one REUSE.toml are (unreadable, undecodable, not TOML,
    any document), reading it ends in a value, a parse error naming the file, or
    the OS error of an unreadable file. -/
theorem C16_toml_file (parses : Text → ExprRes) (src : Text) (f : TomlFile) :
    (∃ t, tomlFromFile true parses src f = .ok t) ∨
    (∃ k, tomlFromFile true parses src f = .error (.parse k (some src))) ∨
    (f = .osError ∧ tomlFromFile true parses src f = .error .os) := by
  cases f with
  | osError => exact .inr (.inr ⟨rfl, rfl⟩)
  | undecodable => exact .inr (.inl ⟨.generic, rfl⟩)
  | syntaxError => exact .inr (.inl ⟨.generic, rfl⟩)
  | doc kvs =>
    rcases C16_toml_total parses src kvs with h | h
    · exact .inl h
    · exact .inr (.inl h)

/-- Every way reading a REUSE.toml can fail ends the command with exit status 2,
    and unless the file could not be opened at all the message names it. -/
theorem C16_exit (parses : Text → ExprRes) (src : Text) (f : TomlFile) (e : Err)
    (h : tomlFromFile true parses src f = .error e) :
    clickEnd e = .exit 2 [src] ∨ (f = .osError ∧ clickEnd e = .exit 2 []) := by
  rcases C16_toml_file parses src f with ⟨t, h'⟩ | ⟨k, h'⟩ | ⟨hf, h'⟩
  · rw [h'] at h; cases h
  · rw [h'] at h; cases h; exact .inl rfl
  · rw [h'] at h; cases h; exact .inr ⟨hf, rfl⟩

/-- Every way reading `.reuse/dep5` can fail: the same. -/
theorem C16_exit_dep5 (src : Text) (f : Dep5File) (e : Err) (h : dep5FromFile src f = .error e) :
    clickEnd e = .exit 2 [src] ∨ (f = .osError ∧ clickEnd e = .exit 2 []) := by
  cases f <;> simp [dep5FromFile] at h <;> subst h <;> simp [clickEnd]

/-! ### the project -/

/-- How loading the configuration of a project can end: a project, or one of
    (a) conflict of dep5 and REUSE.toml, (b) the error of one broken REUSE.toml
    of the list, (c) the error of the broken dep5 file.  With distinct licence
    identifiers nothing else — in particular no exception of Python's own. -/
theorem C16_project_cases_partial (parses : Text → ExprRes) (c : Config)
    (hd : distinct c.licenseIds = true) :
    (∃ l, loadProject true parses c = .ok l ∧
        (∀ sf ∈ c.tomls, ∃ t, tomlFromFile true parses sf.1 sf.2 = .ok t) ∧
        (∀ d f, c.dep5 = some (d, f) → f = .good ∧ c.tomls = [])) ∨
    (∃ d f t x rest, c.dep5 = some (d, f) ∧ c.tomls = (t, x) :: rest ∧
        loadProject true parses c = .error (.conflict t d)) ∨
    (c.dep5 = none ∧ ∃ sf ∈ c.tomls, ∃ e, tomlFromFile true parses sf.1 sf.2 = .error e ∧
        loadProject true parses c = .error e) ∨
    (c.tomls = [] ∧ ∃ d f e, c.dep5 = some (d, f) ∧ dep5FromFile d f = .error e ∧
        loadProject true parses c = .error e) := by
  obtain ⟨dep5, tomls, ids⟩ := c
  simp only at hd
  cases dep5 with
  | some df =>
    obtain ⟨d, f⟩ := df
    cases tomls with
    | cons tx rest =>
      obtain ⟨t, x⟩ := tx
      right; left
      exact ⟨d, f, t, x, rest, rfl, rfl, rfl⟩
    | nil =>
      cases hf : dep5FromFile d f with
      | error e =>
        right; right; right
        refine ⟨rfl, d, f, e, rfl, hf, ?_⟩
        simp [loadProject, hf, bind, Except.bind]
      | ok u =>
        left
        refine ⟨.dep5, ?_, by simp, ?_⟩
        · simp [loadProject, hf, hd, bind, Except.bind, pure, Except.pure]
        · intro d' f' h
          cases h
          refine ⟨?_, rfl⟩
          cases f <;> simp [dep5FromFile] at hf ⊢
  | none =>
    cases tomls with
    | nil =>
      left
      exact ⟨.none, by simp [loadProject, hd, bind, Except.bind, pure, Except.pure], by simp, by simp⟩
    | cons tx rest =>
      rcases mapM_files parses (tx :: rest) with ⟨rs, hrs, hall⟩ | ⟨sf, hmem, e, he, hm⟩
      · left
        refine ⟨.tomls rs, ?_, hall, by simp⟩
        simp only [loadProject, hrs, hd]
        rfl
      · right; right; left
        refine ⟨rfl, sf, hmem, e, he, ?_⟩
        simp only [loadProject, hm]
        rfl

/-- Loading a project never ends in an unanticipated exception … -/
theorem C16_project_total_partial (parses : Text → ExprRes) (c : Config)
    (hd : distinct c.licenseIds = true) (cr : Crash) :
    loadProject true parses c ≠ .error (.crash cr) := by
  rcases C16_project_cases_partial parses c hd with
    ⟨l, h, _⟩ | ⟨d, f, t, x, rest, _, _, h⟩ | ⟨_, sf, _, e, he, h⟩ | ⟨_, d, f, e, _, he, h⟩
  · rw [h]; simp
  · rw [h]; simp
  · rw [h]
    rcases C16_toml_file parses sf.1 sf.2 with ⟨t, h'⟩ | ⟨k, h'⟩ | ⟨_, h'⟩ <;>
      rw [h'] at he <;> cases he <;> simp
  · rw [h]
    cases f <;> simp [dep5FromFile] at he <;> subst he <;> simp

/-- … and every failure is a usage error: exit status 2, the message naming only
    configuration files of the project, and — when a file was broken rather
    than unreadable or in conflict — exactly the broken file. -/
theorem C16_project_end_partial (parses : Text → ExprRes) (c : Config)
    (hd : distinct c.licenseIds = true) (e : Err) (h : loadProject true parses c = .error e) :
    ∃ names, clickEnd e = .exit 2 names ∧
      ∀ n ∈ names, (∃ f, (n, f) ∈ c.tomls) ∨ (∃ f, c.dep5 = some (n, f)) := by
  rcases C16_project_cases_partial parses c hd with
    ⟨l, h', _⟩ | ⟨d, f, t, x, rest, hd5, hts, h'⟩ | ⟨_, sf, hmem, e', he, h'⟩ | ⟨_, d, f, e', hd5, he, h'⟩
  · rw [h'] at h; cases h
  · rw [h'] at h; cases h
    refine ⟨[t, d], rfl, ?_⟩
    intro n hn
    simp only [List.mem_cons, List.not_mem_nil, or_false] at hn
    rcases hn with rfl | rfl
    · left; exact ⟨x, by rw [hts]; simp⟩
    · right; exact ⟨f, hd5⟩
  · rw [h'] at h; cases h
    rcases C16_exit parses sf.1 sf.2 e he with hx | ⟨_, hx⟩
    · refine ⟨[sf.1], hx, ?_⟩
      intro n hn
      simp only [List.mem_cons, List.not_mem_nil, or_false] at hn
      subst hn
      left; exact ⟨sf.2, hmem⟩
    · exact ⟨[], hx, by simp⟩
  · rw [h'] at h; cases h
    rcases C16_exit_dep5 d f e he with hx | ⟨_, hx⟩
    · refine ⟨[d], hx, ?_⟩
      intro n hn
      simp only [List.mem_cons, List.not_mem_nil, or_false] at hn
      subst hn
      right; exact ⟨f, hd5⟩
    · exact ⟨[], hx, by simp⟩

/-- A project that loads has no broken configuration file: a broken file is
    never silently ignored. -/
theorem C16_loaded_all_valid_partial (parses : Text → ExprRes) (c : Config)
    (hd : distinct c.licenseIds = true) (l : Licensing) (h : loadProject true parses c = .ok l) :
    (∀ sf ∈ c.tomls, ∃ t, tomlFromFile true parses sf.1 sf.2 = .ok t) ∧
    (∀ d f, c.dep5 = some (d, f) → f = .good) := by
  rcases C16_project_cases_partial parses c hd with
    ⟨l', _, h1, h2⟩ | ⟨d, f, t, x, rest, _, _, h'⟩ | ⟨_, sf, _, e, _, h'⟩ | ⟨_, d, f, e, _, _, h'⟩
  · exact ⟨h1, fun d f hdf => (h2 d f hdf).1⟩
  · rw [h'] at h; cases h
  · rw [h'] at h; cases h
  · rw [h'] at h; cases h

/-- `.reuse/dep5` next to any REUSE.toml is a configuration error: exit status 2
    and a message naming both, whatever the two files contain and whatever else
    is in the project. -/
theorem C16_conflict (g : Bool) (parses : Text → ExprRes) (c : Config) (d t : Text) (f : Dep5File)
    (x : TomlFile) (rest : List (Text × TomlFile))
    (h5 : c.dep5 = some (d, f)) (ht : c.tomls = (t, x) :: rest) :
    loadProject g parses c = .error (.conflict t d) ∧ clickEnd (.conflict t d) = .exit 2 [t, d] := by
  obtain ⟨dep5, tomls, ids⟩ := c
  simp only at h5 ht
  subst h5 ht
  exact ⟨rfl, rfl⟩

/-! ### covered files: lint, lint-file, spdx -/

/-- For a list of covered files of any length: every file whose examination
    raised any exception is exactly one read error, every other file has exactly
    its own report, in order — an exception never stops the loop and never
    swallows another file. -/
theorem C16_per_file (fs : List (Text × FileRes)) :
    (generate fs).readErrors = fs.filterMap readErrorOf ∧
    (generate fs).reports = fs.filterMap reportOf := by
  unfold generate
  rw [foldl_reportStep]
  simp

/-- The failing file may stand at any position. -/
theorem C16_per_file_any_position (pre post : List (Text × FileRes)) (p : Text) :
    p ∈ (generate (pre ++ (p, .exc) :: post)).readErrors ∧
    (generate (pre ++ (p, .exc) :: post)).reports = (generate (pre ++ post)).reports ∧
    (generate (pre ++ (p, .exc) :: post)).readErrors =
      (generate pre).readErrors ++ p :: (generate post).readErrors := by
  simp only [C16_per_file, List.filterMap_append, List.filterMap_cons, readErrorOf, reportOf]
  simp

/-- A file whose licence expression cannot be parsed is reported as lacking
    information, not as an error, and does not disturb its neighbours. -/
theorem C16_expr_error_lacks_info (pre post : List (Text × FileRes)) (p : Text) :
    (generate (pre ++ (p, .exprError) :: post)).reports =
      (generate pre).reports ++ (p, false, false) :: (generate post).reports ∧
    (generate (pre ++ (p, .exprError) :: post)).readErrors = (generate (pre ++ post)).readErrors := by
  simp only [C16_per_file, List.filterMap_append, List.filterMap_cons, readErrorOf, reportOf]
  simp

/-- lint ends with status 0 or 1, and with 1 whenever there is a read error. -/
theorem C16_lint_end (r : Report) (o : Bool) :
    (lintEnd r o = .exit 0 [] ∨ lintEnd r o = .exit 1 []) ∧
    (r.readErrors ≠ [] → lintEnd r o = .exit 1 []) := by
  unfold lintEnd
  constructor
  · split <;> simp
  · intro h
    cases hr : r.readErrors with
    | nil => exact absurd hr h
    | cons a as => simp

/-! ### annotate -/

/-- Every path given to `annotate` gets its own result, whatever happened to the
    paths before it: a file that vanished or is not UTF-8 is a failed file. -/
theorem C16_annotate_per_file (files : List (Text × AnnInput)) :
    annotateLoop true files = (files.map fun pi => (pi.1, annResult pi.2), none) := by
  induction files with
  | nil => rfl
  | cons pi rest ih =>
    obtain ⟨p, i⟩ := pi
    cases i with
    | vanished => simp [annotateLoop, annotateOne, ih, annResult]
    | undecodable => simp [annotateLoop, annotateOne, ih, annResult]
    | text b => cases b <;> simp [annotateLoop, annotateOne, ih, annResult]

/-- `annotate` ends with status 0 or 1 — 1 exactly when some file failed. -/
theorem C16_annotate_end (files : List (Text × AnnInput)) :
    annotateEnd true files =
      if files.any (fun pi => annResult pi.2 = .failed) then .exit 1 [] else .exit 0 [] := by
  unfold annotateEnd
  rw [C16_annotate_per_file]
  simp only [List.any_map]
  rfl

theorem C16_annotate_unreadable (files : List (Text × AnnInput)) (p : Text) (i : AnnInput)
    (hmem : (p, i) ∈ files) (hi : i = .vanished ∨ i = .undecodable) :
    annotateEnd true files = .exit 1 [] := by
  rw [C16_annotate_end]
  have : files.any (fun pi => decide (annResult pi.2 = .failed)) = true := by
    rw [List.any_eq_true]
    refine ⟨(p, i), hmem, ?_⟩
    rcases hi with rfl | rfl <;> simp [annResult]
  rw [this]
  rfl

/-! ### witnesses: without the repairs the crash outcomes are real -/

private def v1 : Text × TomlVal := ("version".toList, .int 1)

/-- `annotations = 5` -/
theorem C16_witness_annotations_int (parses : Text → ExprRes) (src : Text) :
    fromDict false parses src [v1, ("annotations".toList, .int 5)] = .error (.crash .typeError) := by
  rfl

/-- `annotations = ["x"]` -/
theorem C16_witness_annotations_strings (parses : Text → ExprRes) (src : Text) :
    fromDict false parses src [v1, ("annotations".toList, .array [.str ['x']])]
      = .error (.crash .attributeError) := by
  rfl

/-- `[annotations]` with a key: a table instead of an array of tables -/
theorem C16_witness_annotations_table (parses : Text → ExprRes) (src : Text) :
    fromDict false parses src [v1, ("annotations".toList, .table [("path".toList, .str ['a'])])]
      = .error (.crash .attributeError) := by
  rfl

/-- `path = [["a"]]` -/
theorem C16_witness_nested_path (parses : Text → ExprRes) (src : Text) :
    fromDict false parses src
      [v1, ("annotations".toList, .array [.table [("path".toList, .array [.array [.str ['a']]])]])]
      = .error (.crash .typeError) := by
  rfl

/-- a Latin-1 file given to `annotate` -/
theorem C16_witness_annotate_undecodable (p q : Text) :
    annotateEnd false [(p, .undecodable), (q, .text true)] = .traceback .unicodeDecodeError := by
  rfl

/-- Two files in LICENSES/ resolving to one identifier: the hypothesis of the
    `…_partial` theorems cannot be dropped. -/
theorem C16_duplicate_license_witness (parses : Text → ExprRes) :
    loadProject true parses ⟨none, [], ["MIT".toList, "MIT".toList]⟩ = .error (.crash .runtimeError) := by
  rfl

-- Non-vacuity of the hypothesis.
example : distinct ["MIT".toList, "0BSD".toList] = true := by decide
example : distinct ["MIT".toList, "MIT".toList] = false := by decide

end C16
