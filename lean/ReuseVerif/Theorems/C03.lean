/-
Property C03 — exactly the covered files are examined.
`Model.iterFiles` mirrors the pruned `os.walk` of `iter_files` with
`is_path_ignored`; the version control system is an oracle; the name rules are
the patterns generated from the source.
-/
import ReuseVerif.Lemmas.Covered
import ReuseVerif.Lemmas.NamesMain

namespace C03
open Model Spec

/-- For every tree (any depth and width), every VCS oracle and every flag
    combination: the walk yields exactly the covered files — no covered file is
    skipped, no excluded file is yielded. -/
theorem C03_walk (cfg : WalkCfg) (rootName : String) (cs : List (String × Node)) (p : List String) :
    p ∈ iterFiles cfg rootName cs ↔ CoveredIn cfg [] rootName cs p := by
  unfold iterFiles
  rw [mem_walkList]
  constructor
  · rintro ⟨rel, rfl, h⟩; simpa using h
  · intro h; exact ⟨p, by simp, h⟩

/-- Nothing below an excluded directory is ever yielded (the directory is pruned). -/
theorem C03_pruned (cfg : WalkCfg) (rootName name : String) (sub : List (String × Node))
    (rel : List String) (h : dirIgnored cfg [] rootName name = true) :
    (name :: rel) ∉ iterFiles cfg rootName [(name, .dir sub)] := by
  rw [C03_walk]
  intro hc
  cases hc with
  | file hm _ => simp at hm
  | dir hm hd _ => simp at hm; obtain ⟨_, rfl⟩ := hm; simp [h] at hd

/-- Symlinks are never followed and never yielded. -/
theorem C03_symlink (cfg : WalkCfg) (rootName name : String) (rel : List String) :
    (name :: rel) ∉ iterFiles cfg rootName [(name, .symlink)] := by
  rw [C03_walk]
  intro hc
  cases hc with
  | file hm _ => simp at hm
  | dir hm _ _ => simp at hm

/-- Empty files are never yielded. -/
theorem C03_empty_file (cfg : WalkCfg) (rootName name : String) :
    [name] ∉ iterFiles cfg rootName [(name, .file 0)] := by
  rw [C03_walk]
  intro hc
  cases hc with
  | file hm hf => simp at hm; subst hm; simp [fileIgnored] at hf
  | dir hm _ _ => simp at hm

/-- `subset_files` (lint-file, annotate on named files): restricting the walk to a set of
    files yields the intersection.  The restriction is modelled as an additional ignore
    oracle on files and on directories containing none of them. -/
theorem C03_subset (cfg : WalkCfg) (keep : List String → Bool) (rootName : String)
    (cs : List (String × Node)) (p : List String)
    (hp : p ∈ iterFiles { cfg with vcsIgnored := fun q => cfg.vcsIgnored q || !keep q } rootName cs) :
    p ∈ iterFiles cfg rootName cs := by
  rw [C03_walk] at hp ⊢
  generalize ([] : List String) = path at hp ⊢
  induction hp with
  | file hm hf =>
    refine .file hm ?_
    simp only [fileIgnored, Bool.or_eq_false_iff] at hf ⊢
    exact ⟨⟨hf.1.1, hf.1.2⟩, hf.2.1⟩
  | dir hm hd _ ih =>
    refine .dir hm ?_ ih
    simp only [dirIgnored, Bool.or_eq_false_iff] at hd ⊢
    exact ⟨⟨⟨hd.1.1.1, hd.1.1.2⟩, hd.1.2⟩, hd.2.1⟩

/-- Name rules, for every file name without a newline: the *generated* patterns of
    `_IGNORE_FILE_PATTERNS` exclude exactly the names the property lists — plus the two upstream
    workaround patterns (known finding `c03-workaround-names`; the full statement without the
    second disjunct is false, e.g. for `CAL-1.0.txt`). -/
theorem C03_names_partial (n : Py.Text) (hn : '\n' ∉ n) :
    Generated.ignoreFilePatterns.any (nameMatch · n) = true ↔ SpecFileName n ∨ WorkaroundName n :=
  file_name_rule n hn

/-- Directory names excluded: exactly `.git`, `.hg`, `.sl`, `LICENSES`, `.reuse`. -/
theorem C03_dir_names (n : Py.Text) (hn : '\n' ∉ n) :
    Generated.ignoreDirPatterns.any (nameMatch · n) = true ↔
      n ∈ [".git".toList, ".hg".toList, ".sl".toList, "LICENSES".toList, ".reuse".toList] :=
  dir_name_rule n hn

/-- Meson: exactly the directories whose parent is named `subprojects`. -/
theorem C03_meson_names (n : Py.Text) (hn : '\n' ∉ n) :
    Generated.ignoreMesonParentPatterns.any (nameMatch · n) = true ↔ n = "subprojects".toList :=
  meson_name_rule n hn

-- Non-vacuity of the name theorem's hypothesis and both sides.
example : SpecFileName "LICENSE-MIT".toList :=
  .inl ⟨"LICENSE".toList, by simp [licenceBases], .inr ⟨'-', "MIT".toList, .inl rfl, rfl⟩⟩
example : '\n' ∉ "LICENSE-MIT".toList := by decide

-- Non-vacuity: a concrete tree shape (the name rules are evaluated on concrete names by the
-- correspondence check; here they are the hypotheses).
example (cfg : WalkCfg) (h1 : fileIgnored cfg ["d"] "b.c" 1 = false) (h2 : dirIgnored cfg [] "" "d" = false) :
    ["d", "b.c"] ∈ iterFiles cfg "" [("e", .file 0), ("l", .symlink), ("d", .dir [("b.c", .file 1)])] := by
  rw [C03_walk]
  exact .dir (sub := [("b.c", .file 1)]) (by simp) h2 (.file (size := 1) (List.mem_singleton.mpr rfl) h1)

end C03
