/-
Property C03 — exactly the covered files are examined.
`Model.iterFiles` mirrors the pruned `os.walk` of `iter_files` with
`is_path_ignored`; in `C03_walk` … `C03_subset` the version control system is an oracle; the
name rules are the patterns generated from the source.  The `C03_vcs_*` theorems put the logic
of `src/reuse/vcs.py` (`Model/Vcs.lean`: parsing of the raw command outputs, `is_ignored`,
`is_submodule`, choice of the strategy) in place of the oracle; what stays outside is Git's own
ignore semantics, stated as the contract `Spec.Vcs.ListingContract`.
-/
import ReuseVerif.Lemmas.Covered
import ReuseVerif.Lemmas.NamesMain
import ReuseVerif.Lemmas.Vcs

namespace C03
open Model Spec

/-- For every tree (any depth and width), every VCS oracle and every flag
    combination: the walk yields exactly the covered files — no covered file is
    skipped, no excluded file is yielded. -/
theorem C03_walk (cfg : WalkCfg) (rootName : String) (cs : List (String × Node)) (p : List String) :
    p ∈ iterFiles cfg rootName cs ↔ CoveredIn cfg [] rootName cs p := by
  unfold iterFiles
  rw [mem_walkList]
  constructor
  · rintro ⟨rel, rfl, h⟩; simpa using h
  · intro h; exact ⟨p, by simp, h⟩

/-- Nothing below an excluded directory is ever yielded (the directory is pruned). -/
theorem C03_pruned (cfg : WalkCfg) (rootName name : String) (sub : List (String × Node))
    (rel : List String) (h : dirIgnored cfg [] rootName name = true) :
    (name :: rel) ∉ iterFiles cfg rootName [(name, .dir sub)] := by
  rw [C03_walk]
  intro hc
  cases hc with
  | file hm _ => simp at hm
  | dir hm hd _ => simp at hm; obtain ⟨_, rfl⟩ := hm; simp [h] at hd

/-- Symlinks are never followed and never yielded. -/
theorem C03_symlink (cfg : WalkCfg) (rootName name : String) (rel : List String) :
    (name :: rel) ∉ iterFiles cfg rootName [(name, .symlink)] := by
  rw [C03_walk]
  intro hc
  cases hc with
  | file hm _ => simp at hm
  | dir hm _ _ => simp at hm

/-- Empty files are never yielded. -/
theorem C03_empty_file (cfg : WalkCfg) (rootName name : String) :
    [name] ∉ iterFiles cfg rootName [(name, .file 0)] := by
  rw [C03_walk]
  intro hc
  cases hc with
  | file hm hf => simp at hm; subst hm; simp [fileIgnored] at hf
  | dir hm _ _ => simp at hm

/-- `subset_files` (lint-file, annotate on named files): restricting the walk to a set of
    files yields the intersection.  The restriction is modelled as an additional ignore
    oracle on files and on directories containing none of them. -/
theorem C03_subset (cfg : WalkCfg) (keep : List String → Bool) (rootName : String)
    (cs : List (String × Node)) (p : List String)
    (hp : p ∈ iterFiles { cfg with vcsIgnored := fun q => cfg.vcsIgnored q || !keep q } rootName cs) :
    p ∈ iterFiles cfg rootName cs := by
  rw [C03_walk] at hp ⊢
  generalize ([] : List String) = path at hp ⊢
  induction hp with
  | file hm hf =>
    refine .file hm ?_
    simp only [fileIgnored, Bool.or_eq_false_iff] at hf ⊢
    exact ⟨⟨hf.1.1, hf.1.2⟩, hf.2.1⟩
  | dir hm hd _ ih =>
    refine .dir hm ?_ ih
    simp only [dirIgnored, Bool.or_eq_false_iff] at hd ⊢
    exact ⟨⟨⟨hd.1.1.1, hd.1.1.2⟩, hd.1.2⟩, hd.2.1⟩

/-- Name rules, for every file name without a newline: the *generated* patterns of
    `_IGNORE_FILE_PATTERNS` exclude exactly the names the property lists — plus the two upstream
    workaround patterns (known finding `c03-workaround-names`; the full statement without the
    second disjunct is false, e.g. for `CAL-1.0.txt`). -/
theorem C03_names_partial (n : Py.Text) (hn : '\n' ∉ n) :
    Generated.ignoreFilePatterns.any (nameMatch · n) = true ↔ SpecFileName n ∨ WorkaroundName n :=
  file_name_rule n hn

/-- Directory names excluded: exactly `.git`, `.hg`, `.sl`, `LICENSES`, `.reuse`. -/
theorem C03_dir_names (n : Py.Text) (hn : '\n' ∉ n) :
    Generated.ignoreDirPatterns.any (nameMatch · n) = true ↔
      n ∈ [".git".toList, ".hg".toList, ".sl".toList, "LICENSES".toList, ".reuse".toList] :=
  dir_name_rule n hn

/-- Meson: exactly the directories whose parent is named `subprojects`. -/
theorem C03_meson_names (n : Py.Text) (hn : '\n' ∉ n) :
    Generated.ignoreMesonParentPatterns.any (nameMatch · n) = true ↔ n = "subprojects".toList :=
  meson_name_rule n hn

-- Non-vacuity of the name theorem's hypothesis and both sides.
example : SpecFileName "LICENSE-MIT".toList :=
  .inl ⟨"LICENSE".toList, by simp [licenceBases], .inr ⟨'-', "MIT".toList, .inl rfl, rfl⟩⟩
example : '\n' ∉ "LICENSE-MIT".toList := by decide

-- Non-vacuity: a concrete tree shape (the name rules are evaluated on concrete names by the
-- correspondence check; here they are the hypotheses).
example (cfg : WalkCfg) (h1 : fileIgnored cfg ["d"] "b.c" 1 = false) (h2 : dirIgnored cfg [] "" "d" = false) :
    ["d", "b.c"] ∈ iterFiles cfg "" [("e", .file 0), ("l", .symlink), ("d", .dir [("b.c", .file 1)])] := by
  rw [C03_walk]
  exact .dir (sub := [("b.c", .file 1)]) (by simp) h2 (.file (size := 1) (List.mem_singleton.mpr rfl) h1)

/-! ### `vcs.py`'s own logic in place of the oracle -/

open Model.Vcs Spec.Vcs

/-- (a) `VCSStrategyGit.is_ignored` (and Mercurial's) on a path the walk asks about — the root
    as it was spelt, followed by names — holds exactly when the root-relative path is an entry
    of the raw listing; for every listing, every spelling of the root, every working directory,
    every depth. -/
theorem C03_vcs_is_ignored (raw : Py.Text) (cwd : List Py.Text) (root : PPath) (comps : List Py.Text) :
    listedIgnored (gitIgnoredSet raw) cwd root (walkPath root comps) = true ↔ Listed raw comps := by
  simp only [listedIgnored, relativeFromRoot_walkPath, gitIgnoredSet, List.contains_iff_mem, List.mem_map, Listed]

/-- (a) What "entry" means for a listing as the programs print it (`-z`: every entry followed
    by NUL; a directory with or without the trailing slash): the path is one of the printed
    paths.  Names of any kind — blanks, line breaks, non-ASCII — except NUL and `/`. -/
theorem C03_vcs_listing_entries (es : List (List Py.Text × Bool))
    (hes : ∀ e ∈ es, e.1 ≠ [] ∧ ∀ x ∈ e.1, IsName x ∧ '\x00' ∉ x) (comps : List Py.Text) (hc : comps ≠ []) :
    Listed (rawListing es) comps ↔ ∃ slash, (comps, slash) ∈ es := by
  unfold Listed
  rw [splitSep_rawListing es (fun e he x hx => ((hes e he).2 x hx).2)]
  constructor
  · rintro ⟨t, ht, hp⟩
    rcases List.mem_append.mp ht with ht | ht
    · obtain ⟨⟨cs, b⟩, he, rfl⟩ := List.mem_map.mp ht
      rw [parsePath_entryText (hes _ he).1 (fun x hx => ((hes _ he).2 x hx).1)] at hp
      simp only [PPath.mk.injEq, true_and] at hp
      exact ⟨b, hp ▸ he⟩
    · simp only [List.mem_singleton] at ht
      rw [ht, parsePath_nil] at hp
      simp only [PPath.mk.injEq, true_and] at hp
      exact absurd hp.symm hc
  · rintro ⟨b, he⟩
    refine ⟨entryText comps b, List.mem_append_left _ (List.mem_map.mpr ⟨(comps, b), he, rfl⟩), ?_⟩
    exact parsePath_entryText (hes _ he).1 (fun x hx => ((hes _ he).2 x hx).1) b

/-- (a) The rule about parent directories is the pruning of the walk: `is_ignored` itself only
    looks the path up, but for every tree the walk yields the same files as it would with the
    verdict "the path or one of its ancestors below the root is listed" (any depth). -/
theorem C03_vcs_walk_ancestors (cfg : WalkCfg) (rootName : String) (cs : List (String × Node)) (p : List String) :
    p ∈ iterFiles cfg rootName cs ↔
      p ∈ iterFiles { cfg with vcsIgnored := listedAboveB cfg.vcsIgnored } rootName cs := by
  rw [C03_walk, C03_walk, coveredIn_iff_covered, coveredIn_iff_covered]
  apply covered_congr
  intro size _
  constructor
  · intro h q hq hne
    simp only [listedAboveB, List.any_eq_false]
    intro r hr
    obtain ⟨hrq, hrne⟩ := mem_prefixes.mp hr
    simpa using h r (hrq.trans hq) hrne
  · intro h q hq hne
    have := h q hq hne
    simp only [listedAboveB, List.any_eq_false] at this
    simpa using this q (mem_prefixes.mpr ⟨List.prefix_refl q, hne⟩)

/-- (b) Under the contract between a listing and Git's verdict (`Spec.Vcs.ListingContract`:
    every file at or below a listed entry is ignored; every ignored file is listed or below a
    listed directory — the half Git's `--directory` output violates in the known finding
    `c03-git-ignored-in-untracked-dir`), the walk driven by the listing yields exactly the
    covered files of C03's specification under Git's verdict.  Composes `C03_walk`. -/
theorem C03_vcs_walk_contract (cfg : WalkCfg) (ign : List String → Bool) (rootName : String)
    (cs : List (String × Node)) (p : List String)
    (hd : DownClosed ign) (hc : ListingContract cfg.vcsIgnored ign cs) :
    p ∈ iterFiles cfg rootName cs ↔ CoveredIn { cfg with vcsIgnored := ign } [] rootName cs p := by
  rw [C03_walk, coveredIn_iff_covered, coveredIn_iff_covered]
  apply covered_congr
  intro size hat
  have hne := at_ne_nil hat
  constructor
  · intro h q hq hqne
    cases hi : ign q with
    | false => rfl
    | true =>
      obtain ⟨r, hr⟩ := hq
      have hp : ign p = true := by rw [← hr]; exact hd q r hi
      obtain ⟨e, he, hene, hl⟩ := hc.complete p size hat hp
      rw [h e he hene] at hl
      cases hl
  · intro h q hq hqne
    cases hl : cfg.vcsIgnored q with
    | false => rfl
    | true =>
      have := hc.sound q p size hl hqne hq hat
      rw [h p (List.prefix_refl p) hne] at this
      cases this

/-- the walk's `vcs_strategy.is_ignored` with Git, as a function of the raw listing alone -/
theorem C03_vcs_cfg_ignored (raw1 raw2 : Py.Text) (st : State) (hst : State.init .git raw1 raw2 = some st)
    (cwd : List Py.Text) (root : PPath) (f1 f2 f3 : Bool) :
    (walkCfg st cwd root f1 f2 f3).vcsIgnored = listedB raw1 := by
  simp only [State.init, Option.map_eq_some_iff] at hst
  obtain ⟨subs, _, rfl⟩ := hst
  funext q
  simp [walkCfg, State.isIgnored, listedIgnored, relativeFromRoot_walkPath, listedB]

/-- (b) The same with the strategy object built from Git's raw outputs: for every listing that
    keeps the contract, every spelling of the root and every working directory, `iter_files`
    with `VCSStrategyGit` yields C03's covered files under `git check-ignore`'s verdict. -/
theorem C03_vcs_git_walk (raw1 raw2 : Py.Text) (st : State) (hst : State.init .git raw1 raw2 = some st)
    (cwd : List Py.Text) (root : PPath) (f1 f2 f3 : Bool) (ign : List String → Bool) (rootName : String)
    (cs : List (String × Node)) (p : List String)
    (hd : DownClosed ign) (hc : ListingContract (listedB raw1) ign cs) :
    p ∈ iterFiles (walkCfg st cwd root f1 f2 f3) rootName cs ↔
      CoveredIn { walkCfg st cwd root f1 f2 f3 with vcsIgnored := ign } [] rootName cs p := by
  apply C03_vcs_walk_contract _ _ _ _ _ hd
  rw [C03_vcs_cfg_ignored raw1 raw2 st hst]
  exact hc

/-- (c) `VCSStrategyGit.is_submodule` on a path of the walk: the root-relative path is one of
    the `.gitmodules` paths — whatever the working directory of the process and however the
    root is spelt (both sides of the comparison are put below the root and resolved, so root
    and working directory cancel).  For paths without `..` (the walk's names never are;
    `.gitmodules` paths are normal, relative); `resolve()` is modelled lexically, i.e. no
    symbolic link among the directories of the project on the way (the walk never enters one). -/
theorem C03_vcs_submodule (subs : List PPath) (cwd : List Py.Text) (root : PPath) (comps : List Py.Text)
    (hcomps : NoDotDot comps) (hsubs : ∀ s ∈ subs, s.anchor = [] ∧ NoDotDot s.parts) :
    gitIsSubmodule subs cwd root (walkPath root comps) = subs.contains ⟨[], comps⟩ := by
  rw [Bool.eq_iff_iff]
  simp only [gitIsSubmodule, relativeFromRoot_walkPath, List.any_eq_true, beq_iff_eq, List.contains_iff_mem]
  constructor
  · rintro ⟨s, hs, he⟩
    obtain ⟨ha, hp⟩ := hsubs s hs
    obtain ⟨a, ps⟩ := s
    simp only at ha hp
    subst ha
    rw [resolveLex_join_eq_iff cwd root hcomps hp] at he
    rw [he]; exact hs
  · intro hm
    exact ⟨_, hm, rfl⟩

/-- (c) … in particular the answer is the same from any two working directories. -/
theorem C03_vcs_submodule_cwd (subs : List PPath) (cwd₁ cwd₂ : List Py.Text) (root₁ root₂ : PPath)
    (comps : List Py.Text) (hcomps : NoDotDot comps) (hsubs : ∀ s ∈ subs, s.anchor = [] ∧ NoDotDot s.parts) :
    gitIsSubmodule subs cwd₁ root₁ (walkPath root₁ comps) = gitIsSubmodule subs cwd₂ root₂ (walkPath root₂ comps) := by
  rw [C03_vcs_submodule subs cwd₁ root₁ comps hcomps hsubs, C03_vcs_submodule subs cwd₂ root₂ comps hcomps hsubs]

/-- Jujutsu: ignored iff no tracked path is the path itself or lies below it. -/
theorem C03_vcs_jujutsu (tracked : List PPath) (cwd : List Py.Text) (root : PPath) (comps : List Py.Text) :
    jjIsIgnored tracked cwd root (walkPath root comps) = true ↔ ∀ t ∈ tracked, ¬ comps <+: t.allParts := by
  simp only [jjIsIgnored, relativeFromRoot_walkPath, PPath.allParts, List.isEmpty_nil, if_true,
    Bool.not_eq_true', List.any_eq_false, beq_iff_eq]
  constructor
  · intro h t ht hp
    exact h t ht (List.prefix_iff_eq_take.mp hp).symm
  · intro h t ht he
    exact h t ht (List.prefix_iff_eq_take.mpr he.symm)

/-- Pijul: ignored iff the path is not a line of `pijul list`. -/
theorem C03_vcs_pijul (tracked : List PPath) (cwd : List Py.Text) (root : PPath) (comps : List Py.Text) :
    pijulIsIgnored tracked cwd root (walkPath root comps) = true ↔ (⟨[], comps⟩ : PPath) ∉ tracked := by
  simp [pijulIsIgnored, relativeFromRoot_walkPath]

/-- (d) The order in which the strategies are tried (regenerated from the live module). -/
theorem C03_vcs_order : Model.Vcs.order = [.none, .git, .hg, .jujutsu, .pijul] := by decide

/-- (d) `VCSStrategyNone` is chosen iff no strategy qualifies (program installed and the root in
    its repository). -/
theorem C03_vcs_detect_none (ord : List Strategy) (exe inRepo : Strategy → Bool) :
    detectIn ord exe inRepo = .none ↔ ∀ s ∈ ord, ¬ Qualifies exe inRepo s := by
  unfold detectIn Qualifies
  constructor
  · intro h s hs ⟨h1, h2, h3⟩
    cases hf : ord.find? (fun s => s != .none && exe s && inRepo s) with
    | none =>
      have := List.find?_eq_none.mp hf s hs
      simp [h1, h2, h3] at this
    | some t =>
      rw [hf] at h
      simp only [Option.getD_some] at h
      have := List.find?_some hf
      simp [h] at this
  · intro h
    cases hf : ord.find? (fun s => s != .none && exe s && inRepo s) with
    | none => rfl
    | some t =>
      have ht := List.find?_some hf
      have hm := List.mem_of_find?_eq_some hf
      simp only [Bool.and_eq_true, bne_iff_ne, ne_eq] at ht
      exact absurd ⟨ht.1.1, ht.1.2, ht.2⟩ (h t hm)

/-- (d) Deterministic priority: the chosen strategy qualifies and nothing tried before it does. -/
theorem C03_vcs_detect_first (ord : List Strategy) (exe inRepo : Strategy → Bool) (s : Strategy)
    (h : detectIn ord exe inRepo = s) (hs : s ≠ .none) :
    Qualifies exe inRepo s ∧ ∃ before after, ord = before ++ s :: after ∧ ∀ t ∈ before, ¬ Qualifies exe inRepo t := by
  unfold detectIn at h
  cases hf : ord.find? (fun s => s != .none && exe s && inRepo s) with
  | none => rw [hf] at h; exact absurd h.symm hs
  | some t =>
    rw [hf] at h
    simp only [Option.getD_some] at h
    subst h
    obtain ⟨ht, before, after, hord, hb⟩ := List.find?_eq_some_iff_append.mp hf
    simp only [Bool.and_eq_true, bne_iff_ne, ne_eq] at ht
    refine ⟨⟨ht.1.1, ht.1.2, ht.2⟩, before, after, hord, ?_⟩
    intro u hu ⟨h1, h2, h3⟩
    have := hb u hu
    simp [h1, h2, h3] at this

-- Non-vacuity of the `C03_vcs_*` hypotheses.
example : IsName "sp ace\n".toList ∧ '\x00' ∉ "sp ace\n".toList := by unfold IsName; decide
example : Listed (rawListing [(["build".toList], true), (["src".toList, "b.o".toList], false)]) ["build".toList] :=
  (C03_vcs_listing_entries _ (by unfold IsName; decide) _ (by decide)).mpr ⟨true, by decide⟩
example : NoDotDot ["mod".toList] := by unfold NoDotDot; decide
example : State.init .git "build/\x00".toList "submodule.m.path\nmod\x00".toList =
    some ⟨.git, [⟨[], ["build".toList]⟩, ⟨[], []⟩], [⟨[], ["mod".toList]⟩]⟩ := by decide
-- a tree, a listing and a verdict that keep the contract: `build/` listed, `build/x` ignored
example : ListingContract (fun q => q == ["build"]) (fun q => q.head? == some "build")
    [("build", .dir [("x", .file 1)]), ("a.c", .file 1)] where
  sound := by
    intro e f size he _ hp _
    simp only [beq_iff_eq] at he
    subst he
    obtain ⟨r, rfl⟩ := hp
    rfl
  complete := by
    intro f size _ hi
    refine ⟨["build"], ?_, by simp, rfl⟩
    cases f with
    | nil => simp at hi
    | cons a t => simp only [List.head?_cons, beq_iff_eq, Option.some.injEq] at hi; exact ⟨t, by simp [hi]⟩
example : DownClosed (fun q => q.head? == some "build") := by
  intro p q h
  cases p with
  | nil => simp at h
  | cons a t => simpa using h
example : Qualifies (fun _ => true) (fun s => s == .git) .git := by unfold Qualifies; decide

end C03
