/-
Property C11 — a failed annotation leaves the tree as it was and shows in the
exit status.

Model: `Model/AnnotateCmd.lean` (the command after the repair that no longer
leaves a `.license` file created for a failed header).  The header builder,
the comment-style table, binary detection and `contains_reuse_info` are
parameters (`Env`), so every statement holds for all of them.  Statements are
for path lists of any length, any position of the failing files and any set of
failing files at once.

Hypotheses (all decidable, `Spec/Effects.lean`):
* `Separate ps` — the paths the loop works on are pairwise different and none is
  another one's `.license` sibling;
* `WfPath p` — a path is not empty and has no trailing slash (what pathlib yields).
-/
import ReuseVerif.Lemmas.Effects
import ReuseVerif.Lemmas.EffectsCmd
import ReuseVerif.Lemmas.AnnotateE2E

namespace C11
open Model.Eff Spec.Eff

/-- Usage errors are detected before any file is touched: exit status 2, tree unchanged. -/
theorem C11_usage_first (env : Env) (a : Args) (fs : Fs) (e : Usage)
    (h : preflight env a fs = .error e) : annotate env a fs = (fs, 2) := by
  simp [annotate, h]

/-- The exit status is 0, 1 or 2, and it is 2 exactly for a usage error. -/
theorem C11_exit_range (env : Env) (a : Args) (fs : Fs) :
    ((annotate env a fs).2 = 0 ∨ (annotate env a fs).2 = 1 ∨ (annotate env a fs).2 = 2) ∧
    ((annotate env a fs).2 = 2 ↔ ∃ e, preflight env a fs = .error e) := by
  unfold annotate
  split
  · rename_i e h; simp [h]
  · rename_i ps h
    simp only
    split <;> simp [h]

/-- When the loop body fails for a path, it leaves the whole tree as it found it (in particular
    a sibling it created is gone again). -/
theorem C11_step_failed_noop (env : Env) (a : Args) (fs : Fs) (p : Path) (h : Fails env a fs p) :
    (step env a fs p).1 = fs :=
  step_fail env a fs p h

/-- A symbolic link at the `.license` position the header has to go to (a dangling one: the
    others never reach the loop) makes the file fail — and by `C11_step_failed_noop` nothing is
    written, in particular not through the link. -/
theorem C11_link_in_the_way_fails (env : Env) (a : Args) (fs : Fs) (p : Path)
    (hs : useSibling env a p = true) (hl : Fs.isLink fs (licSuffix p) = true) : Fails env a fs p := by
  simp [Fails, step, guardedNoLink, hs, hl]

/-- When no symbolic link sits at a `.license` position of `p`, `Fails` is exactly "the file is
    not skipped and the header builder raises for the path that would be written". -/
theorem C11_fails_iff_builder (env : Env) (a : Args) (fs : Fs) (p : Path)
    (hnl : ∀ t ∈ writeSet p, Fs.isLink fs t = false) :
    Fails env a fs p ↔ ∃ t txt e, attempt env a fs p = some (t, txt) ∧ env.build t txt = .error e := by
  have hcreate : ∀ (g : Fs) (t x : Path), Fs.isLink g x = false →
      Fs.isLink (if (g t).isNone = true then Fs.create g t else g) x = false := by
    intro g t x hx
    split
    · by_cases hxt : x = t
      · subst hxt; simp [Fs.isLink, Fs.create]
      · simpa [Fs.isLink, Fs.create, Fs.set_other _ _ hxt] using hx
    · exact hx
  have hw : ∀ (t : Path) (g : Fs), (writeHeader env a t g).2 = true ↔
      ∃ txt e, (if (a.skipExisting && env.hasInfo (Fs.readText g t)) = true then none
        else some (t, Fs.readText g t)) = some (t, txt) ∧ env.build t txt = .error e := by
    intro t g
    unfold writeHeader
    simp only
    split
    · simp
    · cases hb : env.build t (Fs.readText g t) with
      | ok out => simp [hb]
      | error e => simp [hb]
  have hread : ∀ (g : Fs) (t : Path), Fs.readText (if (g t).isNone = true then Fs.create g t else g) t
      = Fs.readText g t := by
    intro g t
    cases hg : g t with
    | none => simp [Fs.readText, Fs.create, hg]
    | some n => simp
  have hg : ∀ (t : Path) (g : Fs), (guarded g t (writeHeader env a t)).2 = true ↔
      ∃ txt e, (if (a.skipExisting && env.hasInfo (Fs.readText g t)) = true then none
        else some (t, Fs.readText g t)) = some (t, txt) ∧ env.build t txt = .error e := by
    intro t g
    simp only [guarded]
    rw [hw, hread]
  have ha : ∀ (t1 : Path) (g : Fs), Fs.isLink g (licSuffix t1) = false → ((addHeader env a t1 g).2 = true ↔
      ∃ t txt e,
        (if ((effStyle env a t1).isNone && a.skipUnrec) = true then none
         else
          if (a.skipExisting && env.hasInfo (Fs.readText g
              (if ((effStyle env a t1).isNone && a.fallbackDot) = true then licSuffix t1 else t1))) = true
          then none
          else some ((if ((effStyle env a t1).isNone && a.fallbackDot) = true then licSuffix t1 else t1),
            Fs.readText g (if ((effStyle env a t1).isNone && a.fallbackDot) = true then licSuffix t1 else t1)))
          = some (t, txt) ∧ env.build t txt = .error e) := by
    intro t1 g hlk
    unfold addHeader
    simp only
    split
    · simp
    · split
      · simp only [guardedNoLink, hlk, Bool.false_eq_true, if_false]
        rw [hg]
        constructor
        · rintro ⟨txt, e, h1, h2⟩; exact ⟨_, txt, e, h1, h2⟩
        · rintro ⟨t, txt, e, h1, h2⟩
          split at h1
          · simp at h1
          · simp only [Option.some.injEq, Prod.mk.injEq] at h1
            obtain ⟨rfl, rfl⟩ := h1
            exact ⟨_, e, by simp [*], h2⟩
      · rw [hw]
        constructor
        · rintro ⟨txt, e, h1, h2⟩; exact ⟨_, txt, e, h1, h2⟩
        · rintro ⟨t, txt, e, h1, h2⟩
          split at h1
          · simp at h1
          · simp only [Option.some.injEq, Prod.mk.injEq] at h1
            obtain ⟨rfl, rfl⟩ := h1
            exact ⟨_, e, by simp [*], h2⟩
  have hnl1 : Fs.isLink fs (licSuffix p) = false := hnl _ (by simp [writeSet])
  have hnl2 : Fs.isLink fs (licSuffix (licSuffix p)) = false := hnl _ (by simp [writeSet])
  unfold Fails step attempt
  split
  · rename_i hs
    simp only [guardedNoLink, hnl1, Bool.false_eq_true, if_false, guarded]
    rw [ha _ _ (hcreate fs _ _ hnl2)]
    have hr : ∀ t, t = licSuffix p ∨ t = licSuffix (licSuffix p) →
        Fs.readText (if (fs (licSuffix p)).isNone = true then Fs.create fs (licSuffix p) else fs) t
          = Fs.readText fs t := by
      intro t ht
      cases hfs : fs (licSuffix p) with
      | some n => simp
      | none =>
        simp only [Option.isNone_none, if_true]
        by_cases htl : t = licSuffix p
        · subst htl; simp [Fs.readText, Fs.create, hfs]
        · simp [Fs.readText, Fs.create, Fs.set_other _ _ htl]
    rw [hr _ (by split <;> simp)]
  · rw [ha _ _ hnl1]

/-- **Failed ⇒ unchanged.**  If the header cannot be produced for `p`, then after the whole
    command `p` and `p.license` are exactly what they were; in particular no sibling was
    created.  Any position of `p`, any other failing files. -/
theorem C11_failed_unchanged (env : Env) (a : Args) (fs : Fs) (ps : List Path) (p : Path)
    (hpre : preflight env a fs = .ok ps) (hsep : Separate ps) (hwf : ∀ q ∈ ps, WfPath q)
    (hp : p ∈ ps) (hfail : Fails env a fs p) :
    (annotate env a fs).1 p = fs p ∧ (annotate env a fs).1 (sibling p) = fs (sibling p) := by
  have hspec := (runSteps_spec env a ps hsep hwf fs).2 p hp
  simp only [annotate, hpre]
  rw [hspec p (by simp [claim]), hspec (sibling p) (by simp [claim]), step_fail env a fs p hfail]
  exact ⟨rfl, rfl⟩

/-- Every path of the invocation ends exactly as if the loop body had been run for it alone on
    the tree the command started from — whatever happened to the other paths. -/
theorem C11_each_alone (env : Env) (a : Args) (fs : Fs) (ps : List Path)
    (hsep : Separate ps) (hwf : ∀ q ∈ ps, WfPath q) (q : Path) (hq : q ∈ ps) (x : Path)
    (hx : x ∈ claim q) : (runSteps env a fs ps).1 x = (step env a fs q).1 x :=
  (runSteps_spec env a ps hsep hwf fs).2 q hq x hx

/-- **The remaining files are still processed.**  Every other path (and its sibling) ends
    exactly as if `p` had not been in the list. -/
theorem C11_others_processed (env : Env) (a : Args) (fs : Fs) (ps : List Path) (p q : Path)
    (hsep : Separate ps) (hwf : ∀ r ∈ ps, WfPath r) (hq : q ∈ ps) (hqp : q ≠ p) (x : Path)
    (hx : x ∈ claim q) :
    (runSteps env a fs ps).1 x = (runSteps env a fs (ps.filter (fun r => r != p))).1 x := by
  have hsub : (ps.filter (fun r => r != p)).Sublist ps := List.filter_sublist
  have hsep' : Separate (ps.filter (fun r => r != p)) := List.Pairwise.sublist hsub hsep
  have hwf' : ∀ r ∈ ps.filter (fun r => r != p), WfPath r := fun r hr => hwf r (hsub.subset hr)
  have hq' : q ∈ ps.filter (fun r => r != p) := by
    simp [List.mem_filter, hq, hqp]
  rw [C11_each_alone env a fs ps hsep hwf q hq x hx,
    C11_each_alone env a fs _ hsep' hwf' q hq' x hx]

/-- Paths outside the named files and their siblings are not touched by the loop. -/
theorem C11_rest_of_tree (env : Env) (a : Args) (fs : Fs) (ps : List Path)
    (hwf : ∀ q ∈ ps, WfPath q) (x : Path) (hx : ∀ q ∈ ps, x ∉ claim q) :
    (runSteps env a fs ps).1 x = fs x :=
  runSteps_frame env a ps x fs (fun q hq hxq => hx q hq (writeSet_sub_claim (hwf q hq) hxq))

/-- **Exit status.**  Without a usage error the status is 1 exactly when the header could not
    be produced for some path, and 0 otherwise. -/
theorem C11_exit (env : Env) (a : Args) (fs : Fs) (ps : List Path)
    (hpre : preflight env a fs = .ok ps) (hsep : Separate ps) (hwf : ∀ q ∈ ps, WfPath q) :
    ((annotate env a fs).2 = 1 ↔ ∃ p ∈ ps, Fails env a fs p) ∧
    ((annotate env a fs).2 = 0 ↔ ∀ p ∈ ps, ¬ Fails env a fs p) := by
  have hflag := (runSteps_spec env a ps hsep hwf fs).1
  simp only [annotate, hpre, hflag, Fails]
  cases hany : ps.any (fun q => (step env a fs q).2)
  · have : ∀ q ∈ ps, (step env a fs q).2 = false := by
      simpa [List.any_eq_false] using hany
    simp only [Bool.false_eq_true, if_false]
    constructor
    · simp only [Nat.zero_ne_one, false_iff, not_exists, not_and]
      intro q hq; simp [this q hq]
    · simp only [true_iff]
      intro q hq; simp [this q hq]
  · have : ∃ q ∈ ps, (step env a fs q).2 = true := by
      simpa [List.any_eq_true] using hany
    simp only [if_true, true_iff, Nat.succ_ne_zero, false_iff]
    refine ⟨this, ?_⟩
    obtain ⟨q, hq, h⟩ := this
    intro hall
    exact hall q hq h

/-- The order in which the loop visits the paths (the iteration order of a Python `set`) is not
    observable: same final tree, same exit flag. -/
theorem C11_order_irrelevant (env : Env) (a : Args) (fs : Fs) (ps ps' : List Path)
    (hperm : ps.Perm ps') (hsep : Separate ps) (hwf : ∀ q ∈ ps, WfPath q) :
    runSteps env a fs ps = runSteps env a fs ps' := by
  have hsep' : Separate ps' := (hperm.pairwise_iff (fun h => sepRel_symm h)).mp hsep
  have hwf' : ∀ q ∈ ps', WfPath q := fun q hq => hwf q (hperm.mem_iff.mpr hq)
  obtain ⟨f1, x1⟩ := runSteps_spec env a ps hsep hwf fs
  obtain ⟨f2, x2⟩ := runSteps_spec env a ps' hsep' hwf' fs
  apply Prod.ext
  · funext x
    by_cases hx : ∃ q ∈ ps, x ∈ claim q
    · obtain ⟨q, hq, hxq⟩ := hx
      rw [x1 q hq x hxq, x2 q (hperm.mem_iff.mp hq) x hxq]
    · have hx' : ∀ q ∈ ps, x ∉ claim q := fun q hq hxq => hx ⟨q, hq, hxq⟩
      rw [C11_rest_of_tree env a fs ps hwf x hx',
        C11_rest_of_tree env a fs ps' hwf' x (fun q hq => hx' q (hperm.mem_iff.mpr hq))]
  · rw [f1, f2, Bool.eq_iff_iff]
    simp only [List.any_eq_true]
    constructor <;> rintro ⟨q, hq, h⟩
    · exact ⟨q, hperm.mem_iff.mp hq, h⟩
    · exact ⟨q, hperm.mem_iff.mpr hq, h⟩

/-! ### non-vacuity: concrete inputs satisfying the hypotheses, with a failing file in the
middle of three, a binary file whose sibling must not be left behind, and a usage error -/

section Examples

def exStyle (p : Path) : Option Style :=
  if ".c".toList.isSuffixOf p then some ⟨false, true, false⟩
  else if ".license".toList.isSuffixOf p then some ⟨false, false, false⟩
  else if ".png".toList.isSuffixOf p then some ⟨false, false, true⟩
  else none

/-- the builder fails for `b.c` and for `d.png.license` -/
def exEnv : Env where
  styleOf := exStyle
  binary := fun p => ".png".toList.isSuffixOf p
  templateExists := fun _ => true
  hasInfo := fun _ => false
  below := fun _ => []
  build := fun p t =>
    if p = "b.c".toList then .error .commentCreate
    else if p = "d.png.license".toList then .error .missingInfo
    else .ok ('H' :: t)

def exArgs (paths : List Path) : Args where
  infoGiven := true
  style := none
  template := none
  years := false
  excludeYear := false
  single := false
  multi := false
  recursive := false
  forceDot := false
  fallbackDot := false
  skipUnrec := false
  skipExisting := false
  paths := paths

def exFs : Fs := Fs.ofList [("a.c".toList, .file "x".toList), ("b.c".toList, .file "y".toList),
  ("c.c".toList, .file "z".toList), ("d.png".toList, .file "binary".toList)]

def usageOf : Except Usage (List Path) → Option Usage
  | .error e => some e
  | .ok _ => none

def exPaths : List Path := ["a.c".toList, "b.c".toList, "d.png".toList, "c.c".toList]

example : Separate exPaths := by decide
example : ∀ q ∈ exPaths, WfPath q := by decide
example : (preflight exEnv (exArgs exPaths) exFs).toOption = some exPaths := by decide
example : Fails exEnv (exArgs exPaths) exFs "b.c".toList := by decide
example : Fails exEnv (exArgs exPaths) exFs "d.png".toList := by decide
example : ¬ Fails exEnv (exArgs exPaths) exFs "c.c".toList := by decide
example : (annotate exEnv (exArgs exPaths) exFs).2 = 1 := by decide
example : (annotate exEnv (exArgs exPaths) exFs).1 "d.png.license".toList = none := by decide
example : (annotate exEnv (exArgs exPaths) exFs).1 "c.c".toList = some (.file "Hz".toList) := by decide
example : usageOf (preflight exEnv { exArgs exPaths with single := true, multi := true } exFs) = some .mutex := by decide
example : usageOf (preflight exEnv (exArgs ["a.c".toList, "nosuch.c".toList]) exFs) = some .noSuchPath := by decide
example : exPaths.Perm ["c.c".toList, "d.png".toList, "b.c".toList, "a.c".toList] := by decide

/-- a binary file whose `.license` position holds a dangling link pointing outside the project -/
def exFsLink : Fs := Fs.ofList [("e.png".toList, .file "binary".toList), ("e.png.license".toList, .link "../out/new.txt".toList)]
example : useSibling exEnv (exArgs ["e.png".toList]) "e.png".toList = true ∧
    Fs.isLink exFsLink (licSuffix "e.png".toList) = true := by decide
example : (preflight exEnv (exArgs ["e.png".toList]) exFsLink).toOption = some ["e.png".toList] := by decide
example : (annotate exEnv (exArgs ["e.png".toList]) exFsLink).2 = 1 := by decide
example : (annotate exEnv (exArgs ["e.png".toList]) exFsLink).1 "../out/new.txt".toList = none := by decide
example : ∀ t ∈ writeSet "a.c".toList, Fs.isLink exFs t = false := by decide

end Examples

/-! ## The composed end-to-end model (`Model/AnnotateE2E.lean`)

`annotateE2E w o fs` is the state machine above run in the environment `envOf w o fs`, whose
every field is the text-level model: the comment style of a path from the generated tables, the
header builder `Model.annotateFile` in the style of the *written* path with the information the
command line asks for, `contains_reuse_info`, the template found below `.reuse/templates/`.  So
each statement above holds for it as an instance — and "the header cannot be produced" is no
longer a parameter: `C11_e2e_fails_iff` says what it is at the text level. -/

section E2E
open Model Model.AE Spec.AE

/-- Click's own refusals (a `--style` / `--copyright-prefix` value outside the choices, a
    `--license` value that is not an SPDX expression) and every usage error of the command come
    before any file is touched: exit status 2, tree unchanged. -/
theorem C11_e2e_usage_first (w : AE.World) (o : Opts) (fs : Fs)
    (h : clickRejects w o = true ∨ ∃ e, preflight (envOf w o fs) (argsOf o) fs = .error e) :
    annotateE2E w o fs = (fs, 2) := by
  unfold annotateE2E
  split
  · rfl
  · rcases h with h | ⟨e, h⟩
    · contradiction
    · exact C11_usage_first _ _ _ e h

/-- …and exit status 2 means exactly that. -/
theorem C11_e2e_exit_two (w : AE.World) (o : Opts) (fs : Fs) :
    (annotateE2E w o fs).2 = 2 ↔
      (clickRejects w o = true ∨ ∃ e, preflight (envOf w o fs) (argsOf o) fs = .error e) := by
  unfold annotateE2E
  split
  · rename_i h; simp [h]
  · rename_i h
    simp only [h, Bool.false_eq_true, false_or]
    exact (C11_exit_range _ _ _).2

/-- past click, the composed model *is* the command-level state machine in the composed environment -/
theorem C11_e2e_run (w : AE.World) (o : Opts) (fs : Fs) (hc : clickRejects w o = false) :
    annotateE2E w o fs = annotate (envOf w o fs) (argsOf o) fs := by
  simp [annotateE2E, hc]

/-- **`Fails`, characterised by the text level.**  For the composed model "the header cannot be
    produced for `p`" is: the loop body does attempt a path `t` (it neither skips the file as
    unrecognised nor because of `--skip-existing`), and for the text found there either the file
    is not UTF-8 text or `create_header` refuses (`HeaderRefused`: `CommentCreateError` — the
    header text holds the terminator of the multi-line style in use, or the old header holds an
    expression that does not parse — or `MissingReuseInfoError`, the read-back guard of
    `_create_new_header`), in the style of `t`, with the template and information of the command line. -/
theorem C11_e2e_fails_iff (w : AE.World) (o : Opts) (fs : Fs) (p : Path)
    (hnl : ∀ t ∈ writeSet p, Fs.isLink fs t = false) :
    Fails (envOf w o fs) (argsOf o) fs p ↔
      ∃ t txt, attempt (envOf w o fs) (argsOf o) fs p = some (t, txt) ∧
        (w.unreadable t = true ∨ HeaderRefused w o fs t txt) := by
  rw [C11_fails_iff_builder _ _ _ _ hnl]
  constructor
  · rintro ⟨t, txt, e, h1, h2⟩
    exact ⟨t, txt, h1, (build_error_iff w o fs t txt).mp ⟨e, h2⟩⟩
  · rintro ⟨t, txt, h1, h2⟩
    obtain ⟨e, he⟩ := (build_error_iff w o fs t txt).mpr h2
    exact ⟨t, txt, e, h1, he⟩

/-- A symbolic link at the `.license` position is the one other way to fail (`C11_link_in_the_way_fails`). -/
theorem C11_e2e_link_fails (w : AE.World) (o : Opts) (fs : Fs) (p : Path)
    (hs : useSibling (envOf w o fs) (argsOf o) p = true) (hl : Fs.isLink fs (licSuffix p) = true) :
    Fails (envOf w o fs) (argsOf o) fs p :=
  C11_link_in_the_way_fails _ _ _ _ hs hl

/-- **Failed ⇒ unchanged, end to end.**  If `create_header` refuses for the path the loop body
    attempts for `p` (or that file is not UTF-8 text), then after the whole command `p` and
    `p.license` are exactly what they were — no sibling is left behind. -/
theorem C11_e2e_failed_unchanged (w : AE.World) (o : Opts) (fs : Fs) (ps : List Path) (p t : Path) (txt : Text)
    (hc : clickRejects w o = false)
    (hpre : preflight (envOf w o fs) (argsOf o) fs = .ok ps) (hsep : Separate ps) (hwf : ∀ q ∈ ps, WfPath q)
    (hp : p ∈ ps) (hnl : ∀ t ∈ writeSet p, Fs.isLink fs t = false)
    (hatt : attempt (envOf w o fs) (argsOf o) fs p = some (t, txt))
    (href : w.unreadable t = true ∨ HeaderRefused w o fs t txt) :
    (annotateE2E w o fs).1 p = fs p ∧ (annotateE2E w o fs).1 (sibling p) = fs (sibling p) := by
  rw [C11_e2e_run w o fs hc]
  exact C11_failed_unchanged _ _ _ ps p hpre hsep hwf hp
    ((C11_e2e_fails_iff w o fs p hnl).mpr ⟨t, txt, hatt, href⟩)

/-- **The others are processed, end to end**: every path of the invocation ends exactly as if the
    loop body had been run for it alone — in closed form: when the body attempts `t` for `q`, the
    final tree holds at `t` what the text-level builder returns for the text found there, or, when
    it refuses, what was there before. -/
theorem C11_e2e_each_alone (w : AE.World) (o : Opts) (fs : Fs) (ps : List Path) (q t : Path) (txt : Text)
    (hc : clickRejects w o = false)
    (hpre : preflight (envOf w o fs) (argsOf o) fs = .ok ps) (hsep : Separate ps) (hwf : ∀ r ∈ ps, WfPath r)
    (hq : q ∈ ps) (hnl : NoLinkAt fs q)
    (hatt : attempt (envOf w o fs) (argsOf o) fs q = some (t, txt)) :
    (annotateE2E w o fs).1 t =
      match build w o (tmplOf w o fs) t txt with
      | .ok out => some (.file out)
      | .error _ => fs t := by
  rw [C11_e2e_run w o fs hc]
  have ht : t ∈ claim q := writeSet_sub_claim (hwf q hq) (attempt_mem_writeSet hatt)
  simp only [annotate, hpre]
  rw [C11_each_alone _ _ fs ps hsep hwf q hq t ht,
    step_eq_of_attempt _ _ fs q t txt (hwf q hq) hnl hatt]
  unfold outcome
  show (match build w o (tmplOf w o fs) t txt with
    | .ok out => (Fs.writeFile fs t out, false)
    | .error _ => (fs, true)).1 t = _
  cases build w o (tmplOf w o fs) t txt <;> simp [Fs.writeFile]

/-- **Exit status, end to end.**  Without a usage error the status is 1 exactly when for some
    path of the invocation `create_header` refuses (or the file is not UTF-8 text), 0 otherwise. -/
theorem C11_e2e_exit (w : AE.World) (o : Opts) (fs : Fs) (ps : List Path)
    (hc : clickRejects w o = false)
    (hpre : preflight (envOf w o fs) (argsOf o) fs = .ok ps) (hsep : Separate ps) (hwf : ∀ q ∈ ps, WfPath q)
    (hnl : ∀ p ∈ ps, ∀ t ∈ writeSet p, Fs.isLink fs t = false) :
    ((annotateE2E w o fs).2 = 1 ↔ ∃ p ∈ ps, ∃ t txt, attempt (envOf w o fs) (argsOf o) fs p = some (t, txt) ∧
        (w.unreadable t = true ∨ HeaderRefused w o fs t txt)) ∧
    ((annotateE2E w o fs).2 = 0 ↔ ∀ p ∈ ps, ∀ t txt, attempt (envOf w o fs) (argsOf o) fs p = some (t, txt) →
        w.unreadable t = false ∧ ¬ HeaderRefused w o fs t txt) := by
  rw [C11_e2e_run w o fs hc]
  obtain ⟨h1, h0⟩ := C11_exit _ _ fs ps hpre hsep hwf
  constructor
  · rw [h1]
    constructor
    · rintro ⟨p, hp, hf⟩; exact ⟨p, hp, (C11_e2e_fails_iff w o fs p (hnl p hp)).mp hf⟩
    · rintro ⟨p, hp, hf⟩; exact ⟨p, hp, (C11_e2e_fails_iff w o fs p (hnl p hp)).mpr hf⟩
  · rw [h0]
    constructor
    · intro h p hp t txt hatt
      have := h p hp
      rw [C11_e2e_fails_iff w o fs p (hnl p hp)] at this
      constructor
      · cases hu : w.unreadable t with
        | false => rfl
        | true => exact (this ⟨t, txt, hatt, .inl hu⟩).elim
      · intro hr; exact this ⟨t, txt, hatt, .inr hr⟩
    · intro h p hp hf
      obtain ⟨t, txt, hatt, hr⟩ := (C11_e2e_fails_iff w o fs p (hnl p hp)).mp hf
      obtain ⟨hu, hnr⟩ := h p hp t txt hatt
      rcases hr with hr | hr
      · rw [hu] at hr; cases hr
      · exact hnr hr

/-- **C15's frame, end to end.**  Whatever is refused or written: a path that is neither a path
    of the invocation (with `--recursive`: a covered file below a named directory) nor the
    `.license` sibling of one is left exactly as it was. -/
theorem C11_e2e_frame (w : AE.World) (ww : Eff.World) (o : Opts) (fs : Fs) (x : Path)
    (hwf : ∀ p ∈ expand (envOf w o fs) (argsOf o) fs, WfPath p)
    (hx : x ∉ allowed (envOf w o fs) ww (.annotate (argsOf o)) fs) :
    (annotateE2E w o fs).1 x = fs x := by
  unfold annotateE2E
  split
  · rfl
  · exact annotate_frame _ _ fs x hwf hx

/-- On a concrete tree `--recursive` expands to the named files and to covered files of the
    walk of C03 (`Model.iterFiles`) — so by `C11_e2e_frame` nothing the walk ignores or excludes
    is touched unless it is named itself. -/
theorem C11_e2e_recursive_covered (w : AE.World) (wc : WalkCfg) (o : Opts) (tree : Tree) (p : Path)
    (hr : o.recursive = true)
    (hp : p ∈ expand (envOf { w with below := belowOf (coveredOf wc tree),
                                      unreadable := fun p => (rawsOf [] tree).contains p } o (fsOf tree))
                     (argsOf o) (fsOf tree)) :
    p ∈ o.paths ∨ p ∈ coveredOf wc tree := by
  unfold expand at hp
  simp only [argsOf, hr, if_true, List.mem_flatMap] at hp
  obtain ⟨d, hd, hpd⟩ := hp
  split at hpd
  · simp only [List.mem_cons, List.not_mem_nil, or_false] at hpd; exact .inl (hpd ▸ hd)
  · split at hpd
    · cases hpd
    · right
      simp only [envOf, belowOf] at hpd
      split at hpd
      · exact hpd
      · exact (List.mem_filter.mp hpd).1

end E2E

section E2EExamples
open Model Model.AE Spec Spec.AE

/-- the style of the table called `n` -/
def styleNamed (n : String) : Generated.Style :=
  (styleByName n).getD ⟨"", "", [], none, [], [], [], [], [], [], [], []⟩

/-! ### non-vacuity for the composed model: `reuse annotate --copyright "Jane */ Doe" --license MIT a.py b.c d.png`
— `b.c` (multi-line style, the holder contains its terminator) is refused, by the text level -/

def e2eWorld : AE.World where
  curYear := "2026".toList
  parses := fun _ => true
  normLic := id
  binary := fun p => ".png".toList.isSuffixOf p
  unreadable := fun _ => false
  below := fun _ => []
  renderOf := fun _ _ => []

def e2eOpts : Opts where
  copyrights := ["Jane */ Doe".toList]
  licenses := ["MIT".toList]
  contributors := []
  years := []
  excludeYear := false
  prefixKey := none
  style := none
  template := none
  mergeCopyrights := false
  single := false
  multi := false
  recursive := false
  noReplace := false
  forceDot := false
  fallbackDot := false
  skipUnrec := false
  skipExisting := false
  paths := ["a.py".toList, "b.c".toList, "d.png".toList]

def e2eFs : Fs := Fs.ofList [("a.py".toList, .file "x = 1\n".toList), ("b.c".toList, .file "int x;\n".toList),
  ("d.png".toList, .file "binary".toList)]

example : clickRejects e2eWorld e2eOpts = false := by decide +kernel
example : (preflight (envOf e2eWorld e2eOpts e2eFs) (argsOf e2eOpts) e2eFs).toOption = some e2eOpts.paths := by decide +kernel
example : Separate e2eOpts.paths ∧ ∀ q ∈ e2eOpts.paths, WfPath q := by decide
example : ∀ t ∈ writeSet "b.c".toList, Fs.isLink e2eFs t = false := by decide +kernel
example : (requested e2eWorld e2eOpts).cpr = ["SPDX-FileCopyrightText: 2026 Jane */ Doe".toList] := by decide +kernel
example : attempt (envOf e2eWorld e2eOpts e2eFs) (argsOf e2eOpts) e2eFs "b.c".toList = some ("b.c".toList, "int x;\n".toList) := by
  decide +kernel
example : attempt (envOf e2eWorld e2eOpts e2eFs) (argsOf e2eOpts) e2eFs "d.png".toList = some ("d.png.license".toList, []) := by
  decide +kernel
/-- `create_header` refuses for `b.c`: `CommentCreateError` -/
theorem e2e_example_refused : HeaderRefused e2eWorld e2eOpts e2eFs "b.c".toList "int x;\n".toList := by
  have hname : commentStyleName "b.c".toList = some "CCommentStyle" := by decide +kernel
  have hsome : (styleByName "CCommentStyle").isSome = true := by decide +kernel
  obtain ⟨sty, hsty⟩ := Option.isSome_iff_exists.mp hsome
  have hs : styleFor e2eOpts "b.c".toList = some (styleNamed "CCommentStyle") := by
    simp only [styleFor, writtenStyle, forced, e2eOpts, Option.bind_none, genStyleOf, hname, Option.bind_some, hsty,
      Option.orElse, styleNamed, Option.getD_some]
  refine ⟨_, .commentCreate, hs, ?_⟩
  have hold : oldHeader (cfgFor e2eWorld e2eOpts e2eFs (styleNamed "CCommentStyle")) (!e2eOpts.noReplace)
      (workText "int x;\n".toList) = [] := by decide +kernel
  rw [hold]
  have : (match createHeader (cfgFor e2eWorld e2eOpts e2eFs (styleNamed "CCommentStyle")) (requested e2eWorld e2eOpts) [] with
    | .error .commentCreate => true | _ => false) = true := by decide +kernel
  revert this
  cases createHeader (cfgFor e2eWorld e2eOpts e2eFs (styleNamed "CCommentStyle")) (requested e2eWorld e2eOpts) [] with
  | ok t => simp
  | error e => cases e <;> simp

theorem e2e_example_pre :
    preflight (envOf e2eWorld e2eOpts e2eFs) (argsOf e2eOpts) e2eFs = .ok e2eOpts.paths := by
  have hpre : (preflight (envOf e2eWorld e2eOpts e2eFs) (argsOf e2eOpts) e2eFs).toOption = some e2eOpts.paths := by
    decide +kernel
  cases h : preflight (envOf e2eWorld e2eOpts e2eFs) (argsOf e2eOpts) e2eFs with
  | error e => rw [h] at hpre; cases hpre
  | ok ps => rw [h] at hpre; simp only [Except.toOption, Option.some.injEq] at hpre; rw [hpre]

-- `C11_e2e_failed_unchanged` and `C11_e2e_exit` applied: `b.c` and `b.c.license` are as before, the exit status is 1
example : (annotateE2E e2eWorld e2eOpts e2eFs).1 "b.c".toList = e2eFs "b.c".toList ∧
    (annotateE2E e2eWorld e2eOpts e2eFs).1 "b.c.license".toList = e2eFs "b.c.license".toList :=
  C11_e2e_failed_unchanged e2eWorld e2eOpts e2eFs e2eOpts.paths "b.c".toList "b.c".toList "int x;\n".toList
    (by decide +kernel) e2e_example_pre (by decide) (by decide) (by decide) (by decide +kernel) (by decide +kernel)
    (.inr e2e_example_refused)
example : (annotateE2E e2eWorld e2eOpts e2eFs).2 = 1 :=
  (C11_e2e_exit e2eWorld e2eOpts e2eFs e2eOpts.paths (by decide +kernel) e2e_example_pre (by decide) (by decide)
    (by decide +kernel)).1.mpr ⟨"b.c".toList, by decide, "b.c".toList, "int x;\n".toList, by decide +kernel, .inr e2e_example_refused⟩
end E2EExamples

end C11
