/-
Property C11 — a failed annotation leaves the tree as it was and shows in the
exit status.

Model: `Model/AnnotateCmd.lean` (the command after the repair that no longer
leaves a `.license` file created for a failed header).  The header builder,
the comment-style table, binary detection and `contains_reuse_info` are
parameters (`Env`), so every statement holds for all of them.  Statements are
for path lists of any length, any position of the failing files and any set of
failing files at once.

Hypotheses (all decidable, `Spec/Effects.lean`):
* `Separate ps` — the paths the loop works on are pairwise different and none is
  another one's `.license` sibling;
* `WfPath p` — a path is not empty and has no trailing slash (what pathlib yields).
-/
import ReuseVerif.Lemmas.Effects

namespace C11
open Model.Eff Spec.Eff

/-- Usage errors are detected before any file is touched: exit status 2, tree unchanged. -/
theorem C11_usage_first (env : Env) (a : Args) (fs : Fs) (e : Usage)
    (h : preflight env a fs = .error e) : annotate env a fs = (fs, 2) := by
  simp [annotate, h]

/-- The exit status is 0, 1 or 2, and it is 2 exactly for a usage error. -/
theorem C11_exit_range (env : Env) (a : Args) (fs : Fs) :
    ((annotate env a fs).2 = 0 ∨ (annotate env a fs).2 = 1 ∨ (annotate env a fs).2 = 2) ∧
    ((annotate env a fs).2 = 2 ↔ ∃ e, preflight env a fs = .error e) := by
  unfold annotate
  split
  · rename_i e h; simp [h]
  · rename_i ps h
    simp only
    split <;> simp [h]

/-- When the loop body fails for a path, it leaves the whole tree as it found it (in particular
    a sibling it created is gone again). -/
theorem C11_step_failed_noop (env : Env) (a : Args) (fs : Fs) (p : Path) (h : Fails env a fs p) :
    (step env a fs p).1 = fs :=
  step_fail env a fs p h

/-- A symbolic link at the `.license` position the header has to go to (a dangling one: the
    others never reach the loop) makes the file fail — and by `C11_step_failed_noop` nothing is
    written, in particular not through the link. -/
theorem C11_link_in_the_way_fails (env : Env) (a : Args) (fs : Fs) (p : Path)
    (hs : useSibling env a p = true) (hl : Fs.isLink fs (licSuffix p) = true) : Fails env a fs p := by
  simp [Fails, step, guardedNoLink, hs, hl]

/-- When no symbolic link sits at a `.license` position of `p`, `Fails` is exactly "the file is
    not skipped and the header builder raises for the path that would be written". -/
theorem C11_fails_iff_builder (env : Env) (a : Args) (fs : Fs) (p : Path)
    (hnl : ∀ t ∈ writeSet p, Fs.isLink fs t = false) :
    Fails env a fs p ↔ ∃ t txt e, attempt env a fs p = some (t, txt) ∧ env.build t txt = .error e := by
  have hcreate : ∀ (g : Fs) (t x : Path), Fs.isLink g x = false →
      Fs.isLink (if (g t).isNone = true then Fs.create g t else g) x = false := by
    intro g t x hx
    split
    · by_cases hxt : x = t
      · subst hxt; simp [Fs.isLink, Fs.create]
      · simpa [Fs.isLink, Fs.create, Fs.set_other _ _ hxt] using hx
    · exact hx
  have hw : ∀ (t : Path) (g : Fs), (writeHeader env a t g).2 = true ↔
      ∃ txt e, (if (a.skipExisting && env.hasInfo (Fs.readText g t)) = true then none
        else some (t, Fs.readText g t)) = some (t, txt) ∧ env.build t txt = .error e := by
    intro t g
    unfold writeHeader
    simp only
    split
    · simp
    · cases hb : env.build t (Fs.readText g t) with
      | ok out => simp [hb]
      | error e => simp [hb]
  have hread : ∀ (g : Fs) (t : Path), Fs.readText (if (g t).isNone = true then Fs.create g t else g) t
      = Fs.readText g t := by
    intro g t
    cases hg : g t with
    | none => simp [Fs.readText, Fs.create, hg]
    | some n => simp
  have hg : ∀ (t : Path) (g : Fs), (guarded g t (writeHeader env a t)).2 = true ↔
      ∃ txt e, (if (a.skipExisting && env.hasInfo (Fs.readText g t)) = true then none
        else some (t, Fs.readText g t)) = some (t, txt) ∧ env.build t txt = .error e := by
    intro t g
    simp only [guarded]
    rw [hw, hread]
  have ha : ∀ (t1 : Path) (g : Fs), Fs.isLink g (licSuffix t1) = false → ((addHeader env a t1 g).2 = true ↔
      ∃ t txt e,
        (if ((effStyle env a t1).isNone && a.skipUnrec) = true then none
         else
          if (a.skipExisting && env.hasInfo (Fs.readText g
              (if ((effStyle env a t1).isNone && a.fallbackDot) = true then licSuffix t1 else t1))) = true
          then none
          else some ((if ((effStyle env a t1).isNone && a.fallbackDot) = true then licSuffix t1 else t1),
            Fs.readText g (if ((effStyle env a t1).isNone && a.fallbackDot) = true then licSuffix t1 else t1)))
          = some (t, txt) ∧ env.build t txt = .error e) := by
    intro t1 g hlk
    unfold addHeader
    simp only
    split
    · simp
    · split
      · simp only [guardedNoLink, hlk, Bool.false_eq_true, if_false]
        rw [hg]
        constructor
        · rintro ⟨txt, e, h1, h2⟩; exact ⟨_, txt, e, h1, h2⟩
        · rintro ⟨t, txt, e, h1, h2⟩
          split at h1
          · simp at h1
          · simp only [Option.some.injEq, Prod.mk.injEq] at h1
            obtain ⟨rfl, rfl⟩ := h1
            exact ⟨_, e, by simp [*], h2⟩
      · rw [hw]
        constructor
        · rintro ⟨txt, e, h1, h2⟩; exact ⟨_, txt, e, h1, h2⟩
        · rintro ⟨t, txt, e, h1, h2⟩
          split at h1
          · simp at h1
          · simp only [Option.some.injEq, Prod.mk.injEq] at h1
            obtain ⟨rfl, rfl⟩ := h1
            exact ⟨_, e, by simp [*], h2⟩
  have hnl1 : Fs.isLink fs (licSuffix p) = false := hnl _ (by simp [writeSet])
  have hnl2 : Fs.isLink fs (licSuffix (licSuffix p)) = false := hnl _ (by simp [writeSet])
  unfold Fails step attempt
  split
  · rename_i hs
    simp only [guardedNoLink, hnl1, Bool.false_eq_true, if_false, guarded]
    rw [ha _ _ (hcreate fs _ _ hnl2)]
    have hr : ∀ t, t = licSuffix p ∨ t = licSuffix (licSuffix p) →
        Fs.readText (if (fs (licSuffix p)).isNone = true then Fs.create fs (licSuffix p) else fs) t
          = Fs.readText fs t := by
      intro t ht
      cases hfs : fs (licSuffix p) with
      | some n => simp
      | none =>
        simp only [Option.isNone_none, if_true]
        by_cases htl : t = licSuffix p
        · subst htl; simp [Fs.readText, Fs.create, hfs]
        · simp [Fs.readText, Fs.create, Fs.set_other _ _ htl]
    rw [hr _ (by split <;> simp)]
  · rw [ha _ _ hnl1]

/-- **Failed ⇒ unchanged.**  If the header cannot be produced for `p`, then after the whole
    command `p` and `p.license` are exactly what they were; in particular no sibling was
    created.  Any position of `p`, any other failing files. -/
theorem C11_failed_unchanged (env : Env) (a : Args) (fs : Fs) (ps : List Path) (p : Path)
    (hpre : preflight env a fs = .ok ps) (hsep : Separate ps) (hwf : ∀ q ∈ ps, WfPath q)
    (hp : p ∈ ps) (hfail : Fails env a fs p) :
    (annotate env a fs).1 p = fs p ∧ (annotate env a fs).1 (sibling p) = fs (sibling p) := by
  have hspec := (runSteps_spec env a ps hsep hwf fs).2 p hp
  simp only [annotate, hpre]
  rw [hspec p (by simp [claim]), hspec (sibling p) (by simp [claim]), step_fail env a fs p hfail]
  exact ⟨rfl, rfl⟩

/-- Every path of the invocation ends exactly as if the loop body had been run for it alone on
    the tree the command started from — whatever happened to the other paths. -/
theorem C11_each_alone (env : Env) (a : Args) (fs : Fs) (ps : List Path)
    (hsep : Separate ps) (hwf : ∀ q ∈ ps, WfPath q) (q : Path) (hq : q ∈ ps) (x : Path)
    (hx : x ∈ claim q) : (runSteps env a fs ps).1 x = (step env a fs q).1 x :=
  (runSteps_spec env a ps hsep hwf fs).2 q hq x hx

/-- **The remaining files are still processed.**  Every other path (and its sibling) ends
    exactly as if `p` had not been in the list. -/
theorem C11_others_processed (env : Env) (a : Args) (fs : Fs) (ps : List Path) (p q : Path)
    (hsep : Separate ps) (hwf : ∀ r ∈ ps, WfPath r) (hq : q ∈ ps) (hqp : q ≠ p) (x : Path)
    (hx : x ∈ claim q) :
    (runSteps env a fs ps).1 x = (runSteps env a fs (ps.filter (fun r => r != p))).1 x := by
  have hsub : (ps.filter (fun r => r != p)).Sublist ps := List.filter_sublist
  have hsep' : Separate (ps.filter (fun r => r != p)) := List.Pairwise.sublist hsub hsep
  have hwf' : ∀ r ∈ ps.filter (fun r => r != p), WfPath r := fun r hr => hwf r (hsub.subset hr)
  have hq' : q ∈ ps.filter (fun r => r != p) := by
    simp [List.mem_filter, hq, hqp]
  rw [C11_each_alone env a fs ps hsep hwf q hq x hx,
    C11_each_alone env a fs _ hsep' hwf' q hq' x hx]

/-- Paths outside the named files and their siblings are not touched by the loop. -/
theorem C11_rest_of_tree (env : Env) (a : Args) (fs : Fs) (ps : List Path)
    (hwf : ∀ q ∈ ps, WfPath q) (x : Path) (hx : ∀ q ∈ ps, x ∉ claim q) :
    (runSteps env a fs ps).1 x = fs x :=
  runSteps_frame env a ps x fs (fun q hq hxq => hx q hq (writeSet_sub_claim (hwf q hq) hxq))

/-- **Exit status.**  Without a usage error the status is 1 exactly when the header could not
    be produced for some path, and 0 otherwise. -/
theorem C11_exit (env : Env) (a : Args) (fs : Fs) (ps : List Path)
    (hpre : preflight env a fs = .ok ps) (hsep : Separate ps) (hwf : ∀ q ∈ ps, WfPath q) :
    ((annotate env a fs).2 = 1 ↔ ∃ p ∈ ps, Fails env a fs p) ∧
    ((annotate env a fs).2 = 0 ↔ ∀ p ∈ ps, ¬ Fails env a fs p) := by
  have hflag := (runSteps_spec env a ps hsep hwf fs).1
  simp only [annotate, hpre, hflag, Fails]
  cases hany : ps.any (fun q => (step env a fs q).2)
  · have : ∀ q ∈ ps, (step env a fs q).2 = false := by
      simpa [List.any_eq_false] using hany
    simp only [Bool.false_eq_true, if_false]
    constructor
    · simp only [Nat.zero_ne_one, false_iff, not_exists, not_and]
      intro q hq; simp [this q hq]
    · simp only [true_iff]
      intro q hq; simp [this q hq]
  · have : ∃ q ∈ ps, (step env a fs q).2 = true := by
      simpa [List.any_eq_true] using hany
    simp only [if_true, true_iff, Nat.succ_ne_zero, false_iff]
    refine ⟨this, ?_⟩
    obtain ⟨q, hq, h⟩ := this
    intro hall
    exact hall q hq h

/-- The order in which the loop visits the paths (the iteration order of a Python `set`) is not
    observable: same final tree, same exit flag. -/
theorem C11_order_irrelevant (env : Env) (a : Args) (fs : Fs) (ps ps' : List Path)
    (hperm : ps.Perm ps') (hsep : Separate ps) (hwf : ∀ q ∈ ps, WfPath q) :
    runSteps env a fs ps = runSteps env a fs ps' := by
  have hsep' : Separate ps' := (hperm.pairwise_iff (fun h => sepRel_symm h)).mp hsep
  have hwf' : ∀ q ∈ ps', WfPath q := fun q hq => hwf q (hperm.mem_iff.mpr hq)
  obtain ⟨f1, x1⟩ := runSteps_spec env a ps hsep hwf fs
  obtain ⟨f2, x2⟩ := runSteps_spec env a ps' hsep' hwf' fs
  apply Prod.ext
  · funext x
    by_cases hx : ∃ q ∈ ps, x ∈ claim q
    · obtain ⟨q, hq, hxq⟩ := hx
      rw [x1 q hq x hxq, x2 q (hperm.mem_iff.mp hq) x hxq]
    · have hx' : ∀ q ∈ ps, x ∉ claim q := fun q hq hxq => hx ⟨q, hq, hxq⟩
      rw [C11_rest_of_tree env a fs ps hwf x hx',
        C11_rest_of_tree env a fs ps' hwf' x (fun q hq => hx' q (hperm.mem_iff.mpr hq))]
  · rw [f1, f2, Bool.eq_iff_iff]
    simp only [List.any_eq_true]
    constructor <;> rintro ⟨q, hq, h⟩
    · exact ⟨q, hperm.mem_iff.mp hq, h⟩
    · exact ⟨q, hperm.mem_iff.mpr hq, h⟩

/-! ### non-vacuity: concrete inputs satisfying the hypotheses, with a failing file in the
middle of three, a binary file whose sibling must not be left behind, and a usage error -/

section Examples

def exStyle (p : Path) : Option Style :=
  if ".c".toList.isSuffixOf p then some ⟨false, true, false⟩
  else if ".license".toList.isSuffixOf p then some ⟨false, false, false⟩
  else if ".png".toList.isSuffixOf p then some ⟨false, false, true⟩
  else none

/-- the builder fails for `b.c` and for `d.png.license` -/
def exEnv : Env where
  styleOf := exStyle
  binary := fun p => ".png".toList.isSuffixOf p
  templateExists := fun _ => true
  hasInfo := fun _ => false
  below := fun _ => []
  build := fun p t =>
    if p = "b.c".toList then .error .commentCreate
    else if p = "d.png.license".toList then .error .missingInfo
    else .ok ('H' :: t)

def exArgs (paths : List Path) : Args where
  infoGiven := true
  style := none
  template := none
  years := false
  excludeYear := false
  single := false
  multi := false
  recursive := false
  forceDot := false
  fallbackDot := false
  skipUnrec := false
  skipExisting := false
  paths := paths

def exFs : Fs := Fs.ofList [("a.c".toList, .file "x".toList), ("b.c".toList, .file "y".toList),
  ("c.c".toList, .file "z".toList), ("d.png".toList, .file "binary".toList)]

def usageOf : Except Usage (List Path) → Option Usage
  | .error e => some e
  | .ok _ => none

def exPaths : List Path := ["a.c".toList, "b.c".toList, "d.png".toList, "c.c".toList]

example : Separate exPaths := by decide
example : ∀ q ∈ exPaths, WfPath q := by decide
example : (preflight exEnv (exArgs exPaths) exFs).toOption = some exPaths := by decide
example : Fails exEnv (exArgs exPaths) exFs "b.c".toList := by decide
example : Fails exEnv (exArgs exPaths) exFs "d.png".toList := by decide
example : ¬ Fails exEnv (exArgs exPaths) exFs "c.c".toList := by decide
example : (annotate exEnv (exArgs exPaths) exFs).2 = 1 := by decide
example : (annotate exEnv (exArgs exPaths) exFs).1 "d.png.license".toList = none := by decide
example : (annotate exEnv (exArgs exPaths) exFs).1 "c.c".toList = some (.file "Hz".toList) := by decide
example : usageOf (preflight exEnv { exArgs exPaths with single := true, multi := true } exFs) = some .mutex := by decide
example : usageOf (preflight exEnv (exArgs ["a.c".toList, "nosuch.c".toList]) exFs) = some .noSuchPath := by decide
example : exPaths.Perm ["c.c".toList, "d.png".toList, "b.c".toList, "a.c".toList] := by decide

/-- a binary file whose `.license` position holds a dangling link pointing outside the project -/
def exFsLink : Fs := Fs.ofList [("e.png".toList, .file "binary".toList), ("e.png.license".toList, .link "../out/new.txt".toList)]
example : useSibling exEnv (exArgs ["e.png".toList]) "e.png".toList = true ∧
    Fs.isLink exFsLink (licSuffix "e.png".toList) = true := by decide
example : (preflight exEnv (exArgs ["e.png".toList]) exFsLink).toOption = some ["e.png".toList] := by decide
example : (annotate exEnv (exArgs ["e.png".toList]) exFsLink).2 = 1 := by decide
example : (annotate exEnv (exArgs ["e.png".toList]) exFsLink).1 "../out/new.txt".toList = none := by decide
example : ∀ t ∈ writeSet "a.c".toList, Fs.isLink exFs t = false := by decide

end Examples

end C11
