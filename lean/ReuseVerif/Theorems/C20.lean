/-
Property C20 — copyright notices are built and merged without losing holders or years.
-/
import ReuseVerif.Lemmas.CopyrightMain
import ReuseVerif.Lemmas.Merge
import ReuseVerif.Lemmas.C20NoNotice
import ReuseVerif.Lemmas.C20MergeLines
import ReuseVerif.Lemmas.C20GetYear
import ReuseVerif.Lemmas.C20MergeSorted

namespace C20
open Py Model Spec

/-- A statement that already is a notice is kept verbatim, whatever year and prefix are given. -/
theorem C20_verbatim (endRe : Re) (statement : Text) (year : Option Text) (prefixText : Text)
    (h : (searchLineWith endRe statement).isSome = true) :
    makeLineWith endRe statement year prefixText = statement := by
  unfold makeLineWith
  cases hs : searchLineWith endRe statement with
  | none => simp [hs] at h
  | some m => rfl

/-- Otherwise the notice is the prefix, the year when there is one, and the statement, separated
    by single blanks. -/
theorem C20_make_shape (endRe : Re) (statement : Text) (y : YearForm) (prefixText : Text)
    (h : searchLineWith endRe statement = none) :
    makeLineWith endRe statement y.text prefixText = builtLine prefixText y statement := by
  unfold makeLineWith builtLine; rw [h]; rfl

/-- Table obligation: the shapes the theorem works with are exactly the *generated* prefix table
    (`_COPYRIGHT_PREFIXES` of the source, all ten entries), each split into the mandatory head of
    its pattern and the optional extension. -/
theorem C20_prefix_table :
    Generated.copyrightPrefixes.map (·.2) = prefixShapes.map (·.1) ∧
    prefixShapes.all (fun x => x.1 == headText x.2.1 ++ x.2.2) = true := by decide

theorem extPicked_of_shape (x : Text × CPat × Text) (hx : x ∈ prefixShapes) : ExtPicked x.2.1 x.2.2 := by
  simp only [prefixShapes, List.mem_cons, List.not_mem_nil, or_false] at hx
  intro rest hb
  rcases hx with rfl | rfl | rfl | rfl | rfl | rfl | rfl | rfl | rfl | rfl
  · exact pick_spdx_none hb
  · exact pick_spdx_paren rest
  · exact pick_spdx_word_paren rest
  · exact pick_spdx_word hb
  · exact pick_spdx_word_sign rest
  · exact pick_spdx_sign rest
  · exact pick_word_none hb
  · exact pick_word_paren rest
  · exact pick_word_sign rest
  · exact pick_sign rest

theorem holderStart_of_wf (endRe : Re) (h : Text) (hw : WFHolder endRe h = true) :
    HolderStart h ∧ Blocks h ∧ noEndSuffix endRe h = true := by
  unfold WFHolder at hw
  cases h with
  | nil => cases hw
  | cons c cs =>
    simp only [Bool.and_eq_true, Bool.not_eq_true', bne_iff_ne, ne_eq] at hw
    obtain ⟨⟨⟨⟨⟨⟨h1, h2⟩, h3⟩, h4⟩, h5⟩, h6⟩, h7⟩ := hw
    have hword : eat wordC (c :: cs) = none := by
      unfold eat; rw [show wordC = "Copyright".toList from rfl, h6]; rfl
    refine ⟨⟨by simp, ?_, ?_, ?_⟩, ⟨by simp, ?_, ?_, ?_, hword⟩, h7⟩
    all_goals (intro c' cs' e; cases e; assumption)

theorem ranges_disjoint (D S : List (Char × Char))
    (hdis : D.all (fun r => S.all (fun r' => decide (r.2 < r'.1) || decide (r'.2 < r.1))) = true)
    (a : Char) (h1 : Re.inRanges a D = true) (h2 : Re.inRanges a S = true) : False := by
  unfold Re.inRanges at h1 h2
  simp only [List.any_eq_true, decide_eq_true_eq] at h1 h2
  obtain ⟨r, hr, hr1, hr2⟩ := h1
  obtain ⟨r', hr', hr1', hr2'⟩ := h2
  simp only [List.all_eq_true, Bool.or_eq_true, decide_eq_true_eq] at hdis
  rcases hdis r hr r' hr' with h | h
  · exact (Char.not_lt.mpr (Char.le_trans hr1' hr2)) h
  · exact (Char.not_lt.mpr (Char.le_trans hr1 hr2')) h

/-- a year in front of the holder cannot be mistaken for a continuation of the prefix either -/
theorem blocks_of_year {y : Text} (hy : fourDigits y = true) (s : Text) : Blocks (y ++ s) := by
  unfold fourDigits at hy
  simp only [Bool.and_eq_true, beq_iff_eq, List.all_eq_true] at hy
  match y, hy.1 with
  | [a, b, c, d], _ =>
    have ha : isReDigit a = true := hy.2 a (by simp)
    have hsp : isReSpace a = false := by
      cases hh : isReSpace a with
      | false => rfl
      | true => exact (ranges_disjoint Generated.digitRanges Generated.spaceRanges (by decide) a ha hh).elim
    have hne : ∀ x : Char, isReDigit x = false → a ≠ x := fun x hx e => by subst e; simp [ha] at hx
    refine ⟨by simp, ?_, ?_, ?_, ?_⟩
    · intro c' cs' e; cases e; exact hsp
    · intro c' cs' e; cases e; exact hne '(' (by decide)
    · intro c' cs' e; cases e; exact hne (Char.ofNat 0xa9) (by decide)
    · exact eat_head_ne (a := 'C') (as := "opyright".toList) (hne 'C' (by decide))

/-- Read-back theorem.  For every entry of the generated prefix table (all ten), every year form
    (none, `YYYY`, `YYYY-YYYY` with or without blanks around the dash) and every well-formed
    holder, the tool's own reader recognises the built notice, at the very start of the line, with
    exactly that prefix, year and holder — provided no pattern of higher priority matches anywhere
    in the line (`earlierNone`, decidable; see `C20_reader_inner_notice` in known_findings.json for
    what happens otherwise). -/
theorem C20_make_parse_partial (endRe : Re) (x : Text × CPat × Text) (hx : x ∈ prefixShapes)
    (y : YearForm) (hy : y.wf = true) (h : Text) (hw : WFHolder endRe h = true)
    (hearlier : (match x.2.1 with
      | .spdx => true
      | .word => (searchPat endRe .spdx (builtLine x.1 y h)).isNone
      | .sign => (searchPat endRe .spdx (builtLine x.1 y h)).isNone &&
                 (searchPat endRe .word (builtLine x.1 y h)).isNone) = true) :
    searchLineWith endRe (builtLine x.1 y h) =
      some { pref := x.1, year := y.text, statement := h, whole := builtLine x.1 y h } := by
  obtain ⟨hstart, hblocks, hend⟩ := holderStart_of_wf endRe h hw
  have hshape : x.1 = headText x.2.1 ++ x.2.2 := by
    have := C20_prefix_table.2
    simp only [List.all_eq_true, beq_iff_eq] at this
    exact this x hx
  have hE := extPicked_of_shape x hx
  -- the pattern of this prefix matches at position 0 with the expected groups
  have hmatch : matchAt endRe x.2.1 (builtLine x.1 y h) =
      some { pref := x.1, year := y.text, statement := h, whole := builtLine x.1 y h } := by
    cases y with
    | none =>
      have := matchAt_built endRe x.2.1 x.2.2 h h none hE hblocks (eatYear_none hstart) hend (Nat.le_refl _)
      simpa [builtLine, YearForm.text, hshape] using this
    | single yy =>
      have hyy : fourDigits yy = true := hy
      have := matchAt_built endRe x.2.1 x.2.2 (yy ++ ' ' :: h) h (some yy) hE (blocks_of_year hyy _)
        (eatYear_single hyy hstart) hend (by simp only [List.length_append, List.length_cons]; omega)
      simpa [builtLine, YearForm.text, hshape, List.append_assoc] using this
    | range y1 sp1 sp2 y2 =>
      simp only [YearForm.wf, Bool.and_eq_true] at hy
      have hr := eatRange_ok sp1 sp2 hy.1 hy.2 hstart
      have hyear : eatYear (y1 ++ ((if sp1 then [' '] else []) ++ ('-' :: ((if sp2 then [' '] else []) ++ (y2 ++ ' ' :: h))))) =
          (some (y1 ++ (if sp1 then [' '] else []) ++ ['-'] ++ (if sp2 then [' '] else []) ++ y2), h) := by
        simp [eatYear, hr]
      have := matchAt_built endRe x.2.1 x.2.2 _ h _ hE (blocks_of_year hy.1 _) hyear hend
        (by simp only [List.length_append, List.length_cons]; omega)
      simpa [builtLine, YearForm.text, hshape, List.append_assoc] using this
  have hne : builtLine x.1 y h ≠ [] := by
    unfold builtLine; cases y.text <;> simp
  have hsearch := searchPat_of_matchAt endRe x.2.1 _ _ hne hmatch
  unfold searchLineWith
  cases hp : x.2.1 with
  | spdx => rw [hp] at hsearch; simp [hsearch]
  | word =>
    rw [hp] at hsearch hearlier
    simp only [Option.isNone_iff_eq_none] at hearlier
    simp [hearlier, hsearch]
  | sign =>
    rw [hp] at hsearch hearlier
    simp only [Bool.and_eq_true, Option.isNone_iff_eq_none] at hearlier
    simp [hearlier.1, hearlier.2, hsearch]

/-- Built and read back: `make_copyright_line` followed by the tool's own reader, for a holder
    that is not itself a notice (otherwise `C20_verbatim` applies). -/
theorem C20_make_then_parse_partial (endRe : Re) (x : Text × CPat × Text) (hx : x ∈ prefixShapes)
    (y : YearForm) (hy : y.wf = true) (h : Text) (hw : WFHolder endRe h = true)
    (hnot : searchLineWith endRe h = none)
    (hearlier : (match x.2.1 with
      | .spdx => true
      | .word => (searchPat endRe .spdx (builtLine x.1 y h)).isNone
      | .sign => (searchPat endRe .spdx (builtLine x.1 y h)).isNone &&
                 (searchPat endRe .word (builtLine x.1 y h)).isNone) = true) :
    searchLineWith endRe (makeLineWith endRe h y.text x.1) =
      some { pref := x.1, year := y.text, statement := h, whole := makeLineWith endRe h y.text x.1 } := by
  rw [C20_make_shape endRe h y x.1 hnot]
  exact C20_make_parse_partial endRe x hx y hy h hw hearlier

/-! ### The read-back theorem without per-case hypotheses -/

/-- **`earlierNone` is implied by a syntactic condition on the holder.**  If nowhere in the holder
    a tag (`SPDX-FileCopyrightText:`, `SPDX-SnippetCopyrightText:`, `Copyright`, `©`) is followed
    by white space (`noNoticeInside`, decidable, written without the reader's model), then for every
    prefix of the table and every well-formed year form the hypothesis `hearlier` of
    `C20_make_parse_partial` holds: no pattern of higher priority matches anywhere in the built
    line.  (No tag of an earlier pattern can begin in front of the holder: outside the SPDX shapes
    no prefix text contains an `S`, the sign shape contains no `C`, years are digits, blanks and
    `-` — table obligation `prefixShapes_chars`.) -/
theorem C20_earlier_none (endRe : Re) (x : Text × CPat × Text) (hx : x ∈ prefixShapes)
    (y : YearForm) (hy : y.wf = true) (h : Text) (hn : noNoticeInside h = true) :
    (match x.2.1 with
      | .spdx => true
      | .word => (searchPat endRe .spdx (builtLine x.1 y h)).isNone
      | .sign => (searchPat endRe .spdx (builtLine x.1 y h)).isNone &&
                 (searchPat endRe .word (builtLine x.1 y h)).isNone) = true := by
  obtain ⟨h1, h2⟩ := earlier_none endRe x hx y hy h hn
  cases hp : x.2.1 with
  | spdx => rfl
  | word => simp [h1 (by rw [hp]; decide)]
  | sign => simp [h1 (by rw [hp]; decide), h2 hp]

/-- The older holder predicate is (up to the line feed, which `make_copyright_line` rejects) the
    narrower one: everything `C20_make_parse_partial` covered, `C20_make_parse` covers. -/
theorem C20_wf_narrower (endRe : Re) (h : Text) (hw : WFHolder endRe h = true)
    (hnl : h.contains '\n' = false) : WFHolderL endRe h = true := by
  unfold WFHolder at hw
  unfold WFHolderL
  cases h with
  | nil => cases hw
  | cons c cs =>
    simp only [Bool.and_eq_true, Bool.not_eq_true', bne_iff_ne, ne_eq] at hw
    obtain ⟨⟨⟨⟨⟨⟨h1, h2⟩, h3⟩, h4⟩, _⟩, _⟩, h7⟩ := hw
    have hp : parenStart (c :: cs) = false := by
      have hc : ¬ '(' = c := fun e => h4 e.symm
      simp [parenStart, hasTag, hc]
    have hd : dashYear (c :: cs) = false := by
      unfold dashYear
      split
      · rename_i r e; cases e; exact absurd rfl h3
      · rfl
    simp only [h1, h2, hp, hd, hnl, h7, Bool.not_false, Bool.and_self]

/-- **Read-back theorem** (no per-case hypothesis).  For every entry of the generated prefix table
    (all ten), every year form (none, `YYYY`, `YYYY-YYYY` with or without blanks around the dash)
    and every holder that is well-formed (`WFHolderL`: non-empty, no line feed, first character
    neither white space nor a digit, not `(C)`/`(c)` + white space, not `-YYYY` + white space, no
    tail of comment terminators) and carries no notice inside (`noNoticeInside`), the tool's own
    reader recognises the built notice, at the very start of the line, with exactly that prefix,
    year and holder.  Holders that merely begin like a tag (`Copyrighted Works Ltd.`, `©tudio`,
    `(C)ompany`, `-Free`) or end in one (`Acme Copyright`) are covered. -/
theorem C20_make_parse (endRe : Re) (x : Text × CPat × Text) (hx : x ∈ prefixShapes)
    (y : YearForm) (hy : y.wf = true) (h : Text) (hw : WFHolderL endRe h = true)
    (hn : noNoticeInside h = true) :
    searchLineWith endRe (builtLine x.1 y h) =
      some { pref := x.1, year := y.text, statement := h, whole := builtLine x.1 y h } := by
  obtain ⟨hstart, hblocks, hend⟩ := starts_of_wfL endRe h hw hn
  have hshape : x.1 = headText x.2.1 ++ x.2.2 := by
    have := C20_prefix_table.2
    simp only [List.all_eq_true, beq_iff_eq] at this
    exact this x hx
  have hE := extPickedL_of_shape x hx
  have hmatch : matchAt endRe x.2.1 (builtLine x.1 y h) =
      some { pref := x.1, year := y.text, statement := h, whole := builtLine x.1 y h } := by
    cases y with
    | none =>
      have := matchAt_builtL endRe x.2.1 x.2.2 h h none hE hblocks (eatYear_noneL hstart) hend (Nat.le_refl _)
      simpa [builtLine, YearForm.text, hshape] using this
    | single yy =>
      have hyy : fourDigits yy = true := hy
      have := matchAt_builtL endRe x.2.1 x.2.2 (yy ++ ' ' :: h) h (some yy) hE (blocks_of_year hyy _).toL
        (eatYear_singleL hyy hstart) hend (by simp only [List.length_append, List.length_cons]; omega)
      simpa [builtLine, YearForm.text, hshape, List.append_assoc] using this
    | range y1 sp1 sp2 y2 =>
      simp only [YearForm.wf, Bool.and_eq_true] at hy
      have hr := eatRange_okL sp1 sp2 hy.1 hy.2 hstart
      have hyear : eatYear (y1 ++ ((if sp1 then [' '] else []) ++ ('-' :: ((if sp2 then [' '] else []) ++ (y2 ++ ' ' :: h))))) =
          (some (y1 ++ (if sp1 then [' '] else []) ++ ['-'] ++ (if sp2 then [' '] else []) ++ y2), h) := by
        simp [eatYear, hr]
      have := matchAt_builtL endRe x.2.1 x.2.2 _ h _ hE (blocks_of_year hy.1 _).toL hyear hend
        (by simp only [List.length_append, List.length_cons]; omega)
      simpa [builtLine, YearForm.text, hshape, List.append_assoc] using this
  have hne : builtLine x.1 y h ≠ [] := by
    unfold builtLine; cases y.text <;> simp
  have hsearch := searchPat_of_matchAt endRe x.2.1 _ _ hne hmatch
  obtain ⟨h1, h2⟩ := earlier_none endRe x hx y hy h hn
  unfold searchLineWith
  cases hp : x.2.1 with
  | spdx => rw [hp] at hsearch; simp [hsearch]
  | word =>
    rw [hp] at hsearch
    simp [h1 (by rw [hp]; decide), hsearch]
  | sign =>
    rw [hp] at hsearch
    simp [h1 (by rw [hp]; decide), h2 hp, hsearch]

/-- **Built and read back**: `make_copyright_line` does not take the verbatim branch for such a
    holder (it is no notice), builds `prefix [year] holder`, and the reader returns exactly the
    prefix, the year and the holder. -/
theorem C20_make_then_parse (endRe : Re) (x : Text × CPat × Text) (hx : x ∈ prefixShapes)
    (y : YearForm) (hy : y.wf = true) (h : Text) (hw : WFHolderL endRe h = true)
    (hn : noNoticeInside h = true) :
    makeLineWith endRe h y.text x.1 = builtLine x.1 y h ∧
    searchLineWith endRe (makeLineWith endRe h y.text x.1) =
      some { pref := x.1, year := y.text, statement := h, whole := makeLineWith endRe h y.text x.1 } := by
  have hs := C20_make_shape endRe h y x.1 (searchLine_none_of_noNotice endRe h hn)
  refine ⟨hs, ?_⟩
  rw [hs]
  exact C20_make_parse endRe x hx y hy h hw hn

/-- the two predicates on holders the old theorem did not reach -/
example : noNoticeInside "Copyrighted Works Ltd.".toList = true ∧ noNoticeInside "©tudio Ñandú GmbH".toList = true ∧
    noNoticeInside "Acme Copyright".toList = true ∧ noNoticeInside "(C)ompany".toList = true ∧
    noNoticeInside "Copyright Clearance Center".toList = false ∧ noNoticeInside "Jane © Doe".toList = false ∧
    noNoticeInside "x SPDX-SnippetCopyrightText: y".toList = false := by decide
example : parenStart "(C)ompany".toList = false ∧ parenStart "(c) Jane".toList = true ∧
    dashYear "-Free Software Ltd".toList = false ∧ dashYear "-2020 Jane".toList = true ∧
    dashYear "- 2020, Jane".toList = true ∧ dashYear "-2020Jane".toList = false := by decide

/-! ### Merging -/

/-- The merged set is exactly one line per holder (statement) that occurs in the input:
    nothing is invented and no holder is lost. -/
theorem C20_merge_holders (endRe : Re) (lines : List Text) (out : Text) :
    out ∈ mergeLinesWith endRe lines ↔
      ∃ x ∈ parseLines endRe lines, out = lineFor (parseLines endRe lines) x.1 := by
  unfold mergeLinesWith
  simp only [mem_dedup, List.mem_map]
  constructor
  · rintro ⟨x, hx, rfl⟩; exact ⟨x, hx, rfl⟩
  · rintro ⟨x, hx, rfl⟩; exact ⟨x, hx, rfl⟩

/-- No holder is lost: every input notice's holder has its line in the output, and that line
    ends with the holder. -/
theorem C20_merge_no_holder_lost (endRe : Re) (lines : List Text) (l : Text) (m : CMatch)
    (hl : l ∈ lines) (hm : searchLineWith endRe l = some m) :
    lineFor (parseLines endRe lines) m.statement ∈ mergeLinesWith endRe lines ∧
      m.statement <:+ lineFor (parseLines endRe lines) m.statement := by
  constructor
  · rw [C20_merge_holders]
    refine ⟨(m.statement, parseYear m.year, m.pref), ?_, rfl⟩
    unfold parseLines
    simp only [List.mem_filterMap]
    exact ⟨l, hl, by simp [hm]⟩
  · unfold lineFor
    split
    · exact ⟨_, rfl⟩
    · exact ⟨_, rfl⟩

/-- Each holder gets a single line: the output has no duplicates and the line depends on the
    holder alone. -/
theorem C20_merge_single_line (endRe : Re) (lines : List Text) :
    (mergeLinesWith endRe lines).Nodup := by
  unfold mergeLinesWith; exact dedup_nodup _

/-- The year range of a holder's line starts and ends with years that were stated for that
    holder — the numerically smallest and largest (`int(year)`, digits of any script) — and is
    absent only when no year was stated. -/
theorem C20_merge_year_span (parsed : List Parsed) (stmt : Text) :
    (yearsOf parsed stmt = [] → mergedYear (yearsOf parsed stmt) = none) ∧
    (∀ y, mergedYear (yearsOf parsed stmt) = some y →
      ∃ lo hi, lo ∈ yearsOf parsed stmt ∧ hi ∈ yearsOf parsed stmt ∧
        yearMin (yearsOf parsed stmt) = some lo ∧ yearMax (yearsOf parsed stmt) = some hi ∧
        (y = lo ∨ y = lo ++ " - ".toList ++ hi)) := by
  constructor
  · intro h; rw [h]; rfl
  · intro y hy
    unfold mergedYear at hy
    cases hlo : yearMin (yearsOf parsed stmt) with
    | none => simp [hlo] at hy
    | some lo =>
      cases hhi : yearMax (yearsOf parsed stmt) with
      | none => simp [hlo, hhi] at hy
      | some hi =>
        simp only [hlo, hhi] at hy
        refine ⟨lo, hi, yearMin_mem hlo, yearMax_mem hhi, rfl, rfl, ?_⟩
        split at hy
        · left; simpa using hy.symm
        · right; simpa using hy.symm

/-- **The range spans every year stated for the holder**, numerically: whatever year `y` one of
    the holder's notices stated, `lo ≤ y ≤ hi` for the two ends of the merged range; and when the
    merged line shows a single year, every stated year has that value. -/
theorem C20_merge_year_covers (parsed : List Parsed) (stmt : Text) (lo hi : Text)
    (hlo : yearMin (yearsOf parsed stmt) = some lo) (hhi : yearMax (yearsOf parsed stmt) = some hi) :
    (∀ y ∈ yearsOf parsed stmt, yearVal lo ≤ yearVal y ∧ yearVal y ≤ yearVal hi) ∧
    (mergedYear (yearsOf parsed stmt) = some lo →
      yearVal lo = yearVal hi ∨ lo = lo ++ " - ".toList ++ hi) := by
  constructor
  · intro y hy
    exact ⟨yearMin_le hlo y hy, yearMax_ge hhi y hy⟩
  · intro h
    unfold mergedYear at h
    simp only [hlo, hhi] at h
    split at h
    · rename_i he; left; simpa using he
    · right; simpa using h.symm

/-- …and a holder with at least one stated year keeps a year. -/
theorem C20_merge_year_kept (parsed : List Parsed) (stmt : Text) (h : yearsOf parsed stmt ≠ []) :
    (mergedYear (yearsOf parsed stmt)).isSome = true := by
  have h1 := yearMin_isSome h
  have h2 := yearMax_isSome h
  unfold mergedYear
  cases hlo : yearMin (yearsOf parsed stmt) with
  | none => simp [hlo] at h1
  | some lo =>
    cases hhi : yearMax (yearsOf parsed stmt) with
    | none => simp [hhi] at h2
    | some hi => simp only; split <;> rfl

/-! ### Merging, end to end on lines -/

/-- `_parse_copyright_year` reads the stated years back from the year text of a well-formed year form. -/
theorem C20_parse_year (y : YearForm) (hy : y.wf = true) : parseYear y.text = y.stated :=
  parseYear_text y hy

/-- **`merge_copyright_lines` on lines.**  Let every input line be a built notice
    `prefix [year] holder` with well-formed parts (`Notice.ok`: table prefix, year form `YYYY` /
    `YYYY[ ]-[ ]YYYY` / none, `WFHolderL` holder without a notice inside), for any number of lines,
    holders, prefixes and year forms.  Then the output
    * has no duplicates,
    * consists of merged lines of holders of the input and of nothing else,
    * contains a merged line for every holder of the input, and
    * contains only one line per holder as the tool's own reader sees it (two output lines with the
      same statement are the same line),
    where a merged line of `h` (`MergedLine`) is a built line — the most common prefix text of the
    holder's notices, which is a text of the prefix table; a well-formed year form; the holder —
    that the tool's reader reads back as exactly that prefix, year text and holder, whose year text
    `_parse_copyright_year` reads back as the stated ends, and whose year is absent iff no year was
    stated for `h`, else `lo` or `lo - hi` with `lo`, `hi` stated for `h` and
    `int(lo) ≤ int(y) ≤ int(hi)` for every year `y` stated for `h` in the input. -/
theorem C20_merge_lines (endRe : Re) (ns : List Notice) (hok : ∀ n ∈ ns, n.ok endRe) :
    (mergeLinesWith endRe (ns.map Notice.line)).Nodup ∧
    (∀ o ∈ mergeLinesWith endRe (ns.map Notice.line), ∃ n ∈ ns, MergedLine endRe ns n.holder o) ∧
    (∀ n ∈ ns, ∃ o ∈ mergeLinesWith endRe (ns.map Notice.line), MergedLine endRe ns n.holder o) ∧
    (∀ o ∈ mergeLinesWith endRe (ns.map Notice.line), ∀ o' ∈ mergeLinesWith endRe (ns.map Notice.line),
      (searchLineWith endRe o).map (·.statement) = (searchLineWith endRe o').map (·.statement) → o = o') := by
  have hrb : ReadBack endRe := fun x hx y hy h hw hn => C20_make_parse endRe x hx y hy h hw hn
  have hp := parseLines_notices endRe hrb ns hok
  have htab := C20_prefix_table.1
  have hmem : ∀ o, o ∈ mergeLinesWith endRe (ns.map Notice.line) ↔
      ∃ n ∈ ns, o = lineFor (ns.map Notice.parsed) n.holder := by
    intro o
    rw [C20_merge_holders, hp]
    constructor
    · rintro ⟨x, hx, rfl⟩
      obtain ⟨n, hn, rfl⟩ := List.mem_map.mp hx
      exact ⟨n, hn, rfl⟩
    · rintro ⟨n, hn, rfl⟩
      exact ⟨n.parsed, List.mem_map.mpr ⟨n, hn, rfl⟩, rfl⟩
  refine ⟨C20_merge_single_line endRe _, ?_, ?_, ?_⟩
  · intro o ho
    obtain ⟨n, hn, rfl⟩ := (hmem o).mp ho
    exact ⟨n, hn, lineFor_merged endRe hrb ns hok htab n hn⟩
  · intro n hn
    exact ⟨_, (hmem _).mpr ⟨n, hn, rfl⟩, lineFor_merged endRe hrb ns hok htab n hn⟩
  · intro o ho o' ho' hs
    obtain ⟨n, hn, rfl⟩ := (hmem o).mp ho
    obtain ⟨n', hn', rfl⟩ := (hmem o').mp ho'
    obtain ⟨_, _, _, _, _, hr, _⟩ := lineFor_merged endRe hrb ns hok htab n hn
    obtain ⟨_, _, _, _, _, hr', _⟩ := lineFor_merged endRe hrb ns hok htab n' hn'
    rw [hr, hr'] at hs
    simp only [Option.map_some, Option.some.injEq] at hs
    rw [hs]

/-- **`merge_copyright_lines` as it runs** (`mergeLines`: the loop over `sorted(copyright_lines)`, so that the
    result is a function of the set — fixes/c10-merge-order.diff, `C10.C10_merge_order`).  `C20_merge_lines` holds
    for the loop on every order of the notices, in particular the sorted one; and what a merged line of a holder is
    (`MergedLine`: most common prefix, year span) depends on the notices only as a multiset.  So the four
    conclusions hold for `mergeLines` in terms of the notices as given. -/
theorem C20_merge_lines_sorted (endRe : Re) (ns : List Notice) (hok : ∀ n ∈ ns, n.ok endRe) :
    (mergeLinesWith endRe (sortTexts (ns.map Notice.line))).Nodup ∧
    (∀ o ∈ mergeLinesWith endRe (sortTexts (ns.map Notice.line)), ∃ n ∈ ns, MergedLine endRe ns n.holder o) ∧
    (∀ n ∈ ns, ∃ o ∈ mergeLinesWith endRe (sortTexts (ns.map Notice.line)), MergedLine endRe ns n.holder o) ∧
    (∀ o ∈ mergeLinesWith endRe (sortTexts (ns.map Notice.line)),
      ∀ o' ∈ mergeLinesWith endRe (sortTexts (ns.map Notice.line)),
      (searchLineWith endRe o).map (·.statement) = (searchLineWith endRe o').map (·.statement) → o = o') := by
  have hp := C20L.sortNotices_perm ns
  rw [← C20L.sortNotices_map]
  obtain ⟨h1, h2, h3, h4⟩ := C20_merge_lines endRe (C20L.sortNotices ns) (fun n hn => hok n (hp.mem_iff.mp hn))
  refine ⟨h1, ?_, ?_, h4⟩
  · intro o ho
    obtain ⟨n, hn, hm⟩ := h2 o ho
    exact ⟨n, hp.mem_iff.mp hn, C20L.mergedLine_perm hp hm⟩
  · intro n hn
    obtain ⟨o, ho, hm⟩ := h3 n (hp.mem_iff.mpr hn)
    exact ⟨o, ho, C20L.mergedLine_perm hp hm⟩

/-- … with the generated END pattern this is `mergeLines` -/
theorem C20_merge_lines_code (ns : List Notice) (hok : ∀ n ∈ ns, n.ok Generated.endRe) :
    (mergeLines (ns.map Notice.line)).Nodup ∧
    (∀ o ∈ mergeLines (ns.map Notice.line), ∃ n ∈ ns, MergedLine Generated.endRe ns n.holder o) ∧
    (∀ n ∈ ns, ∃ o ∈ mergeLines (ns.map Notice.line), MergedLine Generated.endRe ns n.holder o) :=
  let h := C20_merge_lines_sorted Generated.endRe ns hok
  ⟨h.1, h.2.1, h.2.2.1⟩

/-- no holder is lost by `mergeLines` either: the loop sees every line of the set -/
theorem C20_merge_no_holder_lost_sorted (endRe : Re) (lines : List Text) (l : Text) (m : CMatch)
    (hl : l ∈ lines) (hm : searchLineWith endRe l = some m) :
    lineFor (parseLines endRe (sortTexts lines)) m.statement ∈ mergeLinesWith endRe (sortTexts lines) ∧
      m.statement <:+ lineFor (parseLines endRe (sortTexts lines)) m.statement :=
  C20_merge_no_holder_lost endRe (sortTexts lines) l m ((C10Order.sortTexts_perm lines).mem_iff.mpr hl) hm

/-- the hypotheses of `C20_merge_lines` are satisfiable with several lines of one holder, different
    prefixes and year forms (here with an END pattern that only knows `}`; the tie stream
    `mergetheorem` evaluates them with the generated END pattern) -/
example : ∀ n ∈ [
      (⟨("Copyright (C)".toList, CPat.word, " (C)".toList), .single "2019".toList, "Copyrighted Works Ltd.".toList⟩ : Notice),
      ⟨("©".toList, CPat.sign, []), .range "2016".toList false true "2021".toList, "Copyrighted Works Ltd.".toList⟩,
      ⟨("SPDX-FileCopyrightText:".toList, CPat.spdx, []), .none, "Jane Doe <jane@example.com>".toList⟩],
    n.ok (Re.chr '}') := by
  have hbt : ∀ (c : Char) (cs : Text), c ≠ '}' → endAccepts (Re.chr '}') (c :: cs) = false := by
    intro c cs h
    have : ('}' == c) = false := by simpa using fun e : '}' = c => h e.symm
    simp [endAccepts, Re.bt, this]
  intro n hn
  simp only [List.mem_cons, List.not_mem_nil, or_false] at hn
  rcases hn with rfl | rfl | rfl <;>
    refine ⟨by simp [prefixShapes], by decide, ?_, by decide⟩ <;>
    simp [WFHolderL, noEndSuffix, hbt, parenStart, hasTag, dashYear, isReSpace, isReDigit, Re.inRanges,
      Generated.spaceRanges, Generated.digitRanges] <;> decide

/-! ### `get_year` (cli/annotate.py): the year an `annotate` run puts into its notices -/

section GetYear
open Model.AE

/-- **What `get_year` computes** (`Model.AE.yearOf`, the year rule of the composed annotate model):
    `--exclude-year` gives no year; no `--year` gives the current year; one `--year` gives that
    value verbatim (any string: nothing validates it); several give `min - max` of the values
    *as strings* (code point order), both ends being given values — also when all values are
    equal (`2020 - 2020`). -/
theorem C20_get_year (w : World) (o : Opts) :
    (o.excludeYear = true → yearOf w o = none) ∧
    (o.excludeYear = false → o.years = [] → yearOf w o = some w.curYear) ∧
    (o.excludeYear = false → ∀ y, o.years = [y] → yearOf w o = some y) ∧
    (o.excludeYear = false → ∀ y y' ys, o.years = y :: y' :: ys →
      yearOf w o = some (minText y (y' :: ys) ++ " - ".toList ++ maxText y (y' :: ys)) ∧
      minText y (y' :: ys) ∈ o.years ∧ maxText y (y' :: ys) ∈ o.years) := by
  refine ⟨?_, ?_, ?_, ?_⟩
  · intro h; simp [yearOf, h]
  · intro h hy; simp [yearOf, h, hy]
  · intro h y hy; simp [yearOf, h, hy]
  · intro h y y' ys hy
    refine ⟨by simp [yearOf, h, hy], ?_, ?_⟩
    · rw [hy]; exact minText_mem _ _
    · rw [hy]; exact maxText_mem _ _

/-- **String order = numeric order on four-digit ASCII years.** -/
theorem C20_year_order_ascii (a b : Text) (ha : asciiYear a = true) (hb : asciiYear b = true) :
    textLt a b = decide (yearVal a < yearVal b) := textLt_ascii ha hb

/-- Several `--year` values that are four ASCII digits each: the year is the well-formed range
    `lo - hi` (blank, dash, blank — a year form of the read-back theorem) whose ends are given
    values and enclose every given value numerically. -/
theorem C20_get_year_ascii (w : World) (o : Opts) (hex : o.excludeYear = false)
    (y y' : Text) (ys : List Text) (hy : o.years = y :: y' :: ys) (hall : ∀ t ∈ o.years, asciiYear t = true) :
    ∃ lo ∈ o.years, ∃ hi ∈ o.years,
      yearOf w o = (YearForm.range lo true true hi).text ∧ (YearForm.range lo true true hi).wf = true ∧
      ∀ t ∈ o.years, yearVal lo ≤ yearVal t ∧ yearVal t ≤ yearVal hi := by
  obtain ⟨_, _, _, h4⟩ := C20_get_year w o
  obtain ⟨he, hlo, hhi⟩ := h4 hex y y' ys hy
  refine ⟨_, hlo, _, hhi, ?_, ?_, ?_⟩
  · rw [he]; simp [YearForm.text]
  · simp [YearForm.wf, asciiYear_fourDigits (hall _ hlo), asciiYear_fourDigits (hall _ hhi)]
  · intro t ht
    rw [hy] at hall ht
    exact ⟨minText_ascii _ _ hall t ht, maxText_ascii _ _ hall t ht⟩

/-- With four-digit ASCII `--year` values (and a four-digit clock) the year of an `annotate` run is
    always one of the year forms of the read-back theorem … -/
theorem C20_get_year_form (w : World) (o : Opts) (hcur : fourDigits w.curYear = true)
    (hall : ∀ t ∈ o.years, asciiYear t = true) : ∃ yf : YearForm, yf.wf = true ∧ yearOf w o = yf.text := by
  obtain ⟨h1, h2, h3, _⟩ := C20_get_year w o
  cases hex : o.excludeYear with
  | true => exact ⟨.none, rfl, h1 hex⟩
  | false =>
    match hy : o.years with
    | [] => exact ⟨.single w.curYear, hcur, h2 hex hy⟩
    | [y] => exact ⟨.single y, asciiYear_fourDigits (hall y (by rw [hy]; simp)), h3 hex y hy⟩
    | y :: y' :: ys =>
      obtain ⟨lo, _, hi, _, he, hwf, _⟩ := C20_get_year_ascii w o hex y y' ys hy hall
      exact ⟨_, hwf, he⟩

/-- … hence every notice the run builds for a well-formed holder (`get_reuse_info`:
    `make_copyright_line(holder, year = get_year(…), prefix)`) is read back by the tool's reader
    with exactly the prefix, the year `get_year` computed and the holder. -/
theorem C20_annotate_notice (endRe : Re) (w : World) (o : Opts) (hcur : fourDigits w.curYear = true)
    (hall : ∀ t ∈ o.years, asciiYear t = true) (x : Text × CPat × Text) (hx : x ∈ prefixShapes)
    (h : Text) (hw : WFHolderL endRe h = true) (hn : noNoticeInside h = true) :
    searchLineWith endRe (makeLineWith endRe h (yearOf w o) x.1) =
      some { pref := x.1, year := yearOf w o, statement := h, whole := makeLineWith endRe h (yearOf w o) x.1 } := by
  obtain ⟨yf, hwf, he⟩ := C20_get_year_form w o hcur hall
  rw [he]
  exact (C20_make_then_parse endRe x hx yf hwf h hw hn).2

/-- outside four-digit years the string order is what the code uses, not the numeric one:
    `--year 999 --year 2020` gives `2020 - 999`; equal values give a degenerate range -/
example : minText "999".toList ["2020".toList] = "2020".toList ∧ maxText "999".toList ["2020".toList] = "999".toList ∧
    minText "2020".toList ["2020".toList] = maxText "2020".toList ["2020".toList] := by decide
example : asciiYear "2019".toList = true ∧ asciiYear "999".toList = false ∧ asciiYear "２０１６".toList = false := by decide

end GetYear

example : (YearForm.range "2019".toList true true "2021".toList).wf = true := by decide
example : ("Copyright (C)".toList, CPat.word, " (C)".toList) ∈ prefixShapes := by simp [prefixShapes]

/-- digits of another script are compared by value: the witness that string comparison got wrong -/
example : mergedYear ["2019".toList, "2023".toList, "２０１６".toList] = some ("２０１６ - 2023".toList) := by decide
example : yearVal "２０１６".toList = 2016 ∧ yearVal "٢٠٢٠".toList = 2020 := by decide

end C20
