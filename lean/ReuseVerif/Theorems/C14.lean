/-
Property C14 — results do not depend on scheduling, enumeration order, hash
seed or root spelling.

Every order the program does not control is a parameter of the model
(`Model/Aggregate.lean`); each theorem says that the observable result is the
same for every value of that parameter.  Which process handles which file,
fork/pickle, the per-worker re-parse of `.reuse/dep5` and the hash seed itself
are run-time facts: they are covered by the correspondence runs only.
-/
import ReuseVerif.Lemmas.AggregateMain
import ReuseVerif.Generated.EndPattern
import ReuseVerif.Lemmas.NamesMain

namespace C14
open Model Model.Agg Py List

/-- Scheduling.  The normalised project report is the same for every order in which the
    per-file results reach the loop of `ProjectReport.generate` (serial map, pool, any
    chunking, any completion order) and every order in which `project.licenses` is iterated
    (the order `glob` found the files in LICENSES/). -/
theorem C14_files_perm (ctx : LicCtx) (lics' : List (String × String)) {rs rs' : List FileResult}
    (h : rs ~ rs') (hl : ctx.licenses ~ lics') :
    normalise ctx (aggregate ctx rs) =
      normalise { ctx with licenses := lics' } (aggregate { ctx with licenses := lics' } rs') :=
  normalise_congr hl (aggregate_perm rfl rfl hl h)

/-- …in particular for results delivered in chunks that are concatenated in any order. -/
theorem C14_files_chunks (ctx : LicCtx) (rs : List FileResult) (chunks : List (List FileResult))
    (h : chunks.flatten ~ rs) :
    normalise ctx (aggregate ctx chunks.flatten) = normalise ctx (aggregate ctx rs) :=
  C14_files_perm ctx ctx.licenses h (.refl _)

/-- Enumeration order.  Whatever order `σ` the file system lists each directory in (at every
    level of a tree of any depth), the walk yields the same files, each as often. -/
theorem C14_walk_perm (σ : List (String × Node) → List (String × Node)) (hσ : ∀ l, σ l ~ l)
    (cfg : WalkCfg) (rootName : String) (cs : List (String × Node)) :
    iterFilesReordered σ cfg rootName cs ~ iterFiles cfg rootName cs := by
  unfold iterFilesReordered iterFiles
  exact (walkList_perm cfg _ _ (hσ _)).trans (walkList_reorder σ hσ cfg cs _ _)

/-- …so the covered set is the same. -/
theorem C14_walk_set (σ : List (String × Node) → List (String × Node)) (hσ : ∀ l, σ l ~ l)
    (cfg : WalkCfg) (rootName : String) (cs : List (String × Node)) (p : List String) :
    p ∈ iterFilesReordered σ cfg rootName cs ↔ p ∈ iterFiles cfg rootName cs :=
  (C14_walk_perm σ hσ cfg rootName cs).mem_iff

/-- REUSE.toml files.  With at most one REUSE.toml per directory, `_find_relevant_tomls`
    returns the same list whatever order the walk found the files in. -/
theorem C14_tomls_perm {tomls tomls' : List Toml} (path : List String)
    (hn : (tomls.map (·.dir)).Nodup) (h : tomls ~ tomls') :
    findRelevantTomls tomls path = findRelevantTomls tomls' path := by
  unfold findRelevantTomls
  refine sortToml_perm ?_ (h.filter _)
  exact hn.sublist ((List.filter_sublist (l := tomls)).map _)

/-- LICENSES/.  `_find_licenses` fails (two files with one identifier) for every order in which
    `glob` lists the files or for none, and when it succeeds the dictionaries hold the same entries. -/
theorem C14_licenses_perm (ident : String → String) {ps ps' : List String} (h : ps ~ ps') :
    (findLicenses ident ps = none ↔ findLicenses ident ps' = none) ∧
    ∀ d d', findLicenses ident ps = some d → findLicenses ident ps' = some d' → d ~ d' := by
  rw [findLicenses_eq, findLicenses_eq]
  have hn : (ps.map ident).Nodup ↔ (ps'.map ident).Nodup := (h.map ident).nodup_iff
  by_cases h1 : (ps.map ident).Nodup
  · have h2 := hn.mp h1
    simp only [h1, h2, if_true, Option.some.injEq, reduceCtorEq, true_and]
    rintro d d' rfl rfl
    exact h.map _
  · have h2 : ¬ (ps'.map ident).Nodup := fun x => h1 (hn.mpr x)
    simp [h1, h2]

/-- Hash seed.  The repaired END pattern — one starred alternation — matches the same
    strings whatever order the alternatives are written in. -/
theorem C14_end_perm {alts alts' : List Re} (h : alts ~ alts') (s : Text) :
    matchesEnd alts s = matchesEnd alts' s := by
  have key : ∀ {a b : List Re}, a ~ b → ∀ t, Re.Matches (altList a) t → Re.Matches (altList b) t := by
    intro a b hab t ht
    obtain ⟨x, hx, hm⟩ := matches_altList.mp ht
    exact matches_altList.mpr ⟨x, hab.mem_iff.mp hx, hm⟩
  rw [Bool.eq_iff_iff]
  unfold matchesEnd endStarAlt
  rw [Re.fullMatch_iff, Re.fullMatch_iff]
  exact ⟨matches_star_congr (key h), matches_star_congr (key h.symm)⟩

/-- …for the table generated from the source in particular. -/
theorem C14_end_generated {alts' : List Re} (h : Generated.endAlternatives ~ alts') (s : Text) :
    matchesEnd Generated.endAlternatives s = matchesEnd alts' s :=
  C14_end_perm h s

/-- The previous shape `(?:e1)*(?:e2)*…` is NOT order-independent: with the alternatives `*/`
    and `-->`, the line end made of the first followed by the second is matched in one order
    and not in the other. -/
theorem C14_end_seq_order_witness :
    matchesEndSeq [Re.lit "*/".toList, Re.lit "-->".toList] "*/-->".toList = true ∧
    matchesEndSeq [Re.lit "-->".toList, Re.lit "*/".toList] "*/-->".toList = false := by
  constructor
  · unfold matchesEndSeq endSeqStars
    rw [Re.fullMatch_iff]
    have h1 : Re.Matches (.star (Re.lit "*/".toList)) "*/".toList := by
      simpa using Re.Matches.starCons (Re.matches_lit.mpr rfl) .starNil
    have h2 : Re.Matches (.star (Re.lit "-->".toList)) "-->".toList := by
      simpa using Re.Matches.starCons (Re.matches_lit.mpr rfl) .starNil
    exact matches_seq_cons.mpr ⟨_, _, rfl, h1,
      matches_seq_cons.mpr ⟨_, _, (List.append_nil _).symm, h2, Re.matches_seq_nil.mpr rfl⟩⟩
  · rw [Bool.eq_false_iff]
    unfold matchesEndSeq endSeqStars
    rw [Ne, Re.fullMatch_iff]
    intro h
    -- a star of a literal matches the empty string or something that starts with the literal
    have star_lit : ∀ (w u : Text), Re.Matches (.star (Re.lit w)) u → u = [] ∨ ∃ v, u = w ++ v ∧
        Re.Matches (.star (Re.lit w)) v := by
      intro w u hu
      generalize hq : Re.star (Re.lit w) = q at hu
      induction hu with
      | starNil => exact .inl rfl
      | starCons h1 h2 _ _ =>
        cases hq
        rw [Re.matches_lit.mp h1]
        exact .inr ⟨_, rfl, h2⟩
      | _ => cases hq
    obtain ⟨u, v, e, hu, hv⟩ := matches_seq_cons.mp h
    obtain ⟨u2, v2, e2, hu2, hv2⟩ := matches_seq_cons.mp hv
    have hv2' := Re.matches_seq_nil.mp hv2
    subst hv2'
    simp only [List.append_nil] at e2
    subst e2
    rcases star_lit _ _ hu with rfl | ⟨u', rfl, _⟩
    · simp only [List.nil_append] at e
      subst e
      rcases star_lit _ _ hu2 with h0 | ⟨v', e', hv'⟩
      · simp at h0
      · have e'' : v' = "-->".toList := by simpa using e'.symm
        subst e''
        rcases star_lit _ _ hv' with h0 | ⟨_, e3, _⟩
        · simp at h0
        · simp at e3
    · simp at e

/-- Root spelling, part 1.  Every path the tool handles is `root / rel` for the root exactly as
    it was spelt; taking it relative to that same spelling gives `rel` back — for every spelling
    (relative, absolute, with `..`, with doubled or trailing slashes). -/
theorem C14_root_relative (spelling : Text) (rel : List String) :
    relativeTo (joinRel (parsePath spelling) rel) (parsePath spelling) = some rel := by
  simp [relativeTo, joinRel, stripPrefix_append]

/-- a project-relative path: no `..` component -/
def relClean (rel : List String) : Bool := !rel.contains ".."

/-- Root spelling, part 2.  Two spellings that denote the same directory (from the same or from
    different working directories) denote the same file for every project-relative path, and
    name it by the same project-relative path. -/
theorem C14_root (cwd₁ cwd₂ : List String) (s₁ s₂ : Text) (rel : List String)
    (hrel : relClean rel = true)
    (hsame : resolve cwd₁ (parsePath s₁) = resolve cwd₂ (parsePath s₂)) :
    resolve cwd₁ (joinRel (parsePath s₁) rel) = resolve cwd₂ (joinRel (parsePath s₂) rel) ∧
    relativeTo (joinRel (parsePath s₁) rel) (parsePath s₁) =
      relativeTo (joinRel (parsePath s₂) rel) (parsePath s₂) := by
  have hc : ".." ∉ rel := by simpa [relClean] using hrel
  refine ⟨?_, by rw [C14_root_relative, C14_root_relative]⟩
  rw [resolve_joinRel _ _ _ hc, resolve_joinRel _ _ _ hc, hsame]

/-- Root spelling, part 3.  The walk from the root yields the same files for every spelling of
    the root and every enumeration order (the repaired walk does not consult the spelling). -/
theorem C14_root_walk (σ : List (String × Node) → List (String × Node)) (hσ : ∀ l, σ l ~ l)
    (cfg : WalkCfg) (s₁ s₂ : Text) (cs : List (String × Node)) :
    iterFilesFromRoot σ cfg (parsePath s₁) cs ~ iterFilesFromRoot id cfg (parsePath s₂) cs := by
  unfold iterFilesFromRoot
  exact (C14_walk_perm σ hσ cfg "" cs).trans (C14_walk_perm id (fun _ => .refl _) cfg "" cs).symm

/-- The previous behaviour was NOT independent of the spelling: for a project directory named
    `subprojects`, the top-level directory `d` is pruned as a Meson subproject when the root is
    given as `/x/subprojects` and walked when it is given as `.`. -/
theorem C14_root_name_witness :
    let cfg : WalkCfg := { includeSubmodules := false, includeMeson := false, includeReuseTomls := false,
                           vcsIgnored := fun _ => false, isSubmodule := fun _ => false }
    dirIgnored cfg [] (rootNameOf (parsePath "/x/subprojects".toList)) "d" = true ∧
    dirIgnored cfg [] (rootNameOf (parsePath ".".toList)) "d" = false := by
  intro cfg
  have r1 : rootNameOf (parsePath "/x/subprojects".toList) = "subprojects" := by decide
  have r2 : rootNameOf (parsePath ".".toList) = "" := by decide
  have m1 : anyPattern Generated.ignoreMesonParentPatterns "subprojects" = true :=
    (meson_name_rule "subprojects".toList (by decide)).mpr rfl
  have m2 : anyPattern Generated.ignoreMesonParentPatterns "" = false := by
    rw [Bool.eq_false_iff]; exact fun h => by
      have := (meson_name_rule "".toList (by decide)).mp h; simp at this
  have d0 : anyPattern Generated.ignoreDirPatterns "d" = false := by
    rw [Bool.eq_false_iff]; exact fun h => by
      have := (dir_name_rule "d".toList (by decide)).mp h; simp at this
  rw [r1, r2]
  constructor
  · simp [dirIgnored, m1, cfg]
  · simp [dirIgnored, m2, d0, cfg]

-- Non-vacuity.
example : [("a", "1"), ("b", "2")] ~ [("b", "2"), ("a", "1")] := .swap _ _ _
example : ([⟨["src"], 1⟩, ⟨[], 0⟩, ⟨["src", "deep"], 2⟩] : List Toml).map (·.dir) |>.Nodup := by decide
example : relClean ["src", "a.py"] = true := by decide
example : resolve ["home", "u", "proj"] (parsePath "./x/../".toList) =
    resolve ["tmp"] (parsePath "/home/u/proj/".toList) := by decide
example : ∀ l : List (String × Node), l.reverse ~ l := fun l => List.reverse_perm l
example : [Re.lit "*/".toList, Re.lit "-->".toList] ~ [Re.lit "-->".toList, Re.lit "*/".toList] := .swap _ _ _

end C14
