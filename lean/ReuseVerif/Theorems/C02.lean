/-
Property C02 — licence, copyright and contributor tags are read exactly, in any comment syntax.
-/
import ReuseVerif.Spec.Tags

namespace C02
open Py Model Spec

/-- A file holding an unparseable licence expression contributes nothing at all. -/
theorem C02_parse_error_drops_all (parses : Text → Bool) (text : Text)
    (h : ∃ x ∈ (extractRaw text).lic, parses x = false) :
    infoOfDecoded parses text = Extracted.empty := by
  obtain ⟨x, hx, hp⟩ := h
  unfold infoOfDecoded extractInfo
  have : (extractRaw text).lic.all parses = false := by
    apply Bool.eq_false_iff.mpr
    intro hall
    rw [List.all_eq_true] at hall
    rw [hall x hx] at hp
    cases hp
  simp [this]

end C02
