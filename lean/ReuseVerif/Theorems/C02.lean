/-
Property C02 — licence, copyright and contributor tags are read exactly, in any comment syntax.

The reader is `Model.findSpdxTagWith endRe tag` (mirror of `^(.*?)TAG[ \t]+(.*?)END$` with
`findall`, then the loop body of `find_spdx_tag`), `Model.searchLineWith` for the three
copyright patterns, `Model.infoOfFile` for the window / decoder / parse-error logic of
`reuse_info_of_file`.  A physical tag line is `pre ++ tag ++ blanks ++ w ++ trail ++ le`
(`Spec/Tags.lean`).  The theorems hold for every END expression `endRe` (in particular the one
generated from the source, `Generated.endRe`) and are unbounded in the value, the decoration and
the number of stacked terminators.
-/
import ReuseVerif.Lemmas.TagsClean
import ReuseVerif.Lemmas.TagsEnd
import ReuseVerif.Lemmas.TagsCopyright
import ReuseVerif.Lemmas.TagsText
import ReuseVerif.Lemmas.Window
import ReuseVerif.Lemmas.Merge
import ReuseVerif.Lemmas.C02Lines
import ReuseVerif.Lemmas.C02TailSafe
import ReuseVerif.Lemmas.C02Copyright
import ReuseVerif.Lemmas.C02Extract
import ReuseVerif.Lemmas.C02Blocks
import ReuseVerif.Lemmas.C02Window
import ReuseVerif.Lemmas.C09LineEndings
import ReuseVerif.Theorems.C12
import ReuseVerif.Theorems.C20

namespace C02
open Py Model Spec

/-! ### the value is read exactly -/

/-- The regular expression captures exactly `(pre, w)` on a well-formed line. -/
theorem C02_tag_match_exact (endRe : Re) (tag pre blanks w trail le : Text)
    (h : WFRaw endRe tag pre blanks w trail le = true) :
    findAllWith endRe tag ((tagLine pre tag blanks w trail le).length + 1) (tagLine pre tag blanks w trail le) =
      [(pre, w)] :=
  findAll_line endRe tag pre blanks w trail le _ h

/-- **Read-back of a tag value.**  For every END expression, every tag, every line prefix without
    an earlier `TAG[ \t]`, any positive number of blanks and tabs, every value `v` satisfying
    `WFValue` and every trail that END accepts up to the line end: `find_spdx_tag` returns exactly
    `[v]`.  Nothing of the decoration becomes part of the value and nothing of the value is lost. -/
theorem C02_tag_value_exact (endRe : Re) (tag pre blanks v trail le : Text)
    (h : WFValue endRe tag pre blanks v trail le = true) :
    findSpdxTagWith endRe tag (tagLine pre tag blanks v trail le) = [v] := by
  unfold WFValue at h
  simp only [Bool.and_eq_true] at h
  obtain ⟨⟨hraw, hs⟩, hf⟩ := h
  unfold findSpdxTagWith
  rw [findAll_line endRe tag pre blanks v trail le _ hraw]
  simp only [List.map_cons, List.map_nil, cleanTag_plain pre v hs hf]

/-- the hypotheses are satisfiable: ` * SPDX-License-Identifier: \t(MIT AND BSD-3-Clause) OR GPL-2.0+ \t*/ --> ` + "\n" -/
example : WFValue Generated.endRe Generated.licenseTag " * ".toList " \t".toList
    "(MIT AND BSD-3-Clause) OR GPL-2.0+".toList
    ([" ".toList, "\t".toList, "*/".toList, " ".toList, "-->".toList, " ".toList] : List Text).flatten "\n".toList = true :=
  wfValue_of_safe_last Generated.endRe _ rfl _ _ _ _ _ _ (by decide +kernel) (by decide +kernel) (by decide +kernel)
    (by decide +kernel) (by decide +kernel)

/-- **ASCII-art frames.**  When the value is followed by white space and the mirror image of the
    (stripped) line prefix, exactly that mirrored frame is removed: the result is `[v]`. -/
theorem C02_frame (endRe : Re) (tag pre blanks v ws trail le : Text)
    (h : WFFramed endRe tag pre blanks v ws trail le = true) :
    findSpdxTagWith endRe tag (tagLine pre tag blanks (v ++ ws ++ mirror pre) trail le) = [v] := by
  unfold WFFramed at h
  simp only [Bool.and_eq_true, Bool.not_eq_true'] at h
  obtain ⟨⟨⟨⟨hraw, hs⟩, hne⟩, hws⟩, hm⟩ := h
  unfold findSpdxTagWith
  rw [findAll_line endRe tag pre blanks _ trail le _ hraw]
  simp only [List.map_cons, List.map_nil, cleanTag_framed pre v ws hs hne hws hm]

/-- the hypotheses are satisfiable: the LLVM frame `|*  SPDX-License-Identifier: MIT  *|` -/
example : WFFramed Generated.endRe Generated.licenseTag "|*  ".toList " ".toList "MIT".toList "  ".toList
    ([] : List Text).flatten "\n".toList = true := by
  have h := wfRaw_of_safe_last Generated.endRe _ rfl Generated.licenseTag "|*  ".toList " ".toList
    ("MIT".toList ++ "  ".toList ++ mirror "|*  ".toList) "\n".toList [] (by decide +kernel) (by decide +kernel) (by decide +kernel)
  simp only [WFFramed, h, Bool.true_and, Bool.and_eq_true, Bool.not_eq_true']
  decide +kernel

/-- … and the frame rule never touches a stripped value that does not itself end like the frame. -/
theorem C02_frame_never_in_wf_value (pre v : Text) (hs : isStripped v = true) (hf : frameFree pre v = true) :
    cleanTag (pre, v) = v := cleanTag_plain pre v hs hf

/-! ### comment terminators never become part of the value -/

/-- **Stacked terminators.**  Whatever sequence of pieces follows the value — each a blank, a tab
    or a terminator that END lists as a literal alternative, in any number and any order — the
    result is still exactly `[v]`, provided no tail of `v` itself reads as terminators in this
    line (`noEndSuffixBefore`). -/
theorem C02_terminators_never_in_value (endRe body : Re) (hstar : starBody endRe = some body)
    (tag pre blanks v le : Text) (pieces : List Text)
    (hp : ∀ p ∈ pieces, pieceOk body p = true)
    (hshape : WFShape tag pre blanks v pieces.flatten le = true)
    (hv : noEndSuffixBefore endRe v (pieces.flatten ++ le) = true)
    (hs : isStripped v = true) (hf : frameFree pre v = true) :
    findSpdxTagWith endRe tag (tagLine pre tag blanks v pieces.flatten le) = [v] := by
  apply C02_tag_value_exact
  have hle : isLineEnd le = true := by
    unfold WFShape at hshape; simp only [Bool.and_eq_true] at hshape; exact hshape.2
  have hend : endOk endRe (pieces.flatten ++ le) = true := by
    rw [starBody_eq hstar]; exact endOk_pieces body pieces le hp hle
  simp [WFValue, WFRaw, hshape, hend, hv, hs, hf]

/-- The same with purely syntactic hypotheses: a value whose last character is one END can never
    consume (a letter, a digit, `.`, `+`, … — `mayUse` is computed from the expression) is read
    exactly, whatever terminators are stacked after it. -/
theorem C02_terminators_safe_last (endRe body : Re) (hstar : starBody endRe = some body)
    (tag pre blanks v le : Text) (pieces : List Text)
    (hp : ∀ p ∈ pieces, pieceOk body p = true)
    (hshape : WFShape tag pre blanks v pieces.flatten le = true)
    (hlast : ∀ c, v.getLast? = some c → mayUse endRe c = false)
    (hs : isStripped v = true) (hf : frameFree pre v = true) :
    findSpdxTagWith endRe tag (tagLine pre tag blanks v pieces.flatten le) = [v] := by
  have hnl : noNewline v = true := by
    unfold WFShape at hshape; simp only [Bool.and_eq_true] at hshape; exact hshape.1.1.2
  exact C02_terminators_never_in_value endRe body hstar tag pre blanks v le pieces hp hshape
    (noEndSuffix_of_last endRe v _ hnl hlast) hs hf

example : ∃ body, starBody Generated.endRe = some body ∧
    (∀ p ∈ [" ".toList, "*/".toList, "\t".toList, "-->".toList, "#}".toList, " ".toList], pieceOk body p = true) := by
  refine ⟨_, rfl, ?_⟩
  decide +kernel

/-- **Table obligation.**  The END expression generated from the source lists the multi-line
    terminator of every style of the generated style table (adding a style whose terminator END
    does not know breaks this). -/
theorem C02_end_generated : endCoversStyles Generated.endRe Generated.styles = true := by decide +kernel

/-- … hence the terminator of every style, alone after a value, reaches the line end. -/
theorem C02_style_terminator_accepted (s : Generated.Style) (hs : s ∈ Generated.styles) (hne : s.mEnd.isEmpty = false)
    (le : Text) (hle : isLineEnd le = true) : endOk Generated.endRe (s.mEnd ++ le) = true := by
  have h := C02_end_generated
  unfold endCoversStyles at h
  cases hb : starBody Generated.endRe with
  | none => rw [hb] at h; cases h
  | some body =>
    rw [hb] at h
    simp only [List.all_eq_true, Bool.or_eq_true] at h
    have := (h s hs).resolve_left (by rw [hne]; exact Bool.false_ne_true)
    have hp : ∀ p ∈ [s.mEnd], pieceOk body p = true := by
      intro p hp; simp only [List.mem_singleton] at hp; subst hp; simp [pieceOk, this]
    have := endOk_pieces body [s.mEnd] le hp hle
    rw [starBody_eq hb]
    simpa using this

/-! ### a text of several tag lines -/

/-- **Several tag lines.**  `findall` resumes after each match: for a text made of any number of
    tag lines, each well formed in its place (`WFLines`: the one-line hypotheses read with the rest
    of the text following the line, and END stopping at the end of its own line), the result is
    the list of the values, in order. -/
theorem C02_tag_lines (endRe : Re) (tag : Text) (ls : List TagLineSpec) (h : WFLines endRe tag ls = true) :
    findSpdxTagWith endRe tag (linesText tag ls) = ls.map (·.v) := by
  unfold findSpdxTagWith
  rw [findAll_lines endRe tag ls _ h (Nat.le_succ_of_le (linesText_length tag ls)), List.map_map]
  exact wfLines_clean endRe tag ls h

/-- the hypotheses are satisfiable: `# SPDX-License-Identifier: MIT` / `// SPDX-License-Identifier: \tGPL-2.0+` -/
example : WFLines Generated.endRe Generated.licenseTag
    [⟨"# ".toList, " ".toList, "MIT".toList, []⟩, ⟨"// ".toList, " \t".toList, "GPL-2.0+".toList, []⟩] = true := by
  have hnil : Re.Matches Generated.endRe [] := Re.Matches.starNil
  have hs := fun rest => endStopsAt_nil Generated.endRe rest (by decide +kernel) (by decide +kernel) hnil
  have h1 := fun tail => noEndSuffix_of_last Generated.endRe "MIT".toList tail (by decide +kernel) (by decide +kernel)
  have h2 := fun tail => noEndSuffix_of_last Generated.endRe "GPL-2.0+".toList tail (by decide +kernel) (by decide +kernel)
  simp only [WFLines, hs, h1, h2, Bool.and_true, Bool.true_and]
  decide +kernel

/-- **A tag line anywhere in a text.**  After any number of lines in which no `TAG[ \t]` starts
    and before *any* continuation of the text, a tag line whose value ends in a character END
    cannot consume and whose trail consists of listed terminators and blanks contributes its
    value (purely syntactic hypotheses; nothing is assumed about what follows the line). -/
theorem C02_tag_found_in_text (endRe body : Re) (hstar : starBody endRe = some body) (tag : Text) (hnl : '\n' ∉ tag)
    (ls : List Text) (hfree : ∀ l ∈ ls, tagFreeLine tag l = true)
    (pre blanks v after : Text) (pieces : List Text) (hp : ∀ p ∈ pieces, pieceOk body p = true)
    (hshape : WFShape tag pre blanks v pieces.flatten ['\n'] = true)
    (hlast : ∀ c, v.getLast? = some c → mayUse endRe c = false)
    (hs : isStripped v = true) (hf : frameFree pre v = true) :
    v ∈ findSpdxTagWith endRe tag (joinLines ls ++ (tagLine pre tag blanks v pieces.flatten ['\n'] ++ after)) := by
  have hnlv : noNewline v = true := by
    have h := hshape; unfold WFShape at h; simp only [Bool.and_eq_true] at h; exact h.1.1.2
  have hend : endOk endRe (pieces.flatten ++ '\n' :: after) = true := by
    rw [starBody_eq hstar]
    exact matchEnd_complete (matches_pieces body pieces hp) rfl
  have htext : tagLine pre tag blanks v pieces.flatten ['\n'] ++ after =
      pre ++ tag ++ blanks ++ v ++ pieces.flatten ++ '\n' :: after := by
    simp [tagLine, List.append_assoc]
  unfold findSpdxTagWith
  rw [htext]
  exact List.mem_map.mpr ⟨(pre, v),
    findAll_found endRe tag hnl ls pre blanks v pieces.flatten after hfree hshape hend
      (noEndSuffix_of_last endRe v _ hnlv hlast), cleanTag_plain pre v hs hf⟩

/-! ### the finer condition on the value: `tailSafe` -/

/-- **Read-back of a tag value, finer condition.**  `C02_tag_value_exact` with the condition on the value that does
    not mention the trail: `tailSafe endRe v` — no non-empty tail of `v` is the beginning of a text END matches
    (decided with Brzozowski derivatives of the END expression).  It covers values whose last character END *can*
    consume in other contexts (`Jane <j@x.org>`: `>` only after `-`, `?`, `%`, `"`, `'`, `/` …; `(MIT OR X)`: `)` only
    after `*`, `:`). -/
theorem C02_value_exact (endRe : Re) (tag pre blanks v trail le : Text)
    (h : WFValueSafe endRe tag pre blanks v trail le = true) :
    findSpdxTagWith endRe tag (tagLine pre tag blanks v trail le) = [v] :=
  C02_tag_value_exact endRe tag pre blanks v trail le (C02L.wfValue_of_safe endRe tag pre blanks v trail le h)

/-- **Stacked terminators, finer condition**: `C02_terminators_never_in_value` with `tailSafe` (purely syntactic, and
    independent of the trail) instead of `noEndSuffixBefore`. -/
theorem C02_terminators_tail_safe (endRe body : Re) (hstar : starBody endRe = some body)
    (tag pre blanks v le : Text) (pieces : List Text)
    (hp : ∀ p ∈ pieces, pieceOk body p = true)
    (hshape : WFShape tag pre blanks v pieces.flatten le = true)
    (hsafe : tailSafe endRe v = true)
    (hs : isStripped v = true) (hf : frameFree pre v = true) :
    findSpdxTagWith endRe tag (tagLine pre tag blanks v pieces.flatten le) = [v] := by
  have hnl : noNewline v = true := by
    have h := hshape; unfold WFShape at h; simp only [Bool.and_eq_true] at h; exact h.1.1.2
  exact C02_terminators_never_in_value endRe body hstar tag pre blanks v le pieces hp hshape
    (C07A.noEndSuffix_of_tailSafe endRe v _ hnl hsafe) hs hf

/-- **The old condition implies the new one**: a value whose last character END cannot consume at all (`mayUse`, the
    hypothesis of `C02_terminators_safe_last`, `C02_tag_found_in_text`, `C02_window_finds_inside`) is tail-safe … -/
theorem C02_safe_last_is_tail_safe (endRe : Re) (v : Text) (hlast : ∀ c, v.getLast? = some c → mayUse endRe c = false) :
    tailSafe endRe v = true := C02L.tailSafe_of_last endRe v hlast

/-- … so the hypotheses of `C02_terminators_safe_last` imply those of `C02_value_exact`. -/
theorem C02_safe_last_hyps_imply (endRe body : Re) (hstar : starBody endRe = some body)
    (tag pre blanks v le : Text) (pieces : List Text) (hp : ∀ p ∈ pieces, pieceOk body p = true)
    (hshape : WFShape tag pre blanks v pieces.flatten le = true)
    (hlast : ∀ c, v.getLast? = some c → mayUse endRe c = false)
    (hs : isStripped v = true) (hf : frameFree pre v = true) :
    WFValueSafe endRe tag pre blanks v pieces.flatten le = true :=
  C02L.wfValueSafe_of_last endRe body hstar tag pre blanks v le pieces hp hshape hlast hs hf

/-- the finer condition is strictly finer: `Jane <j@x.org>` and `(MIT OR X)` are tail-safe although END can consume
    their last character; `MIT"` is not (`"` newline `/>` is an ending) -/
example : tailSafe Generated.endRe "Jane <j@x.org>".toList = true ∧ mayUse Generated.endRe '>' = true ∧
    tailSafe Generated.endRe "(MIT OR X)".toList = true ∧ mayUse Generated.endRe ')' = true ∧
    tailSafe Generated.endRe "MIT\"".toList = false := by decide +kernel

/-- `<!-- SPDX-FileContributor: Jane <j@x.org> -->` reads back `Jane <j@x.org>` -/
example : findSpdxTagWith Generated.endRe Generated.contributorTag
    (tagLine "<!-- ".toList Generated.contributorTag " ".toList "Jane <j@x.org>".toList
      ([" ".toList, "-->".toList] : List Text).flatten []) = ["Jane <j@x.org>".toList] :=
  C02_terminators_tail_safe Generated.endRe ((starBody Generated.endRe).getD .eps) rfl _ _ _ _ _
    [" ".toList, "-->".toList] (by decide +kernel) (by decide +kernel) (by decide +kernel) (by decide +kernel)
    (by decide +kernel)

/-! ### texts of arbitrary lines: hypotheses about each line alone -/

/-- **Table obligation.**  The END expression generated from the source reads a line feed only inside the `\s*`
    that follows `"`, `'` or `]` (`"\s*/*>`, `'\s*/*>`, `]\s*::`); decided on the expression by the abstract run
    `Spec.guardStep`.  (An ending added to `_END_PATTERN` that can cross a line end elsewhere breaks this.) -/
theorem C02_end_guarded : EndGuarded Generated.endRe := by decide

/-- **END stops at the end of its own line** — the hypothesis `endStopsAt` of `C02_tag_lines`, which had to be decided
    per text, *derived*: for every END expression with the structure above, after a trail it accepts that does not
    end (white space aside) with `"`, `'` or `]`, END ends where the line ends, whatever text follows. -/
theorem C02_end_stops (endRe : Re) (hG : EndGuarded endRe) (trail rest : Text) (hnl : noNewline trail = true)
    (hok : endOk endRe trail = true) (hopen : openEnd trail = false) : endStopsAt endRe trail rest = true :=
  C02L.endStopsAt_of_guarded hG trail rest hnl hok hopen

/-- **Any number of tag lines with arbitrary other lines between them.**  The text is a sequence of lines (separated
    by line feeds; a final line feed is an empty last line), each either a line in which no `TAG[ \t]` starts —
    otherwise arbitrary: code, prose, other tags, unclosed quotes — or a tag line
    `pre ++ TAG ++ blanks ++ v ++ trail` satisfying `tagLineOK`: conditions on *that line alone* (shape; END
    accepts the trail; the trail does not end with `"`, `'`, `]`; `valueSafeIn`: no tail of the value can begin a
    run of terminators, or none is taken for terminators in this line read alone and the line does not end with a
    quote character; the value is stripped and does not end like the mirrored frame), or such a line inside an
    ASCII-art frame (`pre ++ TAG ++ blanks ++ v ++ ws ++ mirror pre ++ trail`, `tagLineFramedOK`).  Then
    `find_spdx_tag` returns exactly the values of the tag lines, in order.  Supersedes `C02_tag_lines` (no
    per-text hypothesis). -/
theorem C02_tag_lines_general (endRe : Re) (hG : EndGuarded endRe) (tag : Text) (hnl : '\n' ∉ tag)
    (ls : List TextLine) (hok : ∀ l ∈ ls, l.ok endRe tag = true) :
    findSpdxTagWith endRe tag (textOf tag ls) = ls.filterMap (·.value) :=
  C02L.findTag_text hG tag hnl ls hok

/-- the hypotheses are satisfiable:
    `#!/bin/sh` / `# SPDX-License-Identifier: MIT */ -->` / `x = "unclosed` / `// SPDX-License-Identifier: \tGPL-2.0+` / `` -/
example : findSpdxTagWith Generated.endRe Generated.licenseTag (textOf Generated.licenseTag
    [.free "#!/bin/sh".toList, .tagged ⟨"# ".toList, " ".toList, "MIT".toList, " */ -->".toList⟩,
     .free "x = \"unclosed".toList, .tagged ⟨"// ".toList, " \t".toList, "GPL-2.0+".toList, []⟩, .free []]) =
    ["MIT".toList, "GPL-2.0+".toList] := by
  have h1 := C02L.tagLineOK_of_syn Generated.endRe Generated.licenseTag
    ⟨"# ".toList, " ".toList, "MIT".toList, " */ -->".toList⟩ [" ".toList, "*/".toList, " ".toList, "-->".toList]
    (by decide +kernel)
  have h2 := C02L.tagLineOK_of_syn Generated.endRe Generated.licenseTag
    ⟨"// ".toList, " \t".toList, "GPL-2.0+".toList, []⟩ [] (by decide +kernel)
  refine C02_tag_lines_general Generated.endRe C02_end_guarded Generated.licenseTag (by decide) _ ?_
  intro l hl
  simp only [List.mem_cons, List.not_mem_nil, or_false] at hl
  rcases hl with rfl | rfl | rfl | rfl | rfl
  · decide +kernel
  · exact h1
  · decide +kernel
  · exact h2
  · decide +kernel

/-- `C02_tag_lines` follows: its per-text hypotheses are implied by the per-line ones. -/
theorem C02_tag_lines_of_line_hyps (endRe : Re) (hG : EndGuarded endRe) (tag : Text) (hnl : '\n' ∉ tag)
    (ls : List TagLineSpec) (hok : ∀ s ∈ ls, tagLineOK endRe tag s = true) :
    findSpdxTagWith endRe tag (linesText tag ls) = ls.map (·.v) := by
  have h := C02_tag_lines_general endRe hG tag hnl (ls.map .tagged ++ [.free []])
    (by
      intro l hl
      simp only [List.mem_append, List.mem_map, List.mem_singleton] at hl
      rcases hl with ⟨s, hs, rfl⟩ | rfl
      · exact hok s hs
      · rfl)
  rw [C02L.textOf_tagged, C02L.values_tagged] at h
  exact h

/-- **A tag line is found wherever it stands.**  After *any* text that ends a line (`U` empty or ending with a line
    feed: it may hold tags, values running on, unclosed quotes — no "tag-free lines above" restriction as in
    `C02_tag_found_in_text`) and before any text, a tag line satisfying the line-local hypotheses contributes its
    value: the scan cannot jump over it, because the tag holds a character END cannot consume (`tagUnusable`). -/
theorem C02_tag_found_anywhere (endRe : Re) (hG : EndGuarded endRe) (tag : Text) (hnl : '\n' ∉ tag)
    (hun : tagUnusable endRe tag = true)
    (s : TagLineSpec) (hok : tagLineFound endRe tag s = true) (U after : Text)
    (hU : U = [] ∨ ∃ u, U = u ++ ['\n']) :
    s.v ∈ findSpdxTagWith endRe tag (U ++ (s.line tag ++ '\n' :: after)) :=
  C02L.found_anywhere hG tag hnl hun s hok U after hU

/-- … and so is a tag line inside an ASCII-art frame (`pre ++ TAG ++ blanks ++ v ++ ws ++ mirror pre ++ trail`). -/
theorem C02_framed_tag_found_anywhere (endRe : Re) (hG : EndGuarded endRe) (tag : Text) (hnl : '\n' ∉ tag)
    (hun : tagUnusable endRe tag = true)
    (s : TagLineSpec) (ws : Text) (hok : tagLineFramedOK endRe tag s ws = true) (U after : Text)
    (hU : U = [] ∨ ∃ u, U = u ++ ['\n']) :
    s.v ∈ findSpdxTagWith endRe tag (U ++ ((s.framed ws).line tag ++ '\n' :: after)) :=
  C02L.found_anywhere_framed hG tag hnl hun s ws hok U after hU

/-- the hypotheses are satisfiable: a licence line after a contributor line whose quoted value runs on -/
example : "MIT".toList ∈ findSpdxTagWith Generated.endRe Generated.licenseTag
    ("SPDX-FileContributor: \"Jane\n".toList ++
      ((⟨"# ".toList, " ".toList, "MIT".toList, " */".toList⟩ : TagLineSpec).line Generated.licenseTag ++
        '\n' :: "/> anything".toList)) :=
  C02_tag_found_anywhere Generated.endRe C02_end_guarded Generated.licenseTag (by decide) (by decide +kernel) _
    (C02L.tagLineFound_of_ok (C02L.tagLineOK_of_syn Generated.endRe Generated.licenseTag _ [" ".toList, "*/".toList]
      (by decide +kernel))) _ _
    (.inr ⟨"SPDX-FileContributor: \"Jane".toList, by decide⟩)

/-! ### copyright notices -/

/-- **Read-back of a copyright notice.**  The notice `prefix [year] holder` (any of the ten
    generated prefixes, any year form, a well-formed holder) standing after a line prefix `pre`
    (comment marker, indentation, …) in which the pattern does not already match, and followed by
    any trail END accepts (blanks, stacked comment terminators): the reader finds exactly this
    notice — prefix, year, holder, and the whole notice without `pre` and without the trail.

    Partial: `earlierNone` — no copyright pattern of *higher* priority matches anywhere in the line
    (the three patterns are tried in order on the whole line; see known finding
    c20-reader-inner-notice).  Full statement: the same without `earlierNone`. -/
theorem C02_copyright_exact_partial (endRe : Re) (x : Text × CPat × Text) (hx : x ∈ prefixShapes)
    (y : YearForm) (h pre trail : Text) (hwf : WFNotice endRe x y h pre trail = true) :
    searchLineWith endRe (pre ++ builtLine x.1 y h ++ trail) =
      some { pref := x.1, year := y.text, statement := h, whole := builtLine x.1 y h } := by
  unfold WFNotice at hwf
  simp only [Bool.and_eq_true, Bool.not_eq_true'] at hwf
  obtain ⟨⟨⟨⟨⟨⟨hy, hw⟩, he⟩, hsuf⟩, hword⟩, hpre⟩, hearlier⟩ := hwf
  obtain ⟨hstart, hblocks, _⟩ := C20.holderStart_of_wf endRe h hw
  have hshape : x.1 = headText x.2.1 ++ x.2.2 := by
    have := C20.C20_prefix_table.2
    simp only [List.all_eq_true, beq_iff_eq] at this
    exact this x hx
  have hE := C20.extPicked_of_shape x hx
  have hwordE : eat wordC (h ++ trail) = none := by
    unfold eat; rw [show wordC = "Copyright".toList from rfl, hword]; rfl
  have hmatch : matchAt endRe x.2.1 (builtLine x.1 y h ++ trail) =
      some { pref := x.1, year := y.text, statement := h, whole := builtLine x.1 y h } := by
    cases y with
    | none =>
      have := matchAt_built_trail endRe x.2.1 x.2.2 h h trail none hE (blocks_append hblocks trail hwordE)
        (eatYear_none (holderStart_append hstart trail)) hsuf he (Nat.le_refl _)
      simpa [builtLine, YearForm.text, hshape, List.append_assoc] using this
    | single yy =>
      have hyy : fourDigits yy = true := hy
      have hb : Blocks ((yy ++ ' ' :: h) ++ trail) := by
        rw [List.append_assoc]; exact C20.blocks_of_year hyy _
      have hyr : eatYear ((yy ++ ' ' :: h) ++ trail) = (some yy, h ++ trail) := by
        have := eatYear_single hyy (holderStart_append hstart trail)
        simpa [List.append_assoc] using this
      have := matchAt_built_trail endRe x.2.1 x.2.2 (yy ++ ' ' :: h) h trail (some yy) hE hb hyr hsuf he
        (by simp only [List.length_append, List.length_cons]; omega)
      simpa [builtLine, YearForm.text, hshape, List.append_assoc] using this
    | range y1 sp1 sp2 y2 =>
      simp only [YearForm.wf, Bool.and_eq_true] at hy
      have hr := eatRange_ok sp1 sp2 hy.1 hy.2 (holderStart_append hstart trail)
      let body := y1 ++ ((if sp1 then [' '] else []) ++ ('-' :: ((if sp2 then [' '] else []) ++ (y2 ++ ' ' :: h))))
      have hbody : body ++ trail =
          y1 ++ ((if sp1 then [' '] else []) ++ ('-' :: ((if sp2 then [' '] else []) ++ (y2 ++ ' ' :: (h ++ trail))))) := by
        simp [body, List.append_assoc]
      have hb : Blocks (body ++ trail) := by rw [hbody]; exact C20.blocks_of_year hy.1 _
      have hyr : eatYear (body ++ trail) =
          (some (y1 ++ (if sp1 then [' '] else []) ++ ['-'] ++ (if sp2 then [' '] else []) ++ y2), h ++ trail) := by
        rw [hbody]; simp [eatYear, hr]
      have := matchAt_built_trail endRe x.2.1 x.2.2 body h trail _ hE hb hyr hsuf he
        (by simp only [body, List.length_append, List.length_cons]; omega)
      simpa [body, builtLine, YearForm.text, hshape, List.append_assoc] using this
  have hne : builtLine x.1 y h ++ trail ≠ [] := by
    unfold builtLine; cases y.text <;> simp
  have hsearch : searchPat endRe x.2.1 (pre ++ builtLine x.1 y h ++ trail) =
      some { pref := x.1, year := y.text, statement := h, whole := builtLine x.1 y h } := by
    rw [List.append_assoc, searchPat_skip endRe x.2.1 pre _ hpre]
    exact searchPat_of_matchAt endRe x.2.1 _ _ hne hmatch
  unfold earlierNone at hearlier
  unfold searchLineWith
  simp only [List.append_assoc] at hsearch hearlier ⊢
  cases hp : x.2.1 with
  | spdx => rw [hp] at hsearch; simp [hsearch]
  | word =>
    rw [hp] at hsearch hearlier
    simp only [Option.isNone_iff_eq_none] at hearlier
    simp [hearlier, hsearch]
  | sign =>
    rw [hp] at hsearch hearlier
    simp only [Bool.and_eq_true, Option.isNone_iff_eq_none] at hearlier
    simp [hearlier.1, hearlier.2, hsearch]

/-- the hypotheses are satisfiable: `# SPDX-FileCopyrightText: 2020 Jane Doe */ -->` -/
example : WFNotice Generated.endRe ("SPDX-FileCopyrightText:".toList, .spdx, []) (.single "2020".toList)
    "Jane Doe".toList "# ".toList ([" ".toList, "*/".toList, " ".toList, "-->".toList] : List Text).flatten = true := by
  have hstar : starBody Generated.endRe = some ((starBody Generated.endRe).getD .eps) := rfl
  have he := endAccepts_pieces ((starBody Generated.endRe).getD .eps) [" ".toList, "*/".toList, " ".toList, "-->".toList]
    (by decide +kernel)
  rw [← starBody_eq hstar] at he
  have hs := noEndSuffixC_of_last Generated.endRe "Jane Doe".toList
    ([" ".toList, "*/".toList, " ".toList, "-->".toList] : List Text).flatten (by decide +kernel) (by decide +kernel)
  have hs0 : noEndSuffix Generated.endRe "Jane Doe".toList = true := by
    have := noEndSuffixC_of_last Generated.endRe "Jane Doe".toList [] (by decide +kernel) (by decide +kernel)
    have e : ∀ w, noEndSuffixBeforeC Generated.endRe w [] = noEndSuffix Generated.endRe w := by
      intro w; induction w with
      | nil => rfl
      | cons c cs ih => simp [noEndSuffixBeforeC, noEndSuffix, ih]
    rw [← e]; exact this
  simp only [WFNotice, WFHolder, he, hs, hs0, Bool.and_true, Bool.true_and]
  decide +kernel

/-- `C02_copyright_exact_partial` with purely syntactic END conditions (`WFNoticeSyn`): the trail a sequence of
    listed terminators and blanks, the holder tail-safe (`Jane Doe <jane@example.org>` is). -/
theorem C02_copyright_exact_syn_partial (endRe : Re) (x : Text × CPat × Text) (hx : x ∈ prefixShapes)
    (y : YearForm) (h pre trail : Text) (pieces : List Text) (hwf : WFNoticeSyn endRe x y h pre trail pieces = true) :
    searchLineWith endRe (pre ++ builtLine x.1 y h ++ trail) =
      some { pref := x.1, year := y.text, statement := h, whole := builtLine x.1 y h } :=
  C02_copyright_exact_partial endRe x hx y h pre trail (C02L.wfNotice_of_syn endRe x y h pre trail pieces hwf)

/-- what the reader finds in a line of a text of lines (`CprLine`) -/
theorem C02_copyright_line_read (endRe : Re) (l : CprLine) (hok : l.ok endRe = true) :
    (searchLineWith endRe l.text).map (fun m => strip m.whole) = l.found endRe := by
  cases l with
  | other t => rfl
  | notice x y h pre trail =>
    simp only [CprLine.ok, Bool.and_eq_true, decide_eq_true_eq] at hok
    obtain ⟨⟨⟨hx, hwf⟩, hs⟩, _⟩ := hok
    have hstrip : strip (builtLine x.1 y h) = builtLine x.1 y h := by
      simpa [isStripped] using hs
    simp only [CprLine.text, CprLine.found, C02_copyright_exact_partial endRe x hx y h pre trail hwf, Option.map_some, hstrip]

/-- **Copyright notices of a whole text.**  The text is any number of lines (separated by line feeds, none holding a
    line boundary of `str.splitlines`), each either a notice line `pre ++ notice ++ trail` (hypotheses of
    `C02_copyright_exact_partial`, about that line alone) or any other line; no `REUSE-IgnoreStart`.  Then the
    notices `extract_reuse_info` collects are exactly: for every notice line its notice — without `pre`, without
    the trail —, for every other line whatever the reader finds in it; as a set in order of first occurrence. -/
theorem C02_copyright_lines (endRe : Re) (ls : List CprLine) (hok : ∀ l ∈ ls, l.ok endRe = true)
    (hign : findSub Generated.ignoreStart (cprTextOf ls) = none) :
    (extractRawWith endRe (cprTextOf ls)).cpr = dedup (ls.filterMap (·.found endRe)) := by
  rw [C02L.extractRawWith_cpr, filterIgnore_none hign,
    C02L.cprLines_text endRe ls hok (fun l hl => C02_copyright_line_read endRe l (hok l hl))]

/-- … in particular, when the other lines hold no notice: exactly the planted notices. -/
theorem C02_copyright_lines_planted (endRe : Re) (ls : List CprLine) (hok : ∀ l ∈ ls, l.ok endRe = true)
    (hq : ∀ l ∈ ls, l.quietOther endRe = true)
    (hign : findSub Generated.ignoreStart (cprTextOf ls) = none) :
    (extractRawWith endRe (cprTextOf ls)).cpr = dedup (ls.filterMap (·.planted)) := by
  rw [C02_copyright_lines endRe ls hok hign, C02L.found_eq_planted endRe ls hq]

/-- … and as membership, both ways, with nothing assumed about the other lines: a notice is reported iff it is
    planted in a notice line or the reader finds it in one of the other lines. -/
theorem C02_copyright_lines_mem (endRe : Re) (ls : List CprLine) (hok : ∀ l ∈ ls, l.ok endRe = true)
    (hign : findSub Generated.ignoreStart (cprTextOf ls) = none) (n : Text) :
    n ∈ (extractRawWith endRe (cprTextOf ls)).cpr ↔
      n ∈ ls.filterMap (·.planted) ∨
      ∃ t, CprLine.other t ∈ ls ∧ (searchLineWith endRe t).map (fun m => strip m.whole) = some n := by
  rw [C02_copyright_lines endRe ls hok hign, mem_dedup]
  simp only [List.mem_filterMap]
  constructor
  · rintro ⟨l, hl, hf⟩
    cases l with
    | other t => exact .inr ⟨t, hl, hf⟩
    | notice x y h pre trail => exact .inl ⟨_, hl, hf⟩
  · rintro (⟨l, hl, hf⟩ | ⟨t, ht, hf⟩)
    · cases l with
      | other t => cases hf
      | notice x y h pre trail => exact ⟨_, hl, hf⟩
    · exact ⟨_, ht, hf⟩

/-- the hypotheses are satisfiable:
    `# SPDX-FileCopyrightText: 2020 Jane Doe <jane@example.org> */ -->` / `int main() {` /
    ` * Copyright (C) 2019-2021 Example Corp` / `` -/
example : (extractRawWith Generated.endRe (cprTextOf
    [.notice ("SPDX-FileCopyrightText:".toList, .spdx, []) (.single "2020".toList) "Jane Doe <jane@example.org>".toList
        "# ".toList " */ -->".toList,
     .other "int main() {".toList,
     .notice ("Copyright (C)".toList, .word, " (C)".toList) (.range "2019".toList false false "2021".toList)
        "Example Corp".toList " * ".toList [],
     .other []])).cpr =
    ["SPDX-FileCopyrightText: 2020 Jane Doe <jane@example.org>".toList, "Copyright (C) 2019-2021 Example Corp".toList] := by
  have h1 := C02L.wfNotice_of_syn Generated.endRe ("SPDX-FileCopyrightText:".toList, .spdx, []) (.single "2020".toList)
    "Jane Doe <jane@example.org>".toList "# ".toList " */ -->".toList [" ".toList, "*/".toList, " ".toList, "-->".toList]
    (by decide +kernel)
  have h2 := C02L.wfNotice_of_syn Generated.endRe ("Copyright (C)".toList, .word, " (C)".toList)
    (.range "2019".toList false false "2021".toList) "Example Corp".toList " * ".toList [] [] (by decide +kernel)
  rw [C02_copyright_lines_planted]
  · decide +kernel
  · intro l hl
    simp only [List.mem_cons, List.not_mem_nil, or_false] at hl
    rcases hl with rfl | rfl | rfl | rfl
    · simp only [CprLine.ok, h1, Bool.and_true, Bool.true_and]; decide +kernel
    · decide +kernel
    · simp only [CprLine.ok, h2, Bool.and_true, Bool.true_and]; decide +kernel
    · decide +kernel
  · intro l hl
    simp only [List.mem_cons, List.not_mem_nil, or_false] at hl
    rcases hl with rfl | rfl | rfl | rfl
    · rfl
    · exact C02L.noticeFree_of_headFree _ _ (by decide +kernel)
    · rfl
    · exact C02L.noticeFree_of_headFree _ _ (by decide +kernel)
  · decide +kernel

/-! ### an unparseable expression drops the whole file -/

/-- A file holding an unparseable licence expression contributes nothing at all. -/
theorem C02_parse_error_drops_all (parses : Text → Bool) (content : Bytes)
    (h : ∃ x ∈ (extractRaw (decodedText (window content))).lic, parses x = false) :
    infoOfFile parses content = Extracted.empty := by
  obtain ⟨x, hx, hp⟩ := h
  unfold infoOfFile infoOfDecoded extractInfo
  have : (extractRaw (decodedText (window content))).lic.all parses = false := by
    apply Bool.eq_false_iff.mpr
    intro hall
    rw [List.all_eq_true] at hall
    rw [hall x hx] at hp
    cases hp
  simp [this]

/-- Conversely, when every expression parses and there is copyright or licensing information,
    everything that was read is reported. -/
theorem C02_parseable_reports_all (parses : Text → Bool) (content : Bytes)
    (h : ∀ x ∈ (extractRaw (decodedText (window content))).lic, parses x = true)
    (hne : ((extractRaw (decodedText (window content))).lic.isEmpty &&
            (extractRaw (decodedText (window content))).cpr.isEmpty) = false) :
    infoOfFile parses content = extractRaw (decodedText (window content)) := by
  unfold infoOfFile infoOfDecoded extractInfo
  have : (extractRaw (decodedText (window content))).lic.all parses = true := List.all_eq_true.mpr h
  simp [this, hne]

/-! ### the 4 KiB window -/

/-- **Window.**  The file's result is the extraction of the decoded window; the window is the
    whole content when the snippet indicator occurs anywhere in it, and the first
    `_HEADER_BYTES` (= 4096, generated) bytes otherwise. -/
theorem C02_window (parses : Text → Bool) (content : Bytes) :
    infoOfFile parses content =
      infoOfDecoded parses (decodedText (if containsSnippet content then content else content.take 4096)) := by
  rfl

/-- Without a snippet indicator nothing beyond byte 4096 can contribute: the result is that of
    the file cut at 4096 bytes. -/
theorem C02_window_ignores_rest (parses : Text → Bool) (content : Bytes) (h : containsSnippet content = false) :
    infoOfFile parses content = infoOfFile parses (content.take 4096) := by
  have h2 : containsSnippet (content.take 4096) = false := by
    cases hc : containsSnippet (content.take 4096) with
    | false => rfl
    | true => rw [containsSnippet, bytesContain_take _ _ _ hc] at h; cases h
  unfold infoOfFile window
  simp only [h, h2, Bool.false_eq_true, if_false]
  have : Generated.headerBytes = 4096 := rfl
  rw [this, List.take_take]
  simp

/-- With a snippet indicator anywhere in the file the whole file is read. -/
theorem C02_window_snippet_reads_all (parses : Text → Bool) (content : Bytes) (h : containsSnippet content = true) :
    infoOfFile parses content = infoOfDecoded parses (decodedText content) := by
  unfold infoOfFile window; simp [h]

/-- **A licence tag line lying wholly inside the first 4096 bytes is found**, whatever bytes
    follow and whether or not the file holds a snippet indicator.  The file starts with the
    UTF-8 encoding of `head` = tag-free lines followed by the tag line (no carriage return in
    `head`; any characters, also multi-byte ones); `more` is arbitrary (invalid UTF-8, a character
    cut by the window, …).  Hypothesis `hign`: no `REUSE-IgnoreStart` in the decoded window. -/
theorem C02_window_finds_inside (endRe body : Re) (hstar : starBody endRe = some body)
    (ls : List Text) (hfree : ∀ l ∈ ls, tagFreeLine Generated.licenseTag l = true)
    (pre blanks v : Text) (pieces : List Text) (hp : ∀ p ∈ pieces, pieceOk body p = true)
    (hshape : WFShape Generated.licenseTag pre blanks v pieces.flatten ['\n'] = true)
    (hlast : ∀ c, v.getLast? = some c → mayUse endRe c = false)
    (hs : isStripped v = true) (hf : frameFree pre v = true)
    (more : Bytes)
    (hcr : '\r' ∉ joinLines ls ++ tagLine pre Generated.licenseTag blanks v pieces.flatten ['\n'])
    (hlen : (encodeUtf8 (joinLines ls ++ tagLine pre Generated.licenseTag blanks v pieces.flatten ['\n'])).length ≤ 4096)
    (hign : findSub Generated.ignoreStart (decodedText (window
      (encodeUtf8 (joinLines ls ++ tagLine pre Generated.licenseTag blanks v pieces.flatten ['\n']) ++ more))) = none) :
    v ∈ (extractRawWith endRe (decodedText (window
      (encodeUtf8 (joinLines ls ++ tagLine pre Generated.licenseTag blanks v pieces.flatten ['\n']) ++ more)))).lic := by
  obtain ⟨tailText, ht⟩ := decodedText_window_head _ more hcr hlen
  -- the value of a well-formed tag line is not empty (`WFShape`: it begins with a character that is no blank), so the
  -- filter of empty values keeps it
  have hne : (!v.isEmpty) = true := by
    unfold WFShape at hshape
    simp only [Bool.and_eq_true] at hshape
    have hh := hshape.1.1.1.2
    cases v with
    | nil => simp at hh
    | cons c cs => rfl
  unfold extractRawWith
  simp only [filterIgnore_none hign, mem_dedup, List.mem_filter]
  rw [ht, List.append_assoc]
  exact ⟨C02_tag_found_in_text endRe body hstar Generated.licenseTag (by decide) ls hfree pre blanks v tailText pieces hp
    hshape hlast hs hf, hne⟩

/-- the hypotheses are satisfiable (two lines with multi-byte characters before the tag line, a
    truncated multi-byte sequence after it) -/
example : "MIT".toList ∈ (extractRawWith Generated.endRe (decodedText (window
    (encodeUtf8 (joinLines ["#!/bin/sh".toList, "# é €".toList] ++
      tagLine "# ".toList Generated.licenseTag " ".toList "MIT".toList ([" ".toList, "*/".toList] : List Text).flatten ['\n']) ++
      [0xE2, 0x82])))).lic :=
  C02_window_finds_inside Generated.endRe ((starBody Generated.endRe).getD .eps) rfl
    ["#!/bin/sh".toList, "# é €".toList] (by decide +kernel) "# ".toList " ".toList "MIT".toList
    [" ".toList, "*/".toList] (by decide +kernel) (by decide +kernel) (by decide +kernel) (by decide +kernel)
    (by decide +kernel) [0xE2, 0x82] (by decide +kernel) (by decide +kernel) (by decide +kernel)

/-- Valid UTF-8 decodes to the text it encodes (every Unicode scalar value, all four lengths). -/
theorem C02_decode_valid_utf8 (t : Text) : decodeUtf8 (encodeUtf8 t) = t := decodeUtf8_encodeUtf8 t

/-! ### the whole extraction: all three kinds of lines in one text -/

/-- **`extract_reuse_info` returns exactly what is planted.**  The text is any number of lines in any order (separated
    by line feeds), each one of: a licence tag line, a contributor tag line, a copyright notice line — each well formed
    by conditions on *that line alone* (`InfoLine.ok`: the hypotheses of `C02_tag_lines_general` resp.
    `C02_copyright_lines`, and the line holds nothing of the two other kinds) — or an information-free line (neither
    tag, no notice; otherwise arbitrary); no line holds `REUSE-IgnoreStart` or a `str.splitlines` boundary.  Then the
    result is exactly the planted licence values, the planted notices and the planted contributor values, each as a set
    in order of first occurrence: nothing of any decoration or terminator becomes part of a value, nothing of a value
    is lost, nothing else is reported. -/
theorem C02_extract_exact (endRe : Re) (hG : EndGuarded endRe) (ls : List InfoLine)
    (hok : ∀ l ∈ ls, l.ok endRe = true) :
    extractRawWith endRe (infoTextOf ls) = plantedInfo ls :=
  C02L.extract_text hG ls hok (C02_copyright_line_read endRe)

/-- the same with purely syntactic hypotheses (each line given with the pieces of its trail; no run of the matcher
    in any hypothesis) -/
theorem C02_extract_exact_syn (endRe : Re) (hG : EndGuarded endRe) (ls : List (InfoLine × List Text))
    (hok : ∀ p ∈ ls, p.1.syn endRe p.2 = true) :
    extractRawWith endRe (infoTextOf (ls.map (·.1))) = plantedInfo (ls.map (·.1)) := by
  apply C02_extract_exact endRe hG
  intro l hl
  obtain ⟨p, hp, rfl⟩ := List.mem_map.mp hl
  exact C02L.infoLine_ok_of_syn endRe p.1 p.2 (hok p hp)

/-- the hypotheses are satisfiable (`C02L.exampleLines`: a shebang line, two notices, four licence lines — one
    duplicate, one with a parenthesised expression and trailing blank, one inside the LLVM frame `|*  …  *|` —, a
    contributor in a C comment, a line with an unclosed quote, a final line feed) -/
example : extractRawWith Generated.endRe (infoTextOf (C02L.exampleLines.map (·.1))) =
    { lic := ["MIT".toList, "(MIT OR X)".toList, "Apache-2.0".toList]
      cpr := ["SPDX-FileCopyrightText: 2020 Jane Doe <jane@example.org>".toList,
              "Copyright (C) 2019-2021 Example Corp".toList]
      con := ["Alice".toList] } := by
  rw [C02_extract_exact_syn Generated.endRe C02_end_guarded C02L.exampleLines C02L.exampleLines_syn]
  decide +kernel

/-- **The file.**  A file that is the UTF-8 encoding of such a text and that fits the 4096-byte window or holds the
    snippet indicator (then the whole file is read), all planted licence expressions parsing: `reuse_info_of_file`
    reports exactly the planted information — or nothing at all when neither a licence nor a notice is planted
    (contributors alone do not count). -/
theorem C02_file_exact (parses : Text → Bool) (ls : List InfoLine) (hok : ∀ l ∈ ls, l.ok Generated.endRe = true)
    (hparse : ∀ v ∈ (plantedInfo ls).lic, parses v = true)
    (hfit : (encodeUtf8 (infoTextOf ls)).length ≤ 4096 ∨ containsSnippet (encodeUtf8 (infoTextOf ls)) = true) :
    infoOfFile parses (encodeUtf8 (infoTextOf ls)) =
      if (plantedInfo ls).lic.isEmpty && (plantedInfo ls).cpr.isEmpty then Extracted.empty else plantedInfo ls := by
  unfold infoOfFile
  rw [C02L.window_all _ hfit, C02L.decodedText_encode _ (C02L.infoText_noCR ls hok)]
  exact C02L.infoOfDecoded_of_extract parses _ _ (C02_extract_exact Generated.endRe C02_end_guarded ls hok) hparse

/-- the hypotheses are satisfiable: the example text as a file (under 300 bytes) -/
example : infoOfFile (fun _ => true) (encodeUtf8 (infoTextOf (C02L.exampleLines.map (·.1)))) =
    plantedInfo (C02L.exampleLines.map (·.1)) := by
  rw [C02_file_exact (fun _ => true) _ (by
    intro l hl
    obtain ⟨p, hp, rfl⟩ := List.mem_map.mp hl
    exact C02L.infoLine_ok_of_syn _ p.1 p.2 (C02L.exampleLines_syn p hp)) (fun _ _ => rfl) (.inl (by decide +kernel))]
  decide +kernel

/-- … and with the snippet indicator in a file of any length -/
example : containsSnippet (encodeUtf8 (infoTextOf
    [.other "# SPDX-SnippetBegin".toList, .lic ⟨"# ".toList, " ".toList, "MIT".toList, []⟩])) = true ∧
    ∀ l ∈ [InfoLine.other "# SPDX-SnippetBegin".toList, .lic ⟨"# ".toList, " ".toList, "MIT".toList, []⟩],
      l.ok Generated.endRe = true := by
  refine ⟨by decide +kernel, ?_⟩
  intro l hl
  simp only [List.mem_cons, List.not_mem_nil, or_false] at hl
  rcases hl with rfl | rfl
  · exact C02L.infoLine_ok_of_syn _ _ [] (by decide +kernel)
  · exact C02L.infoLine_ok_of_syn _ _ [] (by decide +kernel)

/-! ### ignore blocks -/

/-- **What `filter_ignore_block` leaves of a text with blocks** (composition with C12: `C12_block`, `C12_unclosed`,
    `C12_stray_end`, i.e. `C12_filter_eq_spec`): visible text `a0`, any number of closed blocks each followed by visible
    text, possibly a last block that is never closed — no start marker in a visible part, no end marker in a hidden
    part, hidden parts otherwise arbitrary.  What remains is the visible parts glued together. -/
theorem C02_blocks_filter (a0 : Text) (bs : List (Text × Text)) (o : Option Text) (h : chunksOK a0 bs o = true) :
    filterIgnore (blocksText a0 bs o) = visibleText a0 bs := by
  induction bs generalizing a0 with
  | nil =>
    simp only [chunksOK, List.all_nil, Bool.and_true, Bool.and_eq_true, Option.isNone_iff_eq_none] at h
    cases o with
    | none => exact C12.C12_stray_end a0 h.1
    | some b =>
      simp only [Option.isNone_iff_eq_none] at h
      exact C12.C12_unclosed a0 b (C02L.findStart_at a0 b h.1) h.2
  | cons p rest ih =>
    obtain ⟨b, a⟩ := p
    simp only [chunksOK, List.all_cons, Bool.and_eq_true, Option.isNone_iff_eq_none] at h
    obtain ⟨⟨ha0, ⟨hb, ha⟩, hrest⟩, ho⟩ := h
    have h1 : findSub Generated.ignoreStart (a0 ++ Generated.ignoreStart ++ b ++ Generated.ignoreEnd ++ blocksText a rest o) =
        some a0.length := by
      have := C02L.findStart_at a0 (b ++ Generated.ignoreEnd ++ blocksText a rest o) ha0
      simpa [List.append_assoc] using this
    have h2 := C02L.findEnd_at b (blocksText a rest o) hb
    show filterIgnore (a0 ++ Generated.ignoreStart ++ b ++ Generated.ignoreEnd ++ blocksText a rest o) = a0 ++ visibleText a rest
    rw [C12.C12_block a0 b _ h1 h2, ih a (by
      simp only [chunksOK, Bool.and_eq_true, Option.isNone_iff_eq_none]
      exact ⟨⟨ha, hrest⟩, ho⟩)]

/-- **Tag lines inside ignore blocks contribute nothing, those outside do.**  For a text with blocks whose visible
    parts, glued together, form a text of well-formed lines (`InfoLine.ok`, as in `C02_extract_exact`; the seam lines —
    what stands before a start marker glued to what stands after the matching end marker — are lines of it), whatever
    the hidden parts hold (licence lines, notices, contributors, further start markers): the result is exactly what is
    planted in the visible lines. -/
theorem C02_extract_exact_with_blocks (endRe : Re) (hG : EndGuarded endRe)
    (a0 : Text) (bs : List (Text × Text)) (o : Option Text) (hch : chunksOK a0 bs o = true)
    (ls : List InfoLine) (hvis : visibleText a0 bs = infoTextOf ls) (hok : ∀ l ∈ ls, l.ok endRe = true) :
    extractRawWith endRe (blocksText a0 bs o) = plantedInfo ls := by
  rw [C02L.extractRawWith_congr endRe (t' := infoTextOf ls), C02_extract_exact endRe hG ls hok]
  rw [C02_blocks_filter a0 bs o hch, hvis, filterIgnore_none (C02L.infoText_noIgnore ls hok)]

/-- the hypotheses are satisfiable:
    `# SPDX-License-Identifier: MIT` / `# REUSE-IgnoreStart` / `# SPDX-License-Identifier: GPL-3.0-only` /
    `# SPDX-FileCopyrightText: 2001 Hidden` / `# REUSE-IgnoreEnd` / `// SPDX-FileContributor: Alice` /
    `# REUSE-IgnoreStart` / `SPDX-License-Identifier: Unseen` -/
example : extractRawWith Generated.endRe (blocksText "# SPDX-License-Identifier: MIT\n# ".toList
      [("\n# SPDX-License-Identifier: GPL-3.0-only\n# SPDX-FileCopyrightText: 2001 Hidden\n# ".toList,
        "\n// SPDX-FileContributor: Alice\n# ".toList)]
      (some "\nSPDX-License-Identifier: Unseen\n".toList)) =
    { lic := ["MIT".toList], cpr := [], con := ["Alice".toList] } := by
  rw [C02_extract_exact_with_blocks Generated.endRe C02_end_guarded _ _ _ (by decide +kernel)
    [.lic ⟨"# ".toList, " ".toList, "MIT".toList, []⟩, .other "# ".toList,
     .con ⟨"// ".toList, " ".toList, "Alice".toList, []⟩, .other "# ".toList] (by decide +kernel)
    (by
      intro l hl
      simp only [List.mem_cons, List.not_mem_nil, or_false] at hl
      rcases hl with rfl | rfl | rfl | rfl
      · exact C02L.infoLine_ok_of_syn _ _ [] (by decide +kernel)
      · exact C02L.infoLine_ok_of_syn _ _ [] (by decide +kernel)
      · exact C02L.infoLine_ok_of_syn _ _ [] (by decide +kernel)
      · exact C02L.infoLine_ok_of_syn _ _ [] (by decide +kernel))]
  decide +kernel

/-! ### files -/

/-- A file that is the UTF-8 encoding of a text without carriage returns and that fits the window or holds the snippet
    indicator is read as that text. -/
theorem C02_file_of_text (parses : Text → Bool) (t : Text) (hcr : '\r' ∉ t)
    (hfit : (encodeUtf8 t).length ≤ 4096 ∨ containsSnippet (encodeUtf8 t) = true) :
    infoOfFile parses (encodeUtf8 t) = infoOfDecoded parses t := by
  unfold infoOfFile
  rw [C02L.window_all _ hfit, C02L.decodedText_encode _ hcr]

/-- **Line-ending conventions.**  The same for the CRLF and the CR form of the text (`toCRLF`: every line feed written
    as carriage return + line feed; `toCR`: as a lone carriage return): the decoder folds both back, so the file is
    read as the LF text. -/
theorem C02_file_of_text_line_endings (parses : Text → Bool) (t : Text) (hcr : '\r' ∉ t) (f : Text → Text)
    (hf : f = id ∨ f = toCRLF ∨ f = toCR)
    (hfit : (encodeUtf8 (f t)).length ≤ 4096 ∨ containsSnippet (encodeUtf8 (f t)) = true) :
    infoOfFile parses (encodeUtf8 (f t)) = infoOfDecoded parses t := by
  have hno : NoCR t := fun ch hch e => hcr (e ▸ hch)
  have hfold : foldLineEndings (f t) = t := by
    rcases hf with rfl | rfl | rfl
    · exact C09L.fold_lf hno
    · exact C09L.fold_crlf hno
    · exact C09L.fold_cr hno
  unfold infoOfFile
  rw [C02L.window_all _ hfit]
  unfold decodedText
  rw [decodeUtf8_encodeUtf8, hfold]

/-- **`C02_file_exact` in every line-ending convention** (LF, CRLF, CR). -/
theorem C02_file_exact_line_endings (parses : Text → Bool) (ls : List InfoLine)
    (hok : ∀ l ∈ ls, l.ok Generated.endRe = true)
    (hparse : ∀ v ∈ (plantedInfo ls).lic, parses v = true)
    (f : Text → Text) (hf : f = id ∨ f = toCRLF ∨ f = toCR)
    (hfit : (encodeUtf8 (f (infoTextOf ls))).length ≤ 4096 ∨ containsSnippet (encodeUtf8 (f (infoTextOf ls))) = true) :
    infoOfFile parses (encodeUtf8 (f (infoTextOf ls))) =
      if (plantedInfo ls).lic.isEmpty && (plantedInfo ls).cpr.isEmpty then Extracted.empty else plantedInfo ls := by
  rw [C02_file_of_text_line_endings parses _ (C02L.infoText_noCR ls hok) f hf hfit]
  exact C02L.infoOfDecoded_of_extract parses _ _ (C02_extract_exact Generated.endRe C02_end_guarded ls hok) hparse

/-- the hypotheses are satisfiable: the example text as a CRLF file -/
example : infoOfFile (fun _ => true) (encodeUtf8 (toCRLF (infoTextOf (C02L.exampleLines.map (·.1))))) =
    plantedInfo (C02L.exampleLines.map (·.1)) := by
  rw [C02_file_exact_line_endings (fun _ => true) _ (by
    intro l hl
    obtain ⟨p, hp, rfl⟩ := List.mem_map.mp hl
    exact C02L.infoLine_ok_of_syn _ p.1 p.2 (C02L.exampleLines_syn p hp)) (fun _ _ => rfl) toCRLF (.inr (.inl rfl))
    (.inl (by decide +kernel))]
  decide +kernel

/-- `C02_file_exact` for a file with ignore blocks, in every line-ending convention. -/
theorem C02_file_exact_with_blocks (parses : Text → Bool)
    (a0 : Text) (bs : List (Text × Text)) (o : Option Text) (hch : chunksOK a0 bs o = true)
    (ls : List InfoLine) (hvis : visibleText a0 bs = infoTextOf ls) (hok : ∀ l ∈ ls, l.ok Generated.endRe = true)
    (hparse : ∀ v ∈ (plantedInfo ls).lic, parses v = true)
    (hcr : '\r' ∉ blocksText a0 bs o)
    (f : Text → Text) (hf : f = id ∨ f = toCRLF ∨ f = toCR)
    (hfit : (encodeUtf8 (f (blocksText a0 bs o))).length ≤ 4096 ∨
      containsSnippet (encodeUtf8 (f (blocksText a0 bs o))) = true) :
    infoOfFile parses (encodeUtf8 (f (blocksText a0 bs o))) =
      if (plantedInfo ls).lic.isEmpty && (plantedInfo ls).cpr.isEmpty then Extracted.empty else plantedInfo ls := by
  rw [C02_file_of_text_line_endings parses _ hcr f hf hfit]
  exact C02L.infoOfDecoded_of_extract parses _ _
    (C02_extract_exact_with_blocks Generated.endRe C02_end_guarded a0 bs o hch ls hvis hok) hparse

/-- **A well-formed line lying wholly inside the first 4096 bytes is read** — any of the three kinds, after *any* text
    `U` that ends a line and holds no `REUSE-IgnoreStart` (tags, values running on, unclosed quotes: no "tag-free lines
    above" restriction), followed by arbitrary bytes `more` (a `REUSE-IgnoreStart`, invalid UTF-8, a character cut by
    the window, …: nothing is assumed about the decoded rest), with or without snippet indicator.  Generalises
    `C02_window_finds_inside`. -/
theorem C02_window_finds_line (l : InfoLine) (hok : l.ok Generated.endRe = true) (U : Text)
    (hU : U = [] ∨ ∃ u, U = u ++ ['\n']) (hUign : findSub Generated.ignoreStart U = none) (more : Bytes)
    (hcr : '\r' ∉ U ++ (l.text ++ ['\n']))
    (hlen : (encodeUtf8 (U ++ (l.text ++ ['\n']))).length ≤ 4096) :
    (∀ v, l.licValue = some v → v ≠ [] →
      v ∈ (extractRaw (decodedText (window (encodeUtf8 (U ++ (l.text ++ ['\n'])) ++ more)))).lic) ∧
    (∀ v, l.conValue = some v →
      v ∈ (extractRaw (decodedText (window (encodeUtf8 (U ++ (l.text ++ ['\n'])) ++ more)))).con) ∧
    (∀ n, l.notice = some n →
      n ∈ (extractRaw (decodedText (window (encodeUtf8 (U ++ (l.text ++ ['\n'])) ++ more)))).cpr) := by
  obtain ⟨tailText, ht⟩ := decodedText_window_head _ more hcr hlen
  obtain ⟨hlic, hcon, hcpr, _, hlign⟩ := C02L.infoLine_ok_parts hok
  have hfilter : filterIgnore (U ++ (l.text ++ ['\n']) ++ tailText) = U ++ (l.text ++ '\n' :: filterIgnore tailText) := by
    rw [C02L.filterIgnore_head _ tailText
      (C02L.findSub_head_none _ (by decide) (by decide) U l.text hU hUign hlign) (C02L.atLS_head U l.text)]
    simp [List.append_assoc]
  rw [ht]
  unfold extractRaw extractRawWith
  simp only [hfilter, mem_dedup, List.mem_filter]
  refine ⟨fun v hv hne => ?_, fun v hv => ?_, fun n hn => ?_⟩
  · have hkeep : (!v.isEmpty) = true := by
      cases v with
      | nil => exact absurd rfl hne
      | cons c cs => rfl
    cases l with
    | lic s =>
      simp only [InfoLine.licValue, Option.some.injEq] at hv
      subst hv
      exact ⟨C02_tag_found_anywhere Generated.endRe C02_end_guarded Generated.licenseTag (by decide) (by decide +kernel) s
        (C02L.tagLineFound_of_ok hlic) U _ hU, hkeep⟩
    | licF s ws =>
      simp only [InfoLine.licValue, Option.some.injEq] at hv
      subst hv
      exact ⟨C02_framed_tag_found_anywhere Generated.endRe C02_end_guarded Generated.licenseTag (by decide)
        (by decide +kernel) s ws hlic U _ hU, hkeep⟩
    | con s => cases hv
    | conF s ws => cases hv
    | cpr x y h pre trail => cases hv
    | other t => cases hv
  · cases l with
    | con s =>
      simp only [InfoLine.conValue, Option.some.injEq] at hv
      subst hv
      exact C02_tag_found_anywhere Generated.endRe C02_end_guarded Generated.contributorTag (by decide) (by decide +kernel) s
        (C02L.tagLineFound_of_ok hcon) U _ hU
    | conF s ws =>
      simp only [InfoLine.conValue, Option.some.injEq] at hv
      subst hv
      exact C02_framed_tag_found_anywhere Generated.endRe C02_end_guarded Generated.contributorTag (by decide)
        (by decide +kernel) s ws hcon U _ hU
    | lic s => cases hv
    | licF s ws => cases hv
    | cpr x y h pre trail => cases hv
    | other t => cases hv
  · cases l with
    | cpr x y h pre trail =>
      simp only [InfoLine.notice, Option.some.injEq] at hn
      subst hn
      have hread := C02_copyright_line_read Generated.endRe _ hcpr
      exact C02L.cprLines_embed Generated.endRe U _ _ hU (C02L.cprLine_text_noBreak _ _ hcpr) _ hread
    | lic s => cases hn
    | con s => cases hn
    | licF s ws => cases hn
    | conF s ws => cases hn
    | other t => cases hn

/-- the hypotheses are satisfiable: a contributor line whose quoted value runs on, then the notice line, then a
    `REUSE-IgnoreStart` and a truncated multi-byte sequence -/
example : "Copyright (C) 2019-2021 Example Corp".toList ∈ (extractRaw (decodedText (window
    (encodeUtf8 ("SPDX-FileContributor: \"Jane\n".toList ++
      ((InfoLine.cpr ("Copyright (C)".toList, .word, " (C)".toList) (.range "2019".toList false false "2021".toList)
        "Example Corp".toList " * ".toList " -->".toList).text ++ ['\n'])) ++
      (encodeUtf8 "# REUSE-IgnoreStart".toList ++ [0xE2, 0x82]))))).cpr :=
  (C02_window_finds_line _ (C02L.infoLine_ok_of_syn _ _ [" ".toList, "-->".toList] (by decide +kernel))
    "SPDX-FileContributor: \"Jane\n".toList (.inr ⟨"SPDX-FileContributor: \"Jane".toList, by decide⟩) (by decide +kernel) _
    (by decide +kernel) (by decide +kernel)).2.2 _ rfl

end C02
