/-
Property C13 — every lint output format and lint-file tell the same story.
`Model.lintCmd` / `fmtJson` / `fmtPlain` / `fmtLines` / `fmtQuiet` model what the
four invocations print (as category/item entries) and their exit status;
`Model.lintFile` models `reuse lint-file`.  All statements are for every report
(any number of files, licences and simultaneous defects).
-/
import ReuseVerif.Lemmas.ReportMain
import ReuseVerif.Spec.Lint
import ReuseVerif.Theorems.C06
import ReuseVerif.Theorems.C01
import ReuseVerif.Lemmas.SpdxE2E
import ReuseVerif.Lemmas.C13Functional

namespace C13
open Py Spec Model

/-- the four invocations end with the same exit status, that of the verdict -/
theorem C13_exit (r : Report) (f g : Format) :
    (lintCmd f r).2 = (lintCmd g r).2 ∧ ((lintCmd f r).2 = 0 ↔ r.isCompliant = true) := by
  simp [lintCmd, Report.exit]

/-- JSON lists exactly the report's collections, compliant or not -/
theorem C13_json (r : Report) (c : Cat) (a b : Text) : (c, a, b) ∈ fmtJson r ↔ Reported r c a b := by
  cases c <;> simp [fmtJson, one, two, Reported] <;> grind

/-- plain lists exactly the report's collections when the project is not compliant -/
theorem C13_plain (r : Report) (h : r.isCompliant = false) (c : Cat) (a b : Text) :
    (c, a, b) ∈ plainNormal (fmtPlain r) ↔ ReportedPlain r c a b := by
  simp only [fmtPlain, h, Bool.false_eq_true, ↓reduceIte, plainNormal_append, List.mem_append,
    mem_plainNormal_one, mem_plainNormal_two]
  cases c <;> simp [ReportedPlain, Reported] <;> grind

/-- lines lists exactly the report's collections when the project is not compliant -/
theorem C13_lines (r : Report) (h : r.isCompliant = false) (c : Cat) (a b : Text) :
    (c, a, b) ∈ fmtLines r ↔ ReportedLines r c a b := by
  cases c <;>
    simp [fmtLines, fmtSubset, h, one, two, ReportedLines, Reported] <;>
    grind

/-- a compliant project: plain, lines and quiet name nothing and every JSON list is empty -/
theorem C13_compliant_silent (r : Report) (h : r.isCompliant = true) :
    fmtPlain r = [] ∧ fmtLines r = [] ∧ fmtQuiet r = [] ∧ fmtJson r = [] := by
  obtain ⟨h1, h2, h3, h4, h5, h6, h7, h8⟩ := (isCompliant_iff r).mp h
  simp [fmtPlain, fmtLines, fmtQuiet, fmtJson, h, h1, h2, h3, h4, h5, h6, h7, h8, one, two]

/-- the formats agree: per category, what plain and lines say is what JSON says
    (modulo the documented rendering of licence-level items) -/
theorem C13_formats_agree (r : Report) (h : r.isCompliant = false) (c : Cat) (a b : Text) :
    ((c, a, b) ∈ plainNormal (fmtPlain r) ↔
      (if c = .noExt then (∃ p, (c, a, p) ∈ fmtJson r) ∧ b = [] else (c, a, b) ∈ fmtJson r)) ∧
    ((c, a, b) ∈ fmtLines r ↔
      (if c = .noExt ∨ c = .unused ∨ c = .deprecated then
        (∃ l p, (c, l, p) ∈ fmtJson r ∧ a = licPath r l) ∧ b = []
       else (c, a, b) ∈ fmtJson r)) := by
  rw [C13_plain r h, C13_lines r h]
  simp only [C13_json]
  cases c <;> simp [ReportedPlain, ReportedLines, Reported]

/-- the JSON summary counters are the sizes of the JSON's own lists -/
theorem C13_counters (r : Report) :
    let s := jsonSummary r
    s.filesTotal = s.files.length ∧
    s.withCopyright = s.files.length - count (fmtJson r) .noCopyright ∧
    s.withLicensing = s.files.length - count (fmtJson r) .noLicence ∧
    (s.compliant = true ↔ fmtJson r = []) := by
  refine ⟨by simp [jsonSummary], ?_, ?_, ?_⟩
  · simp [jsonSummary, fmtJson, count_append, count_one_same, count_one_ne, count_two_ne]
  · simp [jsonSummary, fmtJson, count_append, count_one_same, count_one_ne, count_two_ne]
  · simp [jsonSummary, isCompliant_iff, fmtJson, one, two]
    grind

/-- `lint-file F`: exactly the per-file problems `lint` reports (in its lines
    format) for the covered files among F, nothing about any other file, and exit
    status 1 iff something was reported. -/
theorem C13_lint_file (tbl : LicenseMap) (pr : Project) (F : List Text) (r : Report) (out : List Entry) (e : Nat)
    (hr : generate tbl pr = some r) (hl : lintFile tbl pr F = some (out, e)) :
    (∀ x, x ∈ out ↔ x ∈ fmtSubset r ∧ entryPath x ∈ F) ∧
    (∀ x ∈ out, perFile x.1 = true) ∧
    (e = 1 ↔ out ≠ []) ∧ (e = 0 ↔ out = []) := by
  obtain ⟨fd, hf, rfl⟩ := split_generate hr
  simp only [lintFile, hf, Option.map_some, Option.some.injEq, Prod.mk.injEq] at hl
  obtain ⟨rfl, rfl⟩ := hl
  refine ⟨?_, ?_, ?_, ?_⟩
  · rintro ⟨c, a, b⟩
    simp only [mem_fmtSubset, subset_missing, subset_readErrors, subset_noCopyright, subset_noLicence, entryPath]
    cases c <;> simp <;> grind
  · rintro ⟨c, a, b⟩
    cases c <;> simp [fmtSubset, one, two, perFile]
  · rw [Ne, fmtSubset_nil]; cases subsetCompliant (subsetReport fd pr.files F) <;> simp
  · rw [fmtSubset_nil]; cases subsetCompliant (subsetReport fd pr.files F) <;> simp

/-- names in F that are not covered files (non-covered files, directories, files
    outside the project) and repetitions contribute nothing -/
theorem C13_lint_file_only_covered (tbl : LicenseMap) (pr : Project) (F F' : List Text)
    (h : ∀ f ∈ pr.files, (f.path ∈ F ↔ f.path ∈ F')) : lintFile tbl pr F = lintFile tbl pr F' := by
  have : (pr.files.filter fun f => decide (f.path ∈ F)) = pr.files.filter fun f => decide (f.path ∈ F') := by
    apply List.filter_congr
    intro f hf
    have := h f hf
    by_cases h1 : f.path ∈ F <;> simp_all
  simp only [lintFile, subsetReport, List.contains_eq_mem, this]

/-- **The formats are functions of the story the report tells.**  The model of the formatters is
    "up to wording": a format is its list of (category, item) entries.  If two reports have the same
    eight collections *as sets* and attach every licence identifier to the same path
    (`SameStory`; order and repetitions inside the report's lists may differ), then each of the
    four invocations ends with the same exit status and names the same set of (category, item)
    pairs — also in the raw sections of the plain format (`both` / `copyright only` / `licence
    only`). -/
theorem C13_formats_functional (r r' : Report) (h : SameStory r r') (f : Format) :
    (lintCmd f r).2 = (lintCmd f r').2 ∧ ∀ x, x ∈ (lintCmd f r).1 ↔ x ∈ (lintCmd f r').1 := by
  have s := sameSets_of_story h
  have hc := compliant_of_sameSets s
  refine ⟨by simp [lintCmd, Report.exit, hc], ?_⟩
  rintro ⟨c, a, b⟩
  cases f with
  | json =>
    simp only [lintCmd]
    rw [C13_json, C13_json]; exact h.1 c a b
  | quiet => simp [lintCmd, fmtQuiet]
  | lines =>
    simp only [lintCmd]
    cases hcr : r.isCompliant with
    | true =>
      rw [(C13_compliant_silent r hcr).2.1, (C13_compliant_silent r' (hc ▸ hcr)).2.1]
    | false =>
      rw [C13_lines r hcr, C13_lines r' (hc ▸ hcr)]
      cases c <;> simp [ReportedLines, Reported, s.missing, s.bad, s.noExt, s.unused, s.deprecated,
        s.readErrors, s.noCopyright, s.noLicence, h.2]
  | plain =>
    simp only [lintCmd]
    cases hcr : r.isCompliant with
    | true =>
      rw [(C13_compliant_silent r hcr).1, (C13_compliant_silent r' (hc ▸ hcr)).1]
    | false =>
      have hcr' : r'.isCompliant = false := hc ▸ hcr
      simp only [fmtPlain, hcr, hcr', Bool.false_eq_true, if_false]
      cases c <;> simp [one, two, List.mem_filter, s.missing, s.bad, s.noExt, s.unused, s.deprecated,
        s.readErrors, s.noCopyright, s.noLicence]

/-- the same for `lint-file`'s output format (`format_lines_subset`) -/
theorem C13_subset_functional (r r' : Report) (h : SameStory r r') :
    (∀ x, x ∈ fmtSubset r ↔ x ∈ fmtSubset r') ∧ subsetCompliant r = subsetCompliant r' := by
  have s := sameSets_of_story h
  constructor
  · rintro ⟨c, a, b⟩
    rw [mem_fmtSubset, mem_fmtSubset]
    simp only [s.missing, s.readErrors, s.noLicence, s.noCopyright]
  · rw [Bool.eq_iff_iff, ← fmtSubset_nil, ← fmtSubset_nil]
    have hm : ∀ x, x ∈ fmtSubset r ↔ x ∈ fmtSubset r' := by
      rintro ⟨c, a, b⟩
      rw [mem_fmtSubset, mem_fmtSubset]
      simp only [s.missing, s.readErrors, s.noLicence, s.noCopyright]
    exact nil_iff_of_mem hm

/-- **`lint-file` is monotone in F**: naming more files can only add lines (and can only turn the
    exit status from 0 to 1), for one project state. -/
theorem C13_lint_file_mono (tbl : LicenseMap) (pr : Project) (F F' : List Text) (hsub : ∀ p ∈ F, p ∈ F')
    (out out' : List Entry) (e e' : Nat)
    (hl : lintFile tbl pr F = some (out, e)) (hl' : lintFile tbl pr F' = some (out', e')) :
    (∀ x ∈ out, x ∈ out') ∧ e ≤ e' := by
  obtain ⟨fd, hf⟩ : ∃ fd, findLicenses tbl pr.licFiles = some fd := by
    cases hfd : findLicenses tbl pr.licFiles with
    | none => simp [lintFile, hfd] at hl
    | some fd => exact ⟨fd, rfl⟩
  have hr : generate tbl pr = some (generateOn fd pr.files) := by simp [generate, hf]
  obtain ⟨h1, _, h3, h4⟩ := C13_lint_file tbl pr F _ out e hr hl
  obtain ⟨h1', _, h3', h4'⟩ := C13_lint_file tbl pr F' _ out' e' hr hl'
  have hmono : ∀ x ∈ out, x ∈ out' := fun x hx => by
    obtain ⟨hs, hp⟩ := (h1 x).mp hx
    exact (h1' x).mpr ⟨hs, hsub _ hp⟩
  refine ⟨hmono, ?_⟩
  by_cases ho : out = []
  · rw [h4.mpr ho]; exact Nat.zero_le _
  · have ho' : out' ≠ [] := by
      obtain ⟨x, xs, rfl⟩ := List.exists_cons_of_ne_nil ho
      intro e0
      have := hmono x List.mem_cons_self
      rw [e0] at this; cases this
    rw [h3.mpr ho, h3'.mpr ho']
    exact Nat.le_refl _

/-! ## The composed model: `reuse lint-file` and the formats of `reuse lint` from the tree

`Model.lintFileE2E` / `Model.lintCmdE2E` (Model/SpdxE2E.lean) put the glue into the model: the FILE
arguments are resolved against the working directory (`resolveArg`: `.`, `..`, existence, leaving the
root), the subset report is `Model.lintFile` on the abstract project of the composed lint model
(`Model.projectOf`: C03 walk, own source, REUSE.toml chain, extraction, C04 attribution), the formatters
are applied to the report of `Model.lintE2E`.  The theorems are composition corollaries of `C13_lint_file`,
`C13_formats_agree`, `C13_exit` with `C01_e2e_files` / `C01_e2e_verdict_partial` / `C01_e2e_read_errors` …;
hypotheses as there (`noRefInTable`, `plainNames` for the verdict). -/

section E2E
variable {tbl : LicenseMap} {c : E2ECfg} {g : GlobalLic} {tree : ETree} {cwd : List String} {args : List PathArg}

/-- How `reuse lint-file ARGS…` ends on a tree: a report exactly when every argument exists, the
    project loads, and no argument leaves the root. -/
theorem C13_e2e_outcome (out : List Entry) (e : Nat) :
    lintFileE2E tbl c tree cwd args = .ok out e ↔
      (∀ a ∈ args, resolveArg tree cwd a ≠ .missing) ∧ (∀ a ∈ args, resolveArg tree cwd a ≠ .outside) ∧
      ∃ g, globalOf c tree = some g ∧
        lintFile tbl (projectOf c g tree) ((namedPaths tree cwd args).map relText) = some (out, e) := by
  unfold lintFileE2E
  simp only [List.contains_eq_mem, List.mem_map, decide_eq_true_eq]
  by_cases hm : ∃ a ∈ args, resolveArg tree cwd a = .missing
  · simp only [hm, ↓reduceIte]
    constructor
    · intro h; cases h
    · rintro ⟨h, _⟩; obtain ⟨a, ha, he⟩ := hm; exact absurd he (h a ha)
  · simp only [hm, ↓reduceIte]
    have hm' : ∀ a ∈ args, resolveArg tree cwd a ≠ .missing := fun a ha he => hm ⟨a, ha, he⟩
    cases hg : globalOf c tree with
    | none => simp
    | some g =>
      simp only []
      cases hl : lintFile tbl (projectOf c g tree) ((namedPaths tree cwd args).map relText) with
      | none => simp [hl]
      | some oe =>
        obtain ⟨o1, e1⟩ := oe
        simp only []
        by_cases ho : ∃ a ∈ args, resolveArg tree cwd a = .outside
        · simp only [ho, ↓reduceIte]
          constructor
          · intro h; cases h
          · rintro ⟨_, h, _⟩; obtain ⟨a, ha, he⟩ := ho; exact absurd he (h a ha)
        · simp only [ho, ↓reduceIte, LintFileOut.ok.injEq, Option.some.injEq, exists_eq_left', hl, Prod.mk.injEq]
          constructor
          · rintro ⟨rfl, rfl⟩; exact ⟨hm', fun a ha he => ho ⟨a, ha, he⟩, rfl, rfl⟩
          · rintro ⟨_, _, h⟩; exact h

/-- `lint-file ARGS…` on the tree = the composed lint report restricted to the covered files among the
    entries the arguments denote: exactly the per-file problem lines `lint` has (in its lines format) for
    those files, nothing about any other file, only the four per-file kinds, each line about a covered
    file of the tree (`Spec.Covered`), and exit status 1 iff anything is printed.
    Composition of `C13_lint_file` with the composed model (`C01_e2e_files`). -/
theorem C13_e2e_lint_file {files : List EFile} {r : Report} {out : List Entry} {e : Nat}
    (hl : lintE2E tbl c tree = .ok files r) (hf : lintFileE2E tbl c tree cwd args = .ok out e) :
    (∀ x, x ∈ out ↔ x ∈ fmtSubset r ∧ ∃ q, Named tree cwd args q ∧ entryPath x = relText q) ∧
    (∀ x ∈ out, perFile x.1 = true ∧
      ∃ p, Covered (c.walk false) "" (toNodes tree) p ∧ entryPath x = relText p) ∧
    (e = 1 ↔ out ≠ []) ∧ (e = 0 ↔ out = []) := by
  obtain ⟨_, _, g, hg, hlf⟩ := (C13_e2e_outcome out e).mp hf
  obtain ⟨g', hg', hgen, _⟩ := lintE2E_ok hl
  rw [hg] at hg'; cases hg'
  obtain ⟨h1, h2, h3, h4⟩ := C13_lint_file tbl _ _ r out e hgen hlf
  have hin : ∀ x, entryPath x ∈ (namedPaths tree cwd args).map relText ↔
      ∃ q, Named tree cwd args q ∧ entryPath x = relText q := by
    intro x
    simp only [List.mem_map, mem_namedPaths]
    constructor
    · rintro ⟨q, hq, he⟩; exact ⟨q, hq, he.symm⟩
    · rintro ⟨q, hq, he⟩; exact ⟨q, hq, he.symm⟩
  refine ⟨fun x => by rw [h1 x, hin x], fun x hx => ⟨h2 x hx, ?_⟩, h3, h4⟩
  obtain ⟨fd, _, rfl⟩ := split_generate hgen
  obtain ⟨f, hf', he⟩ := fmtSubset_path ((h1 x).mp hx).1
  obtain ⟨p, hp, rfl⟩ := mem_projectFiles.mp hf'
  exact ⟨p, (C01.C01_e2e_covered p).mp hp, he⟩

/-- Arguments that denote the same covered files give the same run: entries that are not covered files
    (directories, files inside excluded directories, LICENSES/ entries, `.license` siblings …) and
    repetitions contribute nothing. -/
theorem C13_e2e_only_covered {args' : List PathArg}
    (h : ∀ p, CoveredT c tree p →
      (relText p ∈ (namedPaths tree cwd args).map relText ↔ relText p ∈ (namedPaths tree cwd args').map relText)) :
    lintFile tbl (projectOf c g tree) ((namedPaths tree cwd args).map relText)
      = lintFile tbl (projectOf c g tree) ((namedPaths tree cwd args').map relText) := by
  apply C13_lint_file_only_covered
  intro f hf
  obtain ⟨p, hp, rfl⟩ := mem_projectFiles.mp hf
  exact h p hp

/-- A relative argument is resolved against the *working directory*: typed in the directory `cwd`
    (which exists: a chain of real directories from the root), `segs` denotes what the absolute
    path `cwd/segs` denotes. -/
theorem C13_e2e_relative_to_cwd (segs : List String) (hcwd : resolveFrom tree [] cwd = .found cwd) :
    resolveArg tree cwd ⟨false, segs⟩ = resolveArg tree [] ⟨true, cwd ++ segs⟩ := by
  simp only [resolveArg, Bool.false_eq_true, ↓reduceIte]
  rw [resolveFrom_append, hcwd]

/-- ... and an absolute argument does not depend on the working directory. -/
theorem C13_e2e_absolute (segs : List String) (cwd cwd' : List String) :
    resolveArg tree cwd ⟨true, segs⟩ = resolveArg tree cwd' ⟨true, segs⟩ := rfl

/-- The four invocations of `reuse lint` on a tree end alike, with the verdict of the composed model,
    which is clauses (a)–(d) read on the tree (`C01_e2e_exit_partial`). -/
theorem C13_e2e_exit_partial {files : List EFile} {r : Report} (ht : noRefInTable tbl = true)
    (hg : globalOf c tree = some g) (hp : plainNames tbl (licFilesOf tree) = true)
    (hl : lintE2E tbl c tree = .ok files r) (f : Format) :
    ∃ out e, lintCmdE2E tbl c tree f = some (out, e) ∧ (e = 0 ↔ TreeCompliant tbl c g tree) ∧
      ∀ f', (lintCmdE2E tbl c tree f').map (·.2) = some e := by
  refine ⟨(lintCmd f r).1, (lintCmd f r).2, by simp [lintCmdE2E, hl], ?_, fun f' => ?_⟩
  · rw [(C13_exit r f f).2]; exact C01.C01_e2e_verdict_partial ht hg hp hl
  · simp [lintCmdE2E, hl, (C13_exit r f' f).1]

/-- The formats agree on the composed report of a non-compliant tree: per category, what `--plain` and
    `--lines` name is what `--json` names (modulo the documented rendering of licence-level items), and
    the per-file JSON lists are the tree-level offender sets of `C01_e2e_*`. -/
theorem C13_e2e_formats_agree {files : List EFile} {r : Report}
    (hg : globalOf c tree = some g) (hl : lintE2E tbl c tree = .ok files r) (hn : r.isCompliant = false) :
    (∀ cat a b,
      ((cat, a, b) ∈ plainNormal (fmtPlain r) ↔
        (if cat = .noExt then (∃ p, (cat, a, p) ∈ fmtJson r) ∧ b = [] else (cat, a, b) ∈ fmtJson r)) ∧
      ((cat, a, b) ∈ fmtLines r ↔
        (if cat = .noExt ∨ cat = .unused ∨ cat = .deprecated then
          (∃ l p, (cat, l, p) ∈ fmtJson r ∧ a = licPath r l) ∧ b = []
         else (cat, a, b) ∈ fmtJson r))) ∧
    (∀ q, (Cat.readError, q, []) ∈ fmtJson r ↔ ∃ p, CoveredT c tree p ∧ ¬ ReadableT c g tree p ∧ q = relText p) ∧
    (∀ q, (Cat.noCopyright, q, []) ∈ fmtJson r ↔
      ∃ p, CoveredT c tree p ∧ ReadableT c g tree p ∧ ¬ HasNotice c g tree p ∧ q = relText p) ∧
    (∀ q, (Cat.noLicence, q, []) ∈ fmtJson r ↔
      ∃ p, CoveredT c tree p ∧ ReadableT c g tree p ∧ ¬ HasLicence c g tree p ∧ q = relText p) := by
  refine ⟨fun cat a b => C13_formats_agree r hn cat a b, fun q => ?_, fun q => ?_, fun q => ?_⟩
  · rw [C13_json, ← C01.C01_e2e_read_errors hg hl q]; simp [Reported]
  · rw [C13_json, ← C01.C01_e2e_no_copyright hg hl q]; simp [Reported]
  · rw [C13_json, ← C01.C01_e2e_no_licence hg hl q]; simp [Reported]

/-- With names that are non-empty and slash-free (any real file system) the two readings meet in one
    file: a line is printed iff it is one of lint's per-file lines about a covered file that an argument
    denotes. -/
theorem C13_e2e_lint_file_named {files : List EFile} {r : Report} {out : List Entry} {e : Nat}
    (hl : lintE2E tbl c tree = .ok files r) (hf : lintFileE2E tbl c tree cwd args = .ok out e)
    (hgood : ∀ q, (CoveredT c tree q ∨ Named tree cwd args q) → goodNames q) (x : Entry) :
    x ∈ out ↔ x ∈ fmtSubset r ∧
      ∃ p, Covered (c.walk false) "" (toNodes tree) p ∧ Named tree cwd args p ∧ entryPath x = relText p := by
  obtain ⟨h1, h2, _, _⟩ := C13_e2e_lint_file hl hf
  constructor
  · intro hx
    obtain ⟨hs, q, hq, heq⟩ := (h1 x).mp hx
    obtain ⟨_, p, hp, hep⟩ := h2 x hx
    refine ⟨hs, p, hp, ?_, hep⟩
    have hpne : p ≠ [] := by obtain ⟨_, _, hne, _⟩ := hp; exact hne
    have : p = q := relText_inj' hpne (hgood p (.inl ((C01.C01_e2e_covered p).mpr hp))) (hgood q (.inr hq)) (hep.symm.trans heq)
    rw [this]; exact hq
  · rintro ⟨hs, p, _, hn, hep⟩
    exact (h1 x).mpr ⟨hs, p, hn, hep⟩

end E2E

-- Non-vacuity: the demo project of C06 is not compliant, and lint-file on one of its files.
example : (generate spdxTable C06.demo).map (·.isCompliant) = some false := by decide +kernel
example : (lintFile spdxTable C06.demo ["b.c".toList, "LICENSES".toList, "nowhere.txt".toList]).map (·.2) = some 1 := by
  decide +kernel

-- the composed statements: lint-file on a tree, and path resolution (`.`, `..`, a file used as a directory,
-- a symlink, leaving the root)
example (c : E2ECfg) : ∃ out e, lintFileE2E spdxTable c [("l", .symlink .dangling)] [] [] = .ok out e := by
  refine ⟨[], 0, ?_⟩
  simp [lintFileE2E, namedPaths, lintFile, subsetReport, generateOn, fmtSubset, one, two, subsetCompliant,
    Report.noLicence, Report.noCopyright, globalOf, hasDep5, subtree, elookup, tomlFiles, iterFiles, toNodes,
    ENode.toNode, walkList, walkNode, projectOf, filesOf, coveredFiles, licFilesOf, licPathsOf, findLicenses, findLoop]
example : resolveArg [("d", .dir [("a", .file [1])]), ("l", .symlink .dangling)] ["d"] ⟨false, ["..", "d", ".", "a"]⟩ = .found ["d", "a"] := by decide
example : resolveArg [("d", .dir [("a", .file [1])]), ("l", .symlink .dangling)] ["d"] ⟨false, ["a", ".."]⟩ = .missing := by decide
example : resolveArg [("d", .dir [("a", .file [1])]), ("l", .symlink .dangling)] [] ⟨true, ["l"]⟩ = .missing := by decide
example : resolveArg [("d", .dir [("a", .file [1])]), ("l", .symlink .dangling)] ["d"] ⟨false, ["..", ".."]⟩ = .outside := by decide
example : resolveFrom [("d", .dir [("a", .file [1])])] [] ["d"] = .found ["d"] := by decide

-- ... and the naming / well-formedness hypotheses of the bijection statements
example : goodNames ["a b", "x.py"] := by
  intro s hs
  simp only [List.mem_cons, List.mem_nil_iff, or_false] at hs
  rcases hs with rfl | rfl <;> decide
example : ¬ goodNames ["a/b"] := by
  intro h; exact (h "a/b" (by simp)).2 (by decide)
example : wfEntries [("a.py", .file [35]), ("d", .dir [("a.py", .file [])])] := by simp [wfEntries, wfNode]

end C13
