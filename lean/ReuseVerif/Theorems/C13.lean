/-
Property C13 — every lint output format and lint-file tell the same story.
`Model.lintCmd` / `fmtJson` / `fmtPlain` / `fmtLines` / `fmtQuiet` model what the
four invocations print (as category/item entries) and their exit status;
`Model.lintFile` models `reuse lint-file`.  All statements are for every report
(any number of files, licences and simultaneous defects).
-/
import ReuseVerif.Lemmas.ReportMain
import ReuseVerif.Spec.Lint
import ReuseVerif.Theorems.C06

namespace C13
open Py Spec Model

/-- the four invocations end with the same exit status, that of the verdict -/
theorem C13_exit (r : Report) (f g : Format) :
    (lintCmd f r).2 = (lintCmd g r).2 ∧ ((lintCmd f r).2 = 0 ↔ r.isCompliant = true) := by
  simp [lintCmd, Report.exit]

/-- JSON lists exactly the report's collections, compliant or not -/
theorem C13_json (r : Report) (c : Cat) (a b : Text) : (c, a, b) ∈ fmtJson r ↔ Reported r c a b := by
  cases c <;> simp [fmtJson, one, two, Reported] <;> grind

/-- plain lists exactly the report's collections when the project is not compliant -/
theorem C13_plain (r : Report) (h : r.isCompliant = false) (c : Cat) (a b : Text) :
    (c, a, b) ∈ plainNormal (fmtPlain r) ↔ ReportedPlain r c a b := by
  simp only [fmtPlain, h, Bool.false_eq_true, ↓reduceIte, plainNormal_append, List.mem_append,
    mem_plainNormal_one, mem_plainNormal_two]
  cases c <;> simp [ReportedPlain, Reported] <;> grind

/-- lines lists exactly the report's collections when the project is not compliant -/
theorem C13_lines (r : Report) (h : r.isCompliant = false) (c : Cat) (a b : Text) :
    (c, a, b) ∈ fmtLines r ↔ ReportedLines r c a b := by
  cases c <;>
    simp [fmtLines, fmtSubset, h, one, two, ReportedLines, Reported] <;>
    grind

/-- a compliant project: plain, lines and quiet name nothing and every JSON list is empty -/
theorem C13_compliant_silent (r : Report) (h : r.isCompliant = true) :
    fmtPlain r = [] ∧ fmtLines r = [] ∧ fmtQuiet r = [] ∧ fmtJson r = [] := by
  obtain ⟨h1, h2, h3, h4, h5, h6, h7, h8⟩ := (isCompliant_iff r).mp h
  simp [fmtPlain, fmtLines, fmtQuiet, fmtJson, h, h1, h2, h3, h4, h5, h6, h7, h8, one, two]

/-- the formats agree: per category, what plain and lines say is what JSON says
    (modulo the documented rendering of licence-level items) -/
theorem C13_formats_agree (r : Report) (h : r.isCompliant = false) (c : Cat) (a b : Text) :
    ((c, a, b) ∈ plainNormal (fmtPlain r) ↔
      (if c = .noExt then (∃ p, (c, a, p) ∈ fmtJson r) ∧ b = [] else (c, a, b) ∈ fmtJson r)) ∧
    ((c, a, b) ∈ fmtLines r ↔
      (if c = .noExt ∨ c = .unused ∨ c = .deprecated then
        (∃ l p, (c, l, p) ∈ fmtJson r ∧ a = licPath r l) ∧ b = []
       else (c, a, b) ∈ fmtJson r)) := by
  rw [C13_plain r h, C13_lines r h]
  simp only [C13_json]
  cases c <;> simp [ReportedPlain, ReportedLines, Reported]

/-- the JSON summary counters are the sizes of the JSON's own lists -/
theorem C13_counters (r : Report) :
    let s := jsonSummary r
    s.filesTotal = s.files.length ∧
    s.withCopyright = s.files.length - count (fmtJson r) .noCopyright ∧
    s.withLicensing = s.files.length - count (fmtJson r) .noLicence ∧
    (s.compliant = true ↔ fmtJson r = []) := by
  refine ⟨by simp [jsonSummary], ?_, ?_, ?_⟩
  · simp [jsonSummary, fmtJson, count_append, count_one_same, count_one_ne, count_two_ne]
  · simp [jsonSummary, fmtJson, count_append, count_one_same, count_one_ne, count_two_ne]
  · simp [jsonSummary, isCompliant_iff, fmtJson, one, two]
    grind

/-- `lint-file F`: exactly the per-file problems `lint` reports (in its lines
    format) for the covered files among F, nothing about any other file, and exit
    status 1 iff something was reported. -/
theorem C13_lint_file (tbl : LicenseMap) (pr : Project) (F : List Text) (r : Report) (out : List Entry) (e : Nat)
    (hr : generate tbl pr = some r) (hl : lintFile tbl pr F = some (out, e)) :
    (∀ x, x ∈ out ↔ x ∈ fmtSubset r ∧ entryPath x ∈ F) ∧
    (∀ x ∈ out, perFile x.1 = true) ∧
    (e = 1 ↔ out ≠ []) ∧ (e = 0 ↔ out = []) := by
  obtain ⟨fd, hf, rfl⟩ := split_generate hr
  simp only [lintFile, hf, Option.map_some, Option.some.injEq, Prod.mk.injEq] at hl
  obtain ⟨rfl, rfl⟩ := hl
  refine ⟨?_, ?_, ?_, ?_⟩
  · rintro ⟨c, a, b⟩
    simp only [mem_fmtSubset, subset_missing, subset_readErrors, subset_noCopyright, subset_noLicence, entryPath]
    cases c <;> simp <;> grind
  · rintro ⟨c, a, b⟩
    cases c <;> simp [fmtSubset, one, two, perFile]
  · rw [Ne, fmtSubset_nil]; cases subsetCompliant (subsetReport fd pr.files F) <;> simp
  · rw [fmtSubset_nil]; cases subsetCompliant (subsetReport fd pr.files F) <;> simp

/-- names in F that are not covered files (non-covered files, directories, files
    outside the project) and repetitions contribute nothing -/
theorem C13_lint_file_only_covered (tbl : LicenseMap) (pr : Project) (F F' : List Text)
    (h : ∀ f ∈ pr.files, (f.path ∈ F ↔ f.path ∈ F')) : lintFile tbl pr F = lintFile tbl pr F' := by
  have : (pr.files.filter fun f => decide (f.path ∈ F)) = pr.files.filter fun f => decide (f.path ∈ F') := by
    apply List.filter_congr
    intro f hf
    have := h f hf
    by_cases h1 : f.path ∈ F <;> simp_all
  simp only [lintFile, subsetReport, List.contains_eq_mem, this]

-- Non-vacuity: the demo project of C06 is not compliant, and lint-file on one of its files.
example : (generate spdxTable C06.demo).map (·.isCompliant) = some false := by decide +kernel
example : (lintFile spdxTable C06.demo ["b.c".toList, "LICENSES".toList, "nowhere.txt".toList]).map (·.2) = some 1 := by
  decide +kernel

end C13
