/-
Property C15 — commands touch only what they are documented to touch.

Frame theorems on the abstract file system (`Model/Fs.lean`) for the command
models of `Model/AnnotateCmd.lean` and `Model/Effects.lean`, for one command and
for histories of any length.

What is *not* a theorem here: `lint`, `lint-file`, `spdx` without `--output`
and `supported-licenses` have no write operation in the model at all, so their
frame statement (`C15_read_only`) is true by construction.  That the real
commands perform no write — and that a write of the real commands at path `p`
affects `p` only — rests on the correspondence (whole-tree + outside-sentinel
snapshots with metadata, and the system-call monitor), not on a proof.
-/
import ReuseVerif.Lemmas.EffectsCmd
import ReuseVerif.Model.AnnotateE2E

namespace C15
open Model.Eff Spec.Eff

/-- `annotate` changes nothing outside the named files — with `--recursive` the covered files
    below the named directories — and their `.license` siblings.  Whatever fails or succeeds. -/
theorem C15_annotate_frame (env : Env) (w : World) (a : Args) (fs : Fs) (x : Path)
    (hwf : ∀ p ∈ expand env a fs, WfPath p) (hx : x ∉ allowed env w (.annotate a) fs) :
    (annotate env a fs).1 x = fs x :=
  annotate_frame env a fs x hwf hx

/-- `annotate` never writes to a symbolic link: every path the loop works on holds a regular
    file or (for a sibling chosen because it exists) something that is not a link. -/
theorem C15_annotate_no_link (env : Env) (a : Args) (fs : Fs) (ps : List Path)
    (h : preflight env a fs = .ok ps) : ∀ q ∈ ps, Fs.isLink fs q = false := by
  intro q hq
  rw [preflight_ok env a fs ps h] at hq
  unfold allPaths at hq
  simp only [List.mem_filter] at hq
  simpa using hq.2

/-- With `--recursive` nothing but the named regular files and the covered files below the
    named directories is expanded (ignored and excluded files are not in `env.below`). -/
theorem C15_expand_recursive (env : Env) (a : Args) (fs : Fs) (p : Path) (hr : a.recursive = true)
    (hp : p ∈ expand env a fs) : p ∈ a.paths ∨ ∃ d ∈ a.paths, p ∈ env.below d := by
  unfold expand at hp
  simp only [hr, if_true, List.mem_flatMap] at hp
  obtain ⟨d, hd, hpd⟩ := hp
  split at hpd
  · simp only [List.mem_cons, List.not_mem_nil, or_false] at hpd; exact .inl (hpd ▸ hd)
  · split at hpd
    · cases hpd
    · exact .inr ⟨d, hd, hpd⟩

/-- With `--recursive` a named symbolic link that does not lead to a regular file — a link to a
    directory, inside or outside the project, or a dangling one — contributes nothing: the
    directory behind it is not walked. -/
theorem C15_expand_skips_directory_links (env : Env) (a : Args) (fs : Fs) (p : Path) (hr : a.recursive = true)
    (hlinks : ∀ d ∈ a.paths, Fs.isLink fs d = true ∧ Fs.isFile fs d = false) : p ∉ expand env a fs := by
  intro hp
  unfold expand at hp
  simp only [hr, if_true, List.mem_flatMap] at hp
  obtain ⟨d, hd, hpd⟩ := hp
  simp only [(hlinks d hd).1, (hlinks d hd).2, Bool.false_eq_true, if_false, if_true, List.not_mem_nil] at hpd

/-- `convert-dep5` either refuses (status 2, nothing changed) or does exactly this: `REUSE.toml`,
    which did not exist, now holds the rendered conversion, `.reuse/dep5` is gone, every other path
    is as before. -/
theorem C15_convert_shape (w : World) (fs : Fs) :
    convertDep5 w fs = (fs, 2) ∨
    ∃ d, fs dep5Path = some (.file d) ∧ fs tomlPath = none ∧ (convertDep5 w fs).2 = 0 ∧
      (convertDep5 w fs).1 tomlPath = some (.file (w.render d)) ∧
      (convertDep5 w fs).1 dep5Path = none ∧
      ∀ x, x ≠ tomlPath → x ≠ dep5Path → (convertDep5 w fs).1 x = fs x := by
  rcases convertDep5_cases w fs with h | ⟨d, h1, h2, h3⟩
  · exact .inl h
  · refine .inr ⟨d, h1, h2, by rw [h3], ?_, ?_, ?_⟩
    · rw [h3]
      simp only [Fs.unlink, Fs.writeFile]
      rw [Fs.set_other _ _ (by decide)]
      simp
    · rw [h3]; simp [Fs.unlink]
    · intro x hx1 hx2
      rw [h3]
      simp only [Fs.unlink, Fs.writeFile]
      rw [Fs.set_other _ _ hx2, Fs.set_other _ _ hx1]

/-- `download` only adds: whatever existed before is still there, unchanged. -/
theorem C15_download_only_adds (w : World) (ids : List Text) (out : Option Path) (fs : Fs)
    (x : Path) (n : Node) (h : fs x = some n) : (download w ids out fs).1 x = some n := by
  unfold download
  split
  · exact h
  · exact downloadLoop_old w out _ x n fs h

/-- What `download` adds is a directory at the parent of a destination, or the fetched text at
    the destination of a requested identifier (`LICENSES/<id>.txt` or the `--output` path). -/
theorem C15_download_new (w : World) (ids : List Text) (out : Option Path) (fs : Fs) (x : Path)
    (h : fs x = none) :
    (download w ids out fs).1 x = none ∨
    (∃ id ∈ ids, x = w.parent (destOf w out id) ∧ (download w ids out fs).1 x = some .dir) ∨
    (∃ id ∈ ids, x = destOf w out id ∧ ∃ t, w.fetch id = some t ∧
      (download w ids out fs).1 x = some (.file t)) := by
  unfold download
  split
  · exact .inl h
  · rcases downloadLoop_new w out ids.eraseDups x fs h with h1 | ⟨i, hi, h1⟩ | ⟨i, hi, h1⟩
    · exact .inl h1
    · exact .inr (.inl ⟨i, List.mem_eraseDups.mp hi, h1⟩)
    · exact .inr (.inr ⟨i, List.mem_eraseDups.mp hi, h1⟩)

/-- The read-only commands have no write operation in the model (true by construction; the
    claim about the real commands rests on the snapshot / system-call correspondence). -/
theorem C15_read_only (env : Env) (w : World) (fs : Fs) (ps : List Path) :
    (exec env w .lint fs).1 = fs ∧ (exec env w (.lintFile ps) fs).1 = fs ∧
    (exec env w (.spdx none) fs).1 = fs ∧ (exec env w .supportedLicenses fs).1 = fs :=
  ⟨rfl, rfl, rfl, rfl⟩

/-- **Frame, one command.**  A path outside what the command is documented to touch is left
    exactly as it was. -/
theorem C15_frame (env : Env) (w : World) (c : Cmd) (fs : Fs) (x : Path)
    (hwf : CmdWf env c fs) (hx : x ∉ allowed env w c fs) : (exec env w c fs).1 x = fs x := by
  cases c with
  | annotate a => exact annotate_frame env a fs x hwf hx
  | convertDep5 =>
    simp only [allowed, List.mem_cons, List.not_mem_nil, or_false, not_or] at hx
    rcases C15_convert_shape w fs with h | ⟨d, _, _, _, _, _, h⟩
    · simp only [exec, h]
    · exact h x hx.1 hx.2
  | download ids out =>
    simp only [allowed, List.mem_flatMap, List.mem_cons, List.not_mem_nil, or_false, not_exists,
      not_and, not_or] at hx
    simp only [exec, download]
    split
    · rfl
    · exact downloadLoop_frame w out _ x (fun id hid => hx id (List.mem_eraseDups.mp hid)) fs
  | lint => rfl
  | lintFile ps => rfl
  | spdx o =>
    cases o with
    | none => rfl
    | some o =>
      simp only [allowed, List.mem_cons, List.not_mem_nil, or_false] at hx
      simp only [exec, Fs.writeFile]
      exact Fs.set_other _ _ hx
  | supportedLicenses => rfl

/-- **Frame, histories.**  A path that is outside the documented write set of every command of
    a history (each taken on the tree it starts from) is the same after the whole history. -/
theorem C15_history (env : Env) (w : World) (cs : List Cmd) (x : Path) :
    ∀ fs, Outside env w x cs fs → execAll env w cs fs x = fs x := by
  induction cs with
  | nil => intro fs _; rfl
  | cons c rest ih =>
    intro fs h
    obtain ⟨hwf, hx, hrest⟩ := h
    simp only [execAll]
    rw [ih _ hrest]
    exact C15_frame env w c fs x hwf hx

/-- **The frame for the composed end-to-end model of `reuse annotate`** (`Model/AnnotateE2E.lean`:
    the command-level state machine run with the text-level header builder, the generated style
    tables and — on a concrete tree — the covered-files walk of C03 as `below`).  Whatever the
    builder refuses or writes, whatever click rejects: a path that is neither a path of the
    invocation nor the `.license` sibling of one is left exactly as it was. -/
theorem C15_e2e_annotate_frame (w : Model.AE.World) (ww : World) (o : Model.AE.Opts) (fs : Fs) (x : Path)
    (hwf : ∀ p ∈ expand (Model.AE.envOf w o fs) (Model.AE.argsOf o) fs, WfPath p)
    (hx : x ∉ allowed (Model.AE.envOf w o fs) ww (.annotate (Model.AE.argsOf o)) fs) :
    (Model.AE.annotateE2E w o fs).1 x = fs x := by
  unfold Model.AE.annotateE2E
  split
  · rfl
  · exact annotate_frame _ _ fs x hwf hx

/-- On a concrete tree the paths `--recursive` adds are covered files of the walk (`Model.iterFiles`,
    verified in depth under C03): ignored and excluded files are reached only when named themselves. -/
theorem C15_e2e_recursive_covered (w : Model.AE.World) (wc : Model.WalkCfg) (o : Model.AE.Opts)
    (tree : Model.AE.Tree) (d p : Path)
    (hp : p ∈ (Model.AE.envOf { w with below := Model.AE.belowOf (Model.AE.coveredOf wc tree) } o
      (Model.AE.fsOf tree)).below d) :
    p ∈ Model.AE.coveredOf wc tree := by
  simp only [Model.AE.envOf, Model.AE.belowOf] at hp
  split at hp
  · exact hp
  · exact (List.mem_filter.mp hp).1

/-! ### non-vacuity -/

section Examples

def exEnv : Env where
  styleOf := fun p => if ".c".toList.isSuffixOf p then some ⟨false, true, false⟩
    else if ".license".toList.isSuffixOf p then some ⟨false, false, false⟩ else none
  binary := fun _ => false
  templateExists := fun _ => true
  hasInfo := fun _ => false
  below := fun d => if d = "src".toList then ["src/a.c".toList] else []
  build := fun _ t => .ok ('H' :: t)

def exWorld : World where
  render := fun d => 'T' :: d
  fetch := fun id => if id = "MIT".toList then some "mit".toList else none
  licDir := "LICENSES".toList
  parent := fun p => if p = "LICENSES/MIT.txt".toList then "LICENSES".toList else []
  bom := fun _ => "bom".toList

def exArgs : Args where
  infoGiven := true
  style := none
  template := none
  years := false
  excludeYear := false
  single := false
  multi := false
  recursive := true
  forceDot := false
  fallbackDot := false
  skipUnrec := false
  skipExisting := false
  paths := ["src".toList]

/-- a project with a link pointing outside, an ignored file (not in `below`), dep5 -/
def exFs : Fs := Fs.ofList [("src".toList, .dir), ("src/a.c".toList, .file "x".toList),
  ("src/ignored.c".toList, .file "y".toList), ("src/l.c".toList, .link "/outside/o.c".toList),
  ("/outside/o.c".toList, .file "o".toList), (".reuse/dep5".toList, .file "d".toList)]

def exHistory : List Cmd :=
  [.lint, .annotate exArgs, .download ["MIT".toList] none, .convertDep5, .spdx none]

example : Outside exEnv exWorld "/outside/o.c".toList exHistory exFs := by decide
example : Outside exEnv exWorld "src/ignored.c".toList exHistory exFs := by decide
example : ¬ Outside exEnv exWorld "src/a.c".toList exHistory exFs := by decide
example : execAll exEnv exWorld exHistory exFs "src/a.c".toList = some (.file "Hx".toList) := by decide
example : execAll exEnv exWorld exHistory exFs "LICENSES/MIT.txt".toList = some (.file "mit".toList) := by
  decide
example : execAll exEnv exWorld exHistory exFs "REUSE.toml".toList = some (.file "Td".toList) := by decide
example : execAll exEnv exWorld exHistory exFs ".reuse/dep5".toList = none := by decide
example : CmdWf exEnv (.annotate exArgs) exFs := by decide

end Examples

end C15
