/-
Model of tag recognition in `src/reuse/extract.py`:
`_LICENSE_IDENTIFIER_PATTERN` / `_CONTRIBUTOR_PATTERN` with `findall`
(`^(.*?)TAG[ \t]+(.*?)END$`, MULTILINE) and the post-processing of
`find_spdx_tag`.  END is the pattern *generated* from the source
(`Generated.endRe`); everything else mirrors how CPython's backtracking engine
runs this particular pattern:
* `^` anchors at line starts, `.` never crosses "\n": a match lies within one line
  up to the value; only END's `\s*` parts can cross a line break;
* the prefix is lazy, `TAG[ \t]+` needs a blank: the match starts at the first
  occurrence of the tag followed by a blank; the blanks are greedy;
* the value is lazy: the shortest text after which END matches up to a line end
  (`$`); END's own choices follow backtracking priority (`Re.btO`);
* `findall` resumes at the end of the match (a line end).
-/
import ReuseVerif.Py.Re
import ReuseVerif.Generated.Text

namespace Model
open Py

def isBlank (c : Char) : Bool := c == ' ' || c == '\t'

def atLineEnd (r : Text) : Bool :=
  match r with
  | [] => true
  | c :: _ => c == '\n'

/-- END followed by `$` (MULTILINE): the text that remains after END, at a line end. -/
def matchEndWith (endRe : Re) (s : Text) : Option Text :=
  Re.btO endRe s (fun r => if atLineEnd r then some r else none)

/-- `(.*?)END$` starting inside a line: the shortest value and where the match ends. -/
def valueAndRestWith (endRe : Re) : Text → Option (Text × Text)
  | [] => (matchEndWith endRe []).map fun r => ([], r)
  | c :: cs =>
    match matchEndWith endRe (c :: cs) with
    | some r => some ([], r)
    | none =>
      if c == '\n' then none
      else (valueAndRestWith endRe cs).map fun (v, r) => (c :: v, r)

/-- `^(.*?)TAG[ \t]` within the current line: the prefix and the text after the tag. -/
def findTagInLine (tag : Text) : Text → Option (Text × Text)
  | [] => none
  | c :: cs =>
    if tag.isPrefixOf (c :: cs) && (((c :: cs).drop tag.length).head?.map isBlank).getD false then
      some ([], (c :: cs).drop tag.length)
    else if c == '\n' then none
    else (findTagInLine tag cs).map fun (p, r) => (c :: p, r)

/-- the text after the next "\n" (empty when there is none) -/
def nextLine (s : Text) : Text := (s.dropWhile (· != '\n')).drop 1

/-- `pattern.findall(text)`: (prefix, value) pairs in order. `fuel` bounds the number of
    line starts visited. -/
def findAllWith (endRe : Re) (tag : Text) : Nat → Text → List (Text × Text)
  | 0, _ => []
  | _ + 1, [] => []
  | fuel + 1, s =>
    match findTagInLine tag s with
    | none => findAllWith endRe tag fuel (nextLine s)
    | some (pre, afterTag) =>
      match valueAndRestWith endRe (afterTag.dropWhile isBlank) with
      | none => findAllWith endRe tag fuel (nextLine s)
      | some (v, r) => (pre, v) :: findAllWith endRe tag fuel (r.drop 1)

/-- the body of the loop in `find_spdx_tag` -/
def cleanTag (pv : Text × Text) : Text :=
  let pre := strip pv.1
  let value := strip pv.2
  let suffix := pre.reverse
  -- an ASCII-art frame: the line ends with the mirror image of what precedes the tag,
  -- separated from the value by white space
  let value :=
    if !suffix.isEmpty && suffix.isSuffixOf value &&
        (value.length == suffix.length ||
          ((value.take (value.length - suffix.length)).getLast?.map isSpace).getD false) then
      value.take (value.length - suffix.length)
    else value
  strip value

/-- `find_spdx_tag(text, pattern)` as a list (the caller makes a set of it). -/
def findSpdxTagWith (endRe : Re) (tag : Text) (text : Text) : List Text :=
  (findAllWith endRe tag (text.length + 1) text).map cleanTag

def findSpdxTag (tag : Text) (text : Text) : List Text := findSpdxTagWith Generated.endRe tag text

end Model
