/-
Model of file-type detection and of the routing between "header inside the file" and
"header in FILE.license" (src/reuse/comment.py `get_comment_style`, `is_uncommentable`,
`has_style`; src/reuse/cli/annotate.py the loop of `annotate`, `verify_paths_comment_style`;
src/reuse/_annotate.py the head of `add_header_to_file`) over the *generated* tables
(`Generated.extensionStyleMap`, `Generated.filenameStyleMap`, `Generated.nameStyleMap`).
-/
import ReuseVerif.Generated.StyleMaps
import ReuseVerif.Model.Comment

namespace Model
open Py
open Generated (Style)

/-- `str.lower()` as far as a comparison with an ASCII key can tell: ASCII letters, and the
    Kelvin sign (the only non-ASCII character whose lower case is an ASCII letter) -/
def lowerChar (c : Char) : Char := if c.toNat = 0x212A then 'k' else c.toLower

def lowerText (t : Text) : Text := t.map lowerChar

/-- `PurePath(p).name` for a POSIX path without trailing slash -/
def baseName (p : Text) : Text := (p.reverse.takeWhile (· != '/')).reverse

/-- `PurePath(name).suffix` (Python 3.12): from the last dot, when that dot is neither the first
    nor the last character of the name -/
def pySuffix (name : Text) : Text :=
  let tail := name.reverse.takeWhile (· != '.')
  if tail.length < name.length then
    let i := name.length - tail.length - 1
    if 0 < i ∧ 0 < tail.length then name.drop i else []
  else []

/-- `{key.lower(): value for key, value in MAP.items()}.get(k)`: the last entry wins -/
def lookupLower (table : List (String × String)) (k : Text) : Option String :=
  (table.reverse.find? fun kv => lowerText kv.1.toList == k).map (·.2)

/-- `get_comment_style(path)`: the name of the style class, `none` when unrecognised -/
def commentStyleName (path : Text) : Option String :=
  let name := baseName path
  match lookupLower Generated.filenameStyleMap (lowerText name) with
  | some s => some s
  | none => lookupLower Generated.extensionStyleMap (lowerText (pySuffix name))

def styleByName (n : String) : Option Style := Generated.styles.find? (·.name == n)

/-- `NAME_STYLE_MAP.get(style)` -/
def forcedStyle (shorthand : String) : Option Style :=
  (Generated.nameStyleMap.find? (·.1 == shorthand)).bind fun kv => styleByName kv.2

inductive Route where
  | usage                      -- click usage error (exit 2), nothing is touched
  | skipped                    -- --skip-unrecognised: reported, nothing written
  | inFile (s : Style)         -- header inside the file, in style `s`
  | dotLicense (s : Style)     -- header in FILE.license, in style `s`
  | crash                      -- a style class missing from the style table (table obligation C07_table)

structure RouteArgs where
  style : Option String        -- --style
  forceDot : Bool
  fallbackDot : Bool
  skipUnrec : Bool
  single : Bool
  multi : Bool
  binary : Bool                -- binaryornot's verdict on the file
  deriving Repr

def licenseExt : Text := ".license".toList

/-- the style `add_header_to_file` ends up with for `path` (`NAME_STYLE_MAP.get(style)` first, then
    the tables) -/
def effectiveStyleName (a : RouteArgs) (path : Text) : Option (Option Style) :=
  match a.style.bind forcedStyle with
  | some s => some (some s)
  | none =>
    match commentStyleName path with
    | none => some none
    | some n => (styleByName n).map some

/-- `--force-dot-license`, a binary file, or a file of an uncommentable type: the header goes to
    FILE.license -/
def wantsDotLicense (a : RouteArgs) (path : Text) : Bool :=
  a.binary || commentStyleName path == some "UncommentableCommentStyle" || a.forceDot

/-- the loop of `annotate`: FILE.license, then `add_header_to_file` on that path -/
def routeDot (a : RouteArgs) (path : Text) : Route :=
  match effectiveStyleName a (path ++ licenseExt) with
  | some (some s) => .dotLicense s
  | _ => .crash

/-- `add_header_to_file` on the file itself -/
def routeInFile (a : RouteArgs) (st : Option Style) : Route :=
  match st with
  | some s => .inFile s
  | none =>
    if a.skipUnrec then .skipped
    else if a.fallbackDot then
      match styleByName "EmptyCommentStyle" with
      | some s => .dotLicense s
      | none => .crash
    else .crash

/-- `verify_paths_line_handling` -/
def lineModeBad (a : RouteArgs) (st : Option Style) : Bool :=
  match st with
  | none => false
  | some s => (a.single && !s.canSingle) || (a.multi && !s.canMulti)

/-- where `reuse annotate FILE` writes, and in which style (for a FILE without an existing
    FILE.license; with one, `all_paths` has already replaced FILE by it) -/
def route (a : RouteArgs) (path : Text) : Route :=
  -- `--style` and `--skip-unrecognised` exclude each other (MutexOption); verify_paths_comment_style
  if (a.style.isSome && a.skipUnrec) ||
      (a.style.isNone && !a.fallbackDot && !a.skipUnrec && !a.forceDot && (commentStyleName path).isNone) then .usage
  else
    match effectiveStyleName a path with
    | none => .crash
    | some st =>
      if lineModeBad a st then .usage
      else if wantsDotLicense a path then routeDot a path
      else routeInFile a st

end Model
