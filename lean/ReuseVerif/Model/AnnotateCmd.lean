/-
Model of the `reuse annotate` command as a state machine over the abstract file
system (src/reuse/cli/annotate.py, src/reuse/_annotate.py):

* `preflight` — everything that ends in a usage error (exit status 2): click's
  path-existence check, the mutually exclusive options, the mandatory option,
  `all_paths`, `verify_paths_comment_style`, `verify_paths_line_handling`,
  `get_template`.  Nothing is written before it has finished.
* `step` — the body of the per-file loop with `add_header_to_file` (`addHeader`):
  choice of the file that receives the header (the file itself, or its
  `.license` sibling for binary / uncommentable files, `--force-dot-license`
  and `--fallback-dot-license`), `--skip-unrecognised`, `--skip-existing`, the
  `try / except CommentCreateError, MissingReuseInfoError / else write`.
  The header builder is the parameter `Env.build`.
* `runSteps`, `annotate` — the loop and `sys.exit(min(result, 1))`.

The model is the behaviour after the repair `fixes/annotate-no-empty-license.diff`
(a sibling this invocation created is removed again when the step fails) and
`fixes/annotate-skip-symlinks.diff` (a symbolic link is never the written path) and
`fixes/annotate-dangling-license-link.diff` (a dangling link at the `.license` position makes
the file fail instead of being written through).
-/
import ReuseVerif.Model.Fs

namespace Model.Eff

/-- what the command needs to know about a comment style -/
structure Style where
  single : Bool          -- `can_handle_single()`
  multi : Bool           -- `can_handle_multi()`
  unc : Bool             -- `UncommentableCommentStyle`
  deriving DecidableEq, Repr

inductive BuildError where
  | commentCreate        -- `CommentCreateError`
  | missingInfo          -- `MissingReuseInfoError`
  | unreadable           -- `OSError`, `UnicodeDecodeError`: the file cannot be read as UTF-8 text
  deriving DecidableEq, Repr

/-- everything outside the command's own control flow -/
structure Env where
  styleOf : Path → Option Style                    -- `get_comment_style(path)` (by name)
  binary : Path → Bool                             -- binaryornot's `is_binary`
  templateExists : Text → Bool                     -- `find_template` succeeds
  hasInfo : Text → Bool                            -- `contains_reuse_info`
  below : Path → List Path                         -- `Project.all_files()` below a directory (C03)
  build : Path → Text → Except BuildError Text     -- header creation + splice for the written path

structure Args where
  infoGiven : Bool                                 -- any of --copyright / --license / --contributor
  style : Option Style                             -- `--style`
  template : Option Text                           -- `--template`
  years : Bool
  excludeYear : Bool
  single : Bool
  multi : Bool
  recursive : Bool
  forceDot : Bool
  fallbackDot : Bool
  skipUnrec : Bool
  skipExisting : Bool
  paths : List Path

def licExt : List Char := ".license".toList

/-- `FILE.license` -/
def sibling (p : Path) : Path := p ++ licExt

/-- what precedes a final `.license` -/
def stem (p : Path) : Path := p.take (p.length - licExt.length)

/-- pathlib's `path.suffix == ".license"`: the name ends in `.license` and that dot is not the
    first character of the name -/
def hasLicSuffix (p : Path) : Bool :=
  licExt.isSuffixOf p && (stem p != [] && (stem p).getLast? != some '/')

/-- `_determine_license_suffix_path` -/
def licSuffix (p : Path) : Path := if hasLicSuffix p then p else sibling p

/-- `_determine_license_path`: `FILE.license` if it exists, else `FILE` -/
def licPath (fs : Fs) (p : Path) : Path := if Fs.pathExists fs (sibling p) then sibling p else p

/-- the `--recursive` expansion of `all_paths`: a named file stands for itself, a named
    directory for the covered files below it, a symbolic link to a directory for nothing (it is
    not followed: fixes/annotate-recursive-directory-link.diff) -/
def expand (env : Env) (a : Args) (fs : Fs) : List Path :=
  if a.recursive then a.paths.flatMap (fun p => if Fs.isFile fs p then [p] else if Fs.isLink fs p then [] else env.below p)
  else a.paths

/-- `all_paths`: a set of paths, directories dropped, `.license` preferred when it exists; a
    symbolic link is never a path to write to -/
def allPaths (env : Env) (a : Args) (fs : Fs) : List Path :=
  ((((expand env a fs).eraseDups).filter (Fs.isFile fs)).map (licPath fs)).filter
    (fun p => !Fs.isLink fs p)

inductive Usage where
  | noSuchPath | mutex | noInfo | unrecognised | lineMode | template
  deriving DecidableEq, Repr

def mutexViolated (a : Args) : Bool :=
  (a.years && a.excludeYear) || (a.single && a.multi)
  || (a.forceDot && a.fallbackDot) || (a.forceDot && a.skipUnrec) || (a.fallbackDot && a.skipUnrec)
  || (a.style.isSome && a.skipUnrec)

/-- the style `verify_paths_line_handling` and `add_header_to_file` work with -/
def effStyle (env : Env) (a : Args) (p : Path) : Option Style :=
  match a.style with
  | some s => some s
  | none => env.styleOf p

def lineBad (env : Env) (a : Args) (p : Path) : Bool :=
  match effStyle env a p with
  | none => false
  | some s => (a.single && !s.single) || (a.multi && !s.multi)

def templateMissing (env : Env) (a : Args) : Bool :=
  match a.template with
  | some t => !env.templateExists t
  | none => false

def preflight (env : Env) (a : Args) (fs : Fs) : Except Usage (List Path) :=
  if a.paths.any (fun p => !Fs.pathExists fs p) then .error .noSuchPath
  else if mutexViolated a then .error .mutex
  else if !a.infoGiven then .error .noInfo
  else
    let ps := allPaths env a fs
    if !(a.style.isSome || a.fallbackDot || a.skipUnrec || a.forceDot)
        && ps.any (fun p => (env.styleOf p).isNone) then .error .unrecognised
    else if ps.any (lineBad env a) then .error .lineMode
    else if templateMissing env a then .error .template
    else .ok ps

/-- Run `k` with a regular file guaranteed at `t`: it is created (empty) when nothing is there,
    and removed again when `k` reports a failure and this call created it.  (The repaired
    `touch()` sites of cli/annotate.py and _annotate.py.) -/
def guarded (fs : Fs) (t : Path) (k : Fs → Fs × Bool) : Fs × Bool :=
  let created := (fs t).isNone
  let r := k (if created then Fs.create fs t else fs)
  (if r.2 && created then Fs.unlink r.1 t else r.1, r.2)

/-- `guarded` at a `.license` position: a symbolic link found there (necessarily a dangling one,
    `all_paths` has dropped the others) makes the file fail; nothing is written through it. -/
def guardedNoLink (fs : Fs) (t : Path) (k : Fs → Fs × Bool) : Fs × Bool :=
  if Fs.isLink fs t then (fs, true) else guarded fs t k

/-- the tail of `add_header_to_file` once the written path `t` is known: read, `--skip-existing`,
    `try` header `except CommentCreateError, MissingReuseInfoError` / `else` write -/
def writeHeader (env : Env) (a : Args) (t : Path) (fs : Fs) : Fs × Bool :=
  let text := Fs.readText fs t
  if a.skipExisting && env.hasInfo text then (fs, false)
  else
    match env.build t text with
    | .ok out => (Fs.writeFile fs t out, false)
    | .error _ => (fs, true)

/-- `add_header_to_file(path = t1)`; the Boolean is `result == 1` -/
def addHeader (env : Env) (a : Args) (t1 : Path) (fs : Fs) : Fs × Bool :=
  let unknown := (effStyle env a t1).isNone
  if unknown && a.skipUnrec then (fs, false)
  else if unknown && a.fallbackDot then guardedNoLink fs (licSuffix t1) (writeHeader env a (licSuffix t1))
  else writeHeader env a t1 fs

def useSibling (env : Env) (a : Args) (p : Path) : Bool :=
  env.binary p || (match env.styleOf p with | some s => s.unc | none => false) || a.forceDot

/-- one iteration of the loop in `annotate` -/
def step (env : Env) (a : Args) (fs : Fs) (p : Path) : Fs × Bool :=
  if useSibling env a p then guardedNoLink fs (licSuffix p) (addHeader env a (licSuffix p))
  else addHeader env a p fs

/-- the loop: `result += add_header_to_file(...)` -/
def runSteps (env : Env) (a : Args) : Fs → List Path → Fs × Bool
  | fs, [] => (fs, false)
  | fs, p :: ps =>
    let r1 := step env a fs p
    let r2 := runSteps env a r1.1 ps
    (r2.1, r1.2 || r2.2)

/-- the command: final file system and exit status -/
def annotate (env : Env) (a : Args) (fs : Fs) : Fs × Nat :=
  match preflight env a fs with
  | .error _ => (fs, 2)
  | .ok ps =>
    let r := runSteps env a fs ps
    (r.1, if r.2 then 1 else 0)

end Model.Eff
