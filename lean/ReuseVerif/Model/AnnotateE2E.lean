/-
The two models of `reuse annotate` composed into one executable end-to-end model.

  command line ──click──▶ `Opts`                       (src/reuse/cli/annotate.py, the decorators)
  `Opts`       ──────────▶ `Eff.Args`                  (`argsOf`: what the state machine of
                                                        Model/AnnotateCmd.lean looks at)
  `Opts`, tree ──────────▶ `Eff.Env`                   (`envOf`: every parameter of that state
                                                        machine instantiated from the text level)
      styleOf   = `get_comment_style` over the generated tables        (Model/StyleTable.lean)
      hasInfo   = `contains_reuse_info` behind a byte order mark        (Model/Extract.lean)
      build t x = the text-level `add_header_to_file` (`Model.annotateFile`, Model/Header.lean)
                  for the *written* path `t`: style of `t` (`--style` first, else by the name of
                  `t` — the `.license` pseudo style for siblings), `--multi-line`, the template
                  found below `.reuse/templates/` (else the bundled one), `--merge-copyrights`,
                  `--no-replace`, and the information requested on the command line
                  (`get_year`, `get_reuse_info`: `make_copyright_line` with the
                  `--copyright-prefix`, the licences as the parser prints them, contributors)
      below     = `Project.all_files()` below a directory               (Model/Covered.lean, `annotateTree`)
  `annotateE2E` = click's own refusals, then `Eff.annotate` with that environment.

What stays an oracle (a parameter, answered by the harness with the real libraries):
binaryornot (`binary`), license-expression (`parses`, `normLic`), Jinja (`renderOf`: the text a
template file renders for given lists), the clock (`curYear`), the version control system (as in
Model/Covered), and which regular files are not UTF-8 text (`unreadable`; with a concrete tree:
the `raw` nodes).
-/
import ReuseVerif.Model.AnnotateCmd
import ReuseVerif.Model.StyleTable
import ReuseVerif.Model.Header
import ReuseVerif.Model.Covered

namespace Model.AE
open Py Model
open Model.Eff hiding Text

/-- a template as `get_template` delivers it: what it renders, and whether its name says that it
    is already commented -/
structure Tmpl where
  render : RInfo → Text
  commented : Bool

/-- the command line as click hands it to `annotate` -/
structure Opts where
  copyrights : List Text
  licenses : List Text              -- as typed
  contributors : List Text
  years : List Text                 -- `--year`, repeatable
  excludeYear : Bool
  prefixKey : Option String         -- `--copyright-prefix`
  style : Option String             -- `--style`
  template : Option Text            -- `--template`
  mergeCopyrights : Bool
  single : Bool
  multi : Bool
  recursive : Bool
  noReplace : Bool
  forceDot : Bool
  fallbackDot : Bool
  skipUnrec : Bool
  skipExisting : Bool
  paths : List Path

/-- everything the command asks of the outside world -/
structure World where
  curYear : Text                            -- `str(datetime.date.today().year)`
  parses : Text → Bool                      -- `_LICENSING.parse` succeeds
  normLic : Text → Text                     -- `str(_LICENSING.parse(x))`
  binary : Path → Bool                      -- binaryornot's `is_binary`
  unreadable : Path → Bool                  -- a regular file that is not UTF-8 text
  below : Path → List Path                  -- `Project.all_files()` below a directory
  renderOf : Path → RInfo → Text            -- Jinja: the template file at that path, rendered

/-! ### the requested information (`get_year`, `get_reuse_info`) -/

/-- `min(years)` / `max(years)` on strings: code point order, the first of equal ones -/
def minText : Text → List Text → Text
  | a, [] => a
  | a, x :: xs => minText (if textLt x a then x else a) xs
def maxText : Text → List Text → Text
  | a, [] => a
  | a, x :: xs => maxText (if textLt a x then x else a) xs

/-- `get_year` -/
def yearOf (w : World) (o : Opts) : Option Text :=
  if o.excludeYear then none
  else match o.years with
    | [] => some w.curYear
    | [y] => some y
    | y :: ys => some (minText y ys ++ " - ".toList ++ maxText y ys)

/-- `_COPYRIGHT_PREFIXES.get(copyright_prefix)`, `"spdx"` when the option is absent -/
def prefixText (o : Opts) : Option Text :=
  (Generated.copyrightPrefixes.find? (·.1 == o.prefixKey.getD "spdx")).map (·.2)

/-- `get_reuse_info`: three sets — the copyright lines through `make_copyright_line`, the parsed
    expressions (held as the parser prints them), the contributors -/
def requested (w : World) (o : Opts) : Extracted :=
  { cpr := dedup (o.copyrights.map fun s => makeLine s (yearOf w o) ((prefixText o).getD []))
    lic := dedup (o.licenses.map w.normLic)
    con := dedup o.contributors }

/-! ### the template (`find_template`, `get_template`) -/

def templateDir : Path := ".reuse/templates/".toList

/-- the names `find_template` tries, in order -/
def templateCandidates (name : Text) : List Text :=
  [name] ++ (if endsWith name ".jinja2".toList then [] else [name ++ ".jinja2".toList])
    ++ (if endsWith name ".commented.jinja2".toList then [] else [name ++ ".commented.jinja2".toList])

/-- the template file Jinja's `FileSystemLoader` finds (a regular file, links followed) -/
def findTemplate (fs : Fs) (name : Text) : Option Path :=
  ((templateCandidates name).map (templateDir ++ ·)).find? (Fs.isFile fs)

/-- `".commented" in Path(template.name).suffixes` (pathlib 3.12: nothing for a name ending in a
    dot; leading dots do not count; every later dot starts a suffix) -/
def commentedName (path : Path) : Bool :=
  let name := baseName path
  if name.getLast? == some '.' then false
  else ((splitOn ['.'] (name.dropWhile (· == '.'))).drop 1).contains "commented".toList

/-- `--template ""` is no template (`if template_str:`) -/
def templateName (o : Opts) : Option Text := o.template.filter (!·.isEmpty)

/-- `get_template` for a name -/
def templateOf (w : World) (fs : Fs) (name : Text) : Option Tmpl :=
  (findTemplate fs name).map fun p => { render := w.renderOf p, commented := commentedName p }

/-! ### comment styles -/

/-- what the command-level state machine needs to know about a style of the table -/
def cmdStyle (s : Generated.Style) : Eff.Style :=
  { single := s.canSingle, multi := s.canMulti, unc := s.name == "UncommentableCommentStyle" }

/-- `get_comment_style(path)` as a style of the generated table -/
def genStyleOf (p : Path) : Option Generated.Style := (commentStyleName p).bind styleByName

/-- `NAME_STYLE_MAP.get(style)` for the `--style` option -/
def forced (o : Opts) : Option Generated.Style := o.style.bind forcedStyle

/-- the style `add_header_to_file` comments the header in when `t` is the path it writes:
    `--style` first, then the name of `t` itself (so `FILE.license` gets the pseudo style that
    leaves the header as it is, whatever `FILE` is) -/
def writtenStyle (o : Opts) (t : Path) : Option Generated.Style :=
  match forced o with
  | some s => some s
  | none => genStyleOf t

/-! ### the header builder of the command, from the text level -/

/-- the configuration of `find_and_replace_header` / `add_new_header` for one written path -/
def hdrCfg (w : World) (o : Opts) (tm : Option Tmpl) (s : Generated.Style) : HdrCfg :=
  { style := s
    render := match tm with | some t => t.render | none => defaultRender
    commented := match tm with | some t => t.commented | none => false
    forceMulti := o.multi
    merge := o.mergeCopyrights
    parses := w.parses
    normLic := w.normLic }

def toBuildError : HeaderErr → BuildError
  | .commentCreate => .commentCreate
  | .missingInfo => .missingInfo

/-- the body of `add_header_to_file` from `open(path)` on, for the written path `t` holding `text`:
    `UnicodeDecodeError` for a file that is not UTF-8 text; otherwise the text-level model (byte
    order mark, line endings, header search, `create_header`, splice) in the style of `t`.
    `--skip-existing` has been decided before (`Eff.writeHeader`), so it is off here.
    A path without any style does not get here (`build_reached_styled`); header.py would fall back
    to the Python style, and so does this. -/
def build (w : World) (o : Opts) (tm : Option Tmpl) (t : Path) (text : Text) : Except BuildError Text :=
  if w.unreadable t then .error .unreadable
  else
    match (writtenStyle o t).orElse (fun _ => styleByName "PythonCommentStyle") with
    | none => .error .commentCreate
    | some s =>
      match annotateFile (hdrCfg w o tm s) (!o.noReplace) false (requested w o) text with
      | .written out => .ok out
      | .failed e => .error (toBuildError e)
      | .skipped => .ok text

/-- a leading byte order mark is set aside before anything is looked for -/
def dropBom : Text → Text
  | ch :: rest => if ch == bomChar then rest else ch :: rest
  | [] => []

/-- the environment of the command-level state machine, every field from the text level or the world -/
def envOf (w : World) (o : Opts) (fs : Fs) : Env :=
  { styleOf := fun p => (genStyleOf p).map cmdStyle
    binary := w.binary
    templateExists := fun name => (findTemplate fs name).isSome
    hasInfo := fun text => containsReuseInfo w.parses (dropBom text)
    below := w.below
    build := build w o ((templateName o).bind (templateOf w fs)) }

/-- what the state machine looks at of the command line -/
def argsOf (o : Opts) : Args :=
  { infoGiven := !(o.copyrights.isEmpty && o.licenses.isEmpty && o.contributors.isEmpty)
    style := (forced o).map cmdStyle
    template := templateName o
    years := !o.years.isEmpty
    excludeYear := o.excludeYear
    single := o.single
    multi := o.multi
    recursive := o.recursive
    forceDot := o.forceDot
    fallbackDot := o.fallbackDot
    skipUnrec := o.skipUnrec
    skipExisting := o.skipExisting
    paths := o.paths }

/-- click's own refusals before `annotate` is entered: a `--style` / `--copyright-prefix` value
    outside the choices, a `--license` value that is not an SPDX expression (`spdx_identifier`) -/
def clickRejects (w : World) (o : Opts) : Bool :=
  (o.style.any fun s => (forcedStyle s).isNone) || (prefixText o).isNone || o.licenses.any (!w.parses ·)

/-- **`reuse annotate`**: final file system and exit status -/
def annotateE2E (w : World) (o : Opts) (fs : Fs) : Fs × Nat :=
  if clickRejects w o then (fs, 2) else annotate (envOf w o fs) (argsOf o) fs

/-! ### a concrete tree: the covered-files walk of C03 as `below`, `raw` files as `unreadable` -/

inductive TNode where
  | file (content : Text)                    -- a regular file holding UTF-8 text
  | raw                                      -- a regular, non-empty file that is not UTF-8 text
  | link (target : Path)                     -- a symbolic link; the target is relative to its directory
  | dir (children : List (String × TNode))
  deriving Inhabited

abbrev Tree := List (String × TNode)

mutual
/-- the tree `Model.iterFiles` walks: only whether a file is empty matters to it -/
def TNode.toNode : TNode → Model.Node
  | .file c => .file c.length
  | .raw => .file 1
  | .link _ => .symlink
  | .dir cs => .dir (toNodes cs)
def toNodes : List (String × TNode) → List (String × Model.Node)
  | [] => []
  | (n, c) :: rest => (n, c.toNode) :: toNodes rest
end

def joinDir (dir : Path) (name : Path) : Path := if dir.isEmpty then name else dir ++ '/' :: name

/-- the directory part of a relative path (empty for a name in the root) -/
def parentDir (p : Path) : Path := ((p.reverse.dropWhile (· != '/')).drop 1).reverse

/-- what stands for the content of a file that cannot be decoded: one U+FFFD (never read as
    text by the model: `build` refuses such a path first; it carries no REUSE information) -/
def rawText : Text := [Char.ofNat 0xFFFD]

mutual
def TNode.entries (path : Path) : TNode → List (Path × Eff.Node)
  | .file c => [(path, .file c)]
  | .raw => [(path, .file rawText)]
  | .link t => [(path, .link (joinDir (parentDir path) t))]
  | .dir cs => (path, .dir) :: entriesOf path cs
def entriesOf (dir : Path) : List (String × TNode) → List (Path × Eff.Node)
  | [] => []
  | (n, c) :: rest => c.entries (joinDir dir n.toList) ++ entriesOf dir rest
end

/-- the flat file system of the tree (the root directory is `.`) -/
def fsOf (tree : Tree) : Fs := Fs.ofList (((['.'], Eff.Node.dir)) :: entriesOf [] tree)

mutual
def TNode.raws (path : Path) : TNode → List Path
  | .raw => [path]
  | .dir cs => rawsOf path cs
  | _ => []
def rawsOf (dir : Path) : List (String × TNode) → List Path
  | [] => []
  | (n, c) :: rest => c.raws (joinDir dir n.toList) ++ rawsOf dir rest
end

/-- `Project.all_files()`, as paths relative to the root -/
def coveredOf (wc : WalkCfg) (tree : Tree) : List Path :=
  (iterFiles wc "" (toNodes tree)).map fun p => ("/".intercalate p).toList

/-- the covered files below the directory `d` (`path.resolve() in child.parents`; `.` is the root) -/
def belowOf (all : List Path) (d : Path) : List Path :=
  if d == ['.'] then all else all.filter fun p => (d ++ ['/']).isPrefixOf p

/-- **`reuse annotate` on a concrete tree** -/
def annotateTree (w : World) (wc : WalkCfg) (o : Opts) (tree : Tree) : Fs × Nat :=
  annotateE2E { w with below := belowOf (coveredOf wc tree), unreadable := fun p => (rawsOf [] tree).contains p }
    o (fsOf tree)

end Model.AE
