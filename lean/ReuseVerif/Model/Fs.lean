/-
Abstract file system shared by the effect models (C11, C15): a total function
from paths to what is found there.  Paths are plain texts (`List Char`), the
model never normalises them.  A write at path `p` changes the answer at `p`
only; that the real kernel behaves like this for the paths the commands write
to (no symbolic link at the written path or above it) is what the snapshot
correspondence checks, not a theorem.
-/
namespace Model.Eff

abbrev Path := List Char
abbrev Text := List Char

inductive Node where
  | file (content : Text)
  | dir
  | link (target : Path)
  deriving DecidableEq, Repr, Inhabited

abbrev Fs := Path → Option Node

namespace Fs

def set (fs : Fs) (p : Path) (n : Option Node) : Fs := fun q => if q = p then n else fs q

def ofList (l : List (Path × Node)) : Fs := fun q => (l.find? (fun e => e.1 == q)).map (·.2)

/-- a regular file sits at `p` itself (`is_file() and not is_symlink()`) -/
def isRegular (fs : Fs) (p : Path) : Bool :=
  match fs p with
  | some (.file _) => true
  | _ => false

def isLink (fs : Fs) (p : Path) : Bool :=
  match fs p with
  | some (.link _) => true
  | _ => false

/-- `Path.exists()` / `os.stat`: symbolic links are followed (one level is modelled) -/
def pathExists (fs : Fs) (p : Path) : Bool :=
  match fs p with
  | none => false
  | some (.link t) => (fs t).isSome
  | some _ => true

/-- `Path.is_file()`: symbolic links are followed (one level is modelled) -/
def isFile (fs : Fs) (p : Path) : Bool :=
  match fs p with
  | some (.file _) => true
  | some (.link t) => isRegular fs t
  | _ => false

/-- text read from `p`; the commands only read paths that hold a regular file -/
def readText (fs : Fs) (p : Path) : Text :=
  match fs p with
  | some (.file c) => c
  | _ => []

/-- create an empty regular file (used only where nothing is at `p`) -/
def create (fs : Fs) (p : Path) : Fs := set fs p (some (.file []))

def writeFile (fs : Fs) (p : Path) (c : Text) : Fs := set fs p (some (.file c))

def unlink (fs : Fs) (p : Path) : Fs := set fs p none

/-- `mkdir(exist_ok=True)` -/
def mkdir (fs : Fs) (p : Path) : Fs :=
  match fs p with
  | none => set fs p (some .dir)
  | some _ => fs

end Fs

end Model.Eff
