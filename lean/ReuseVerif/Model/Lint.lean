/-
Engine C — the four output formats of `reuse lint` (src/reuse/lint.py:
`format_plain`, `format_json` with `ProjectReport.to_dict_lint`, `format_lines`,
`format_lines_subset`; `--quiet` prints nothing) and `reuse lint-file`
(`ProjectSubsetReport`), as functions from the report to what they *say*: a list
of (category, item) entries — wording, ordering and layout are not modelled —
plus the JSON summary.  An item is a pair of texts; the second component is empty
for the categories that name one thing.
-/
import ReuseVerif.Model.Report

namespace Model
open Py

inductive Cat where
  | bad | deprecated | noExt | missing | unused | readError | noCopyright | noLicence
  -- the three sub-lists of the plain format's last section
  | noBoth | noCopyrightOnly | noLicenceOnly
  deriving DecidableEq, Repr

abbrev Entry := Cat × Text × Text

def one (c : Cat) (l : List Text) : List Entry := l.map fun x => (c, x, [])
def two (c : Cat) (l : List (Text × Text)) : List Entry := l.map fun x => (c, x.1, x.2)

/-- `report.licenses.get(lic)` rendered with `str()` -/
def licPath (r : Report) (l : Text) : Text :=
  match r.licenses.find? (·.1 == l) with
  | some e => e.2
  | none => "None".toList

/-- `format_json`: `non_compliant` of `to_dict_lint` (always written) -/
def fmtJson (r : Report) : List Entry :=
  two .missing r.missing ++ one .unused r.unused ++ one .deprecated r.deprecated ++ two .bad r.bad ++
  two .noExt r.noExt ++ one .noCopyright r.noCopyright ++ one .noLicence r.noLicence ++
  one .readError r.readErrors

structure JsonSummary where
  files : List Text            -- the "files" list (one record per file report)
  filesTotal : Nat
  withCopyright : Nat
  withLicensing : Nat
  compliant : Bool
  used : List Text

def jsonSummary (r : Report) : JsonSummary :=
  let n := r.fileReports.length
  { files := r.fileReports.map (·.path)
    filesTotal := n
    withCopyright := n - r.noCopyright.length
    withLicensing := n - r.noLicence.length
    compliant := r.isCompliant
    used := r.used }

/-- `format_plain`: the sections above the summary (written only when not compliant) -/
def fmtPlain (r : Report) : List Entry :=
  if r.isCompliant then []
  else
    let both := r.noCopyright.filter (r.noLicence.contains ·)
    two .bad r.bad ++ one .deprecated r.deprecated ++ one .noExt (r.noExt.map (·.1)) ++
    two .missing r.missing ++ one .unused r.unused ++ one .readError r.readErrors ++
    one .noBoth both ++
    one .noCopyrightOnly (r.noCopyright.filter (!both.contains ·)) ++
    one .noLicenceOnly (r.noLicence.filter (!both.contains ·))

/-- `format_lines_subset` (also the output of `lint-file`) -/
def fmtSubset (r : Report) : List Entry :=
  two .missing r.missing ++ one .readError r.readErrors ++ one .noLicence r.noLicence ++
  one .noCopyright r.noCopyright

/-- `format_lines`: licence-level problems are attached to the licence file's path -/
def fmtLines (r : Report) : List Entry :=
  if r.isCompliant then []
  else
    two .bad r.bad ++ one .deprecated (r.deprecated.map (licPath r)) ++
    one .noExt ((r.noExt.map (·.1)).map (licPath r)) ++ one .unused (r.unused.map (licPath r)) ++
    fmtSubset r

/-- `--quiet` -/
def fmtQuiet (_ : Report) : List Entry := []

inductive Format where
  | json | plain | lines | quiet
  deriving DecidableEq

/-- `reuse lint` with one of the four options: what is printed and the exit status -/
def lintCmd (f : Format) (r : Report) : List Entry × Nat :=
  (match f with
   | .json => fmtJson r
   | .plain => fmtPlain r
   | .lines => fmtLines r
   | .quiet => fmtQuiet r, r.exit)

/-- the plain format's last section read back as the two per-file categories -/
def plainNormal (es : List Entry) : List Entry :=
  es.flatMap fun e => match e.1 with
    | .noBoth => [(.noCopyright, e.2), (.noLicence, e.2)]
    | .noCopyrightOnly => [(.noCopyright, e.2)]
    | .noLicenceOnly => [(.noLicence, e.2)]
    | _ => [e]

/-- `ProjectSubsetReport.generate` for the files named by `F` (project-relative
    paths; names that are not covered files select nothing) -/
def subsetReport (fd : Found) (files : List CovFile) (F : List Text) : Report :=
  generateOn fd (files.filter fun f => F.contains f.path)

/-- `ProjectSubsetReport.is_compliant` -/
def subsetCompliant (r : Report) : Bool :=
  r.missing.isEmpty && r.noCopyright.isEmpty && r.noLicence.isEmpty && r.readErrors.isEmpty

/-- `reuse lint-file F…`: output and exit status (`none`: duplicate licence identifiers) -/
def lintFile (tbl : LicenseMap) (pr : Project) (F : List Text) : Option (List Entry × Nat) :=
  (findLicenses tbl pr.licFiles).map fun fd =>
    let r := subsetReport fd pr.files F
    (fmtSubset r, if subsetCompliant r then 0 else 1)

end Model
