/-
Model of `reuse download` (src/reuse/download.py, src/reuse/cli/download.py,
src/reuse/_util.py) on an abstract file system with the network as an oracle.

* `Fs`: finite map from lexical paths (component lists below one fixed top
  directory) to `file bytes | dir | link target`.  Paths are resolved lexically:
  directories reached through a symbolic link are outside the model (the
  generator never builds them); a link that is met *at* a path the command
  tests is a node like any other.
* `fetch : Text → Option Text`: `download_license` — `none` is every `URLError`
  (HTTP status ≠ 200, `HTTPError`, connection error).
* The destination test is the REPAIRED one: a destination at which *anything*
  is present — a dangling symbolic link included — is refused
  (fixes/download-dangling-symlink.diff).
-/
import ReuseVerif.Py.Str

namespace Model.Download
open Py

abbrev Path := List Text

inductive Node where
  | file (content : Text)
  | dir
  | link (target : Text)
  deriving DecidableEq, Repr

/-- Association list; the first binding of a path wins. -/
abbrev Fs := List (Path × Node)

def Fs.get (fs : Fs) (p : Path) : Option Node := List.lookup p fs

def Fs.set (fs : Fs) (p : Path) (n : Node) : Fs := (p, n) :: fs

/-- `_strip_plus_from_identifier`. -/
def stripPlus (id : Text) : Text := if endsWith id ['+'] then id.dropLast else id

def refChar (c : Char) : Bool :=
  ('a' ≤ c && c ≤ 'z') || ('A' ≤ c && c ≤ 'Z') || ('0' ≤ c && c ≤ '9') || c == '-' || c == '.'

def licenseRefPrefix : Text := "LicenseRef-".toList

/-- `_LICENSEREF_PATTERN.match` = `LicenseRef-[a-zA-Z0-9-.]+$` anchored at the start;
    `$` also matches before one final newline. -/
def isLicenseRef (id : Text) : Bool :=
  startsWith id licenseRefPrefix &&
    (let rest := id.drop licenseRefPrefix.length
     let body := if endsWith rest ['\n'] then rest.dropLast else rest
     !body.isEmpty && body.all refChar)

/-- `{strip(l) for l in licenses}`: first occurrences, in order (the order in which
    Python iterates the set is not observable in the final state — `C19_batch`). -/
def dedup : List Text → List Text
  | [] => []
  | x :: xs => x :: (dedup xs).filter (fun y => y != x)

def licensesName : Text := "LICENSES".toList
def txtSuffix : Text := ".txt".toList

/-- Where the command runs: invocation directory, project root as `ClickObj.project`
    determines it (`--root`, else the VCS top level, else the invocation directory),
    and whether no VCS was detected. -/
structure Env where
  cwd : Path
  root : Path
  vcsNone : Bool

/-- `_path_to_license_file` + `find_licenses_directory` (with the "Hack": a root that is the
    unversioned working directory and is itself called `LICENSES` receives the texts directly;
    a root of that name given with `--root` from another directory does not —
    fixes/download-licenses-named-root-elsewhere.diff). -/
def licensesDir (e : Env) : Path :=
  if e.root.getLast? == some licensesName && e.vcsNone && e.root == e.cwd then
    (if e.cwd.getLast? == some licensesName then e.cwd else e.cwd ++ [licensesName])
  else e.root ++ [licensesName]

def destOf (e : Env) (output : Option Path) (id : Text) : Path :=
  match output with
  | some o => o
  | none => licensesDir e ++ [id ++ txtSuffix]

inductive Outcome where
  | ok          -- "Successfully downloaded"
  | urlError    -- URLError: "Failed to download license"
  | exists_     -- FileExistsError: "already exists"
  | notFound    -- FileNotFoundError: "does not exist"
  deriving DecidableEq, Repr

/-- `destination.parent.mkdir(exist_ok=True)`. -/
def mkdirParent (fs : Fs) (dest : Path) : Except Outcome Fs :=
  match fs.get dest.dropLast with
  | some .dir => .ok fs
  | some _ => .error .exists_
  | none =>
    match fs.get dest.dropLast.dropLast with
    | some .dir => .ok (fs.set dest.dropLast .dir)
    | _ => .error .notFound

/-- The file `--source` designates for `id`. -/
def sourcePath (fs : Fs) (s : Path) (id : Text) : Path :=
  if fs.get s = some .dir then s ++ [id ++ txtSuffix] else s

structure StepResult where
  fs : Fs
  outcome : Outcome
  fetched : Bool

/-- `put_license_in_file` after the `mkdir`: existence test, LicenseRef- branch, download
    before the file is opened. -/
def putAt (fetch : Text → Option Text) (fs1 : Fs) (src : Option Path) (id : Text)
    (dest : Path) : StepResult :=
  match fs1.get dest with
  | some _ => ⟨fs1, .exists_, false⟩
  | none =>
    if isLicenseRef id then
      match src with
      | none => ⟨fs1.set dest (.file []), .ok, false⟩
      | some s =>
        match fs1.get (sourcePath fs1 s id) with
        | some (.file b) => ⟨fs1.set dest (.file b), .ok, false⟩
        | _ => ⟨fs1, .notFound, false⟩
    else
      match fetch id with
      | none => ⟨fs1, .urlError, true⟩
      | some t => ⟨fs1.set dest (.file t), .ok, true⟩

/-- `put_license_in_file` together with the command's exception handlers. -/
def putLicense (fetch : Text → Option Text) (fs : Fs) (src : Option Path) (id : Text)
    (dest : Path) : StepResult :=
  match mkdirParent fs dest with
  | .error e => ⟨fs, e, false⟩
  | .ok fs1 => putAt fetch fs1 src id dest

structure Args where
  ids : List Text
  all : Bool
  output : Option Path
  source : Option Path

structure Run where
  fs : Fs
  outcomes : List (Text × Outcome)
  calls : List Text

/-- The `for lic in licenses` loop. -/
def loop (fetch : Text → Option Text) (src : Option Path) (dest : Text → Path) :
    Fs → List Text → Run
  | fs, [] => ⟨fs, [], []⟩
  | fs, id :: rest =>
    let r := putLicense fetch fs src id (dest id)
    let t := loop fetch src dest r.fs rest
    ⟨t.fs, (id, r.outcome) :: t.outcomes, if r.fetched then id :: t.calls else t.calls⟩

def exitOf (outs : List (Text × Outcome)) : Nat :=
  if outs.any (fun o => o.2 != .ok) then 1 else 0

/-- The identifiers the loop runs over. -/
def targets (missing : List Text) (a : Args) : List Text :=
  dedup ((if a.all then missing else a.ids).map stripPlus)

/-- click's and the command's own usage errors (exit status 2, before any effect). -/
def usageError (fs : Fs) (a : Args) : Bool :=
  (a.all && !a.ids.isEmpty) ||
  (a.all && a.output.isSome) ||
  (a.output.isSome && decide (a.ids.length > 1)) ||
  (match a.output with | some o => fs.get o == some .dir | none => false) ||
  (match a.source with
   | some s => !(match fs.get s with | some (.file _) => true | some .dir => true | _ => false)
   | none => false)

inductive Result where
  | usage
  | done (r : Run) (exit : Nat)

/-- `reuse download`; `missing` is `ProjectReport.missing_licenses` (read only by `--all`). -/
def download (fetch : Text → Option Text) (e : Env) (missing : List Text) (a : Args) (fs : Fs) :
    Result :=
  if usageError fs a then .usage
  else
    let r := loop fetch a.source (destOf e a.output) fs (targets missing a)
    .done r (exitOf r.outcomes)

/-- Distinct paths bound in `fs`, for printing. -/
def Fs.keys (fs : Fs) : List Path :=
  fs.foldr (fun kv acc => if acc.contains kv.1 then acc else kv.1 :: acc) []

end Model.Download
