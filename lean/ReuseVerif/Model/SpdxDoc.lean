/-
Model of the SPDX bill of materials (`reuse spdx`):
`FileReport.generate` (the parts the document shows: name, checksum, SPDXID,
licence keys, LicenseConcluded, copyright text), `format_creator`,
`ProjectReport.bill_of_materials` and the option check of the `spdx` command.

A document is a list of *entries* (tag, value); a value is a single-line value
or a `<text>…</text>` span given by its lines (Python `text.split("\n")`, so
never empty).  `docLines` are the physical lines the code writes, `docText`
their join — the exact string written before `click.echo` adds its newline.
External functions are parameters: the two digests (sha1 arrives as the
checksum, md5 as `digest`), boolean.py's `simplify` (arrives as the per-file
answer, validated by `BoolExpr.equiv`), uuid / clock / version strings.
-/
import ReuseVerif.Py.Str

namespace Model.Spdx
open Py Model

abbrev Line := Text

inductive Value where
  | single (v : Text)
  | text (first : Line) (rest : List Line)
  deriving DecidableEq, Repr

structure Entry where
  tag : Text
  val : Value
  deriving DecidableEq, Repr

def textOpen : Text := ['<', 't', 'e', 'x', 't', '>']
def textClose : Text := ['<', '/', 't', 'e', 'x', 't', '>']
def colonSp : Text := [':', ' ']

/-- The lines after the first of a text span: the closing marker goes on the last one. -/
def closeLast : Line → List Line → List Line
  | b, [] => [b ++ textClose]
  | b, c :: cs => b :: closeLast c cs

def renderEntry (e : Entry) : List Line :=
  match e.val with
  | .single v => [e.tag ++ colonSp ++ v]
  | .text b [] => [e.tag ++ colonSp ++ (textOpen ++ (b ++ textClose))]
  | .text b (c :: cs) => (e.tag ++ colonSp ++ (textOpen ++ b)) :: closeLast c cs

def renderEntries (es : List Entry) : List Line := es.flatMap renderEntry

/-- A section is preceded by one empty line (`out.write("\n")`). -/
def renderSections (secs : List (List Entry)) : List Line :=
  secs.flatMap fun s => [] :: renderEntries s

-- ---------------------------------------------------------------- ordering

/-- Python's `str` ordering: lexicographic by code point. -/
def textLe (a b : Text) : Bool := decide (a ≤ b)

def sortTexts (l : List Text) : List Text := l.mergeSort textLe

-- ---------------------------------------------------------------- file reports

/-- What `FileReport.generate` is given for one covered file. -/
structure FileInput where
  /-- `"./" ++ relative path` -/
  name : Text
  /-- `_checksum(path)`: sha1 hex digest -/
  chk : Text
  /-- for every expression of every source, in order, `license_keys(expression)` -/
  exprKeys : List (List Text)
  /-- boolean.py's `parse(" AND ".join(...)).simplify().render()` for this file -/
  simplified : Text
  /-- copyright lines of every source -/
  copyrightLines : List Line

/-- The attributes of a `FileReport` that the bill of materials shows. -/
structure FileRep where
  name : Text
  spdxId : Text
  chkSum : Text
  keys : List Text
  concluded : Text
  /-- `report.copyright.split("\n")` when the lines carry no line break: the sorted lines -/
  copyright : List Line
  deriving DecidableEq, Repr

def spdxRefPrefix : Text := ['S', 'P', 'D', 'X', 'R', 'e', 'f', '-']
def noAssertion : Text := ['N', 'O', 'A', 'S', 'S', 'E', 'R', 'T', 'I', 'O', 'N']
def noneText : Text := ['N', 'O', 'N', 'E']

def spdxIdOf (digest : Text → Text) (name chk : Text) : Text :=
  spdxRefPrefix ++ digest (name ++ chk)

def concludedOf (add : Bool) (i : FileInput) : Text :=
  if !add then noAssertion
  else if i.exprKeys.isEmpty then noneText
  else i.simplified

def generate (digest : Text → Text) (add : Bool) (i : FileInput) : FileRep :=
  { name := i.name
    spdxId := spdxIdOf digest i.name i.chk
    chkSum := i.chk
    keys := i.exprKeys.flatten
    concluded := concludedOf add i
    copyright := sortTexts i.copyrightLines }

-- ---------------------------------------------------------------- the document

def tagFileName : Text := ['F', 'i', 'l', 'e', 'N', 'a', 'm', 'e']
def tagSpdxId : Text := ['S', 'P', 'D', 'X', 'I', 'D']
def tagChecksum : Text := ['F', 'i', 'l', 'e', 'C', 'h', 'e', 'c', 'k', 's', 'u', 'm']
def tagConcluded : Text := ['L', 'i', 'c', 'e', 'n', 's', 'e', 'C', 'o', 'n', 'c', 'l', 'u', 'd', 'e', 'd']
def tagInfoInFile : Text := ['L', 'i', 'c', 'e', 'n', 's', 'e', 'I', 'n', 'f', 'o', 'I', 'n', 'F', 'i', 'l', 'e']
def tagCopyright : Text := ['F', 'i', 'l', 'e', 'C', 'o', 'p', 'y', 'r', 'i', 'g', 'h', 't', 'T', 'e', 'x', 't']
def tagRelationship : Text := ['R', 'e', 'l', 'a', 't', 'i', 'o', 'n', 's', 'h', 'i', 'p']
def tagLicenseId : Text := ['L', 'i', 'c', 'e', 'n', 's', 'e', 'I', 'D']
def tagLicenseName : Text := ['L', 'i', 'c', 'e', 'n', 's', 'e', 'N', 'a', 'm', 'e']
def tagExtracted : Text := ['E', 'x', 't', 'r', 'a', 'c', 't', 'e', 'd', 'T', 'e', 'x', 't']
def tagCreator : Text := ['C', 'r', 'e', 'a', 't', 'o', 'r']

def sha1Prefix : Text := ['S', 'H', 'A', '1', ':', ' ']
def describesPrefix : Text := ['S', 'P', 'D', 'X', 'R', 'e', 'f', '-', 'D', 'O', 'C', 'U', 'M', 'E', 'N', 'T', ' ', 'D', 'E', 'S', 'C', 'R', 'I', 'B', 'E', 'S', ' ']

/-- `report.copyright` is `"\n".join(sorted lines)`; the empty string gives `NONE`. -/
def copyrightValue : List Line → Value
  | [] => .single noneText
  | [[]] => .single noneText
  | b :: bs => .text b bs

def fileBlock (r : FileRep) : List Entry :=
  [⟨tagFileName, .single r.name⟩,
   ⟨tagSpdxId, .single r.spdxId⟩,
   ⟨tagChecksum, .single (sha1Prefix ++ r.chkSum)⟩,
   ⟨tagConcluded, .single r.concluded⟩]
  ++ (sortTexts r.keys).map (fun k => ⟨tagInfoInFile, .single k⟩)
  ++ [⟨tagCopyright, copyrightValue r.copyright⟩]

def relEntry (r : FileRep) : Entry :=
  ⟨tagRelationship, .single (describesPrefix ++ r.spdxId)⟩

def sortReports (rs : List FileRep) : List FileRep :=
  rs.mergeSort fun a b => textLe a.name b.name

/-- An entry of `project.licenses` with the text of its file (as lines). -/
structure LicEntry where
  ident : Text
  first : Line
  rest : List Line
  deriving DecidableEq, Repr

def isRefChar (c : Char) : Bool := c.isAlphanum || c == '-' || c == '.'

def licenseRefPrefix : Text := ['L', 'i', 'c', 'e', 'n', 's', 'e', 'R', 'e', 'f', '-']

/-- `_LICENSEREF_PATTERN.match(ident)` for `LicenseRef-[a-zA-Z0-9-.]+$`
    (`$` also matches before one final line feed). -/
def isLicenseRef (ident : Text) : Bool :=
  licenseRefPrefix.isPrefixOf ident &&
    (let r := ident.drop licenseRefPrefix.length
     let core := if r.getLast? = some '\n' then r.dropLast else r
     !core.isEmpty && core.all isRefChar)

def licBlock (l : LicEntry) : List Entry :=
  [⟨tagLicenseId, .single l.ident⟩,
   ⟨tagLicenseName, .single noAssertion⟩,
   ⟨tagExtracted, .text l.first l.rest⟩]

def sortLics (ls : List LicEntry) : List LicEntry :=
  ls.mergeSort fun a b => textLe a.ident b.ident

/-- `format_creator` -/
def formatCreator : Option Text → Text
  | none => ['A', 'n', 'o', 'n', 'y', 'm', 'o', 'u', 's', ' ', '(', ')']
  | some c => if c.contains '(' && endsWith c [')'] then c else c ++ [' ', '(', ')']

structure DocParams where
  docName : Text
  uuid : Text
  created : Text
  version : Text
  person : Option Text
  organization : Option Text

def creatorComment : Text :=
  ['T', 'h', 'i', 's', ' ', 'd', 'o', 'c', 'u', 'm', 'e', 'n', 't', ' ', 'w', 'a', 's', ' ', 'c', 'r', 'e', 'a', 't', 'e', 'd', ' ', 'a', 'u', 't', 'o', 'm', 'a', 't', 'i', 'c', 'a', 'l', 'l', 'y', ' ', 'u', 's', 'i', 'n', 'g', ' ', 'a', 'v', 'a', 'i', 'l', 'a', 'b', 'l', 'e', ' ', 'r', 'e', 'u', 's', 'e', ' ', 'i', 'n', 'f', 'o', 'r', 'm', 'a', 't', 'i', 'o', 'n', ' ', 'c', 'o', 'n', 's', 'i', 's', 't', 'e', 'n', 't', ' ', 'w', 'i', 't', 'h', ' ', 'R', 'E', 'U', 'S', 'E', '.']

def header (p : DocParams) : List Entry :=
  [⟨['S', 'P', 'D', 'X', 'V', 'e', 'r', 's', 'i', 'o', 'n'], .single ['S', 'P', 'D', 'X', '-', '2', '.', '1']⟩,
   ⟨['D', 'a', 't', 'a', 'L', 'i', 'c', 'e', 'n', 's', 'e'], .single ['C', 'C', '0', '-', '1', '.', '0']⟩,
   ⟨tagSpdxId, .single ['S', 'P', 'D', 'X', 'R', 'e', 'f', '-', 'D', 'O', 'C', 'U', 'M', 'E', 'N', 'T']⟩,
   ⟨['D', 'o', 'c', 'u', 'm', 'e', 'n', 't', 'N', 'a', 'm', 'e'], .single p.docName⟩,
   ⟨['D', 'o', 'c', 'u', 'm', 'e', 'n', 't', 'N', 'a', 'm', 'e', 's', 'p', 'a', 'c', 'e'], .single (['h', 't', 't', 'p', ':', '/', '/', 's', 'p', 'd', 'x', '.', 'o', 'r', 'g', '/', 's', 'p', 'd', 'x', 'd', 'o', 'c', 's', '/', 's', 'p', 'd', 'x', '-', 'v', '2', '.', '1', '-'] ++ p.uuid)⟩,
   ⟨tagCreator, .single (['P', 'e', 'r', 's', 'o', 'n', ':', ' '] ++ formatCreator p.person)⟩,
   ⟨tagCreator, .single (['O', 'r', 'g', 'a', 'n', 'i', 'z', 'a', 't', 'i', 'o', 'n', ':', ' '] ++ formatCreator p.organization)⟩,
   ⟨tagCreator, .single (['T', 'o', 'o', 'l', ':', ' ', 'r', 'e', 'u', 's', 'e', '-'] ++ p.version)⟩,
   ⟨['C', 'r', 'e', 'a', 't', 'e', 'd'], .single p.created⟩,
   ⟨['C', 'r', 'e', 'a', 't', 'o', 'r', 'C', 'o', 'm', 'm', 'e', 'n', 't'], .text creatorComment []⟩]

def relEntries (rs : List FileRep) : List Entry := (sortReports rs).map relEntry
def fileBlocks (rs : List FileRep) : List (List Entry) := (sortReports rs).map fileBlock
def licBlocks (ls : List LicEntry) : List (List Entry) :=
  ((sortLics ls).filter fun l => isLicenseRef l.ident).map licBlock

/-- The parsed content of the document, in order. -/
def docEntries (p : DocParams) (rs : List FileRep) (ls : List LicEntry) : List Entry :=
  header p ++ relEntries rs ++ (fileBlocks rs).flatten ++ (licBlocks ls).flatten

/-- The physical lines `bill_of_materials` writes. -/
def docLines (p : DocParams) (rs : List FileRep) (ls : List LicEntry) : List Line :=
  renderEntries (header p ++ relEntries rs) ++ renderSections (fileBlocks rs) ++ renderSections (licBlocks ls)

def nl : Text := ['\n']

/-- `bill_of_materials(...)`: every line is terminated by a line feed. -/
def docText (p : DocParams) (rs : List FileRep) (ls : List LicEntry) : Text :=
  (docLines p rs ls).flatMap fun l => l ++ nl

-- ---------------------------------------------------------------- the command

inductive SpdxOutcome where
  | usageError
  | document (t : Text)
  deriving DecidableEq, Repr

/-- `reuse spdx`: the creator requirement is checked before anything is generated. -/
def spdxCmd (digest : Text → Text) (add : Bool) (p : DocParams) (files : List FileInput)
    (ls : List LicEntry) : SpdxOutcome :=
  if add && p.person.isNone && p.organization.isNone then .usageError
  else .document (docText p (files.map (generate digest add)) ls)

end Model.Spdx
