/-
Models for `reuse convert-dep5`:
* `dep5Blocks`  — python-debian's `globs_to_re` for one Files glob (`*` any run of
  characters, `?` any one character, `\*` `\?` `\\` literals, any other escape
  or a final lone backslash is an error; `re.fullmatch`, DOTALL);
* `convertGlob` — `reuse.convert_dep5._convert_asterisk` (an escaped character is
  copied, a single asterisk becomes `**`, longer runs are left alone);
* paragraph selection on both sides (the last matching paragraph / table wins);
* the command's effect on the two files.
-/
import ReuseVerif.Model.Glob

namespace Model
open Py Py.Re

/-- `globs_to_re` for a single glob; `none` = `MachineReadableFormatError`. -/
def dep5Blocks : Text → Option (List Re)
  | [] => some []
  | ['\\'] => none
  | '\\' :: c :: rest =>
    if c == '\\' || c == '?' || c == '*' then (dep5Blocks rest).map (chr c :: ·) else none
  | '*' :: rest => (dep5Blocks rest).map (star anyChar :: ·)
  | '?' :: rest => (dep5Blocks rest).map (anyChar :: ·)
  | c :: rest => (dep5Blocks rest).map (chr c :: ·)

/-- `FilesParagraph.matches` for one glob. -/
def dep5Match (d p : Text) : Bool :=
  match dep5Blocks d with
  | some bs => fullMatch (seq bs) p
  | none => false

/-- `_convert_asterisk` -/
def convertGlob : Text → Text
  | [] => []
  | ['\\'] => ['\\']
  | '\\' :: c :: rest => '\\' :: c :: convertGlob rest
  | '*' :: rest =>
    let more := rest.takeWhile isStar
    let rest' := rest.dropWhile isStar
    (if more.length = 0 then ['*', '*'] else '*' :: more) ++ convertGlob rest'
  | c :: rest => c :: convertGlob rest
termination_by g => g.length
decreasing_by
  all_goals simp_wf
  all_goals first
    | omega
    | (have := dropWhile_length_le isStar rest; omega)

/-- A Files paragraph / an [[annotations]] table: its globs and an opaque payload
    (copyright lines, licence expression — copied verbatim by the converter). -/
structure Para (α : Type) where
  globs : List Text
  info : α

/-- `Copyright.find_files_paragraph`: the last paragraph with a matching glob. -/
def dep5Find {α} (ps : List (Para α)) (p : Text) : Option α :=
  (ps.reverse.find? fun q => q.globs.any (dep5Match · p)).map (·.info)

/-- `ReuseTOML.find_annotations_item` on the converted tables. -/
def tomlFind {α} (ps : List (Para α)) (p : Text) : Option α :=
  (ps.reverse.find? fun q => itemMatches q.globs p).map (·.info)

def convertParas {α} (ps : List (Para α)) : List (Para α) :=
  ps.map fun q => { q with globs := q.globs.map convertGlob }

/-- The two files the command touches. -/
structure ConvFs where
  dep5 : Option Text        -- `.reuse/dep5`
  toml : Option Text        -- `REUSE.toml`
  deriving BEq, Repr

inductive ConvStep | writeToml (t : Text) | unlinkDep5
  deriving Repr

/-- The command as the list of file-system steps it performs, or a usage error. -/
def convertCmd (render : Text → Text) (fs : ConvFs) : Except Unit (List ConvStep) :=
  match fs.dep5 with
  | none => .error ()
  | some d => .ok [.writeToml (render d), .unlinkDep5]

def applyStep (fs : ConvFs) : ConvStep → ConvFs
  | .writeToml t => { fs with toml := some t }
  | .unlinkDep5 => { fs with dep5 := none }

end Model
