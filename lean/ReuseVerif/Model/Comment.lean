/-
Model of `CommentStyle.create_comment` and `comment_at_first_character`
(src/reuse/comment.py) over the *generated* style table.  The two pseudo styles
(`EmptyCommentStyle`, `UncommentableCommentStyle`) return the text unchanged.
-/
import ReuseVerif.Py.Re
import ReuseVerif.Generated.Text

namespace Model
open Py
open Generated (Style)

def _root_.Generated.Style.canSingle (s : Style) : Bool := !s.single.isEmpty
def _root_.Generated.Style.canMulti (s : Style) : Bool := !s.mStart.isEmpty && !s.mEnd.isEmpty
def _root_.Generated.Style.isEmptyStyle (s : Style) : Bool :=
  s.name == "EmptyCommentStyle" || s.name == "UncommentableCommentStyle"

inductive CommentErr where
  | create    -- CommentCreateError
  | parse     -- CommentParseError
  deriving DecidableEq, Repr

def createSingle (s : Style) (text : Text) : Except CommentErr Text :=
  if !s.canSingle then .error .create
  else .ok (join ['\n'] ((splitOn ['\n'] text).map fun line =>
    s.single ++ (if line.isEmpty then [] else s.indentAfterSingle ++ line)))

def createMulti (s : Style) (text : Text) : Except CommentErr Text :=
  if !s.canMulti then .error .create
  else if contains text s.mEnd then .error .create
  else
    let body := (splitOn ['\n'] text).map fun line =>
      (if s.mMiddle.isEmpty then [] else s.indentBeforeMiddle ++ s.mMiddle) ++
      (if line.isEmpty then [] else s.indentAfterMiddle ++ line)
    .ok (join ['\n'] ([s.mStart] ++ body ++ [s.indentBeforeEnd ++ s.mEnd]))

/-- `create_comment(text, force_multi)` -/
def createComment (s : Style) (text : Text) (forceMulti : Bool) : Except CommentErr Text :=
  if s.isEmptyStyle then .ok text
  else if forceMulti || !s.canSingle then createMulti s text
  else createSingle s text

/-- a letter, a digit or an underscore (ASCII): what continues a word -/
def isWordChar (c : Char) : Bool := c.isAlphanum || c == '_'

/-- the marker is a word (`REM`, `dnl`, Fortran's `c`): it ends with a letter or a digit -/
def wordMarker (m : Text) : Bool := (m.getLast?.map Char.isAlphanum).getD false

/-- `_is_single_line_comment` without the regular expression: the line starts with the marker, and a marker
    that is a word stands as a word of its own (`REMOVE.EXE old.tmp` is a command, not a remark) -/
def startsSingle (s : Style) (line : Text) : Bool :=
  startsWith line s.single &&
    !(wordMarker s.single && (((line.drop s.single.length).head?).map isWordChar).getD false)

/-- a line is a single-line comment of the style -/
def isSingleComment (s : Style) (line : Text) : Bool :=
  (match s.singleRe with
   | some r => Re.prefixMatch r line
   | none => false) || startsSingle s line

/-- index of the last line of the leading run of single-line comments -/
def singleRun (s : Style) : List Text → Nat → Option Nat → Option Nat
  | [], _, acc => acc
  | l :: ls, i, acc => if isSingleComment s l then singleRun s ls (i + 1) (some i) else acc

/-- does the multi-line comment end in this line?  `none`: the line holds no terminator (on the first line the
    opener itself is set aside); `some true`: it does and nothing but white space follows the terminator;
    `some false`: text follows the terminator — that text is not part of the comment, the line cannot be
    replaced as a whole -/
def closesIn (s : Style) (first : Bool) (l : Text) : Option Bool :=
  if contains (if first then l.drop s.mStart.length else l) s.mEnd then some (endsWith (rstrip l) s.mEnd) else none

/-- index of the line in which the multi-line comment ends: the first line that holds the terminator, provided
    only white space follows it there -/
def multiEnd (s : Style) : List Text → Nat → Option Nat
  | [], _ => none
  | l :: ls, i =>
    match closesIn s (i == 0) l with
    | some true => some i
    | some false => none
    | none => multiEnd s ls (i + 1)

/-- `comment_at_first_character(text)`.  When the text opens with the multi-line opener and
    that comment is terminated, it is read as a multi-line comment even if the opener also
    looks like a single-line comment (Julia's `#=`). -/
def commentAtFirst (s : Style) (text : Text) : Except CommentErr Text :=
  if s.isEmptyStyle then .ok text
  else if !(s.canSingle || s.canMulti) then .error .parse
  else
    let lines := splitLines text
    let multiOpen := s.canMulti && startsWith text s.mStart
    let fromMulti := if multiOpen then multiEnd s lines 0 else none
    let fin : Option Nat :=
      match fromMulti with
      | some e => some e
      | none => if s.canSingle then singleRun s lines 0 none else none
    match fin with
    | some e => .ok (join ['\n'] (lines.take (e + 1)))
    | none => .error .parse

end Model
