/-
Model of the three `_COPYRIGHT_PATTERNS` (src/reuse/extract.py) as `search`ed on
one line, of `make_copyright_line`, `_parse_copyright_year` and
`merge_copyright_lines` (src/reuse/copyright.py).

How CPython runs `PREFIX(opt-ext)?\s+((YEAR),?\s+)?(.*?)END$` on a string
without "\n": `search` takes the leftmost start; at a start, the optional
extension of the prefix is tried in priority order and kept only if white space
follows; `\s+` is greedy; the year group is tried (range form first) and kept
only if `,?\s+` follows; the statement is lazy: the shortest text after which
END reaches the end of the string.  (After `\s+` has matched, the rest cannot
fail, so no earlier choice is ever revisited.)
-/
import ReuseVerif.Model.Tags

namespace Model
open Py

def isReSpace (c : Char) : Bool := Re.inRanges c Generated.spaceRanges
def isReDigit (c : Char) : Bool := Re.inRanges c Generated.digitRanges

/-- drop literal `lit` from the front -/
def eat (lit s : Text) : Option Text := if lit.isPrefixOf s then some (s.drop lit.length) else none

/-- exactly one `\s` -/
def eatSpace : Text → Option Text
  | c :: cs => if isReSpace c then some cs else none
  | [] => none

/-- `\([Cc]\)` -/
def eatParenC (s : Text) : Option Text := (eat "(C)".toList s).orElse fun _ => eat "(c)".toList s

def copySign : Text := [Char.ofNat 0xa9]

inductive CPat where
  | spdx      -- SPDX-(File|Snippet)CopyrightText: …
  | word      -- Copyright …
  | sign      -- © …
  deriving DecidableEq, Repr

/-- the mandatory head of the prefix group -/
def eatHead : CPat → Text → Option Text
  | .spdx, s => do
    let s ← eat "SPDX-".toList s
    let s ← (eat "File".toList s).orElse fun _ => eat "Snippet".toList s
    eat "CopyrightText:".toList s
  | .word, s => eat "Copyright".toList s
  | .sign, s => eat copySign s

/-- `\s(\([Cc]\)|©)` -/
def eatSymbolExt (s : Text) : Option Text := do
  let s ← eatSpace s
  (eatParenC s).orElse fun _ => eat copySign s

/-- the candidates for the optional extension of the prefix, in backtracking priority;
    the last candidate is "no extension" -/
def extCandidates : CPat → Text → List Text
  | .spdx, s =>
    -- (\s(\([Cc]\)|©|Copyright(\s(©|\([Cc]\)))?))?
    let a := (eatSymbolExt s).toList
    let b := match (eatSpace s).bind (eat "Copyright".toList) with
      | none => []
      | some r =>
        -- inner option (\s(©|\([Cc]\)))? : taken first, then skipped
        ((do let r' ← eatSpace r; (eat copySign r').orElse fun _ => eatParenC r').toList) ++ [r]
    a ++ b ++ [s]
  | .word, s => (eatSymbolExt s).toList ++ [s]
  | .sign, s => [s]

/-- the first candidate after which white space follows -/
def pickExt (cands : List Text) : Option Text :=
  cands.find? fun r => (r.head?.map isReSpace).getD false

def eatDigits4 : Text → Option (Text × Text)
  | a :: b :: c :: d :: rest =>
    if isReDigit a && isReDigit b && isReDigit c && isReDigit d then some ([a, b, c, d], rest) else none
  | _ => none

def eatOpt (ch : Char) : Text → Text × Text
  | c :: cs => if c == ch then ([c], cs) else ([], c :: cs)
  | [] => ([], [])

/-- `,?\s+` — returns the rest after it (all white space consumed) -/
def eatCommaSpaces (s : Text) : Option Text :=
  let (_, s) := eatOpt ',' s
  match s with
  | c :: _ => if isReSpace c then some (s.dropWhile isReSpace) else none
  | [] => none

/-- `\d{4} ?- ?\d{4}` then `,?\s+` -/
def eatRangeYear (s : Text) : Option (Text × Text) := do
  let (y1, r) ← eatDigits4 s
  let (sp1, r) := eatOpt ' ' r
  let r ← eat ['-'] r
  let (sp2, r) := eatOpt ' ' r
  let (y2, r) ← eatDigits4 r
  let r ← eatCommaSpaces r
  pure (y1 ++ sp1 ++ ['-'] ++ sp2 ++ y2, r)

/-- `\d{4}` then `,?\s+` -/
def eatSingleYear (s : Text) : Option (Text × Text) := do
  let (y, r) ← eatDigits4 s
  let r ← eatCommaSpaces r
  pure (y, r)

/-- `((?P<year>\d{4} ?- ?\d{4}|\d{4}),?\s+)?` — (year, rest): the range form is tried first -/
def eatYear (s : Text) : Option Text × Text :=
  match eatRangeYear s with
  | some (y, r) => (some y, r)
  | none =>
    match eatSingleYear s with
    | some (y, r) => (some y, r)
    | none => (none, s)

/-- `(.*?)END$` on a string without newline: the shortest statement -/
def statementOf (endRe : Re) : Text → Text
  | [] => []
  | c :: cs =>
    if Re.bt endRe (c :: cs) (fun r => r.isEmpty || r == ['\n']) then []
    else c :: statementOf endRe cs

structure CMatch where
  pref : Text
  year : Option Text
  statement : Text
  whole : Text          -- the `copyright` group
  deriving Repr, DecidableEq

/-- the pattern anchored at the start of `s` -/
def matchAt (endRe : Re) (p : CPat) (s : Text) : Option CMatch := do
  let afterHead ← eatHead p s
  let afterExt ← pickExt (extCandidates p afterHead)
  let pref := s.take (s.length - afterExt.length)
  let afterWs := afterExt.dropWhile isReSpace
  let (year, afterYear) := eatYear afterWs
  let stmt := statementOf endRe afterYear
  let wholeLen := s.length - afterYear.length + stmt.length
  pure { pref := pref, year := year, statement := stmt, whole := s.take wholeLen }

/-- `pattern.search(line)` -/
def searchPat (endRe : Re) (p : CPat) : Text → Option CMatch
  | [] => matchAt endRe p []
  | c :: cs =>
    match matchAt endRe p (c :: cs) with
    | some m => some m
    | none => searchPat endRe p cs

/-- the loop over `_COPYRIGHT_PATTERNS`: the first pattern that is found wins -/
def searchLineWith (endRe : Re) (line : Text) : Option CMatch :=
  (searchPat endRe .spdx line).orElse fun _ =>
  (searchPat endRe .word line).orElse fun _ => searchPat endRe .sign line

def searchLine (line : Text) : Option CMatch := searchLineWith Generated.endRe line

/-- `_parse_copyright_year` -/
def parseYear : Option Text → List Text
  | none => []
  | some y =>
    if y.isEmpty then []
    else if y.length == 4 then [y]        -- `\d{4}$` (the argument is a matched year group)
    else [y.take 4, y.drop (y.length - 4)]

/-- `make_copyright_line(statement, year, prefix)`; `prefixText` is the looked-up prefix. -/
def makeLineWith (endRe : Re) (statement : Text) (year : Option Text) (prefixText : Text) : Text :=
  match searchLineWith endRe statement with
  | some _ => statement
  | none =>
    match year with
    | some y => prefixText ++ [' '] ++ y ++ [' '] ++ statement
    | none => prefixText ++ [' '] ++ statement

def makeLine (statement : Text) (year : Option Text) (prefixText : Text) : Text :=
  makeLineWith Generated.endRe statement year prefixText

end Model

namespace Model
open Py

/-- Python's `<` on `str` (code point order) -/
def textLt : Text → Text → Bool
  | [], [] => false
  | [], _ :: _ => true
  | _ :: _, [] => false
  | a :: as, b :: bs => if a.toNat < b.toNat then true else if b.toNat < a.toNat then false else textLt as bs

/-- `sorted(strings)` (code point order, stable insertion sort) -/
def insertSorted (x : Text) : List Text → List Text
  | [] => [x]
  | y :: ys => if textLt x y then x :: y :: ys else y :: insertSorted x ys
def sortTexts (l : List Text) : List Text := l.foldr insertSorted []

/-- `int(c)` for a character matched by `\d`: the decimal digits of every script come in runs of ten
    (`Generated.digitRanges`, read off the interpreter; the values are compared with CPython on every run) -/
def digitVal (c : Char) : Nat :=
  match Generated.digitRanges.find? (fun r => decide (r.1.toNat ≤ c.toNat) && decide (c.toNat ≤ r.2.toNat)) with
  | some r => (c.toNat - r.1.toNat) % 10
  | none => 0

/-- `int(year)` for a matched `\d{4}` -/
def yearVal (y : Text) : Nat := y.foldl (fun acc c => acc * 10 + digitVal c) 0

/-- `min(years, key=int)`: the first of the numerically smallest -/
def yearMin (l : List Text) : Option Text := l.foldl (fun acc x => match acc with
  | none => some x
  | some m => if yearVal x < yearVal m then some x else some m) none
/-- `max(years, key=int)`: the first of the numerically largest -/
def yearMax (l : List Text) : Option Text := l.foldl (fun acc x => match acc with
  | none => some x
  | some m => if yearVal m < yearVal x then some x else some m) none

def dedup (l : List Text) : List Text := l.foldl (fun acc x => if acc.contains x then acc else acc ++ [x]) []

/-- `Counter(items).most_common(1)[0][0]`: highest count, first encountered wins ties. -/
def mostCommon (items : List Text) : Option Text :=
  (dedup items).foldl (fun acc x => match acc with
    | none => some x
    | some m => if items.count m < items.count x then some x else some m) none

/-- the year text of a merged line: nothing, the single year, or `min - max` -/
def mergedYear (years : List Text) : Option Text :=
  match yearMin years, yearMax years with
  | some lo, some hi => if yearVal lo == yearVal hi then some lo else some (lo ++ " - ".toList ++ hi)
  | _, _ => none

/-- what `merge_copyright_lines` knows about one input line: statement, years, prefix -/
abbrev Parsed := Text × List Text × Text

def parseLines (endRe : Re) (lines : List Text) : List Parsed :=
  lines.filterMap fun l => (searchLineWith endRe l).map fun m => (m.statement, parseYear m.year, m.pref)

/-- all years stated for `stmt` -/
def yearsOf (parsed : List Parsed) (stmt : Text) : List Text :=
  (parsed.filter (·.1 == stmt)).flatMap (·.2.1)

/-- the prefix text used for `stmt`: the most common one of its lines if it is one of the table -/
def prefixFor (parsed : List Parsed) (stmt : Text) : Text :=
  let common := (mostCommon ((parsed.filter (·.1 == stmt)).map (·.2.2))).getD []
  match Generated.copyrightPrefixes.find? (·.2 == common) with
  | some kv => kv.2
  | none => ((Generated.copyrightPrefixes.find? (·.1 == "spdx")).map (·.2)).getD []

/-- the single merged line of `stmt` -/
def lineFor (parsed : List Parsed) (stmt : Text) : Text :=
  match mergedYear (yearsOf parsed stmt) with
  | some y => prefixFor parsed stmt ++ [' '] ++ y ++ [' '] ++ stmt
  | none => prefixFor parsed stmt ++ [' '] ++ stmt

/-- the body of `merge_copyright_lines` on the lines in the order in which the loop meets them.
    The merged line is built directly from the prefix text, the year range and the statement.
    Ties (equally frequent prefixes of one holder, equal years in different scripts) go to the
    line met first. -/
def mergeLinesWith (endRe : Re) (lines : List Text) : List Text :=
  let parsed := parseLines endRe lines
  dedup (parsed.map fun x => lineFor parsed x.1)

/-- `merge_copyright_lines`: `for line in sorted(copyright_lines)` — the loop meets the lines in
    code point order, not in the iteration order of the set (fixes/c10-merge-order.diff), so the
    result is a function of the set. -/
def mergeLines (lines : List Text) : List Text := mergeLinesWith Generated.endRe (sortTexts lines)

end Model
