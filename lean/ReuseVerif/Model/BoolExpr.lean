/-
Licence expressions as monotone boolean formulas over licence symbols, and an
executable equivalence checker (truth table over the atoms that occur).  A
`WITH` pair is one atom, as is an identifier with a trailing `+`.
Used for translation validation of `LicenseConcluded` (C18): boolean.py's
`simplify` is not modelled; each of its answers is checked by `equiv`.
-/
import ReuseVerif.Py.Str

namespace Model
open Py

inductive BoolExpr where
  | atom (s : Text)
  | and (a b : BoolExpr)
  | or (a b : BoolExpr)
  deriving Repr, DecidableEq

namespace BoolExpr

def eval (σ : Text → Bool) : BoolExpr → Bool
  | atom s => σ s
  | and a b => eval σ a && eval σ b
  | or a b => eval σ a || eval σ b

def atoms : BoolExpr → List Text
  | atom s => [s]
  | and a b => atoms a ++ atoms b
  | or a b => atoms a ++ atoms b

/-- Every truth assignment of the listed symbols (symbols outside the list are false). -/
def assignments : List Text → List (Text → Bool)
  | [] => [fun _ => false]
  | x :: xs =>
    (assignments xs).flatMap fun σ =>
      [fun y => if y = x then true else σ y, fun y => if y = x then false else σ y]

/-- Truth-table equivalence over the atoms of both sides. -/
def equiv (a b : BoolExpr) : Bool :=
  (assignments ((atoms a ++ atoms b).eraseDups)).all fun σ => eval σ a == eval σ b

/-- Conjunction of a non-empty list of expressions (left-nested, like `" AND ".join`). -/
def conj : BoolExpr → List BoolExpr → BoolExpr
  | e, [] => e
  | e, f :: fs => conj (and e f) fs

/-- Postfix reader used by the driver: `@name` pushes an atom, `&` / `|` combine the two topmost. -/
def rpnStep (st : Option (List BoolExpr)) (tok : Text) : Option (List BoolExpr) :=
  match st, tok with
  | none, _ => none
  | some st, '@' :: name => some (atom name :: st)
  | some (b :: a :: st), ['&'] => some (and a b :: st)
  | some (b :: a :: st), ['|'] => some (or a b :: st)
  | _, _ => none

def ofRpn (toks : List Text) : Option BoolExpr :=
  match toks.foldl rpnStep (some []) with
  | some [e] => some e
  | _ => none

end BoolExpr
end Model
