/-
Model of `AnnotationsItem.__attrs_post_init__.translate` and
`AnnotationsItem.matches` (src/reuse/global_licensing.py): the REUSE.toml glob
is cut into blocks — an escaped character, a run of asterisks, any other
character — each block becomes a piece of a regular expression, and the path
must match the whole expression (`(?s:…)\Z` with `re.match`).
-/
import ReuseVerif.Py.Re

namespace Model
open Py Py.Re

def isStar (c : Char) : Bool := c == '*'

theorem dropWhile_length_le (p : Char → Bool) (l : Text) : (l.dropWhile p).length ≤ l.length := by
  induction l with
  | nil => simp
  | cons a as ih =>
    simp only [List.dropWhile_cons]
    split
    · simp only [List.length_cons]; omega
    · simp

/-- `(?:.*/)?` -/
def dirsOpt : Re := opt (cat (star anyChar) (chr '/'))

/-- What follows a run of two or more asterisks: a `/` is absorbed into the
    block (`**/` may also stand for no directory at all). -/
def afterRun (rest' : Text) : Bool × Text :=
  match rest' with
  | '/' :: r => (true, r)
  | _ => (false, rest')

theorem afterRun_length_le (x : Text) : (afterRun x).2.length ≤ x.length := by
  unfold afterRun; split <;> simp

/-- The list of regex blocks the glob is translated to. -/
def translate : Text → List Re
  | [] => []
  | ['\\'] => []                                   -- a lone final backslash escapes nothing
  | '\\' :: c :: rest => chr c :: translate rest
  | '*' :: rest =>
    let more := (rest.takeWhile isStar).length      -- further asterisks of the same run
    let rest' := rest.dropWhile isStar
    if more = 0 then star notSlash :: translate rest'
    else
      let ar := afterRun rest'
      (if ar.1 then dirsOpt else star anyChar) :: translate ar.2
  | c :: rest => chr c :: translate rest
termination_by g => g.length
decreasing_by
  all_goals simp_wf
  all_goals first
    | omega
    | (have := dropWhile_length_le isStar rest; omega)
    | (have := dropWhile_length_le isStar rest
       have := afterRun_length_le (List.dropWhile isStar rest)
       omega)

/-- One glob against one path (`re.match` of `(?s:…)\Z`). -/
def globMatch (g p : Text) : Bool := fullMatch (seq (translate g)) p

/-- `AnnotationsItem.matches`: any of the item's globs. -/
def itemMatches (gs : List Text) (p : Text) : Bool := gs.any (globMatch · p)

end Model
