/-
Model for property C16 (malformed input yields a diagnostic, never a crash).

* `TomlVal` — a TOML value tree of any shape and depth.
* Python's dynamic operations are primitives that can *fail the way Python
  fails*: `pyIter` (`for x in v`), `pyGet` (`v.get(key)`), `pySet` (`set(xs)`)
  return `.error (.crash …)` exactly where CPython raises a `TypeError` /
  `AttributeError` that reuse does not anticipate.
* `itemFromDict` = `AnnotationsItem.from_dict` (+ the attrs converters
  `_str_to_set`, `_str_to_global_precedence`, `_str_to_set_of_expr`, run in
  attribute order, then the validators `_validate_collection_of`, in attribute
  order); `fromDict` = `ReuseTOML.from_dict`; `tomlFromFile` = `from_file` /
  `from_toml`; `dep5FromFile` = `ReuseDep5.from_file`; `loadProject` =
  `Project.from_directory` as far as it can fail; `clickEnd` =
  `ClickObj.project`'s mapping of errors to a usage error (exit status 2).
* `generate` = the loop of `ProjectReport.generate` over the per-file results
  (`_MultiprocessingContainer.__call__` has already turned an exception into a
  result); `annotateLoop` = the loop of `reuse annotate` over its paths.

The flag `g` selects the code with (`true`) or without (`false`) the repairs
of fixes/c16-config-shapes-and-annotate-read.diff; the driver and the property
theorems use `g = true`, the witnesses in Theorems/C16.lean use `g = false`.
The licence-expression parser is the oracle parameter `parses`.
Sets are lists (order and multiplicity are not observable in what is modelled).
-/
import ReuseVerif.Py.Str

namespace Model.Toml
open Py

inductive TomlVal where
  | str (s : Text)
  | int (n : Int)
  | float
  | bool (b : Bool)
  | datetime
  | array (xs : List TomlVal)
  | table (kvs : List (Text × TomlVal))

namespace TomlVal
def isStr : TomlVal → Bool | .str _ => true | _ => false
/-- `isinstance(v, dict)` (tomlkit tables and inline tables are dicts). -/
def isDict : TomlVal → Bool | .table _ => true | _ => false
/-- `hash(v)` succeeds: tomlkit arrays and tables are unhashable. -/
def hashable : TomlVal → Bool | .array _ => false | .table _ => false | _ => true
def strOf : TomlVal → Option Text | .str s => some s | _ => none
end TomlVal
open TomlVal

/-- Exceptions the code does not anticipate (they would reach the user as a traceback). -/
inductive Crash | typeError | attributeError | runtimeError | unicodeDecodeError | osError
  deriving DecidableEq, Repr

/-- `GlobalLicensingParseError` proper (TOML / dep5 syntax, undecodable bytes),
    `…ParseTypeError`, `…ParseValueError`. -/
inductive ParseKind | generic | type | value
  deriving DecidableEq, Repr

inductive Err
  | parse (kind : ParseKind) (source : Option Text)
  | conflict (tomlPath dep5Path : Text)   -- GlobalLicensingConflictError
  | os                                    -- OSError while reading a configuration file
  | crash (c : Crash)
  deriving DecidableEq, Repr

def lookup (key : Text) : List (Text × TomlVal) → Option TomlVal
  | [] => none
  | (k, v) :: rest => if k = key then some v else lookup key rest

/-! ### Python primitives -/

/-- `for x in v` -/
def pyIter : TomlVal → Except Err (List TomlVal)
  | .array xs => .ok xs
  | .table kvs => .ok (kvs.map fun kv => .str kv.1)
  | .str s => .ok (s.map fun c => .str [c])
  | _ => .error (.crash .typeError)

/-- `v.get(key)` -/
def pyGet (v : TomlVal) (key : Text) : Except Err (Option TomlVal) :=
  match v with
  | .table kvs => .ok (lookup key kvs)
  | _ => .error (.crash .attributeError)

/-- `set(xs)` -/
def pySet (xs : List TomlVal) : Except Err (List TomlVal) :=
  if xs.all hashable then .ok xs else .error (.crash .typeError)

/-! ### converters -/

/-- `set(value)` inside `_str_to_set`; the repaired code turns the `TypeError`
    of an unhashable item into a `GlobalLicensingParseTypeError`. -/
def setOf (g : Bool) (xs : List TomlVal) : Except Err (List TomlVal) :=
  match pySet xs with
  | .error (.crash .typeError) => if g then .error (.parse .type none) else .error (.crash .typeError)
  | r => r

/-- `_str_to_set` -/
def strToSet (g : Bool) : Option TomlVal → Except Err (List TomlVal)
  | none => .ok []
  | some (.str s) => .ok [.str s]
  | some (.array xs) => setOf g xs
  | some (.table kvs) => setOf g (kvs.map fun kv => .str kv.1)
  | some v => .ok [v]

inductive Prec | aggregate | closest | override
  deriving DecidableEq, Repr

/-- `_str_to_global_precedence` (`None` → the attribute's default). -/
def toPrecedence : Option TomlVal → Except Err Prec
  | none => .ok .closest
  | some (.str s) =>
    if s = "aggregate".toList then .ok .aggregate
    else if s = "closest".toList then .ok .closest
    else if s = "override".toList then .ok .override
    else .error (.parse .value none)
  | some _ => .error (.parse .value none)

/-- Outcome of `Licensing.parse`: an expression, `None` (blank text), or an
    `ExpressionError` / `ParseError`. -/
inductive ExprRes | expr | blank | bad
  deriving DecidableEq, Repr

def parseItem (parses : Text → ExprRes) : TomlVal → ExprRes
  | .str s => parses s
  | _ => .bad          -- "expression must be a string"

/-- `_str_to_set_of_expr` -/
def toExprSet (g : Bool) (parses : Text → ExprRes) (v : Option TomlVal) : Except Err (List ExprRes) :=
  match strToSet g v with
  | .error e => .error e
  | .ok xs =>
    let rs := xs.map (parseItem parses)
    if rs.any (· = .bad) then .error (.parse .value none) else .ok rs

/-! ### validators -/

/-- `_validate_collection_of(set, str, optional)` on a converted value. -/
def validateStrSet (optional : Bool) (xs : List TomlVal) : Except Err Unit :=
  if !xs.all isStr then .error (.parse .type none)
  else if !optional && xs.isEmpty then .error (.parse .value none)
  else .ok ()

/-- `_validate_collection_of(set, Expression, optional=True)` -/
def validateExprSet (rs : List ExprRes) : Except Err Unit :=
  if rs.all (· = .expr) then .ok () else .error (.parse .type none)

structure Item where
  paths : List Text
  precedence : Prec
  copyright : List Text
  nExprs : Nat
  deriving Repr

/-- `AnnotationsItem.from_dict` -/
def itemFromDict (g : Bool) (parses : Text → ExprRes) (a : TomlVal) : Except Err Item := do
  let pathV ← pyGet a "path".toList
  let precV ← pyGet a "precedence".toList
  let cpV ← pyGet a "SPDX-FileCopyrightText".toList
  let exV ← pyGet a "SPDX-License-Identifier".toList
  -- cls(**new_dict): converters in attribute order …
  let paths ← strToSet g pathV
  let prec ← toPrecedence precV
  let cps ← strToSet g cpV
  let exprs ← toExprSet g parses exV
  -- … then the validators in attribute order
  validateStrSet false paths
  validateStrSet true cps
  validateExprSet exprs
  pure { paths := paths.filterMap strOf, precedence := prec, copyright := cps.filterMap strOf,
         nExprs := exprs.length }

/-- `error.source = source` in `ReuseTOML.from_dict`. -/
def withSource {α} (src : Text) : Except Err α → Except Err α
  | .error (.parse k _) => .error (.parse k (some src))
  | r => r

/-- The repaired shape check `_validate_collection_of(list, dict, optional=True)`
    on the raw `annotations` value. -/
def checkContainer : TomlVal → Except Err Unit
  | .array xs => if xs.all isDict then .ok () else .error (.parse .type none)
  | _ => .error (.parse .type none)

inductive Version | int (n : Int) | bool (b : Bool)
  deriving Repr

/-- `_instance_of(int)` on `version` (a Python `bool` is an `int`). -/
def validateVersion (src : Text) : Option TomlVal → Except Err Version
  | some (.int n) => .ok (.int n)
  | some (.bool b) => .ok (.bool b)
  | _ => .error (.parse .type (some src))

structure ReuseToml where
  source : Text
  version : Version
  annotations : List Item
  deriving Repr

def annotationsOf (g : Bool) (parses : Text → ExprRes) (ann : TomlVal) : Except Err (List Item) := do
  if g then checkContainer ann
  let xs ← pyIter ann
  xs.mapM (itemFromDict g parses)

/-- `ReuseTOML.from_dict` (the document is always a table). -/
def fromDict (g : Bool) (parses : Text → ExprRes) (src : Text) (doc : List (Text × TomlVal)) :
    Except Err ReuseToml := do
  let ann := (lookup "annotations".toList doc).getD (.array [])
  let items ← withSource src (annotationsOf g parses ann)
  let v ← validateVersion src (lookup "version".toList doc)
  pure { source := src, version := v, annotations := items }

/-! ### files and the project -/

/-- What reading one REUSE.toml and tomlkit make of its bytes. -/
inductive TomlFile
  | osError | undecodable | syntaxError
  | doc (kvs : List (Text × TomlVal))

/-- `ReuseTOML.from_file` / `from_toml` -/
def tomlFromFile (g : Bool) (parses : Text → ExprRes) (src : Text) : TomlFile → Except Err ReuseToml
  | .osError => .error .os
  | .undecodable => .error (.parse .generic (some src))
  | .syntaxError => .error (.parse .generic (some src))
  | .doc kvs => fromDict g parses src kvs

/-- What reading `.reuse/dep5` and python-debian make of its bytes. -/
inductive Dep5File | osError | undecodable | debianError | valueError | good
  deriving DecidableEq, Repr

/-- `ReuseDep5.from_file` -/
def dep5FromFile (src : Text) : Dep5File → Except Err Unit
  | .osError => .error .os
  | .good => .ok ()
  | _ => .error (.parse .generic (some src))

structure Config where
  dep5 : Option (Text × Dep5File)        -- `.reuse/dep5`, if it exists
  tomls : List (Text × TomlFile)         -- every REUSE.toml the walk finds, in order
  licenseIds : List Text                 -- identifiers the files in LICENSES/ resolve to

inductive Licensing | none | dep5 | tomls (ts : List ReuseToml)

def distinct : List Text → Bool
  | [] => true
  | x :: xs => !xs.contains x && distinct xs

/-- `Project.from_directory`: `find_global_licensing`, `_global_licensing_from_found`,
    `_find_licenses`. -/
def loadProject (g : Bool) (parses : Text → ExprRes) (c : Config) : Except Err Licensing := do
  let lic ← match c.dep5, c.tomls with
    | some (d, _), (t, _) :: _ => .error (.conflict t d)
    | some (d, f), [] => do dep5FromFile d f; pure Licensing.dep5
    | none, [] => pure Licensing.none
    | none, ts => do
        let rs ← ts.mapM fun sf => tomlFromFile g parses sf.1 sf.2
        pure (Licensing.tomls rs)
  if distinct c.licenseIds then pure lic else .error (.crash .runtimeError)

/-- How a command ends. `names`: the files the message names. -/
inductive End
  | exit (code : Nat) (names : List Text)
  | traceback (c : Crash)
  deriving DecidableEq, Repr

/-- `ClickObj.project`: parse / conflict / OS errors become `click.UsageError`
    (exit status 2); anything else propagates. -/
def clickEnd : Err → End
  | .parse _ (some s) => .exit 2 [s]
  | .parse _ none => .exit 2 []
  | .conflict t d => .exit 2 [t, d]
  | .os => .exit 2 []
  | .crash c => .traceback c

/-! ### the per-file loop of lint / spdx / lint-file -/

/-- What examining one covered file produced: a file report — possibly empty
    because an unparseable expression made `reuse_info_of_file` skip the
    contents — or any exception, already caught by the container. -/
inductive FileRes
  | report (hasCopyright hasLicence : Bool)
  | exprError                 -- ExpressionError / ParseError inside the file: logged, contents skipped
  | exc                       -- any Exception (OSError, UnicodeError, …)
  deriving DecidableEq, Repr

structure Report where
  reports : List (Text × Bool × Bool)    -- path, has copyright, has licence
  readErrors : List Text
  deriving DecidableEq, Repr

def reportStep (acc : Report) (p : Text × FileRes) : Report :=
  match p.2 with
  | .exc => { acc with readErrors := acc.readErrors ++ [p.1] }
  | .exprError => { acc with reports := acc.reports ++ [(p.1, false, false)] }
  | .report c l => { acc with reports := acc.reports ++ [(p.1, c, l)] }

/-- `ProjectReport.generate` / `ProjectSubsetReport.generate` -/
def generate (files : List (Text × FileRes)) : Report :=
  files.foldl reportStep ⟨[], []⟩

/-- `reuse lint`: 0 iff compliant; read errors and files without information are not. -/
def lintEnd (r : Report) (otherIssues : Bool) : End :=
  if r.readErrors.isEmpty && r.reports.all (fun x => x.2.1 && x.2.2) && !otherIssues
  then .exit 0 [] else .exit 1 []

/-! ### the loop of `reuse annotate` -/

/-- The strict UTF-8 read of the file to annotate, and whether the header step
    then succeeds. -/
inductive AnnInput | vanished | undecodable | text (headerOk : Bool)
  deriving DecidableEq, Repr

inductive AnnRes | changed | failed
  deriving DecidableEq, Repr

def annotateOne (g : Bool) : AnnInput → Except Crash AnnRes
  | .vanished => if g then .ok .failed else .error .osError
  | .undecodable => if g then .ok .failed else .error .unicodeDecodeError
  | .text true => .ok .changed
  | .text false => .ok .failed

/-- The loop: results of the files processed so far; an uncaught exception ends it. -/
def annotateLoop (g : Bool) : List (Text × AnnInput) → List (Text × AnnRes) × Option Crash
  | [] => ([], none)
  | (p, i) :: rest =>
    match annotateOne g i with
    | .error c => ([], some c)
    | .ok r => let (rs, c) := annotateLoop g rest; ((p, r) :: rs, c)

/-- `sys.exit(min(result, 1))`, or the traceback. -/
def annotateEnd (g : Bool) (files : List (Text × AnnInput)) : End :=
  match annotateLoop g files with
  | (_, some c) => .traceback c
  | (rs, none) => if rs.any (fun x => x.2 = .failed) then .exit 1 [] else .exit 0 []

end Model.Toml
