/-
Model of src/reuse/header.py (`_create_new_header`, `create_header`,
`_find_first_spdx_comment`, `_extract_shebang`, `place_header`,
`find_and_replace_header`, `add_new_header`) and of the text-level part of
`add_header_to_file` (src/reuse/_annotate.py: line-ending detection,
normalisation and re-translation on write).

The Jinja template is a parameter `render`; `defaultRender` is the bundled
default template.  Whether a licence expression parses is the oracle `parses`.
-/
import ReuseVerif.Model.Comment
import ReuseVerif.Model.Extract

namespace Model
open Py
open Generated (Style)

-- `sortTexts` (`sorted(strings)`) is defined in Model/Copyright.lean: `merge_copyright_lines` sorts as well

/-- set union on duplicate-free lists -/
def unionTexts (a b : List Text) : List Text := dedup (a ++ b)

/-- set equality on lists -/
def sameSet (a b : List Text) : Bool := a.all (b.contains ·) && b.all (a.contains ·)

inductive HeaderErr where
  | commentCreate      -- CommentCreateError
  | missingInfo        -- MissingReuseInfoError
  deriving DecidableEq, Repr

/-- what the template receives: sorted copyright lines, contributor lines, expressions -/
structure RInfo where
  cpr : List Text
  con : List Text
  lic : List Text
  deriving Repr, DecidableEq

/-- the bundled `default_template.jinja2` (with `trim_blocks`) -/
def defaultRender (i : RInfo) : Text :=
  (i.cpr.flatMap fun l => l ++ ['\n']) ++
  (i.con.flatMap fun l => "SPDX-FileContributor: ".toList ++ l ++ ['\n']) ++
  ['\n'] ++
  (i.lic.flatMap fun l => "SPDX-License-Identifier: ".toList ++ l ++ ['\n'])

structure HdrCfg where
  style : Style
  render : RInfo → Text
  commented : Bool            -- template_is_commented
  forceMulti : Bool
  merge : Bool                -- merge_copyrights
  parses : Text → Bool        -- does the licence expression parse?
  normLic : Text → Text       -- `str(_LICENSING.parse(x))`: the rendering of a parsed expression

/-- `_create_new_header`: the written header must read back the requested copyright lines
    *and* the requested licence expressions — and, when it shows contributors at all (the
    template renders them), exactly the requested contributors. -/
def createNewHeader (c : HdrCfg) (info : Extracted) : Except HeaderErr Text := do
  let rendered := stripChars ['\n'] (c.render ⟨sortTexts info.cpr, sortTexts info.con, sortTexts info.lic⟩)
  let result ←
    if c.commented then pure rendered
    else match createComment c.style rendered c.forceMulti with
      | .ok t => pure (stripChars ['\n'] t)
      | .error _ => throw .commentCreate
  let back := extractRaw result
  -- an expression in the rendered header that does not parse (a template may spell one out): the
  -- reader raises, no header (fixes/annotate-broken-template.diff)
  if back.lic.all c.parses && (sameSet info.cpr back.cpr && sameSet (info.lic.map c.normLic) (back.lic.map c.normLic)
      && (back.con.isEmpty || sameSet info.con back.con)) then pure result
  else throw .missingInfo

/-- `create_header` -/
def createHeader (c : HdrCfg) (info : Extracted) (header : Text) : Except HeaderErr Text := do
  if header.isEmpty then
    -- `--merge-copyrights` also merges the requested lines among themselves
    createNewHeader c (if c.merge then { info with cpr := mergeLines info.cpr } else info)
  else
    let existing := extractRaw header
    if !(existing.lic.all c.parses) then throw .commentCreate
    let cprUnion := unionTexts info.cpr existing.cpr
    let cpr := if c.merge then mergeLines cprUnion else cprUnion
    createNewHeader c
      { lic := dedup ((existing.lic ++ info.lic).map c.normLic), con := unionTexts existing.con info.con, cpr := cpr }

/-- offsets of the line starts (`_indices_of_newlines`) as suffixes of the text -/
def lineStartSuffixes : Text → List (Text × Text)     -- (before, from here)
  | s => go [] s [([], s)]
where
  go (acc : Text) : Text → List (Text × Text) → List (Text × Text)
    | [], out => out.reverse
    | c :: cs, out =>
      let acc' := acc ++ [c]
      if c == '\n' then go acc' cs ((acc', cs) :: out) else go acc' cs out

/-- `_find_first_spdx_comment`: (before, header, after) -/
def findFirstSpdxComment (c : HdrCfg) (text : Text) : Option (Text × Text × Text) :=
  (lineStartSuffixes text).findSome? fun (before, rest) =>
    match commentAtFirst c.style rest with
    | .error _ => none
    | .ok comment =>
      if containsReuseInfo c.parses comment then some (before, comment ++ ['\n'], rest.drop (comment.length + 1))
      else none

/-- `text.replace(old, "", 1)` -/
def removeFirst (old : Text) : Text → Text
  | [] => []
  | c :: cs => if !old.isEmpty && old.isPrefixOf (c :: cs) then (c :: cs).drop old.length else c :: removeFirst old cs

/-- `_extract_shebang(prefix, text)`: (shebang lines, reduced text) -/
def extractShebang (pre : Text) (text : Text) : Text × Text :=
  let rec go : List Text → Text → Text → Text × Text
    | [], sb, t => (sb, t)
    | l :: ls, sb, t => if startsWith l pre then go ls (sb ++ l) (removeFirst l t) else (sb, t)
  go (splitLines text true) [] text

/-- `place_header` -/
def placeHeader (header before after : Text) (hasExisting : Bool) : Text :=
  let t0 := header ++ ['\n']
  let t1 := if (strip before).isEmpty then t0 else rstrip before ++ ['\n', '\n'] ++ t0
  if (strip after).isEmpty then t1
  else
    let sep : Text := if !hasExisting && !(startsWith after ['\n']) then ['\n'] else []
    t1 ++ sep ++ after

/-- the shebang loop of `find_and_replace_header` -/
def moveShebang (shebangs : List Text) (before header after : Text) : Text × Text × Text :=
  match shebangs with
  | [] => (before, header, after)
  | sb :: rest =>
    if startsWith header sb && (strip before).isEmpty then
      let (b, h) := extractShebang sb header
      (b, h, after)
    else if startsWith after sb && before.isEmpty && header.isEmpty then
      let (b, a) := extractShebang sb after
      (b, header, a)
    else moveShebang rest before header after

/-- `find_and_replace_header` -/
def findAndReplaceHeader (c : HdrCfg) (info : Extracted) (text : Text) : Except HeaderErr Text := do
  let (before, header, after) :=
    match findFirstSpdxComment c text with
    | some x => x
    | none => ([], [], text)
  let after := if c.style.name == "EmptyCommentStyle" then [] else after
  let (before, header, after) := moveShebang c.style.shebangs before header after
  let newHeader ← createHeader c info header
  pure (placeHeader newHeader before after (!header.isEmpty))

/-- `add_new_header` -/
def addNewHeader (c : HdrCfg) (info : Extracted) (text : Text) : Except HeaderErr Text := do
  let (shebang, text) :=
    match c.style.shebangs.find? (startsWith text ·) with
    | some sb => extractShebang sb text
    | none => ([], text)
  let header ← createHeader c info []
  pure (placeHeader header shebang text false)

/-- `detect_line_endings` (os.linesep is "\n" here) -/
def detectLineEnding (text : Text) : Text :=
  if contains text ['\r', '\n'] then ['\r', '\n']
  else if contains text ['\r'] then ['\r']
  else ['\n']

inductive AnnotateOut where
  | written (t : Text)
  | skipped                 -- --skip-existing: nothing written
  | failed (e : HeaderErr)  -- nothing written, exit status 1
  deriving Repr

/-- the text-level body of `add_header_to_file` (after a leading byte order mark has been set
    aside, see `annotateFile`): what is written back (characters, after newline translation on write) -/
def annotateText (c : HdrCfg) (replace skipExisting : Bool) (info : Extracted) (text : Text) : AnnotateOut :=
  if skipExisting && containsReuseInfo c.parses text then .skipped
  else
    let le := detectLineEnding text
    let norm := Py.replace text le ['\n']
    let out := if replace then findAndReplaceHeader c info norm else addNewHeader c info norm
    match out with
    | .error e => .failed e
    | .ok t => .written (if le == ['\n'] then t else Py.replace t ['\n'] le)

/-- U+FEFF: how a UTF-8 byte order mark arrives in text decoded as `utf-8` -/
def bomChar : Char := Char.ofNat 0xFEFF

def AnnotateOut.mapWritten (f : Text → Text) : AnnotateOut → AnnotateOut
  | .written t => .written (f t)
  | o => o

/-- `add_header_to_file` at text level: a leading byte order mark is not part of the text; it
    stays the first character of what is written -/
def annotateFile (c : HdrCfg) (replace skipExisting : Bool) (info : Extracted) (text : Text) : AnnotateOut :=
  match text with
  | ch :: rest =>
    if ch == bomChar then (annotateText c replace skipExisting info rest).mapWritten (bomChar :: ·)
    else annotateText c replace skipExisting info text
  | [] => annotateText c replace skipExisting info []

end Model
