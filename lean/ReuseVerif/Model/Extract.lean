/-
Model of `extract_reuse_info` and `reuse_info_of_file` (src/reuse/extract.py).
Licence expressions stay raw strings; whether one parses is an oracle
(`parses`), as license-expression is not modelled.
-/
import ReuseVerif.Model.Ignore
import ReuseVerif.Model.Copyright

namespace Model
open Py

structure Extracted where
  lic : List Text        -- raw SPDX-License-Identifier values (a set: duplicate-free, first occurrence order)
  cpr : List Text        -- copyright notices (stripped `copyright` groups)
  con : List Text        -- SPDX-FileContributor values
  deriving Repr, DecidableEq

def Extracted.empty : Extracted := ⟨[], [], []⟩

/-- `extract_reuse_info` before the expressions are parsed.  A licence tag without a value
    (`SPDX-License-Identifier: ` and nothing behind it) declares nothing: the library's parser returns
    `None` for the empty text and the code skips it. -/
def extractRawWith (endRe : Re) (text : Text) : Extracted :=
  let t := filterIgnore text
  { lic := (dedup (findSpdxTagWith endRe Generated.licenseTag t)).filter (fun v => !v.isEmpty)
    con := dedup (findSpdxTagWith endRe Generated.contributorTag t)
    cpr := dedup ((splitLines t).filterMap fun l => (searchLineWith endRe l).map fun m => strip m.whole) }

def extractRaw (text : Text) : Extracted := extractRawWith Generated.endRe text

/-- `extract_reuse_info`: `none` = ExpressionError / ParseError -/
def extractInfo (parses : Text → Bool) (text : Text) : Option Extracted :=
  let e := extractRaw text
  if e.lic.all parses then some e else none

/-- `contains_reuse_info` -/
def containsReuseInfo (parses : Text → Bool) (text : Text) : Bool :=
  match extractInfo parses text with
  | some e => !(e.lic.isEmpty && e.cpr.isEmpty && e.con.isEmpty)
  | none => false

/-- `reuse_info_of_file` on the decoded window: nothing unless copyright or licensing was found;
    a parse error drops everything. -/
def infoOfDecoded (parses : Text → Bool) (text : Text) : Extracted :=
  match extractInfo parses text with
  | some e => if e.lic.isEmpty && e.cpr.isEmpty then Extracted.empty else e
  | none => Extracted.empty

end Model
