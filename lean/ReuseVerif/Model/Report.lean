/-
Engine C — reports.  Executable model of
  `Project._identifier_of_license` / `Project._find_licenses`   (src/reuse/project.py)
  `FileReport.generate` (licence part), `ProjectReport.generate`, `used_licenses`,
  `unused_licenses`, `files_without_licenses`, `files_without_copyright`,
  `is_compliant`, `ProjectSubsetReport`                          (src/reuse/report.py)
  `_strip_plus_from_identifier`, `_add_plus_to_identifier`       (src/reuse/_util.py)
as they behave after the three repairs recorded in fixes/ (a `LicenseRef-` that is
used is never bad; `LicenseRef-…Unknown…` is registered like any other
`LicenseRef-`; an extension-less `LICENSES/LicenseRef-x` is recorded as lacking
its extension).

The abstract project: the covered files with what `reuse_info_of` attributes to
them (the keys of every licence expression, whether there is any copyright
line, whether the file could be read) and the relative paths of the regular
files below `LICENSES/`.  Dictionaries and sets are lists; the theorems speak
about membership only.
-/
import ReuseVerif.Py.Str
import ReuseVerif.Generated.Spdx

namespace Model
open Py

/-- `license_map`: identifier ↦ `isDeprecatedLicenseId`.  An assignment
    `license_map[k] = v` is a `cons`, a lookup finds the newest entry. -/
abbrev LicenseMap := List (Text × Bool)

def LicenseMap.has (m : LicenseMap) (k : Text) : Bool := m.any (·.1 == k)

def LicenseMap.deprecated (m : LicenseMap) (k : Text) : Bool :=
  match m.find? (·.1 == k) with
  | some e => e.2
  | none => false

/-- the bundled lists, licences then exceptions (`Project._default_license_map`) -/
def spdxTable : LicenseMap := Generated.spdx

/-- `_strip_plus_from_identifier` -/
def stripPlus (s : Text) : Text := if s.getLast? = some '+' then s.dropLast else s

/-- `_add_plus_to_identifier` -/
def addPlus (s : Text) : Text := if s.getLast? = some '+' then s else s ++ ['+']

def refChar (c : Char) : Bool := c.isAlphanum || c == '-' || c == '.'

def refPrefix : Text := "LicenseRef-".toList

/-- `_LICENSEREF_PATTERN.match(s)`: `LicenseRef-[a-zA-Z0-9-.]+$` anchored at the
    start; `$` also matches before one final newline. -/
def isLicenseRef (s : Text) : Bool :=
  refPrefix.isPrefixOf s &&
    (let body := s.drop refPrefix.length
     let body' := if body.getLast? = some '\n' then body.dropLast else body
     !body'.isEmpty && body'.all refChar)

/-- `PurePath(p).name` for a relative POSIX path without a trailing slash -/
def pathName (p : Text) : Text := (p.reverse.takeWhile (· != '/')).reverse

/-- `(PurePath(name).stem, PurePath(name).suffix)` (Python 3.12: the last dot
    counts when it is neither the first nor the last character). -/
def stemSuffix (name : Text) : Text × Text :=
  let tail := name.reverse.takeWhile (· != '.')
  if tail.length < name.length then
    let i := name.length - tail.length - 1
    if 0 < i ∧ 0 < tail.length then (name.take i, name.drop i) else (name, [])
  else (name, [])

/-- files below LICENSES/ that `_find_licenses` looks at (not `*.license`) -/
def isLicFile (path : Text) : Bool := (stemSuffix (pathName path)).2 != ".license".toList

/-- `_identifier_of_license` and the `except` branch of `_find_licenses`:
    the identifier and whether the file is recorded as lacking an extension. -/
def resolveId (lm : LicenseMap) (name : Text) : Text × Bool :=
  let ss := stemSuffix name
  if !ss.2.isEmpty && (lm.has ss.1 || isLicenseRef ss.1) then (ss.1, false)
  else if lm.has name || (ss.2.isEmpty && isLicenseRef name) then (name, true)
  else (ss.1, false)

structure Found where
  licenses : List (Text × Text) := []     -- identifier ↦ path
  noExt : List (Text × Text) := []        -- `licenses_without_extension`
  lmap : LicenseMap

def hasLic (ls : List (Text × Text)) (k : Text) : Bool := ls.any (·.1 == k)

/-- one iteration of the loop of `_find_licenses`; `none` is the `RuntimeError`
    for two files resolving to one identifier -/
def findStep (st : Found) (path : Text) : Option Found :=
  if !isLicFile path then some st
  else
    let r := resolveId st.lmap (pathName path)
    if hasLic st.licenses r.1 then none
    else some {
      licenses := st.licenses ++ [(r.1, path)]
      noExt := if r.2 then st.noExt ++ [(r.1, path)] else st.noExt
      lmap := if isLicenseRef r.1 then (r.1, false) :: st.lmap else st.lmap }

def findLoop : Found → List Text → Option Found
  | st, [] => some st
  | st, p :: ps => match findStep st p with
    | none => none
    | some st' => findLoop st' ps

def findLicenses (tbl : LicenseMap) (paths : List Text) : Option Found :=
  findLoop { lmap := tbl } paths

/-- a covered file with what is attributed to it -/
structure CovFile where
  path : Text
  readable : Bool
  hasCopyright : Bool
  exprs : List (List Text)       -- `license_keys` of every expression of every `ReuseInfo`

/-- `FileReport.licenses_in_file` -/
def keysOf (f : CovFile) : List Text := f.exprs.flatten

/-- the "Bad license" test of `FileReport.generate` (repaired) -/
def idBad (lm : LicenseMap) (k : Text) : Bool :=
  !(lm.has k || lm.has (stripPlus k)) && !(isLicenseRef k || isLicenseRef (stripPlus k))

/-- the "Missing license" test of `FileReport.generate` -/
def idMissing (ls : List (Text × Text)) (k : Text) : Bool :=
  !(hasLic ls k || hasLic ls (stripPlus k))

structure Project where
  files : List CovFile
  licFiles : List Text

structure Report where
  licenses : List (Text × Text)
  missing : List (Text × Text)       -- (identifier, file that uses it)
  bad : List (Text × Text)           -- (identifier, file that uses it / LICENSES file)
  deprecated : List Text
  noExt : List (Text × Text)
  readErrors : List Text
  fileReports : List CovFile

def fileMissing (ls : List (Text × Text)) (f : CovFile) : List (Text × Text) :=
  ((keysOf f).filter (idMissing ls)).map (·, f.path)

def fileBad (lm : LicenseMap) (f : CovFile) : List (Text × Text) :=
  ((keysOf f).filter (idBad lm)).map (·, f.path)

/-- `ProjectReport.generate` on the files `files` (all covered files for `lint`,
    the covered files among F for `lint-file`) -/
def generateOn (fd : Found) (files : List CovFile) : Report :=
  let readable := files.filter (·.readable)
  { licenses := fd.licenses
    missing := readable.flatMap (fileMissing fd.licenses)
    bad := readable.flatMap (fileBad fd.lmap) ++ fd.licenses.filter (fun l => !fd.lmap.has l.1)
    deprecated := (fd.licenses.filter fun l => fd.lmap.has l.1 && fd.lmap.deprecated l.1).map (·.1)
    noExt := fd.noExt
    readErrors := (files.filter (!·.readable)).map (·.path)
    fileReports := readable }

def generate (tbl : LicenseMap) (proj : Project) : Option Report :=
  (findLicenses tbl proj.licFiles).map (generateOn · proj.files)

/-- `used_licenses` -/
def Report.used (r : Report) : List Text := r.fileReports.flatMap keysOf

/-- `unused_licenses` -/
def Report.unused (r : Report) : List Text :=
  (r.licenses.filter fun l => !(r.used.contains l.1 || r.used.contains (addPlus l.1))).map (·.1)

/-- `files_without_licenses` -/
def Report.noLicence (r : Report) : List Text :=
  (r.fileReports.filter fun f => (keysOf f).isEmpty).map (·.path)

/-- `files_without_copyright` -/
def Report.noCopyright (r : Report) : List Text :=
  (r.fileReports.filter fun f => !f.hasCopyright).map (·.path)

/-- `is_compliant`: none of the eight collections has an element -/
def Report.isCompliant (r : Report) : Bool :=
  r.missing.isEmpty && r.unused.isEmpty && r.bad.isEmpty && r.deprecated.isEmpty &&
    r.noExt.isEmpty && r.noCopyright.isEmpty && r.noLicence.isEmpty && r.readErrors.isEmpty

/-- exit status of `reuse lint` -/
def Report.exit (r : Report) : Nat := if r.isCompliant then 0 else 1

end Model
