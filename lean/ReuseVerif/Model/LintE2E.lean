/-
The existing per-property models composed into one executable model of `reuse lint`:

  tree ──Model.iterFiles──▶ covered files                         (C03, `Project.all_files`)
       ──Model.iterFiles (REUSE.toml included)──▶ REUSE.toml files (`NestedReuseTOML.find_reuse_tomls`)
  per covered file:
       own source   = FILE.license when it exists, else FILE       (`_determine_license_path`)
       chain        = the REUSE.toml files of the ancestor directories, outermost first; each
                      contributes its last table one of whose globs (`Model.itemMatches`, C05)
                      matches the path relative to *its own* directory
                      (`_find_relevant_tomls_and_items`, `find_annotations_item`)
                      — or the one `.reuse/dep5` level (`Model.dep5Find`)
       own info     = `Model.infoOfFile` of the own source (window, decoding, ignore blocks, tags,
                      copyright notices; C02/C12), unless an `override` applies (the file is not
                      opened) or the own source is binary
       attribution  = `Model.reuseInfoOf chain ownInfo`            (C04, `Project.reuse_info_of`)
  LICENSES/  ──every regular file below it and every symbolic link below it that resolves to one (named by
               the link's own name), through real and linked directories, hidden names skipped──
                                                                   (`Project._find_licenses`, glob `**`)
  report     = `Model.generate`                                    (C06/C01, `ProjectReport.generate`)

What stays an oracle (a parameter, supplied by the harness from the real libraries): the version
control system (as in Model/Covered), `binaryornot.is_binary`, tomlkit + attrs validation (a
REUSE.toml arrives as its list of tables), python-debian (`.reuse/dep5` arrives as its list of
Files paragraphs), license-expression (`parses`, `keysOf`).

Symbolic links carry what they resolve to (`LinkTarget`: nothing, the bytes of a regular file, the
entries of a directory; the harness follows links to links before encoding).  Only `_find_licenses`
looks at it: the covered-files walk skips every symbolic link whatever it points at.

Outside the model (documented boundary, DESIGN-E2E): special files (FIFOs, sockets), link loops and a
`FILE.license` that is a live symlink (a symlink sibling is read as a dangling one: the file itself
is the source).
-/
import ReuseVerif.Model.Covered
import ReuseVerif.Model.Glob
import ReuseVerif.Model.Dep5
import ReuseVerif.Model.Precedence
import ReuseVerif.Model.Window
import ReuseVerif.Model.Report

namespace Model
open Py

mutual
/-- a directory entry with what the pipeline reads of it: regular files carry their bytes, symbolic
    links what they resolve to -/
inductive ENode where
  | file (content : Bytes)
  | symlink (target : LinkTarget)
  | dir (children : List (String × ENode))
/-- what `stat` finds behind a symbolic link (links to links already followed) -/
inductive LinkTarget where
  | dangling
  | file (content : Bytes)
  | dir (children : List (String × ENode))
end

instance : Inhabited ENode := ⟨.file []⟩
instance : Inhabited LinkTarget := ⟨.dangling⟩

abbrev ETree := List (String × ENode)

mutual
/-- the tree `Model.iterFiles` walks: contents forgotten, sizes kept -/
def ENode.toNode : ENode → Node
  | .file c => .file c.length
  | .symlink _ => .symlink
  | .dir cs => .dir (toNodes cs)
def toNodes : List (String × ENode) → List (String × Node)
  | [] => []
  | (n, c) :: rest => (n, c.toNode) :: toNodes rest
end

/-- the entry called `name` of a directory -/
def elookup (cs : ETree) (name : String) : Option ENode := (cs.find? (·.1 == name)).map (·.2)

/-- the entries of the directory at `path` (components below the root) -/
def subtree : ETree → List String → Option ETree
  | cs, [] => some cs
  | cs, d :: ds =>
    match elookup cs d with
    | some (.dir sub) => subtree sub ds
    | _ => none

/-- one `[[annotations]]` table as tomlkit and `AnnotationsItem.from_dict` deliver it -/
structure TomlTable where
  paths : List Text
  prec : Prec
  cpr : List Text           -- SPDX-FileCopyrightText (a string or a list of strings)
  lic : List Text           -- SPDX-License-Identifier: raw expression texts
  deriving Repr

/-- the `set`s of `AnnotationsItem` (`_str_to_set`): duplicates collapse -/
def TomlTable.toTable (t : TomlTable) : Table :=
  { prec := t.prec, cpr := (dedup t.cpr).map String.ofList, lic := (dedup t.lic).map String.ofList }

/-- one Files paragraph of `.reuse/dep5` as python-debian delivers it -/
structure Dep5Para where
  globs : List Text
  copyright : Text          -- the Copyright field
  license : Text            -- the synopsis of the License field
  deriving Repr

/-- `ReuseDep5.reuse_info_of`: always aggregated; the copyright field is split into stripped lines -/
def Dep5Para.toTable (q : Dep5Para) : Table :=
  { prec := .aggregate
    cpr := (dedup ((splitLines q.copyright).map strip)).map String.ofList
    lic := [String.ofList q.license] }

structure E2ECfg where
  includeSubmodules : Bool
  includeMeson : Bool
  vcsIgnored : List String → Bool
  isSubmodule : List String → Bool
  /-- `binaryornot.is_binary` of the file at that path -/
  isBinary : List String → Bool
  /-- the REUSE.toml in that directory, parsed; `none` = `GlobalLicensingParseError` -/
  tomlOf : List String → Option (List TomlTable)
  /-- `.reuse/dep5`, parsed; `none` = `GlobalLicensingParseError` -/
  dep5Of : Option (List Dep5Para)
  /-- license-expression: does the text parse; the `license_keys` of the parsed expression -/
  parses : Text → Bool
  keysOf : String → List Text

def E2ECfg.walk (c : E2ECfg) (tomls : Bool) : WalkCfg :=
  { includeSubmodules := c.includeSubmodules, includeMeson := c.includeMeson, includeReuseTomls := tomls
    vcsIgnored := c.vcsIgnored, isSubmodule := c.isSubmodule }

/-- `Project.all_files()` -/
def coveredFiles (c : E2ECfg) (tree : ETree) : List (List String) :=
  iterFiles (c.walk false) "" (toNodes tree)

/-- `NestedReuseTOML.find_reuse_tomls(root)` -/
def tomlFiles (c : E2ECfg) (tree : ETree) : List (List String) :=
  (iterFiles (c.walk true) "" (toNodes tree)).filter fun p => p.getLast? == some "REUSE.toml"

/-- `PurePath(...).as_posix()` of a relative path -/
def relText (rel : List String) : Text := ("/".intercalate rel).toList

/-- the REUSE.toml in the ancestor directory `p.take i` of the file `p`, if the walk found one:
    its last table matching the path relative to that directory -/
def levelAt (c : E2ECfg) (tomls : List (List String)) (p : List String) (i : Nat) : Option Table :=
  if tomls.contains (p.take i ++ ["REUSE.toml"]) then
    match c.tomlOf (p.take i) with
    | some ts => findItem (ts.map fun t => (itemMatches t.paths (relText (p.drop i)), t.toTable))
    | none => none
  else none

/-- `_find_relevant_tomls_and_items`: the ancestor directories outermost first -/
def tomlChain (c : E2ECfg) (tomls : List (List String)) (p : List String) : List (Option Table) :=
  (List.range p.length).map (levelAt c tomls p)

/-- `ReuseDep5.reuse_info_of`: one level, the last matching paragraph -/
def dep5Chain (paras : List Dep5Para) (p : List String) : List (Option Table) :=
  [dep5Find (paras.map fun q => { globs := q.globs, info := q.toTable }) (relText p)]

inductive GlobalLic where
  | none_
  | tomls (found : List (List String))
  | dep5 (paras : List Dep5Para)

def chainOf (c : E2ECfg) (g : GlobalLic) (p : List String) : List (Option Table) :=
  match g with
  | .none_ => []
  | .tomls found => tomlChain c found p
  | .dep5 paras => dep5Chain paras p

/-- what `_determine_license_path` and the first `open` make of a covered file -/
inductive Own where
  | bytes (content : Bytes) (sibling : Bool)   -- the bytes that are searched; from FILE.license?
  | unreadable                                 -- FILE.license is a directory: `open` fails

def Own.isUnreadable : Own → Bool
  | .unreadable => true
  | _ => false

def ownOf (entries : ETree) (name : String) (content : Bytes) : Own :=
  match elookup entries (name ++ ".license") with
  | some (.file c) => .bytes c true
  | some (.dir _) => .unreadable
  | _ => .bytes content false

def emptyOwn : Info := { cpr := [], lic := [], src := .own }

def extractedInfo (e : Extracted) : Info :=
  { cpr := e.cpr.map String.ofList, lic := e.lic.map String.ofList, src := .own }

/-- the path that is opened -/
def ownPath (p : List String) : Own → List String
  | .bytes _ true => p.dropLast ++ [p.getLast?.getD "" ++ ".license"]
  | _ => p

/-- `is_binary` / `reuse_info_of_file` on the own source -/
def fileInfoOf (c : E2ECfg) (p : List String) (own : Own) : Info :=
  match own with
  | .bytes content _ => if c.isBinary (ownPath p own) then emptyOwn else extractedInfo (infoOfFile c.parses content)
  | .unreadable => emptyOwn

/-- one `FileReport` (or the exception in its place) -/
structure EFile where
  path : List String
  own : Own
  levels : List (Option Table)
  readable : Bool
  infos : List Info

/-- the own source of the file at `p`: looked up in the directory that contains it -/
def ownAt (tree : ETree) (p : List String) : Own :=
  let entries := (subtree tree p.dropLast).getD []
  let name := p.getLast?.getD ""
  let content := match elookup entries name with
    | some (.file b) => b
    | _ => []
  ownOf entries name content

/-- `FileReport.generate` raises (the own source cannot be opened) unless an `override` means it
    is never opened -/
def readableOf (levels : List (Option Table)) : Own → Bool
  | .unreadable => !(nested levels).override.isEmpty
  | _ => true

def fileOf (c : E2ECfg) (g : GlobalLic) (tree : ETree) (p : List String) : EFile :=
  let own := ownAt tree p
  let levels := chainOf c g p
  { path := p, own := own, levels := levels
    readable := readableOf levels own
    infos := reuseInfoOf levels (fileInfoOf c p own) }

/-- a copyright line that holds nothing but white space (`not line.strip()`) -/
def isBlankStr (s : String) : Bool := (Py.strip s.toList).isEmpty

/-- `report.copyright` (the sorted non-blank lines joined by newlines) is a non-empty string:
    blank lines (`SPDX-FileCopyrightText = ""`) are not notices, however many there are -/
def joinedNonEmpty (l : List String) : Bool := l.any fun x => !isBlankStr x

def EFile.toCov (c : E2ECfg) (f : EFile) : CovFile :=
  { path := relText f.path, readable := f.readable
    hasCopyright := joinedNonEmpty (f.infos.flatMap (·.cpr))
    exprs := f.infos.flatMap fun i => i.lic.map c.keysOf }

/-- glob's `_ishidden` -/
def hiddenName (n : String) : Bool := n.toList.head? == some '.'

mutual
/-- `glob.iglob("LICENSES/**", recursive=True)` restricted to what `exists() and not is_dir()` keeps:
    hidden names are neither listed nor descended into; a symbolic link is listed (under its own
    name) when it resolves to a regular file and descended into when it resolves to a directory -/
def licWalkNode (path : List String) (name : String) : ENode → List (List String)
  | .file _ => if hiddenName name then [] else [path ++ [name]]
  | .symlink t => licWalkLink path name t
  | .dir cs => if hiddenName name then [] else licWalkList (path ++ [name]) cs
def licWalkLink (path : List String) (name : String) : LinkTarget → List (List String)
  | .dangling => []
  | .file _ => if hiddenName name then [] else [path ++ [name]]
  | .dir cs => if hiddenName name then [] else licWalkList (path ++ [name]) cs
def licWalkList (path : List String) : List (String × ENode) → List (List String)
  | [] => []
  | (n, c) :: rest => licWalkNode path n c ++ licWalkList path rest
end

/-- the entries below LICENSES/ `_find_licenses` keeps, as component lists.  Only a *directory* called
    LICENSES — or a symbolic link of that name to one (`is_dir()` follows links) — holds licence texts
    (a regular file of that name used to be taken for a licence text, because `glob("LICENSES/**")` also
    yields `LICENSES/` itself: repaired). -/
def licPathsOf (tree : ETree) : List (List String) :=
  match elookup tree "LICENSES" with
  | some (.dir cs) => licWalkList ["LICENSES"] cs
  | some (.symlink (.dir cs)) => licWalkList ["LICENSES"] cs
  | _ => []

/-- the paths `_find_licenses` iterates over (`*.license` companions are skipped by `findStep`) -/
def licFilesOf (tree : ETree) : List Text := (licPathsOf tree).map relText

/-- `(root / ".reuse/dep5").exists()` -/
def hasDep5 (tree : ETree) : Bool :=
  match subtree tree [".reuse"] with
  | some cs => (elookup cs "dep5").isSome
  | none => false

inductive E2EOut where
  | configError                                  -- GlobalLicensingParseError / GlobalLicensingConflictError
  | duplicate                                    -- RuntimeError of `_find_licenses`
  | ok (files : List EFile) (report : Report)

/-- `Project.find_global_licensing` + `_global_licensing_from_found` -/
def globalOf (c : E2ECfg) (tree : ETree) : Option GlobalLic :=
  let found := tomlFiles c tree
  if hasDep5 tree then
    if !found.isEmpty then none
    else c.dep5Of.map .dep5
  else if found.isEmpty then some .none_
  else if found.all fun t => (c.tomlOf t.dropLast).isSome then some (.tomls found)
  else none

def filesOf (c : E2ECfg) (g : GlobalLic) (tree : ETree) : List EFile :=
  (coveredFiles c tree).map (fileOf c g tree)

def projectOf (c : E2ECfg) (g : GlobalLic) (tree : ETree) : Project :=
  { files := (filesOf c g tree).map (EFile.toCov c), licFiles := licFilesOf tree }

/-- `reuse lint`: `Project.from_directory`, `ProjectReport.generate` -/
def lintE2E (tbl : LicenseMap) (c : E2ECfg) (tree : ETree) : E2EOut :=
  match globalOf c tree with
  | none => .configError
  | some g =>
    match generate tbl (projectOf c g tree) with
    | none => .duplicate
    | some r => .ok (filesOf c g tree) r

end Model
