/-
The other two readers of the project, composed from the same tree as `Model.lintE2E`
(Model/LintE2E.lean), so that their glue is inside the model:

  `reuse spdx`       tree ──filesOf (walk, own source, chain, extraction, attribution)──▶ the readable
                     covered files ──`fileInputOf`──▶ `Spdx.FileInput` (FileName `./path`, SHA-1 of the
                     file's own bytes, the `license_keys` of every expression of every source, the
                     non-blank copyright lines) ──`Spdx.generate` / `Spdx.docText`──▶ the document;
                     LICENSES/ ──`findLicenses`──▶ (identifier, path) ──`licEntryOf`──▶ the text of that
                     file, decoded with replacement, universal newlines      (`ProjectReport.bill_of_materials`)

  `reuse lint-file`  arguments ──`resolveArg` (against the working directory, `.` / `..`, existence)──▶
                     paths below the root ──`Model.lintFile` on the composed project──▶ per-file
                     problem lines and exit status        (`lint_file`, `Project.subset_files`, `iter_files`)

  `reuse lint --json|--plain|--lines|--quiet`   `Model.lintCmd` on the report of `lintE2E`.

Oracles (parameters, answered by the harness with hashlib / license-expression / boolean.py):
`sha1` over bytes, `md5` over the text `name ++ checksum`, `exprKey` (a representative of the
equality class of an expression: the tool keeps the expressions of one source in a *set* of parsed
expressions), `render` (`str(expression)`), `simplify` (`parse(joined).simplify().render()`).

Outside the model (documented boundary, DESIGN-SE2E): symbolic links as `lint-file` arguments or on
the way to one (every symlink is read as a dangling one, as in LintE2E), arguments that leave the
root and come back (`../proj/a`), multiprocessing, `--output`.
-/
import ReuseVerif.Model.LintE2E
import ReuseVerif.Model.SpdxDoc
import ReuseVerif.Model.Lint

namespace Model
open Py

-- ---------------------------------------------------------------- reading the tree

/-- the node at `p` (components below the root); the root itself is a directory -/
def nodeAt (tree : ETree) : List String → Option ENode
  | [] => some (.dir tree)
  | [n] => elookup tree n
  | d :: ds =>
    match elookup tree d with
    | some (.dir sub) => nodeAt sub ds
    | _ => none

/-- the bytes of the regular file at `p` (nothing when there is no such file) -/
def contentAt (tree : ETree) (p : List String) : Bytes :=
  match elookup ((subtree tree p.dropLast).getD []) (p.getLast?.getD "") with
  | some (.file b) => b
  | _ => []

/-- what `open` finds at an entry: the bytes of a regular file, or of the one a symbolic link resolves to -/
def ENode.bytes? : ENode → Option Bytes
  | .file b => some b
  | .symlink (.file b) => some b
  | _ => none

/-- the entries of a directory, or of the one a symbolic link resolves to -/
def ENode.entries? : ENode → Option ETree
  | .dir cs => some cs
  | .symlink (.dir cs) => some cs
  | _ => none

/-- the bytes `open` reads at `p`, symbolic links followed on the way and at the end (the licence
    texts below LICENSES/ are the only paths the tool opens that may lead through links) -/
def linkedContentAt : ETree → List String → Bytes
  | _, [] => []
  | cs, [n] => ((elookup cs n).bind ENode.bytes?).getD []
  | cs, d :: ds =>
    match (elookup cs d).bind ENode.entries? with
    | some sub => linkedContentAt sub ds
    | none => []

/-- the bytes of the LICENSES/ file that `_find_licenses` recorded under the relative path `path`
    (`licPathsOf`, Model/LintE2E: `licFilesOf` is their `relText`) -/
def licContent (tree : ETree) (path : Text) : Bytes :=
  match (licPathsOf tree).find? (fun p => relText p == path) with
  | some p => linkedContentAt tree p
  | none => []

-- ---------------------------------------------------------------- reuse spdx

structure SpdxOracles where
  /-- `hashlib.sha1(bytes).hexdigest()` -/
  sha1 : Bytes → Text
  /-- `hashlib.md5(text.encode("utf-8")).hexdigest()` -/
  md5 : Text → Text
  /-- a representative of the expression's class under license-expression's `==`
      (`ReuseInfo.spdx_expressions` is a set of parsed expressions) -/
  exprKey : String → Text
  /-- `str(expression)` -/
  render : String → Text
  /-- `_LICENSING.parse(text).simplify().render()` -/
  simplify : Text → Text

/-- a set of parsed expressions: one element per equality class, the first one met is kept -/
def dedupBy (key : String → Text) : List String → List String
  | [] => []
  | x :: xs => x :: (dedupBy key xs).filter fun y => key y != key x

/-- the expressions of one `ReuseInfo` -/
def exprsOfInfo (o : SpdxOracles) (i : Info) : List String := dedupBy o.exprKey i.lic

/-- `for reuse_info in reuse_infos for expression in reuse_info.spdx_expressions` -/
def exprsOf (o : SpdxOracles) (f : EFile) : List String := f.infos.flatMap (exprsOfInfo o)

def dotSlash : Text := ['.', '/']

/-- `f"./{relative}"` with `relative = project.relative_from_root(path)`: relative to the *root* -/
def spdxName (p : List String) : Text := dotSlash ++ relText p

def andSep : Text := [' ', 'A', 'N', 'D', ' ']

/-- `" AND ".join(f"({expression})" …)` -/
def joinedExprs (o : SpdxOracles) (es : List String) : Text :=
  Py.join andSep (es.map fun e => '(' :: (o.render e ++ [')']))

/-- the lines that enter `report.copyright`: `if line.strip()` -/
def cprLinesOf (f : EFile) : List Spdx.Line :=
  ((f.infos.flatMap (·.cpr)).filter fun x => !isBlankStr x).map String.toList

/-- what `FileReport.generate` is given for the covered file `f`: the checksum is taken of the file
    itself, never of its `.license` sibling -/
def fileInputOf (c : E2ECfg) (o : SpdxOracles) (tree : ETree) (f : EFile) : Spdx.FileInput :=
  { name := spdxName f.path
    chk := o.sha1 (contentAt tree f.path)
    exprKeys := (exprsOf o f).map c.keysOf
    simplified := o.simplify (joinedExprs o (exprsOf o f))
    copyrightLines := cprLinesOf f }

/-- `project_report.file_reports`: the covered files whose report could be generated -/
def spdxFiles (c : E2ECfg) (g : GlobalLic) (tree : ETree) : List EFile :=
  (filesOf c g tree).filter (·.readable)

def spdxInputs (c : E2ECfg) (o : SpdxOracles) (g : GlobalLic) (tree : ETree) : List Spdx.FileInput :=
  (spdxFiles c g tree).map (fileInputOf c o tree)

def lineFeed : Text := ['\n']

/-- `fp.read()` of a file opened with `encoding="utf-8", errors="replace"` (universal newlines),
    as the lines of the `<text>` span -/
def licTextLines (content : Bytes) : Spdx.Line × List Spdx.Line :=
  match Py.splitOn lineFeed (decodedText content) with
  | [] => ([], [])
  | b :: bs => (b, bs)

/-- one entry of `project.licenses` with the text of its file -/
def licEntryOf (tree : ETree) (e : Text × Text) : Spdx.LicEntry :=
  let ls := licTextLines (licContent tree e.2)
  { ident := e.1, first := ls.1, rest := ls.2 }

/-- `self.licenses.items()` with their texts (all of them: `licBlocks` keeps the `LicenseRef-` ones) -/
def spdxLics (tree : ETree) (fd : Found) : List Spdx.LicEntry := fd.licenses.map (licEntryOf tree)

/-- the file reports of the document -/
def spdxReps (c : E2ECfg) (o : SpdxOracles) (add : Bool) (g : GlobalLic) (tree : ETree) : List Spdx.FileRep :=
  (spdxInputs c o g tree).map (Spdx.generate o.md5 add)

inductive SpdxE2EOut where
  | usageError                                   -- `--add-license-concluded` without a creator
  | configError
  | duplicate
  | document (t : Text)
  deriving DecidableEq

/-- `reuse spdx [--add-license-concluded] [--creator-person P] [--creator-organization O]`: the
    option check comes before the project is looked at -/
def spdxE2E (tbl : LicenseMap) (c : E2ECfg) (o : SpdxOracles) (add : Bool) (p : Spdx.DocParams)
    (tree : ETree) : SpdxE2EOut :=
  if add && p.person.isNone && p.organization.isNone then .usageError
  else
    match globalOf c tree with
    | none => .configError
    | some g =>
      match findLicenses tbl (licFilesOf tree) with
      | none => .duplicate
      | some fd =>
        match Spdx.spdxCmd o.md5 add p (spdxInputs c o g tree) (spdxLics tree fd) with
        | .usageError => .usageError
        | .document t => .document t

-- ---------------------------------------------------------------- reuse lint-file

/-- a FILE argument: absolute (then `segs` are its components below the root) or relative to the
    working directory; `.` and `..` as written -/
structure PathArg where
  abs : Bool
  segs : List String
  deriving DecidableEq, Repr

inductive Resolved where
  | missing                       -- `click.Path(exists=True)` fails
  | outside                       -- exists (the parent of the root does) but is not below the root
  | found (p : List String)       -- the entry at `p` below the root
  deriving DecidableEq, Repr

def isDirNode : Option ENode → Bool
  | some (.dir _) => true
  | _ => false

/-- path resolution as the kernel does it, from the directory `cur`: every component but the last
    is looked up in a *directory*; `..` of the root leaves the project; a symlink is a dangling one -/
def resolveFrom (tree : ETree) : List String → List String → Resolved
  | cur, [] => .found cur
  | cur, s :: rest =>
    if !isDirNode (nodeAt tree cur) then .missing
    else if s == "." || s == "" then resolveFrom tree cur rest
    else if s == ".." then (if cur.isEmpty then .outside else resolveFrom tree cur.dropLast rest)
    else
      match nodeAt tree (cur ++ [s]) with
      | none => .missing
      | some (.symlink _) => .missing
      | some _ => resolveFrom tree (cur ++ [s]) rest

/-- `Path(arg).resolve()`: relative arguments are resolved against the working directory -/
def resolveArg (tree : ETree) (cwd : List String) (a : PathArg) : Resolved :=
  resolveFrom tree (if a.abs then [] else cwd) a.segs

def Resolved.path? : Resolved → Option (List String)
  | .found p => some p
  | _ => none

/-- the project-relative names the arguments denote (directories and non-covered files are among
    them; `Model.lintFile` keeps the covered files, each once) -/
def namedPaths (tree : ETree) (cwd : List String) (args : List PathArg) : List (List String) :=
  (args.map (resolveArg tree cwd)).filterMap Resolved.path?

inductive LintFileOut where
  | usageError
  | configError
  | duplicate
  | ok (out : List Entry) (exit : Nat)

/-- `reuse lint-file ARGS…` run in the directory `cwd` of the project: click's existence check, the
    project (`obj.project`), the inside-the-root check, `ProjectSubsetReport.generate` over
    `Project.subset_files`, `format_lines_subset`, exit status -/
def lintFileE2E (tbl : LicenseMap) (c : E2ECfg) (tree : ETree) (cwd : List String) (args : List PathArg) :
    LintFileOut :=
  let rs := args.map (resolveArg tree cwd)
  if rs.contains .missing then .usageError
  else
    match globalOf c tree with
    | none => .configError
    | some g =>
      match lintFile tbl (projectOf c g tree) ((namedPaths tree cwd args).map relText) with
      | none => .duplicate
      | some (out, e) => if rs.contains .outside then .usageError else .ok out e

-- ---------------------------------------------------------------- the formats of reuse lint

/-- `reuse lint --json|--plain|--lines|--quiet` on the tree: the formatter applied to the composed report -/
def lintCmdE2E (tbl : LicenseMap) (c : E2ECfg) (tree : ETree) (f : Format) : Option (List Entry × Nat) :=
  match lintE2E tbl c tree with
  | .ok _ r => some (lintCmd f r)
  | _ => none

end Model
