/-
Model of `reuse.covered_files.is_path_ignored` and `iter_files`
(src/reuse/covered_files.py): the pruned directory walk.  The file system is a
tree; the version control system is an oracle (`vcsIgnored`, `isSubmodule`);
the name rules are the patterns *generated* from the source
(`Generated/Patterns.lean`), matched the way `pattern.match(name)` does with a
final `$` (end of string, or just before one final newline).
-/
import ReuseVerif.Py.Re
import ReuseVerif.Generated.Patterns

namespace Model
open Py

inductive Node where
  | file (size : Nat)
  | symlink
  | dir (children : List (String × Node))
  deriving Repr, Inhabited

/-- `pattern.match(name)` for a pattern ending in `$` (no MULTILINE). -/
def nameMatch (r : Re) (name : Text) : Bool :=
  Re.bt r name (fun rest => rest.isEmpty || rest == ['\n'])

def anyPattern (ps : List Re) (name : String) : Bool := ps.any (nameMatch · name.toList)

structure WalkCfg where
  includeSubmodules : Bool
  includeMeson : Bool
  includeReuseTomls : Bool
  vcsIgnored : List String → Bool       -- is this path (components below the root) ignored by the VCS?
  isSubmodule : List String → Bool

/-- `is_path_ignored` for a regular file `path ++ [name]` of `size` bytes. -/
def fileIgnored (cfg : WalkCfg) (path : List String) (name : String) (size : Nat) : Bool :=
  (anyPattern Generated.ignoreFilePatterns name && (name != "REUSE.toml" || !cfg.includeReuseTomls))
  || size == 0
  || cfg.vcsIgnored (path ++ [name])

/-- `is_path_ignored` for a directory `path ++ [name]` whose parent directory is named `parentName`. -/
def dirIgnored (cfg : WalkCfg) (path : List String) (parentName name : String) : Bool :=
  anyPattern Generated.ignoreDirPatterns name
  || (!cfg.includeMeson && anyPattern Generated.ignoreMesonParentPatterns parentName)
  || (!cfg.includeSubmodules && cfg.isSubmodule (path ++ [name]))
  || cfg.vcsIgnored (path ++ [name])

mutual
/-- visit one directory entry -/
def walkNode (cfg : WalkCfg) (path : List String) (parentName name : String) : Node → List (List String)
  | .file size => if fileIgnored cfg path name size then [] else [path ++ [name]]
  | .symlink => []
  | .dir cs =>
    if dirIgnored cfg path parentName name then [] else walkList cfg (path ++ [name]) name cs
/-- visit the entries of one directory (the loop of `os.walk` with pruning) -/
def walkList (cfg : WalkCfg) (path : List String) (dirName : String) :
    List (String × Node) → List (List String)
  | [] => []
  | (n, c) :: rest => walkNode cfg path dirName n c ++ walkList cfg path dirName rest
end

/-- `iter_files(root)`: `rootName` is the last component of the directory the walk starts in
    (`""` for `.`). -/
def iterFiles (cfg : WalkCfg) (rootName : String) (children : List (String × Node)) : List (List String) :=
  walkList cfg [] rootName children

end Model
