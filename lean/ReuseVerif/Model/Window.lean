/-
Byte-level model of `reuse_info_of_file` (src/reuse/extract.py): the snippet
test on the whole content, the `_HEADER_BYTES` window, `decoded_text_from_binary`
(UTF-8 with `errors="replace"`, then carriage returns folded into "\n").

A byte is a `Nat` (< 256 for everything a file can hold; a larger number is
treated like an invalid byte, which keeps the arithmetic in `Nat`).

The decoder follows CPython's `bytes.decode("utf-8", "replace")`: a well-formed
sequence (Unicode table 3-7: no overlong forms, no surrogates, nothing above
U+10FFFF) gives its code point; otherwise the maximal well-formed *prefix* of a
sequence (possibly just the lead byte, possibly cut by the end of the data) gives
one U+FFFD and decoding resumes at the offending byte.  It is compared with
CPython on random byte strings by the `decode` stream of `harness/props/c02.py`.
-/
import ReuseVerif.Model.Extract

namespace Model
open Py

abbrev Bytes := List Nat

/-- `pat in content` for byte strings -/
def bytesContain (pat : Bytes) : Bytes → Bool
  | [] => pat.isEmpty
  | b :: bs => pat.isPrefixOf (b :: bs) || bytesContain pat bs

/-- `SPDX_SNIPPET_INDICATOR` (ASCII) as bytes -/
def snippetBytes : Bytes := Generated.snippetIndicator.map Char.toNat

/-- `_contains_snippet` -/
def containsSnippet (content : Bytes) : Bool := bytesContain snippetBytes content

/-- the bytes `reuse_info_of_file` hands to the decoder: everything when the snippet
    indicator occurs anywhere in the file, the first `_HEADER_BYTES` otherwise -/
def window (content : Bytes) : Bytes :=
  if containsSnippet content then content else content.take Generated.headerBytes

def inR (lo hi b : Nat) : Bool := lo ≤ b && b ≤ hi

def replChar : Char := Char.ofNat 0xFFFD

/-- bounds of the second byte after lead byte `b0` (Unicode table 3-7) -/
def secondLo (b0 : Nat) : Nat := if b0 == 0xE0 then 0xA0 else if b0 == 0xF0 then 0x90 else 0x80
def secondHi (b0 : Nat) : Nat := if b0 == 0xED then 0x9F else if b0 == 0xF4 then 0x8F else 0xBF

/-- `bytes.decode("utf-8", errors="replace")`; `fuel` ≥ number of bytes -/
def decodeUtf8Fuel : Nat → Bytes → Text
  | 0, _ => []
  | _ + 1, [] => []
  | f + 1, b0 :: rest =>
    if b0 < 0x80 then Char.ofNat b0 :: decodeUtf8Fuel f rest
    else if inR 0xC2 0xDF b0 then
      match rest with
      | [] => [replChar]
      | b1 :: r1 =>
        if inR 0x80 0xBF b1 then Char.ofNat ((b0 - 0xC0) * 64 + (b1 - 0x80)) :: decodeUtf8Fuel f r1
        else replChar :: decodeUtf8Fuel f rest
    else if inR 0xE0 0xEF b0 then
      match rest with
      | [] => [replChar]
      | b1 :: r1 =>
        if inR (secondLo b0) (secondHi b0) b1 then
          match r1 with
          | [] => [replChar]
          | b2 :: r2 =>
            if inR 0x80 0xBF b2 then
              Char.ofNat ((b0 - 0xE0) * 4096 + (b1 - 0x80) * 64 + (b2 - 0x80)) :: decodeUtf8Fuel f r2
            else replChar :: decodeUtf8Fuel f r1
        else replChar :: decodeUtf8Fuel f rest
    else if inR 0xF0 0xF4 b0 then
      match rest with
      | [] => [replChar]
      | b1 :: r1 =>
        if inR (secondLo b0) (secondHi b0) b1 then
          match r1 with
          | [] => [replChar]
          | b2 :: r2 =>
            if inR 0x80 0xBF b2 then
              match r2 with
              | [] => [replChar]
              | b3 :: r3 =>
                if inR 0x80 0xBF b3 then
                  Char.ofNat ((b0 - 0xF0) * 262144 + (b1 - 0x80) * 4096 + (b2 - 0x80) * 64 + (b3 - 0x80))
                    :: decodeUtf8Fuel f r3
                else replChar :: decodeUtf8Fuel f r2
            else replChar :: decodeUtf8Fuel f r1
        else replChar :: decodeUtf8Fuel f rest
    else replChar :: decodeUtf8Fuel f rest

def decodeUtf8 (bs : Bytes) : Text := decodeUtf8Fuel bs.length bs

/-- the line-ending folding at the end of `decoded_text_from_binary`: "\r\n" and then a
    lone "\r" become "\n" -/
def foldLineEndings (t : Text) : Text :=
  Py.replace (Py.replace t ['\r', '\n'] ['\n']) ['\r'] ['\n']

/-- `decoded_text_from_binary(fp, size)` on the bytes actually read -/
def decodedText (bs : Bytes) : Text := foldLineEndings (decodeUtf8 bs)

/-- `reuse_info_of_file` as far as the content is concerned (path bookkeeping omitted) -/
def infoOfFile (parses : Text → Bool) (content : Bytes) : Extracted :=
  infoOfDecoded parses (decodedText (window content))

/-- UTF-8 encoding of one character / of a text (Python's `str.encode("utf-8")`) -/
def encodeChar (c : Char) : Bytes :=
  let n := c.toNat
  if n < 0x80 then [n]
  else if n < 0x800 then [0xC0 + n / 64, 0x80 + n % 64]
  else if n < 0x10000 then [0xE0 + n / 4096, 0x80 + n / 64 % 64, 0x80 + n % 64]
  else [0xF0 + n / 262144, 0x80 + n / 4096 % 64, 0x80 + n / 64 % 64, 0x80 + n % 64]

def encodeUtf8 (t : Text) : Bytes := t.flatMap encodeChar

end Model
