/-
Models behind property C14 (results do not depend on scheduling, enumeration
order, hash seed or root spelling).  Every place of the code where an order
that the program does not control could become observable is modelled with
that order as an explicit parameter (a list order, a listing permutation):

* `aggregate` / `normalise` — the loop of `ProjectReport.generate`
  (src/reuse/report.py) folding the per-file results, in whatever order the
  pool or the serial map delivers them, into sets and dicts of sets, the
  set comprehensions behind `used_licenses`, `unused_licenses`,
  `files_without_*`, and the sorting every consumer of the report performs.
* `reorderList` — a directory tree with every listing re-ordered by an
  arbitrary enumerator `σ` (what `os.walk` hands to `iter_files`).
* `findRelevantTomls` — `NestedReuseTOML._find_relevant_tomls`
  (src/reuse/global_licensing.py): filter ancestors, sort by `directory.parts`.
* `endStarAlt` / `matchesEnd` — the END pattern of src/reuse/extract.py as ONE
  starred alternation (the repaired shape); `endSeqStars` is the previous shape
  `(?:e1)*(?:e2)*…` whose language depends on the order of the alternatives.
* `parsePath`, `relativeTo`, `resolve` — pathlib's lexical path algebra for the
  root given on the command line.
-/
import ReuseVerif.Py.Re
import ReuseVerif.Model.Covered

namespace Model.Agg
open Py Model

/-! ## Sets the way the code uses them -/

/-- `s.add(x)`: the iteration order of a Python set is not specified; the list order stands for
    it (insertion order here, any other order is reached by permuting the inputs). -/
def setAdd {α} [DecidableEq α] (s : List α) (x : α) : List α := if x ∈ s then s else s ++ [x]

/-- `s.update(xs)` / `set(xs)` -/
def setAddAll {α} [DecidableEq α] (s : List α) (xs : List α) : List α := xs.foldl setAdd s

def toSet {α} [DecidableEq α] (xs : List α) : List α := setAddAll [] xs

/-! ## `ProjectReport.generate` -/

/-- What one worker returns for one file (`_MultiprocessingResult`): an error, or the
    `FileReport` reduced to what the project report reads from it. -/
structure FileResult where
  path : String
  error : Bool
  licenses : List String        -- `licenses_in_file`
  missing : List String         -- `missing_licenses`
  bad : List String             -- `bad_licenses`
  hasCopyright : Bool           -- `bool(copyright)`
  deriving Repr, DecidableEq, Inhabited

/-- The project side: `project.licenses` (identifier, path) and the licence list. -/
structure LicCtx where
  licenses : List (String × String)
  isKnown : String → Bool
  isDeprecated : String → Bool

/-- `ProjectReport` after the loop.  A `dict[str, set[Path]]` filled with
    `setdefault(k, set()).add(v)` is the finite relation of its (key, value) pairs. -/
structure Report where
  readErrors : List String := []
  fileReports : List FileResult := []
  missing : List (String × String) := []
  bad : List (String × String) := []
  deprecated : List String := []
  deriving Repr, DecidableEq

/-- one iteration of `for result in results:` -/
def aggStep (r : Report) (x : FileResult) : Report :=
  if x.error then { r with readErrors := setAdd r.readErrors x.path }
  else { r with
    fileReports := setAdd r.fileReports x
    missing := x.missing.foldl (fun m l => setAdd m (l, x.path)) r.missing
    bad := x.bad.foldl (fun m l => setAdd m (l, x.path)) r.bad }

/-- one iteration of `for name, path in project.licenses.items():` -/
def licStep (ctx : LicCtx) (r : Report) (np : String × String) : Report :=
  if !ctx.isKnown np.1 then { r with bad := setAdd r.bad np }
  else if ctx.isDeprecated np.1 then { r with deprecated := setAdd r.deprecated np.1 }
  else r

/-- `ProjectReport.generate` given the worker results in the order they arrive. -/
def aggregate (ctx : LicCtx) (results : List FileResult) : Report :=
  ctx.licenses.foldl (licStep ctx) (results.foldl aggStep {})

def usedLicenses (r : Report) : List String := toSet (r.fileReports.flatMap (·.licenses))

def addPlus (l : String) : String := if l.endsWith "+" then l else l ++ "+"

def unusedLicenses (ctx : LicCtx) (r : Report) : List String :=
  toSet ((ctx.licenses.map (·.1)).filter fun l =>
    !(usedLicenses r).contains l && !(usedLicenses r).contains (addPlus l))

def filesWithoutLicenses (r : Report) : List String :=
  toSet ((r.fileReports.filter (·.licenses.isEmpty)).map (·.path))

def filesWithoutCopyright (r : Report) : List String :=
  toSet ((r.fileReports.filter (!·.hasCopyright)).map (·.path))

/-! ## What a consumer sees: everything sorted -/

def strLe (a b : String) : Bool := decide (a ≤ b)
def pairLe (a b : String × String) : Bool :=
  decide (a.1 < b.1) || (a.1 == b.1 && decide (a.2 ≤ b.2))

def sortS (l : List String) : List String := l.mergeSort strLe
def sortP (l : List (String × String)) : List (String × String) := l.mergeSort pairLe

structure NReport where
  readErrors : List String
  files : List String
  missing : List (String × String)
  bad : List (String × String)
  deprecated : List String
  used : List String
  unused : List String
  withoutLicence : List String
  withoutCopyright : List String
  filesTotal : Nat
  compliant : Bool
  deriving Repr, DecidableEq

def normalise (ctx : LicCtx) (r : Report) : NReport :=
  { readErrors := sortS r.readErrors
    files := sortS (r.fileReports.map (·.path))
    missing := sortP r.missing
    bad := sortP r.bad
    deprecated := sortS r.deprecated
    used := sortS (usedLicenses r)
    unused := sortS (unusedLicenses ctx r)
    withoutLicence := sortS (filesWithoutLicenses r)
    withoutCopyright := sortS (filesWithoutCopyright r)
    filesTotal := r.fileReports.length
    compliant := r.missing.isEmpty && (unusedLicenses ctx r).isEmpty && r.bad.isEmpty && r.deprecated.isEmpty
      && (filesWithoutCopyright r).isEmpty && (filesWithoutLicenses r).isEmpty && r.readErrors.isEmpty }

/-! ## Directory listings in another order -/

mutual
/-- the same tree as the file system enumerates it when every listing is passed through `σ` -/
def reorderNode (σ : List (String × Node) → List (String × Node)) : Node → Node
  | .dir cs => .dir (σ (reorderList σ cs))
  | .file size => .file size
  | .symlink => .symlink
def reorderList (σ : List (String × Node) → List (String × Node)) :
    List (String × Node) → List (String × Node)
  | [] => []
  | (n, c) :: rest => (n, reorderNode σ c) :: reorderList σ rest
end

/-- `iter_files` over the re-ordered tree -/
def iterFilesReordered (σ : List (String × Node) → List (String × Node)) (cfg : WalkCfg)
    (rootName : String) (cs : List (String × Node)) : List (List String) :=
  iterFiles cfg rootName (σ (reorderList σ cs))

/-! ## `_find_relevant_tomls` -/

/-- a `ReuseTOML`: its directory (path components) and an identity for its contents -/
structure Toml where
  dir : List String
  ident : Nat
  deriving Repr, DecidableEq

/-- tuple comparison of `directory.parts` -/
def partsLe : List String → List String → Bool
  | [], _ => true
  | _ :: _, [] => false
  | a :: as, b :: bs => decide (a < b) || (a == b && partsLe as bs)

/-- `PurePath(path).is_relative_to(toml.directory)` (component-wise prefix) -/
def isRelativeTo (path dir : List String) : Bool := dir.isPrefixOf path

def findRelevantTomls (tomls : List Toml) (path : List String) : List Toml :=
  (tomls.filter fun t => isRelativeTo path t.dir).mergeSort fun a b => partsLe a.dir b.dir

/-! ## `_find_licenses` -/

/-- one iteration of the loop over `glob("LICENSES/**")`: `ident` is the identifier the code derives
    from one path (stem / name / LicenseRef rules); a second path with the same identifier is the
    `RuntimeError` (`none`). -/
def findLicStep (ident : String → String) (acc : Option (List (String × String))) (p : String) :
    Option (List (String × String)) :=
  match acc with
  | none => none
  | some d => if (d.map (·.1)).contains (ident p) then none else some (d ++ [(ident p, p)])

/-- `Project._find_licenses` over the paths in the order `glob` produced them -/
def findLicenses (ident : String → String) (paths : List String) : Option (List (String × String)) :=
  paths.foldl (findLicStep ident) (some [])

/-! ## The END pattern -/

/-- `(?:a|b|…)`; the empty alternation matches nothing -/
def altList : List Re → Re
  | [] => .cls false []
  | a :: as => .alt a (altList as)

/-- repaired shape: `(?:a|b|…)*` -/
def endStarAlt (alts : List Re) : Re := .star (altList alts)

/-- previous shape: `(?:a)*(?:b)*…` in the iteration order of a set -/
def endSeqStars (alts : List Re) : Re := Re.seq (alts.map .star)

/-- is `s` (what follows the value up to the end of the line) matched by the END pattern? -/
def matchesEnd (alts : List Re) (s : Text) : Bool := Re.fullMatch (endStarAlt alts) s

def matchesEndSeq (alts : List Re) (s : Text) : Bool := Re.fullMatch (endSeqStars alts) s

/-! ## Root spellings -/

/-- a `pathlib.PurePosixPath`: anchored or not, and its components -/
structure PPath where
  abs : Bool
  parts : List String
  deriving Repr, DecidableEq

def splitSlash (s : Text) : List Text :=
  let r := s.foldl (fun (acc : List Text × Text) c =>
    if c = '/' then (acc.2.reverse :: acc.1, []) else (acc.1, c :: acc.2)) ([], [])
  (r.2.reverse :: r.1).reverse

/-- `PurePosixPath(s)`: empty and `.` components vanish, `..` stays -/
def parsePath (s : Text) : PPath :=
  { abs := s.head? == some '/'
    parts := ((splitSlash s).filter fun c => !c.isEmpty && c != ['.']).map String.ofList }

/-- `root / rel` -/
def joinRel (root : PPath) (rel : List String) : PPath := { root with parts := root.parts ++ rel }

def stripPrefix : List String → List String → Option (List String)
  | [], p => some p
  | _ :: _, [] => none
  | r :: rs, c :: cs => if r = c then stripPrefix rs cs else none

/-- `path.relative_to(root)` (lexical; `none` is the `ValueError`) -/
def relativeTo (p root : PPath) : Option (List String) :=
  if p.abs = root.abs then stripPrefix root.parts p.parts else none

def normStep (acc : List String) (c : String) : List String :=
  if c = ".." then acc.dropLast else acc ++ [c]

/-- `os.path.normpath` on the components of an absolute path -/
def normParts (l : List String) : List String := l.foldl normStep []

/-- the absolute, `..`-free location a path denotes for a process whose working directory is `cwd`
    (no symbolic links) -/
def resolve (cwd : List String) (p : PPath) : List String :=
  normParts ((if p.abs then [] else cwd) ++ p.parts)

/-- `parent_parts[-1] if parent_parts else ""` for an entry directly below the root -/
def rootNameOf (root : PPath) : String := root.parts.getLast?.getD ""

/-- `iter_files(root)` for a root given by some spelling — repaired behaviour: the walk does not
    consult the name of the directory it starts in (that name is `""` for `.`, `subprojects` for
    `/x/subprojects`, `..` for `sub/..`: a property of the spelling, not of the project). -/
def iterFilesFromRoot (σ : List (String × Node) → List (String × Node)) (cfg : WalkCfg) (_root : PPath)
    (cs : List (String × Node)) : List (List String) :=
  iterFilesReordered σ cfg "" cs

/-- previous behaviour: the Meson rule saw the last component of the spelling -/
def iterFilesFromRootOld (cfg : WalkCfg) (root : PPath) (cs : List (String × Node)) : List (List String) :=
  iterFiles cfg (rootNameOf root) cs

end Model.Agg
