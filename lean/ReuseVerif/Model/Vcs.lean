/-
Model of `src/reuse/vcs.py` — the logic of the tool itself that sits between the raw
answers of the version control programs and the two predicates the covered-file walk
asks (`is_ignored`, `is_submodule`), plus the choice of the strategy
(`Project._detect_vcs_strategy`, `vcs.find_root`).

Inputs are the *raw command outputs* as the programs print them (after
`.decode("utf-8")`): listings separated by NUL or newline, entries with a trailing slash for
directories, paths relative to the directory the command was started in.  Every command
of `VCSStrategyGit/Hg/Jujutsu/Pijul.__init__` runs with `cwd=self.root`, so the paths of
the listings are relative to the project root, not to the top of the repository and not
to the working directory of the process.

`pathlib` is modelled as far as the code uses it: `Path(s)` (`parsePath`: anchor, parts
without empty and `.` components), equality / set membership (structural on the parsed
form), `relative_to` (lexical), `os.path.relpath` (the `ValueError` fall-back of
`_util.relative_from_root`; depends on the working directory of the process),
`Path.resolve()` in the absence of symbolic links (lexical; `resolveLex`).
-/
import ReuseVerif.Py.Str
import ReuseVerif.Model.Covered
import ReuseVerif.Generated.Vcs

namespace Model.Vcs
open Py

/-! ### pathlib.PurePosixPath -/

/-- `str.split(sep)` for a one-character separator: always at least one piece. -/
def splitSep (sep : Char) : Text → List Text
  | [] => [[]]
  | c :: cs =>
    if c = sep then [] :: splitSep sep cs
    else match splitSep sep cs with
      | [] => [[c]]
      | h :: t => (c :: h) :: t

/-- A parsed `PurePosixPath`: `anchor` is `""`, `"/"` or `"//"`; `parts` is `_tail`. -/
structure PPath where
  anchor : Text
  parts : List Text
  deriving DecidableEq, Repr, Inhabited

/-- a component `pathlib` keeps: not empty, not `.` -/
def keepComp (x : Text) : Bool := !(x.isEmpty || x == ['.'])

/-- `posixpath.splitroot` + `PurePath._parse_path` (Python 3.12): one leading slash, or three
    and more, give the root `/`; exactly two give `//`. -/
def parsePath (s : Text) : PPath :=
  match s with
  | '/' :: '/' :: '/' :: rest => ⟨['/'], (splitSep '/' rest).filter keepComp⟩
  | '/' :: '/' :: rest => ⟨['/', '/'], (splitSep '/' rest).filter keepComp⟩
  | '/' :: rest => ⟨['/'], (splitSep '/' rest).filter keepComp⟩
  | _ => ⟨[], (splitSep '/' s).filter keepComp⟩

/-- `str(path)` -/
def PPath.str (p : PPath) : Text :=
  if p.anchor.isEmpty && p.parts.isEmpty then ['.'] else p.anchor ++ join ['/'] p.parts

/-- `path.parts` (the anchor is the first part of an absolute path) -/
def PPath.allParts (p : PPath) : List Text :=
  if p.anchor.isEmpty then p.parts else p.anchor :: p.parts

/-- `path.relative_to(root)` (no `walk_up`): purely lexical; `none` = `ValueError`. -/
def relativeTo? (p root : PPath) : Option PPath :=
  if p.anchor = root.anchor ∧ root.parts.isPrefixOf p.parts then some ⟨[], p.parts.drop root.parts.length⟩
  else none

/-- `os.path.normpath` of an absolute path given as components: `..` removes the component
    before it, at the top it is dropped. -/
def normAbs : List Text → List Text → List Text
  | acc, [] => acc.reverse
  | acc, c :: cs =>
    if c = ['.', '.'] then normAbs acc.tail cs
    else normAbs (c :: acc) cs

/-- components of `os.path.abspath(str(p))` when the process is in directory `cwd`
    (components of an absolute, normal path) -/
def absParts (cwd : List Text) (p : PPath) : List Text :=
  normAbs [] (if p.anchor.isEmpty then cwd ++ p.parts else p.parts)

def commonPrefixLen : List Text → List Text → Nat
  | a :: as, b :: bs => if a = b then commonPrefixLen as bs + 1 else 0
  | _, _ => 0

/-- `Path(os.path.relpath(path, start))` -/
def relpath (cwd : List Text) (path start : PPath) : PPath :=
  let s := absParts cwd start
  let p := absParts cwd path
  let i := commonPrefixLen s p
  ⟨[], List.replicate (s.length - i) ['.', '.'] ++ p.drop i⟩

/-- `_util.relative_from_root(path, root)`: `path.relative_to(root)`, and when that raises
    `ValueError`, `os.path.relpath(path, start=root)`. -/
def relativeFromRoot (cwd : List Text) (root path : PPath) : PPath :=
  match relativeTo? path root with
  | some r => r
  | none => relpath cwd path root

/-- `Path.resolve()` when no component is a symbolic link: `normpath(join(cwd, p))`. -/
def resolveLex (cwd : List Text) (p : PPath) : PPath :=
  if p.anchor.isEmpty then ⟨['/'], normAbs [] (cwd ++ p.parts)⟩ else ⟨p.anchor, normAbs [] p.parts⟩

/-! ### Git -/

/-- `_find_all_ignored_files`: `{Path(f) for f in stdout.split("\0")}`.  The piece after the
    last NUL is the empty string, so `Path(".")` is always a member. -/
def gitIgnoredSet (raw : Text) : List PPath := (splitSep '\x00' raw).map parsePath

/-- `VCSStrategyGit.is_ignored(path)` (also `VCSStrategyHg.is_ignored`): membership of the
    root-relative path in the set — no rule about parent directories here; that rule is the
    pruning of the walk (see `C03_vcs_walk_ancestors`). -/
def listedIgnored (set : List PPath) (cwd : List Text) (root path : PPath) : Bool :=
  set.contains (relativeFromRoot cwd root path)

/-- `entry.split("\n", maxsplit=1)[1]`: what follows the first newline; `none` = `IndexError`. -/
def afterFirstNewline (e : Text) : Option Text :=
  match e.dropWhile (· != '\n') with
  | [] => none
  | _ :: rest => some rest

/-- `_find_submodules`: the non-empty NUL-separated entries `key\nvalue`, of each the value
    (which may contain line breaks itself: `-z` ends it with NUL); `none` = `IndexError`
    (an entry without a newline). -/
def gitSubmodules (raw : Text) : Option (List PPath) :=
  ((splitSep '\x00' raw).filter (fun e => !e.isEmpty)).mapM fun e =>
    (afterFirstNewline e).map parsePath

/-- `root / p` -/
def joinPath (root p : PPath) : PPath :=
  if p.anchor.isEmpty then ⟨root.anchor, root.parts ++ p.parts⟩ else p

/-- `VCSStrategyGit.is_submodule(path)`: the root-relative path and the `.gitmodules` path,
    both put below the root, resolved and compared. -/
def gitIsSubmodule (subs : List PPath) (cwd : List Text) (root path : PPath) : Bool :=
  subs.any fun s =>
    resolveLex cwd (joinPath root (relativeFromRoot cwd root path)) == resolveLex cwd (joinPath root s)

/-! ### Mercurial, Jujutsu, Pijul (only ever run on canned outputs: the programs are not installed) -/

/-- `hg status --ignored --no-status --print0`, parsed like Git's listing -/
def hgIgnoredSet (raw : Text) : List PPath := (splitSep '\x00' raw).map parsePath

/-- `jj files`: the non-empty lines (split at `\n` only) -/
def jjTrackedSet (raw : Text) : List PPath :=
  ((splitSep '\n' raw).filter (fun l => !l.isEmpty)).map parsePath

/-- `VCSStrategyJujutsu.is_ignored`: ignored unless some tracked path starts with the parts of
    the path (a directory counts as tracked when a tracked file lies in it). -/
def jjIsIgnored (tracked : List PPath) (cwd : List Text) (root path : PPath) : Bool :=
  let rel := (relativeFromRoot cwd root path).allParts
  !tracked.any fun t => t.allParts.take rel.length == rel

/-- `pijul list`: `stdout.splitlines()`, empty lines included (`Path("")` is `.`) -/
def pijulTrackedSet (raw : Text) : List PPath := (splitLines raw).map parsePath

/-- `VCSStrategyPijul.is_ignored`: not a member of the listing -/
def pijulIsIgnored (tracked : List PPath) (cwd : List Text) (root path : PPath) : Bool :=
  !tracked.contains (relativeFromRoot cwd root path)

/-! ### One strategy object -/

inductive Strategy where
  | none | git | hg | jujutsu | pijul
  deriving DecidableEq, Repr, Inhabited

def Strategy.className : Strategy → String
  | .none => "VCSStrategyNone" | .git => "VCSStrategyGit" | .hg => "VCSStrategyHg"
  | .jujutsu => "VCSStrategyJujutsu" | .pijul => "VCSStrategyPijul"

def Strategy.ofClassName (s : String) : Option Strategy :=
  [Strategy.none, .git, .hg, .jujutsu, .pijul].find? (·.className == s)

/-- What `__init__` keeps: the parsed listing(s). -/
structure State where
  kind : Strategy
  listing : List PPath        -- ignored set (Git, Hg) / tracked set (Jujutsu, Pijul)
  submodules : List PPath     -- Git only
  deriving DecidableEq, Repr

/-- `Strategy(root)`: parse the raw outputs of the commands run in `root`.
    `raw1` = the listing, `raw2` = `git config -z --file .gitmodules --get-regexp '\.path$'`. -/
def State.init (kind : Strategy) (raw1 raw2 : Text) : Option State :=
  match kind with
  | .none => some ⟨.none, [], []⟩
  | .git => (gitSubmodules raw2).map fun subs => ⟨.git, gitIgnoredSet raw1, subs⟩
  | .hg => some ⟨.hg, hgIgnoredSet raw1, []⟩
  | .jujutsu => some ⟨.jujutsu, jjTrackedSet raw1, []⟩
  | .pijul => some ⟨.pijul, pijulTrackedSet raw1, []⟩

def State.isIgnored (st : State) (cwd : List Text) (root path : PPath) : Bool :=
  match st.kind with
  | .none => false
  | .git | .hg => listedIgnored st.listing cwd root path
  | .jujutsu => jjIsIgnored st.listing cwd root path
  | .pijul => pijulIsIgnored st.listing cwd root path

def State.isSubmodule (st : State) (cwd : List Text) (root path : PPath) : Bool :=
  match st.kind with
  | .git => gitIsSubmodule st.submodules cwd root path
  | _ => false

/-! ### Choice of the strategy -/

/-- `all_vcs_strategies()`: the classes in the order of their definition in the module
    (regenerated from the live module, `Generated.vcsStrategyOrder`). -/
def order : List Strategy := Generated.vcsStrategyOrder.filterMap Strategy.ofClassName

/-- `Project._detect_vcs_strategy(root)`: the first class whose program is installed (`EXE`)
    and whose `in_repo(root)` holds; `VCSStrategyNone` has no `EXE` and is never in a
    repository. -/
def detectIn (ord : List Strategy) (exe inRepo : Strategy → Bool) : Strategy :=
  (ord.find? fun s => s != .none && exe s && inRepo s).getD .none

def detect (exe inRepo : Strategy → Bool) : Strategy := detectIn order exe inRepo

/-- `vcs.find_root(cwd)`: the answer of the first installed strategy that finds a root. -/
def findRootIn (ord : List Strategy) (exe : Strategy → Bool) (found : Strategy → Option PPath) : Option PPath :=
  ord.findSome? fun s => if s != .none && exe s then found s else none

/-- `VCSStrategyGit/Hg/Jujutsu.find_root(cwd)`: return code 0 → the printed path without its
    last character (the newline), relative to `cwd`.  `none` = not a repository; an empty
    path (`ValueError: no path specified`) is outside the model (`some none`-free: callers
    never see it with the real programs). -/
def findRootCmd (procCwd : List Text) (cwdArg : PPath) (rc : Nat) (stdout : Text) : Option PPath :=
  if rc = 0 then some (relpath procCwd (parsePath stdout.dropLast) cwdArg) else none

/-! ### The walk's oracle parameters, instantiated -/

def compsOf (p : List String) : List Text := p.map String.toList

/-- `root / a / b …`: what the walk hands to `is_ignored` / `is_submodule` — the spelling of
    the root followed by directory-entry names. -/
def walkPath (root : PPath) (comps : List Text) : PPath := ⟨root.anchor, root.parts ++ comps⟩

/-- `Model.Covered`'s configuration with the VCS no longer an oracle but computed from the raw
    outputs the strategy read in `root`. -/
def walkCfg (st : State) (cwd : List Text) (root : PPath)
    (includeSubmodules includeMeson includeReuseTomls : Bool) : WalkCfg :=
  { includeSubmodules, includeMeson, includeReuseTomls,
    vcsIgnored := fun p => st.isIgnored cwd root (walkPath root (compsOf p)),
    isSubmodule := fun p => st.isSubmodule cwd root (walkPath root (compsOf p)) }

end Model.Vcs
