/-
The write behaviour of every sub-command on the abstract file system (C15).

* `annotate` — `Model/AnnotateCmd.lean`.
* `convert-dep5` (src/reuse/cli/convert_dep5.py): refuse without `.reuse/dep5`,
  and refuse when anything named `REUSE.toml` exists in the root — a regular file
  (the project cannot even be loaded: conflict), but also a symbolic link (live or
  dangling), a directory, or a file the VCS ignores, none of which the project
  reads (`fs tomlPath = none` below is "no node of any kind"; the code's explicit
  `is_symlink() or exists()` test, fixes/convert-dep5-toml-symlink.diff) —
  else `write_text(REUSE.toml)` then `unlink(.reuse/dep5)`.
* `download` (src/reuse/cli/download.py, src/reuse/download.py): for every
  requested identifier `parent.mkdir(exist_ok=True)`, refuse an existing
  destination, fetch, write.  Only the frame is modelled here; the command is
  verified in depth under C19.
* `lint`, `lint-file`, `spdx` without `--output`, `supported-licenses`: no write
  operation at all.  For these the frame theorem is empty; that the real
  commands perform no write is carried by the snapshot / system-call monitor.
* `spdx --output FILE` writes FILE.
-/
import ReuseVerif.Model.AnnotateCmd

namespace Model.Eff

def dep5Path : Path := ".reuse/dep5".toList
def tomlPath : Path := "REUSE.toml".toList

/-- the outside world of `convert-dep5`, `download` and `spdx -o` -/
structure World where
  render : Text → Text                 -- `toml_from_dep5`
  fetch : Text → Option Text           -- the network
  licDir : Path                        -- `find_licenses_directory`
  parent : Path → Path                 -- `Path.parent`
  bom : Fs → Text                      -- the SPDX document of the project

inductive Cmd where
  | annotate (a : Args)
  | convertDep5
  | download (ids : List Text) (output : Option Path)
  | lint
  | lintFile (paths : List Path)
  | spdx (output : Option Path)
  | supportedLicenses

def convertDep5 (w : World) (fs : Fs) : Fs × Nat :=
  match fs dep5Path, fs tomlPath with
  | some (.file d), none => (Fs.unlink (Fs.writeFile fs tomlPath (w.render d)) dep5Path, 0)
  | _, _ => (fs, 2)

def destOf (w : World) (output : Option Path) (id : Text) : Path :=
  match output with
  | some o => o
  | none => w.licDir ++ '/' :: id ++ ".txt".toList

/-- `put_license_in_file`; the Boolean says that the identifier failed -/
def putLicense (w : World) (fs : Fs) (dest : Path) (id : Text) : Fs × Bool :=
  let fs1 := Fs.mkdir fs (w.parent dest)
  match fs1 dest with
  | some _ => (fs1, true)
  | none =>
    match w.fetch id with
    | some t => (Fs.writeFile fs1 dest t, false)
    | none => (fs1, true)

def downloadLoop (w : World) (output : Option Path) : Fs → List Text → Fs × Bool
  | fs, [] => (fs, false)
  | fs, id :: ids =>
    let r1 := putLicense w fs (destOf w output id) id
    let r2 := downloadLoop w output r1.1 ids
    (r2.1, r1.2 || r2.2)

def download (w : World) (ids : List Text) (output : Option Path) (fs : Fs) : Fs × Nat :=
  if output.isSome && ids.eraseDups.length > 1 then (fs, 2)
  else
    let r := downloadLoop w output fs ids.eraseDups
    (r.1, if r.2 then 1 else 0)

/-- one command: final file system and exit status (the exit status of the read-only commands
    is not modelled: `0`) -/
def exec (env : Env) (w : World) : Cmd → Fs → Fs × Nat
  | .annotate a, fs => annotate env a fs
  | .convertDep5, fs => convertDep5 w fs
  | .download ids out, fs => download w ids out fs
  | .lint, fs => (fs, 0)
  | .lintFile _, fs => (fs, 0)
  | .spdx none, fs => (fs, 0)
  | .spdx (some o), fs => (Fs.writeFile fs o (w.bom fs), 0)
  | .supportedLicenses, fs => (fs, 0)

/-- a history of commands -/
def execAll (env : Env) (w : World) : List Cmd → Fs → Fs
  | [], fs => fs
  | c :: cs, fs => execAll env w cs (exec env w c fs).1

/-- the paths a command is documented to touch, on the file system it starts from -/
def allowed (env : Env) (w : World) : Cmd → Fs → List Path
  | .annotate a, fs => (expand env a fs).flatMap (fun p => [p, sibling p])
  | .convertDep5, _ => [tomlPath, dep5Path]
  | .download ids out, _ => ids.flatMap (fun id => [destOf w out id, w.parent (destOf w out id)])
  | .lint, _ => []
  | .lintFile _, _ => []
  | .spdx none, _ => []
  | .spdx (some o), _ => [o]
  | .supportedLicenses, _ => []

end Model.Eff
