/-
Model of the per-file source / precedence resolution:
`ReuseTOML.find_annotations_item`, `NestedReuseTOML.reuse_info_of`
(src/reuse/global_licensing.py) and the assembly in `Project.reuse_info_of`
(src/reuse/project.py).

A *level* is one REUSE.toml on the path from the project root to the file
(outermost first); it contributes its applicable table — the last
`[[annotations]]` table one of whose globs matches (glob matching is C05's
business and is a parameter here) — or nothing.
-/
namespace Model

inductive Prec where
  | closest | aggregate | override
  deriving DecidableEq, Repr, Inhabited

/-- The applicable table of one REUSE.toml: precedence, copyright lines, licence expressions. -/
structure Table where
  prec : Prec
  cpr : List String
  lic : List String
  deriving DecidableEq, Repr, Inhabited

inductive Src where
  | toml (level : Nat)      -- the REUSE.toml at that depth of the chain (or `.reuse/dep5` for level 0 of a dep5 project)
  | own                     -- the file itself or its `.license` sibling
  deriving DecidableEq, Repr, Inhabited

/-- One `ReuseInfo` object as far as the property is concerned. -/
structure Info where
  cpr : List String
  lic : List String
  src : Src
  deriving DecidableEq, Repr, Inhabited

def Info.hasCprOrLic (i : Info) : Bool := !i.cpr.isEmpty || !i.lic.isEmpty

/-- `find_annotations_item`: tables with the verdict of `matches`, the last match wins. -/
def findItem (tables : List (Bool × Table)) : Option Table :=
  (tables.reverse.find? (·.1)).map (·.2)

/-- The loop of `NestedReuseTOML.reuse_info_of`: outermost first, stop after the
    first `override`.  Returns the (depth, table) pairs that were looked at. -/
def loopLevels : Nat → List (Option Table) → List (Nat × Table)
  | _, [] => []
  | i, none :: ls => loopLevels (i + 1) ls
  | i, some t :: ls =>
    if t.prec = .override then [(i, t)] else (i, t) :: loopLevels (i + 1) ls

def byPrec (p : Prec) (l : List (Nat × Table)) : List (Nat × Table) := l.filter (·.2.prec = p)

def toInfo (x : Nat × Table) : Info := { cpr := x.2.cpr, lic := x.2.lic, src := .toml x.1 }

/-- "Clean up CLOSEST": walk from the deepest entry upwards; the first entry with
    copyright supplies the copyright, the first with licensing supplies the
    licensing; entries that supply nothing are dropped.  Input and output are
    deepest first. -/
def cleanupRev : Bool → Bool → List (Nat × Table) → List Info
  | _, _, [] => []
  | cf, lf, x :: rest =>
    let takeC := !cf && !x.2.cpr.isEmpty
    let takeL := !lf && !x.2.lic.isEmpty
    let info : Info := { cpr := if takeC then x.2.cpr else [], lic := if takeL then x.2.lic else [], src := .toml x.1 }
    (if takeC || takeL then [info] else []) ++ cleanupRev (cf || takeC) (lf || takeL) rest

structure Global where
  override : List Info
  aggregate : List Info
  closest : List Info
  deriving Repr

/-- `NestedReuseTOML.reuse_info_of` -/
def nested (levels : List (Option Table)) : Global :=
  let seen := loopLevels 0 levels
  { override := (byPrec .override seen).map toInfo
    aggregate := (byPrec .aggregate seen).map toInfo
    closest := (cleanupRev false false (byPrec .closest seen).reverse).reverse }

/-- The assembly in `Project.reuse_info_of`.  `fileInfo` is what reading the
    file's own source (the `.license` sibling when it exists, else the file;
    empty for binary files and unparseable expressions) yields; it is consulted
    only when no `override` applies. -/
def assemble (g : Global) (fileInfo : Info) : List Info :=
  let file : Info := if g.override.isEmpty then fileInfo else { cpr := [], lic := [], src := .own }
  g.override ++ g.aggregate ++ (if file.hasCprOrLic then [file] else []) ++
    (if !file.hasCprOrLic then g.closest
     else if file.cpr.isEmpty || file.lic.isEmpty then
       -- the file has only one of the two: every CLOSEST entry may supply the other
       g.closest.map fun c => if !file.cpr.isEmpty then { c with cpr := [] } else { c with lic := [] }
     else [])

def reuseInfoOf (levels : List (Option Table)) (fileInfo : Info) : List Info :=
  assemble (nested levels) fileInfo

inductive Kind where
  | cpr | lic
  deriving DecidableEq, Repr, Inhabited

/-- A reported item: kind, value, and the source it is attributed to. -/
structure Item where
  kind : Kind
  value : String
  src : Src
  deriving DecidableEq, Repr

def itemsOfInfo (i : Info) : List Item :=
  i.cpr.map (fun v => ⟨.cpr, v, i.src⟩) ++ i.lic.map (fun v => ⟨.lic, v, i.src⟩)

def itemsOf (l : List Info) : List Item := l.flatMap itemsOfInfo

/-- `_determine_license_path`: the `.license` sibling replaces the file when it exists. -/
def ownSource {α} (file : α) (sibling : Option α) : α := sibling.getD file

end Model
