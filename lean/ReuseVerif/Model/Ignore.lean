/-
Model of `reuse.extract.filter_ignore_block` (src/reuse/extract.py).
The Python function is recursive on a strictly shorter suffix; here the
recursion is well-founded on the text length (termination is an obligation).
`Option Nat` is Python's `None`/index; the tests are `is None` tests.
-/
import ReuseVerif.Py.Str
import ReuseVerif.Generated.Consts

namespace Model
open Py

/-- `filter_ignore_block` for arbitrary non-empty marker strings. -/
def filterIgnoreWith (st en : Text) (hst : 0 < st.length) (text : Text) : Text :=
  match _hs : findSub st text with
  | none => text
  | some i =>
    match findSub en text with
    | none => text.take i
    | some j =>
      let ignoreEnd := j + en.length
      if ignoreEnd > i then
        text.take i ++ filterIgnoreWith st en hst (text.drop ignoreEnd)
      else
        let rest := text.drop (i + st.length)
        match findSub en rest with
        | some k => text.take i ++ filterIgnoreWith st en hst (rest.drop (k + en.length))
        | none => text.take i
termination_by text.length
decreasing_by
  all_goals have := findSub_some_le _hs
  all_goals simp only [List.length_drop]
  all_goals omega

def filterIgnore (text : Text) : Text :=
  filterIgnoreWith Generated.ignoreStart Generated.ignoreEnd (by decide) text

end Model
