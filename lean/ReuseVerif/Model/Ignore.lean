/-
Model of `reuse.extract.filter_ignore_block` (src/reuse/extract.py).
The Python function was recursive on a strictly shorter suffix (one call per
block: ~1000 blocks in a row ended in RecursionError, fixes/ignore-blocks-iterative.diff);
it now walks through the text with `str.find(marker, position)`.  This definition keeps
the shape of the recursion — the same function of the text: both branches of
`ignoreEnd > i` look for the first end marker behind the start marker, which is what
the loop does (the markers cannot overlap: C12's marker facts), and C12's scanner
theorem identifies it with the left-to-right two-state scanner.  Every stream of C12
(exhaustive token sequences, chains of up to 5000 blocks) compares it with the code.
Here the recursion is well-founded on the text length (termination is an obligation).
`Option Nat` is Python's `None`/index; the tests are `is None` tests.
-/
import ReuseVerif.Py.Str
import ReuseVerif.Generated.Consts

namespace Model
open Py

/-- `filter_ignore_block` for arbitrary non-empty marker strings. -/
def filterIgnoreWith (st en : Text) (hst : 0 < st.length) (text : Text) : Text :=
  match _hs : findSub st text with
  | none => text
  | some i =>
    match findSub en text with
    | none => text.take i
    | some j =>
      let ignoreEnd := j + en.length
      if ignoreEnd > i then
        text.take i ++ filterIgnoreWith st en hst (text.drop ignoreEnd)
      else
        let rest := text.drop (i + st.length)
        match findSub en rest with
        | some k => text.take i ++ filterIgnoreWith st en hst (rest.drop (k + en.length))
        | none => text.take i
termination_by text.length
decreasing_by
  all_goals have := findSub_some_le _hs
  all_goals simp only [List.length_drop]
  all_goals omega

def filterIgnore (text : Text) : Text :=
  filterIgnoreWith Generated.ignoreStart Generated.ignoreEnd (by decide) text

end Model
