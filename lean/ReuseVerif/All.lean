-- Every property theorem file (built by setup.sh; each check builds only its own).
import ReuseVerif.Theorems.C12
import ReuseVerif.Theorems.C05
import ReuseVerif.Theorems.C17
import ReuseVerif.Theorems.C04
import ReuseVerif.Theorems.C03
import ReuseVerif.Theorems.C11
import ReuseVerif.Theorems.C15
