/-
Python string semantics used by the models.  Text is `List Char`
(a Python `str` without lone surrogates).  Everything here is executable,
total and import-free so that the driver can be a compiled `lean_exe`.
Each function is compared with CPython by `harness/props/pystr.py`.
-/
namespace Py

abbrev Text := List Char

/-- `str.startswith` -/
def startsWith (s pat : Text) : Bool := pat.isPrefixOf s

/-- `str.endswith` -/
def endsWith (s pat : Text) : Bool := pat.isSuffixOf s

/-- `str.find`: index of the first occurrence, `none` for Python's `-1`
    (`str.index` raising, `pat in s` being false). -/
def findSub (pat : Text) : Text → Option Nat
  | [] => if pat.isEmpty then some 0 else none
  | c :: cs =>
    if pat.isPrefixOf (c :: cs) then some 0
    else (findSub pat cs).map (· + 1)

theorem findSub_some_le {pat s : Text} {i : Nat} (h : findSub pat s = some i) :
    i + pat.length ≤ s.length := by
  induction s generalizing i with
  | nil =>
    simp only [findSub] at h
    split at h
    · cases pat with
      | nil => cases h; simp
      | cons a as => simp at *
    · cases h
  | cons c cs ih =>
    simp only [findSub] at h
    split at h
    · rename_i hp
      have := (List.isPrefixOf_iff_prefix.mp hp).length_le
      cases h; simpa using this
    · cases hf : findSub pat cs with
      | none => simp [hf] at h
      | some k =>
        simp [hf] at h
        have := ih hf
        simp only [List.length_cons]; omega

/-- `pat in s` -/
def contains (s pat : Text) : Bool := (findSub pat s).isSome

/-- `str.split(sep)` for a non-empty separator. -/
def splitOnFuel (sep : Text) : Nat → Text → Text → List Text
  | 0, acc, s => [acc.reverse ++ s]
  | _ + 1, acc, [] => [acc.reverse]
  | f + 1, acc, c :: cs =>
    if sep.isPrefixOf (c :: cs) ∧ ¬ sep.isEmpty then
      acc.reverse :: splitOnFuel sep f [] ((c :: cs).drop sep.length)
    else splitOnFuel sep f (c :: acc) cs

def splitOn (sep s : Text) : List Text := splitOnFuel sep (s.length + 1) [] s

/-- `sep.join(parts)` -/
def join (sep : Text) : List Text → Text
  | [] => []
  | [x] => x
  | x :: xs => x ++ sep ++ join sep xs

/-- Python's `str.isspace` for one character (the set `str.strip()` removes).
    Checked against CPython over all of Unicode by the pystr correspondence. -/
def isSpace (c : Char) : Bool :=
  let n := c.toNat
  (9 ≤ n ∧ n ≤ 13) ∨ (28 ≤ n ∧ n ≤ 32) ∨ n = 0x85 ∨ n = 0xa0 ∨ n = 0x1680 ∨
  (0x2000 ≤ n ∧ n ≤ 0x200a) ∨ n = 0x2028 ∨ n = 0x2029 ∨ n = 0x202f ∨
  n = 0x205f ∨ n = 0x3000

def lstrip (s : Text) : Text := s.dropWhile isSpace
def rstrip (s : Text) : Text := (s.reverse.dropWhile isSpace).reverse
def strip (s : Text) : Text := rstrip (lstrip s)

def lstripChars (chars s : Text) : Text := s.dropWhile (chars.contains ·)
def rstripChars (chars s : Text) : Text := (s.reverse.dropWhile (chars.contains ·)).reverse
def stripChars (chars s : Text) : Text := rstripChars chars (lstripChars chars s)

/-- Line boundaries recognised by `str.splitlines`. -/
def isLineBreak (c : Char) : Bool :=
  let n := c.toNat
  n = 10 ∨ n = 11 ∨ n = 12 ∨ n = 13 ∨ n = 0x1c ∨ n = 0x1d ∨ n = 0x1e ∨
  n = 0x85 ∨ n = 0x2028 ∨ n = 0x2029

/-- `str.splitlines(keepends)`; `\r\n` is one break. -/
def splitLinesAux (keep : Bool) : Text → Text → List Text
  | [], [] => []
  | acc, [] => [acc.reverse]
  | acc, '\r' :: '\n' :: cs =>
    (if keep then ('\n' :: '\r' :: acc).reverse else acc.reverse) :: splitLinesAux keep [] cs
  | acc, c :: cs =>
    if isLineBreak c then
      (if keep then (c :: acc).reverse else acc.reverse) :: splitLinesAux keep [] cs
    else splitLinesAux keep (c :: acc) cs

def splitLines (s : Text) (keep : Bool := false) : List Text := splitLinesAux keep [] s

/-- `s.replace(old, new)` (all occurrences, non-empty `old`). -/
def replaceFuel (old new : Text) : Nat → Text → Text
  | 0, s => s
  | _ + 1, [] => []
  | f + 1, c :: cs =>
    if old.isPrefixOf (c :: cs) ∧ ¬ old.isEmpty then
      new ++ replaceFuel old new f ((c :: cs).drop old.length)
    else c :: replaceFuel old new f cs

def replace (s old new : Text) : Text := replaceFuel old new (s.length + 1) s

/-- `s.removeprefix(p)` -/
def removePrefix (s p : Text) : Text := if p.isPrefixOf s then s.drop p.length else s

end Py
