/-
A small regular-expression fragment: syntax, a continuation-passing
backtracking matcher (the execution model of CPython's `re` for this
fragment, as far as *membership* is concerned) and the denotational language.
Soundness and completeness of the matcher are proved in `Lemmas/Re.lean`.
-/
import ReuseVerif.Py.Str

namespace Py

/-- `cls neg ranges`: a character class; `cls true []` is `.` under DOTALL. -/
inductive Re where
  | eps : Re
  | chr (c : Char) : Re
  | cls (neg : Bool) (ranges : List (Char × Char)) : Re
  | cat (a b : Re) : Re
  | alt (a b : Re) : Re
  | star (a : Re) : Re
  deriving Repr, BEq, Inhabited

namespace Re

def inRanges (c : Char) (rs : List (Char × Char)) : Bool :=
  rs.any fun r => r.1 ≤ c ∧ c ≤ r.2

def clsMatch (neg : Bool) (rs : List (Char × Char)) (c : Char) : Bool :=
  if neg then !inRanges c rs else inRanges c rs

def size : Re → Nat
  | eps => 1
  | chr _ => 1
  | cls _ _ => 1
  | cat a b => a.size + b.size + 1
  | alt a b => a.size + b.size + 1
  | star a => a.size + 1

/-- `opt r = (?:r)?` -/
def opt (r : Re) : Re := alt r eps

/-- concatenation of a list -/
def seq : List Re → Re
  | [] => eps
  | r :: rs => cat r (seq rs)

/-- a literal string -/
def lit (t : Text) : Re := seq (t.map chr)

/-- `r+` -/
def plus (r : Re) : Re := cat r (star r)

/-- `[^/]`, `.` with DOTALL, `.` without DOTALL -/
def notSlash : Re := cls true [('/', '/')]
def anyChar : Re := cls true []
def dot : Re := cls true [('\n', '\n')]

/-- Backtracking matcher: `bt r s k` succeeds when some prefix of `s` matches
    `r` and the continuation accepts the rest.  `star` refuses an empty
    iteration (the guard every backtracking engine has). -/
def bt : Re → Text → (Text → Bool) → Bool
  | eps, s, k => k s
  | chr c, s, k =>
    match s with
    | [] => false
    | d :: ds => c == d && k ds
  | cls neg rs, s, k =>
    match s with
    | [] => false
    | d :: ds => clsMatch neg rs d && k ds
  | cat a b, s, k => bt a s (fun s' => bt b s' k)
  | alt a b, s, k => bt a s k || bt b s k
  | star a, s, k =>
    bt a s (fun s' => if s'.length < s.length then bt (star a) s' k else false) || k s
termination_by r s _ => (r.size, s.length)
decreasing_by
  all_goals simp_wf
  all_goals (simp only [Re.size]; first | omega | (apply Prod.Lex.left; omega) | (apply Prod.Lex.right; omega))

@[macro_inline] def guardOpt {α : Type} (b : Bool) (x : Option α) : Option α :=
  match b with
  | true => x
  | false => none

/-- The same matcher with an `Option`-valued continuation: the answer is the one the
    continuation gives on the *first* successful path in backtracking order (greedy star,
    ordered alternation), i.e. what CPython's engine reports. -/
def btO {α : Type} : Re → Text → (Text → Option α) → Option α
  | eps, s, k => k s
  | chr c, s, k =>
    match s with
    | [] => none
    | d :: ds => guardOpt (c == d) (k ds)
  | cls neg rs, s, k =>
    match s with
    | [] => none
    | d :: ds => guardOpt (clsMatch neg rs d) (k ds)
  | cat a b, s, k => btO a s (fun s' => btO b s' k)
  | alt a b, s, k => (btO a s k).orElse (fun _ => btO b s k)
  | star a, s, k =>
    (btO a s (fun s' => if s'.length < s.length then btO (star a) s' k else none)).orElse (fun _ => k s)
termination_by r s _ => (r.size, s.length)
decreasing_by
  all_goals simp_wf
  all_goals (simp only [Re.size]; first | omega | (apply Prod.Lex.left; omega) | (apply Prod.Lex.right; omega))

/-- `\s` and `\d` of a str pattern (generated ranges are passed in by the caller) -/
def inClass (rs : List (Char × Char)) (c : Char) : Bool := inRanges c rs

/-- `re.fullmatch` -/
def fullMatch (r : Re) (s : Text) : Bool := bt r s (fun rest => rest.isEmpty)

/-- `re.match` (prefix match) -/
def prefixMatch (r : Re) (s : Text) : Bool := bt r s (fun _ => true)

end Re
end Py
