import ReuseVerif.Lemmas.Str
import ReuseVerif.Spec.Ignore
import ReuseVerif.Model.Ignore

namespace Spec
open Py

theorem scan_skip (st en : Text) (ins : Bool) (n : Nat) (s : Text) :
    scan st en ins n s = scan st en ins 0 (s.drop n) := by
  induction n generalizing s with
  | zero => simp
  | succ k ih =>
    cases s with
    | nil => simp [scan]
    | cons c cs => simp [scan, ih]

theorem scan_out_none {st en s : Text} (h : findSub st s = none) :
    scan st en false 0 s = s := by
  induction s with
  | nil => simp [scan]
  | cons c cs ih =>
    have ⟨h1, h2⟩ := findSub_none_cons h
    simp [scan, h1, ih h2]

theorem scan_in_none {st en s : Text} (h : findSub en s = none) :
    scan st en true 0 s = [] := by
  induction s with
  | nil => simp [scan]
  | cons c cs ih =>
    have ⟨h1, h2⟩ := findSub_none_cons h
    simp [scan, h1, ih h2]

theorem scan_out_some {st en s : Text} {i : Nat} (hst : 0 < st.length)
    (h : findSub st s = some i) :
    scan st en false 0 s = s.take i ++ scan st en true 0 (s.drop (i + st.length)) := by
  induction i generalizing s with
  | zero =>
    have hp := findSub_zero h
    cases s with
    | nil => cases st <;> simp_all
    | cons c cs =>
      simp only [scan, hp, if_true, List.take_zero, List.nil_append]
      rw [scan_skip]
      congr 1
      have : 0 + st.length = (st.length - 1) + 1 := by omega
      rw [this, List.drop_succ_cons]
  | succ n ih =>
    cases s with
    | nil => simp only [findSub] at h; split at h <;> cases h
    | cons c cs =>
      have ⟨h1, h2⟩ := findSub_succ h
      simp only [scan, h1, Bool.false_eq_true, if_false, List.take_succ_cons, List.cons_append]
      rw [ih h2]
      have : n + 1 + st.length = (n + st.length) + 1 := by omega
      rw [this, List.drop_succ_cons]

theorem scan_in_some {st en s : Text} {k : Nat} (hen : 0 < en.length)
    (h : findSub en s = some k) :
    scan st en true 0 s = scan st en false 0 (s.drop (k + en.length)) := by
  induction k generalizing s with
  | zero =>
    have hp := findSub_zero h
    cases s with
    | nil => cases en <;> simp_all
    | cons c cs =>
      simp only [scan, hp, if_true]
      rw [scan_skip]
      congr 1
      have : 0 + en.length = (en.length - 1) + 1 := by omega
      rw [this, List.drop_succ_cons]
  | succ n ih =>
    cases s with
    | nil => simp only [findSub] at h; split at h <;> cases h
    | cons c cs =>
      have ⟨h1, h2⟩ := findSub_succ h
      simp only [scan, h1, Bool.false_eq_true, if_false]
      rw [ih h2]
      have : n + 1 + en.length = (n + en.length) + 1 := by omega
      rw [this, List.drop_succ_cons]

/-- Two marker occurrences cannot overlap. -/
theorem occurrences_disjoint {p q s : Text} {c0 : Char} {tp tq : Text}
    (hp : p = c0 :: tp) (hq : q = c0 :: tq) (hnp : c0 ∉ tp)
    {i j : Nat} (hi : p.isPrefixOf (s.drop i) = true) (hj : q.isPrefixOf (s.drop j) = true)
    (hij : i < j) : i + p.length ≤ j := by
  refine Nat.le_of_not_lt fun hlt => ?_
  have hpi := List.isPrefixOf_iff_prefix.mp hi
  have hqj := List.isPrefixOf_iff_prefix.mp hj
  obtain ⟨r1, hr1⟩ := hpi
  obtain ⟨r2, hr2⟩ := hqj
  -- character at position j of s
  have e1 : (s.drop i)[j - i]? = p[j - i]? := by
    rw [← hr1, List.getElem?_append_left (by omega)]
  have e2 : (s.drop j)[0]? = some c0 := by
    rw [← hr2, hq]; simp
  have e3 : (s.drop i)[j - i]? = (s.drop j)[0]? := by
    simp only [List.getElem?_drop]; congr 1; omega
  rw [e1, e2, hp] at e3
  have hpos : j - i = (j - i - 1) + 1 := by omega
  rw [hpos, List.getElem?_cons_succ] at e3
  exact hnp (List.mem_of_getElem? e3)

end Spec
