/-
C20: `get_year` of cli/annotate.py (`Model.yearOf`, the year rule of the composed annotate model).
`min(years)` / `max(years)` compare *strings*; for four-digit ASCII years that is the numeric order.
-/
import ReuseVerif.Model.AnnotateE2E
import ReuseVerif.Lemmas.C20MergeLines

namespace Model
open Py Spec Model.AE

/-! ### ASCII digits -/

/-- Table obligation: the first generated `\d` range is `0`–`9`. -/
theorem digitRanges_head : Generated.digitRanges = ('0', '9') :: Generated.digitRanges.tail := by decide

theorem asciiDigit_bounds {c : Char} (h : asciiDigit c = true) : 48 ≤ c.toNat ∧ c.toNat ≤ 57 := by
  simpa [asciiDigit] using h

theorem digitVal_ascii {c : Char} (h : asciiDigit c = true) : digitVal c = c.toNat - 48 := by
  obtain ⟨h1, h2⟩ := asciiDigit_bounds h
  unfold digitVal
  rw [digitRanges_head]
  have : (decide (('0', '9').1.toNat ≤ c.toNat) && decide (c.toNat ≤ ('0', '9').2.toNat)) = true := by
    simp only [Bool.and_eq_true, decide_eq_true_eq]
    exact ⟨h1, h2⟩
  have hf : List.find? (fun r : Char × Char => decide (r.1.toNat ≤ c.toNat) && decide (c.toNat ≤ r.2.toNat))
      (('0', '9') :: Generated.digitRanges.tail) = some ('0', '9') := List.find?_cons_of_pos this
  rw [hf]
  show (c.toNat - 48) % 10 = c.toNat - 48
  omega

theorem isReDigit_ascii {c : Char} (h : asciiDigit c = true) : isReDigit c = true := by
  obtain ⟨h1, h2⟩ := asciiDigit_bounds h
  unfold isReDigit Re.inRanges
  rw [digitRanges_head, List.any_cons]
  have : decide (('0', '9').1 ≤ c ∧ c ≤ ('0', '9').2) = true := by
    simp only [decide_eq_true_eq, Char.le_def, UInt32.le_iff_toNat_le]
    exact ⟨h1, h2⟩
  rw [this]; rfl

theorem asciiYear_fourDigits {y : Text} (h : asciiYear y = true) : fourDigits y = true := by
  unfold asciiYear at h
  unfold fourDigits
  simp only [Bool.and_eq_true, List.all_eq_true] at h ⊢
  exact ⟨h.1, fun c hc => isReDigit_ascii (h.2 c hc)⟩

/-- **String order is numeric order on four-digit ASCII years** (`min(years)` / `max(years)` of
    `get_year` compare `str`). -/
theorem textLt_ascii {a b : Text} (ha : asciiYear a = true) (hb : asciiYear b = true) :
    textLt a b = decide (yearVal a < yearVal b) := by
  unfold asciiYear at ha hb
  simp only [Bool.and_eq_true, beq_iff_eq, List.all_eq_true] at ha hb
  match a, ha.1, b, hb.1 with
  | [a1, a2, a3, a4], _, [b1, b2, b3, b4], _ =>
    have A1 := ha.2 a1 (by simp); have A2 := ha.2 a2 (by simp); have A3 := ha.2 a3 (by simp); have A4 := ha.2 a4 (by simp)
    have B1 := hb.2 b1 (by simp); have B2 := hb.2 b2 (by simp); have B3 := hb.2 b3 (by simp); have B4 := hb.2 b4 (by simp)
    have a1b := asciiDigit_bounds A1; have a2b := asciiDigit_bounds A2; have a3b := asciiDigit_bounds A3
    have a4b := asciiDigit_bounds A4; have b1b := asciiDigit_bounds B1; have b2b := asciiDigit_bounds B2
    have b3b := asciiDigit_bounds B3; have b4b := asciiDigit_bounds B4
    simp only [yearVal, List.foldl_cons, List.foldl_nil, digitVal_ascii A1, digitVal_ascii A2, digitVal_ascii A3,
      digitVal_ascii A4, digitVal_ascii B1, digitVal_ascii B2, digitVal_ascii B3, digitVal_ascii B4, textLt]
    by_cases h1 : a1.toNat < b1.toNat
    · simp only [h1, if_true]; symm; rw [decide_eq_true_eq]; omega
    · by_cases h1' : b1.toNat < a1.toNat
      · simp only [h1, h1', if_true, if_false]; symm; rw [decide_eq_false_iff_not]; omega
      · simp only [h1, h1', if_false]
        by_cases h2 : a2.toNat < b2.toNat
        · simp only [h2, if_true]; symm; rw [decide_eq_true_eq]; omega
        · by_cases h2' : b2.toNat < a2.toNat
          · simp only [h2, h2', if_true, if_false]; symm; rw [decide_eq_false_iff_not]; omega
          · simp only [h2, h2', if_false]
            by_cases h3 : a3.toNat < b3.toNat
            · simp only [h3, if_true]; symm; rw [decide_eq_true_eq]; omega
            · by_cases h3' : b3.toNat < a3.toNat
              · simp only [h3, h3', if_true, if_false]; symm; rw [decide_eq_false_iff_not]; omega
              · simp only [h3, h3', if_false]
                by_cases h4 : a4.toNat < b4.toNat
                · simp only [h4, if_true]; symm; rw [decide_eq_true_eq]; omega
                · by_cases h4' : b4.toNat < a4.toNat
                  · simp only [h4, h4', if_true, if_false]; symm; rw [decide_eq_false_iff_not]; omega
                  · simp only [h4, h4', if_false]; symm; rw [decide_eq_false_iff_not]; omega

/-! ### `min` / `max` -/

theorem minText_mem : ∀ (l : List Text) (a : Text), minText a l ∈ a :: l
  | [], a => by simp [minText]
  | x :: xs, a => by
    simp only [minText]
    have := minText_mem xs (if textLt x a then x else a)
    rcases List.mem_cons.mp this with h | h
    · rw [h]; split <;> simp
    · exact List.mem_cons_of_mem _ (List.mem_cons_of_mem _ h)

theorem maxText_mem : ∀ (l : List Text) (a : Text), maxText a l ∈ a :: l
  | [], a => by simp [maxText]
  | x :: xs, a => by
    simp only [maxText]
    have := maxText_mem xs (if textLt a x then x else a)
    rcases List.mem_cons.mp this with h | h
    · rw [h]; split <;> simp
    · exact List.mem_cons_of_mem _ (List.mem_cons_of_mem _ h)

theorem minText_ascii : ∀ (l : List Text) (a : Text), (∀ y ∈ a :: l, asciiYear y = true) →
    ∀ y ∈ a :: l, yearVal (minText a l) ≤ yearVal y
  | [], a, _, y, hy => by
    simp only [List.mem_singleton] at hy
    subst hy; exact Nat.le_refl _
  | x :: xs, a, hall, y, hy => by
    have ha := hall a List.mem_cons_self
    have hx := hall x (by simp)
    simp only [minText, textLt_ascii hx ha]
    by_cases hlt : yearVal x < yearVal a
    · simp only [hlt, decide_true, if_true]
      have ih := minText_ascii xs x (fun z hz => hall z (by
        simp only [List.mem_cons] at hz ⊢; rcases hz with h | h <;> simp [h]))
      have hxm := ih x List.mem_cons_self
      simp only [List.mem_cons] at hy
      rcases hy with rfl | rfl | hy
      · omega
      · exact hxm
      · exact ih y (List.mem_cons_of_mem _ hy)
    · simp only [hlt, decide_false, Bool.false_eq_true, if_false]
      have ih := minText_ascii xs a (fun z hz => hall z (by
        simp only [List.mem_cons] at hz ⊢; rcases hz with h | h <;> simp [h]))
      have ham := ih a List.mem_cons_self
      simp only [List.mem_cons] at hy
      rcases hy with rfl | rfl | hy
      · exact ham
      · omega
      · exact ih y (List.mem_cons_of_mem _ hy)

theorem maxText_ascii : ∀ (l : List Text) (a : Text), (∀ y ∈ a :: l, asciiYear y = true) →
    ∀ y ∈ a :: l, yearVal y ≤ yearVal (maxText a l)
  | [], a, _, y, hy => by
    simp only [List.mem_singleton] at hy
    subst hy; exact Nat.le_refl _
  | x :: xs, a, hall, y, hy => by
    have ha := hall a List.mem_cons_self
    have hx := hall x (by simp)
    simp only [maxText, textLt_ascii ha hx]
    by_cases hlt : yearVal a < yearVal x
    · simp only [hlt, decide_true, if_true]
      have ih := maxText_ascii xs x (fun z hz => hall z (by
        simp only [List.mem_cons] at hz ⊢; rcases hz with h | h <;> simp [h]))
      have hxm := ih x List.mem_cons_self
      simp only [List.mem_cons] at hy
      rcases hy with rfl | rfl | hy
      · omega
      · exact hxm
      · exact ih y (List.mem_cons_of_mem _ hy)
    · simp only [hlt, decide_false, Bool.false_eq_true, if_false]
      have ih := maxText_ascii xs a (fun z hz => hall z (by
        simp only [List.mem_cons] at hz ⊢; rcases hz with h | h <;> simp [h]))
      have ham := ih a List.mem_cons_self
      simp only [List.mem_cons] at hy
      rcases hy with rfl | rfl | hy
      · exact ham
      · omega
      · exact ih y (List.mem_cons_of_mem _ hy)

end Model
