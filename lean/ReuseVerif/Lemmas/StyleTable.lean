/-
Lemmas about file-type detection over the generated tables (`Model/StyleTable.lean`).
-/
import ReuseVerif.Model.StyleTable

namespace Model
open Py
open Generated (Style)

theorem lookupLower_mem {table : List (String × String)} {k : Text} {v : String}
    (h : lookupLower table k = some v) : ∃ kv ∈ table, kv.2 = v := by
  unfold lookupLower at h
  cases hf : table.reverse.find? (fun kv => lowerText kv.1.toList == k) with
  | none => simp [hf] at h
  | some kv =>
    simp only [hf, Option.map_some, Option.some.injEq] at h
    exact ⟨kv, List.mem_reverse.mp (List.mem_of_find?_eq_some hf), h⟩

theorem commentStyleName_mem {path : Text} {n : String} (h : commentStyleName path = some n) :
    ∃ kv ∈ Generated.extensionStyleMap ++ Generated.filenameStyleMap, kv.2 = n := by
  unfold commentStyleName at h
  simp only at h
  split at h
  · rename_i s hs
    cases h
    obtain ⟨kv, hm, hv⟩ := lookupLower_mem hs
    exact ⟨kv, List.mem_append_right _ hm, hv⟩
  · obtain ⟨kv, hm, hv⟩ := lookupLower_mem h
    exact ⟨kv, List.mem_append_left _ hm, hv⟩

end Model
