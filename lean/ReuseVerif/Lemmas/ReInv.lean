import ReuseVerif.Lemmas.Glob
import ReuseVerif.Model.Covered

/-! Inversion lemmas for the regex fragment, in the form the name-rule proofs use. -/
namespace Py.Re
open Model

theorem matches_seq_nil {s : Text} : Matches (seq []) s ↔ s = [] := by
  simp only [seq]; exact matches_eps

theorem matches_lit {t s : Text} : Matches (lit t) s ↔ s = t := by
  unfold lit
  induction t generalizing s with
  | nil => simpa using matches_seq_nil
  | cons c cs ih =>
    simp only [List.map_cons]
    rw [matches_seq_cons]
    constructor
    · rintro ⟨a, b, rfl, ha, hb⟩
      rw [matches_chr] at ha; subst ha
      rw [ih] at hb; subst hb; rfl
    · rintro rfl
      exact ⟨[c], cs, rfl, .chr c, ih.mpr rfl⟩

theorem matches_alt {a b : Re} {s : Text} : Matches (.alt a b) s ↔ Matches a s ∨ Matches b s := by
  constructor
  · intro h; cases h with
    | altL h => exact .inl h
    | altR h => exact .inr h
  · rintro (h | h)
    · exact .altL h
    · exact .altR h

theorem matches_opt {r : Re} {s : Text} : Matches (opt r) s ↔ Matches r s ∨ s = [] := by
  unfold opt; rw [matches_alt, matches_eps]

theorem matches_cls1 {neg rs} {s : Text} :
    Matches (.cls neg rs) s ↔ ∃ c, s = [c] ∧ clsMatch neg rs c = true := by
  constructor
  · intro h; cases h with | cls hc => exact ⟨_, rfl, hc⟩
  · rintro ⟨c, rfl, hc⟩; exact .cls hc

theorem clsMatch_dot (c : Char) : clsMatch true [('\n', '\n')] c = true ↔ c ≠ '\n' := by
  simp only [clsMatch, inRanges, List.any_cons, List.any_nil, Bool.or_false, if_true,
    Bool.not_eq_true', decide_eq_false_iff_not, not_and]
  constructor
  · intro h e; subst e; exact h (Char.le_refl _) (Char.le_refl _)
  · intro h h1 h2; exact h (Char.le_antisymm h2 h1)

theorem matches_dot {s : Text} : Matches dot s ↔ ∃ c, s = [c] ∧ c ≠ '\n' := by
  unfold dot; rw [matches_cls1]; simp only [clsMatch_dot]

theorem matches_star_dot {s : Text} : Matches (.star dot) s ↔ '\n' ∉ s := by
  unfold dot; rw [matches_star_cls]
  simp only [clsMatch_dot]
  constructor
  · intro h hm; exact h _ hm rfl
  · intro h c hc e; subst e; exact h hc

theorem matches_plus_dot {s : Text} : Matches (plus dot) s ↔ s ≠ [] ∧ '\n' ∉ s := by
  unfold plus; rw [matches_cat]
  constructor
  · rintro ⟨a, b, rfl, ha, hb⟩
    rw [matches_dot] at ha; obtain ⟨c, rfl, hc⟩ := ha
    rw [matches_star_dot] at hb
    refine ⟨by simp, ?_⟩
    simp only [List.singleton_append, List.mem_cons, not_or]
    exact ⟨fun e => hc e.symm, hb⟩
  · rintro ⟨hne, hn⟩
    cases s with
    | nil => exact absurd rfl hne
    | cons c cs =>
      simp only [List.mem_cons, not_or] at hn
      exact ⟨[c], cs, rfl, matches_dot.mpr ⟨c, rfl, fun e => hn.1 e.symm⟩, matches_star_dot.mpr hn.2⟩

/-- `pattern.match(name)` with a final `$` on a name without newline is a full match. -/
theorem nameMatch_iff {r : Re} {n : Text} (hn : '\n' ∉ n) : nameMatch r n = true ↔ Matches r n := by
  unfold nameMatch
  constructor
  · intro h
    obtain ⟨a, b, rfl, ha, hb⟩ := bt_sound r n _ h
    simp only [Bool.or_eq_true, List.isEmpty_iff, beq_iff_eq] at hb
    rcases hb with rfl | rfl
    · simpa using ha
    · exact absurd (by simp) hn
  · intro h
    have := bt_complete h [] (fun rest => rest.isEmpty || rest == ['\n']) (by simp)
    simpa using this

end Py.Re
