/-
C02 (general form) — `extract_reuse_info` on a text of lines of all three kinds, and `reuse_info_of_file` on the
UTF-8 encoding of such a text (the whole file inside the window, or a snippet marker in it).
-/
import ReuseVerif.Lemmas.C02Lines
import ReuseVerif.Lemmas.C02Copyright
import ReuseVerif.Lemmas.Window

namespace C02L
open Py Model Spec C07A

/-! ### the three views of the text -/

theorem forLic_text (l : InfoLine) : l.forLic.text Generated.licenseTag = l.text := by cases l <;> rfl
theorem forCon_text (l : InfoLine) : l.forCon.text Generated.contributorTag = l.text := by cases l <;> rfl
theorem forCpr_text (l : InfoLine) : l.forCpr.text = l.text := by cases l <;> rfl

theorem forLic_value (l : InfoLine) : l.forLic.value = l.licValue := by cases l <;> rfl
theorem forCon_value (l : InfoLine) : l.forCon.value = l.conValue := by cases l <;> rfl
theorem forCpr_planted (l : InfoLine) : l.forCpr.planted = l.notice := by cases l <;> rfl

theorem textOf_forLic (ls : List InfoLine) : textOf Generated.licenseTag (ls.map (·.forLic)) = infoTextOf ls := by
  unfold textOf infoTextOf
  rw [List.map_map]
  congr 1
  exact List.map_congr_left fun l _ => forLic_text l

theorem textOf_forCon (ls : List InfoLine) : textOf Generated.contributorTag (ls.map (·.forCon)) = infoTextOf ls := by
  unfold textOf infoTextOf
  rw [List.map_map]
  congr 1
  exact List.map_congr_left fun l _ => forCon_text l

theorem cprTextOf_forCpr (ls : List InfoLine) : cprTextOf (ls.map (·.forCpr)) = infoTextOf ls := by
  unfold cprTextOf infoTextOf
  rw [List.map_map]
  congr 1
  exact List.map_congr_left fun l _ => forCpr_text l

theorem infoLine_ok_parts {endRe : Re} {l : InfoLine} (h : l.ok endRe = true) :
    l.forLic.ok endRe Generated.licenseTag = true ∧ l.forCon.ok endRe Generated.contributorTag = true ∧
    l.forCpr.ok endRe = true ∧ l.forCpr.quietOther endRe = true ∧ findSub Generated.ignoreStart l.text = none := by
  unfold InfoLine.ok at h
  simp only [Bool.and_eq_true, Option.isNone_iff_eq_none] at h
  exact ⟨h.1.1.1.1, h.1.1.1.2, h.1.1.2, h.1.2, h.2⟩

theorem infoText_noIgnore {endRe : Re} (ls : List InfoLine) (hok : ∀ l ∈ ls, l.ok endRe = true) :
    findSub Generated.ignoreStart (infoTextOf ls) = none := by
  unfold infoTextOf
  apply findSub_join_none _ (by decide) (by decide)
  intro t ht
  obtain ⟨l, hl, rfl⟩ := List.mem_map.mp ht
  exact (infoLine_ok_parts (hok l hl)).2.2.2.2

/-! ### `extract_reuse_info` -/

theorem extractRawWith_eq (endRe : Re) (t : Text) (h : findSub Generated.ignoreStart t = none) :
    extractRawWith endRe t =
      { lic := (dedup (findSpdxTagWith endRe Generated.licenseTag t)).filter (fun v => !v.isEmpty)
        cpr := dedup (cprLinesWith endRe t)
        con := dedup (findSpdxTagWith endRe Generated.contributorTag t) } := by
  unfold extractRawWith cprLinesWith
  simp only [filterIgnore_none h]

/-- **All three readers on a text of lines.** -/
theorem extract_text {endRe : Re} (hG : EndGuarded endRe) (ls : List InfoLine) (hok : ∀ l ∈ ls, l.ok endRe = true)
    (hread : ∀ l : CprLine, l.ok endRe = true →
      (searchLineWith endRe l.text).map (fun m => strip m.whole) = l.found endRe) :
    extractRawWith endRe (infoTextOf ls) = plantedInfo ls := by
  rw [extractRawWith_eq endRe _ (infoText_noIgnore ls hok)]
  have hlic : findSpdxTagWith endRe Generated.licenseTag (infoTextOf ls) = ls.filterMap (·.licValue) := by
    rw [← textOf_forLic, findTag_text hG Generated.licenseTag (by decide) _ (by
      intro l hl
      obtain ⟨l0, hl0, rfl⟩ := List.mem_map.mp hl
      exact (infoLine_ok_parts (hok l0 hl0)).1), List.filterMap_map]
    exact filterMap_congr' fun l _ => forLic_value l
  have hcon : findSpdxTagWith endRe Generated.contributorTag (infoTextOf ls) = ls.filterMap (·.conValue) := by
    rw [← textOf_forCon, findTag_text hG Generated.contributorTag (by decide) _ (by
      intro l hl
      obtain ⟨l0, hl0, rfl⟩ := List.mem_map.mp hl
      exact (infoLine_ok_parts (hok l0 hl0)).2.1), List.filterMap_map]
    exact filterMap_congr' fun l _ => forCon_value l
  have hcpr : cprLinesWith endRe (infoTextOf ls) = ls.filterMap (·.notice) := by
    have hok' : ∀ l ∈ ls.map (·.forCpr), l.ok endRe = true := by
      intro l hl
      obtain ⟨l0, hl0, rfl⟩ := List.mem_map.mp hl
      exact (infoLine_ok_parts (hok l0 hl0)).2.2.1
    rw [← cprTextOf_forCpr, cprLines_text endRe _ hok' (fun l hl => hread l (hok' l hl)),
      found_eq_planted endRe _ (by
        intro l hl
        obtain ⟨l0, hl0, rfl⟩ := List.mem_map.mp hl
        exact (infoLine_ok_parts (hok l0 hl0)).2.2.2.1), List.filterMap_map]
    exact filterMap_congr' fun l _ => forCpr_planted l
  rw [hlic, hcon, hcpr]
  rfl

/-! ### purely syntactic hypotheses -/

theorem infoLine_ok_of_syn (endRe : Re) (l : InfoLine) (pieces : List Text) (h : l.syn endRe pieces = true) :
    l.ok endRe = true := by
  unfold InfoLine.syn at h
  simp only [Bool.and_eq_true] at h
  obtain ⟨⟨hk, hnb⟩, hign⟩ := h
  unfold InfoLine.ok
  cases l with
  | lic s =>
    simp only [Bool.and_eq_true] at hk
    obtain ⟨⟨h1, h2⟩, h3⟩ := hk
    have := tagLineOK_of_syn endRe _ s pieces h1
    simp only [InfoLine.forLic, InfoLine.forCon, InfoLine.forCpr, TextLine.ok, CprLine.ok, CprLine.quietOther,
      this, h2, hnb, hign, noticeFree_of_headFree endRe _ h3, Bool.and_self]
  | con s =>
    simp only [Bool.and_eq_true] at hk
    obtain ⟨⟨h1, h2⟩, h3⟩ := hk
    have := tagLineOK_of_syn endRe _ s pieces h1
    simp only [InfoLine.forLic, InfoLine.forCon, InfoLine.forCpr, TextLine.ok, CprLine.ok, CprLine.quietOther,
      this, h2, hnb, hign, noticeFree_of_headFree endRe _ h3, Bool.and_self]
  | licF s ws =>
    simp only [Bool.and_eq_true] at hk
    obtain ⟨⟨h1, h2⟩, h3⟩ := hk
    have := tagLineFramedOK_of_syn endRe _ s ws pieces h1
    simp only [InfoLine.forLic, InfoLine.forCon, InfoLine.forCpr, TextLine.ok, CprLine.ok, CprLine.quietOther,
      this, h2, hnb, hign, noticeFree_of_headFree endRe _ h3, Bool.and_self]
  | conF s ws =>
    simp only [Bool.and_eq_true] at hk
    obtain ⟨⟨h1, h2⟩, h3⟩ := hk
    have := tagLineFramedOK_of_syn endRe _ s ws pieces h1
    simp only [InfoLine.forLic, InfoLine.forCon, InfoLine.forCpr, TextLine.ok, CprLine.ok, CprLine.quietOther,
      this, h2, hnb, hign, noticeFree_of_headFree endRe _ h3, Bool.and_self]
  | cpr x y hh pre trail =>
    simp only [Bool.and_eq_true] at hk
    obtain ⟨⟨⟨⟨h1, h2⟩, h3⟩, h4⟩, h5⟩ := hk
    have := wfNotice_of_syn endRe x y hh pre trail pieces h2
    have hnb' : noBreakB (pre ++ builtLine x.1 y hh ++ trail) = true := hnb
    simp only [InfoLine.forLic, InfoLine.forCon, InfoLine.forCpr, TextLine.ok, CprLine.ok, CprLine.quietOther,
      this, h1, h3, h4, h5, hnb', hign, Bool.and_self]
  | other t =>
    simp only [Bool.and_eq_true] at hk
    obtain ⟨⟨h1, h2⟩, h3⟩ := hk
    have hnb' : noBreakB t = true := hnb
    have h1' : tagFreeLine Generated.licenseTag (InfoLine.other t).text = true := h1
    have h2' : tagFreeLine Generated.contributorTag (InfoLine.other t).text = true := h2
    have hq : noticeFree endRe (InfoLine.other t).text = true := noticeFree_of_headFree endRe _ h3
    have hnb'' : noBreakB (InfoLine.other t).text = true := hnb
    simp only [InfoLine.forLic, InfoLine.forCon, InfoLine.forCpr, TextLine.ok, CprLine.ok, CprLine.quietOther,
      h1', h2', hq, hnb'', hign, Bool.and_self]

/-! ### the file -/

theorem mem_join {c : Char} {sep : Text} {L : List Text} (h : c ∈ join sep L) : c ∈ sep ∨ ∃ l ∈ L, c ∈ l := by
  induction L with
  | nil => simp [join] at h
  | cons a as ih =>
    cases as with
    | nil => exact .inr ⟨a, by simp, by simpa [join] using h⟩
    | cons a2 as2 =>
      rw [join_cons_cons] at h
      simp only [List.mem_append] at h
      rcases h with (h | h) | h
      · exact .inr ⟨a, by simp, h⟩
      · exact .inl h
      · rcases ih h with h | ⟨l, hl, hc⟩
        · exact .inl h
        · exact .inr ⟨l, by simp [hl], hc⟩

theorem infoText_noCR {endRe : Re} (ls : List InfoLine) (hok : ∀ l ∈ ls, l.ok endRe = true) :
    '\r' ∉ infoTextOf ls := by
  intro hmem
  unfold infoTextOf at hmem
  rcases mem_join hmem with h | ⟨t, ht, hc⟩
  · simp at h
  · obtain ⟨l, hl, rfl⟩ := List.mem_map.mp ht
    have hnb := cprLine_text_noBreak endRe _ (infoLine_ok_parts (hok l hl)).2.2.1
    rw [forCpr_text] at hnb
    have := noBreak_of_B hnb '\r' hc
    revert this; decide

/-- the decoded text of a file that is the UTF-8 encoding of a CR-free text -/
theorem decodedText_encode (t : Text) (hcr : '\r' ∉ t) : decodedText (encodeUtf8 t) = t := by
  unfold decodedText
  rw [decodeUtf8_encodeUtf8]
  have := foldLineEndings_skip t [] hcr
  simp only [List.append_nil] at this
  rw [this]
  show t ++ [] = t
  simp

/-- the window is the whole file when it fits or holds the snippet indicator -/
theorem window_all (content : Bytes) (h : content.length ≤ 4096 ∨ containsSnippet content = true) :
    window content = content := by
  unfold window
  split
  · rfl
  · rcases h with h | h
    · have : Generated.headerBytes = 4096 := rfl
      rw [this, List.take_of_length_le h]
    · rename_i hn; exact absurd h hn

/-- what `reuse_info_of_file` makes of an extraction all of whose expressions parse -/
theorem infoOfDecoded_of_extract (parses : Text → Bool) (t : Text) (e : Extracted) (he : extractRaw t = e)
    (hp : ∀ v ∈ e.lic, parses v = true) :
    infoOfDecoded parses t = if e.lic.isEmpty && e.cpr.isEmpty then Extracted.empty else e := by
  unfold infoOfDecoded extractInfo
  rw [he]
  have : e.lic.all parses = true := List.all_eq_true.mpr hp
  simp [this]

/-! ### the text of the non-vacuity examples of `C02_extract_exact` / `C02_file_exact` -/

/-- the text of the non-vacuity examples:
    `#!/bin/sh` / `# SPDX-FileCopyrightText: 2020 Jane Doe <jane@example.org>` / `# SPDX-License-Identifier: MIT` /
    `x = "unclosed` / `/* SPDX-FileContributor: Alice */` / ` * Copyright (C) 2019-2021 Example Corp -->` /
    `// SPDX-License-Identifier: \t(MIT OR X) ` / `# SPDX-License-Identifier: MIT` /
    `|*  SPDX-License-Identifier: Apache-2.0  *|` / `` -/
def exampleLines : List (InfoLine × List Text) :=
  [(.other "#!/bin/sh".toList, []),
   (.cpr ("SPDX-FileCopyrightText:".toList, .spdx, []) (.single "2020".toList) "Jane Doe <jane@example.org>".toList
      "# ".toList [], []),
   (.lic ⟨"# ".toList, " ".toList, "MIT".toList, []⟩, []),
   (.other "x = \"unclosed".toList, []),
   (.con ⟨"/* ".toList, " ".toList, "Alice".toList, " */".toList⟩, [" ".toList, "*/".toList]),
   (.cpr ("Copyright (C)".toList, .word, " (C)".toList) (.range "2019".toList false false "2021".toList)
      "Example Corp".toList " * ".toList " -->".toList, [" ".toList, "-->".toList]),
   (.lic ⟨"// ".toList, " \t".toList, "(MIT OR X)".toList, " ".toList⟩, [" ".toList]),
   (.lic ⟨"# ".toList, " ".toList, "MIT".toList, []⟩, []),
   (.licF ⟨"|*  ".toList, " ".toList, "Apache-2.0".toList, []⟩ "  ".toList, []),
   (.other [], [])]

theorem exampleLines_syn : ∀ p ∈ exampleLines, p.1.syn Generated.endRe p.2 = true := by decide +kernel

end C02L
