import ReuseVerif.Py.Re

namespace Py
namespace Re

/-- Denotational language of the fragment. -/
inductive Matches : Re → Text → Prop where
  | eps : Matches .eps []
  | chr (c : Char) : Matches (.chr c) [c]
  | cls {neg rs c} : clsMatch neg rs c = true → Matches (.cls neg rs) [c]
  | cat {a b s t} : Matches a s → Matches b t → Matches (.cat a b) (s ++ t)
  | altL {a b s} : Matches a s → Matches (.alt a b) s
  | altR {a b s} : Matches b s → Matches (.alt a b) s
  | starNil {a} : Matches (.star a) []
  | starCons {a s t} : Matches a s → Matches (.star a) t → Matches (.star a) (s ++ t)

theorem bt_sound (r : Re) (s : Text) (k : Text → Bool) (h : bt r s k = true) :
    ∃ a b, s = a ++ b ∧ Matches r a ∧ k b = true := by
  fun_induction bt r s k with
  | case1 s k => exact ⟨[], s, rfl, .eps, h⟩
  | case2 c k => cases h
  | case3 c k d ds =>
    simp only [Bool.and_eq_true, beq_iff_eq] at h
    obtain ⟨rfl, hk⟩ := h
    exact ⟨[c], ds, rfl, .chr c, hk⟩
  | case4 neg rs k => cases h
  | case5 neg rs k d ds =>
    simp only [Bool.and_eq_true] at h
    exact ⟨[d], ds, rfl, .cls h.1, h.2⟩
  | case6 a b s k ih2 ih1 =>
    obtain ⟨x, y, rfl, hx, hy⟩ := ih1 h
    obtain ⟨u, v, rfl, hu, hv⟩ := ih2 _ hy
    exact ⟨x ++ u, v, by simp, .cat hx hu, hv⟩
  | case7 a b s k iha ihb =>
    simp only [Bool.or_eq_true] at h
    rcases h with h | h
    · obtain ⟨x, y, e, hx, hy⟩ := iha h; exact ⟨x, y, e, .altL hx, hy⟩
    · obtain ⟨x, y, e, hx, hy⟩ := ihb h; exact ⟨x, y, e, .altR hx, hy⟩
  | case8 a s k ih2 ih1 =>
    simp only [Bool.or_eq_true] at h
    rcases h with h | h
    · obtain ⟨x, y, rfl, hx, hy⟩ := ih1 h
      simp only at hy
      split at hy
      · rename_i hlt
        obtain ⟨u, v, rfl, hu, hv⟩ := ih2 _ hlt hy
        exact ⟨x ++ u, v, by simp, .starCons hx hu, hv⟩
      · cases hy
    · exact ⟨[], s, rfl, .starNil, h⟩

theorem bt_complete {r : Re} {a : Text} (hm : Matches r a) (b : Text) (k : Text → Bool)
    (hk : k b = true) : bt r (a ++ b) k = true := by
  induction hm generalizing b k with
  | eps => simpa [bt] using hk
  | chr c => simp [bt, hk]
  | cls h => simp [bt, h, hk]
  | cat _ _ iha ihb =>
    rw [bt, List.append_assoc]
    exact iha _ _ (ihb _ _ hk)
  | altL _ ih => rw [bt]; simp [ih _ _ hk]
  | altR _ ih => rw [bt]; simp [ih _ _ hk]
  | starNil => rw [bt]; simp [hk]
  | @starCons a s t _ _ ih1 ih2 =>
    cases s with
    | nil => simpa using ih2 _ _ hk
    | cons c cs =>
      rw [bt, List.append_assoc]
      simp only [Bool.or_eq_true]
      left
      apply ih1
      have : (t ++ b).length < (c :: cs ++ (t ++ b)).length := by simp; omega
      simp only [this, if_true]
      exact ih2 _ _ hk

theorem btO_sound {α : Type} (r : Re) (s : Text) (k : Text → Option α) (x : α)
    (h : btO r s k = some x) : ∃ a b, s = a ++ b ∧ Matches r a ∧ k b = some x := by
  fun_induction btO r s k with
  | case1 s k => exact ⟨[], s, rfl, .eps, h⟩
  | case2 c k => cases h
  | case3 c k d ds =>
    cases hc : (c == d) with
    | false => simp [hc, guardOpt] at h
    | true =>
      have : c = d := by simpa using hc
      subst this
      simp only [hc, guardOpt] at h
      exact ⟨[c], ds, rfl, .chr c, h⟩
  | case4 neg rs k => cases h
  | case5 neg rs k d ds =>
    cases hc : clsMatch neg rs d with
    | false => simp [hc, guardOpt] at h
    | true =>
      simp only [hc, guardOpt] at h
      exact ⟨[d], ds, rfl, .cls hc, h⟩
  | case6 a b s k ih2 ih1 =>
    obtain ⟨u, v, rfl, hu, hv⟩ := ih1 h
    obtain ⟨p, q, rfl, hp, hq⟩ := ih2 _ hv
    exact ⟨u ++ p, q, by simp, .cat hu hp, hq⟩
  | case7 a b s k iha ihb =>
    cases ha : btO a s k with
    | some y =>
      rw [ha] at h; simp at h; subst h
      obtain ⟨u, v, e, hu, hv⟩ := iha ha; exact ⟨u, v, e, .altL hu, hv⟩
    | none =>
      rw [ha] at h; simp at h
      obtain ⟨u, v, e, hu, hv⟩ := ihb h; exact ⟨u, v, e, .altR hu, hv⟩
  | case8 a s k ih2 ih1 =>
    cases ha : btO a s (fun s' => if s'.length < s.length then btO (.star a) s' k else none) with
    | some y =>
      rw [ha] at h; simp at h; subst h
      obtain ⟨u, v, rfl, hu, hv⟩ := ih1 ha
      simp only at hv
      split at hv
      · rename_i hlt
        obtain ⟨p, q, rfl, hp, hq⟩ := ih2 _ hlt hv
        exact ⟨u ++ p, q, by simp, .starCons hu hp, hq⟩
      · cases hv
    | none =>
      rw [ha] at h; simp at h
      exact ⟨[], s, rfl, .starNil, h⟩

theorem btO_complete {α : Type} {r : Re} {a : Text} (hm : Matches r a) (b : Text)
    (k : Text → Option α) (hk : (k b).isSome = true) : (btO r (a ++ b) k).isSome = true := by
  induction hm generalizing b k with
  | eps => simpa [btO] using hk
  | chr c => simp [btO, guardOpt, hk]
  | cls h => simp [btO, guardOpt, h, hk]
  | cat _ _ iha ihb =>
    rw [btO, List.append_assoc]
    exact iha _ _ (ihb _ _ hk)
  | altL _ ih =>
    rw [btO]
    have := ih _ _ hk
    cases hb : btO _ (_ ++ b) k with
    | none => simp [hb] at this
    | some v => simp
  | altR _ ih =>
    rw [btO]
    have := ih _ _ hk
    cases hb : btO _ (_ ++ b) k <;> simp [this]
  | starNil =>
    rw [btO]
    simp only [List.nil_append]
    cases hb : btO _ b _ <;> simp [hk]
  | @starCons a s t _ _ ih1 ih2 =>
    cases s with
    | nil => simpa using ih2 _ _ hk
    | cons c cs =>
      rw [btO, List.append_assoc]
      have h1 := ih1 (t ++ b)
        (fun s' => if s'.length < (c :: cs ++ (t ++ b)).length then btO (.star a) s' k else none)
        (by
          have : (t ++ b).length < (c :: cs ++ (t ++ b)).length := by simp; omega
          simp only [this, if_true]
          exact ih2 _ _ hk)
      cases hb : btO a (c :: cs ++ (t ++ b)) _ with
      | none => rw [hb] at h1; simp at h1
      | some v => simp

theorem fullMatch_iff (r : Re) (s : Text) : fullMatch r s = true ↔ Matches r s := by
  constructor
  · intro h
    obtain ⟨a, b, rfl, ha, hb⟩ := bt_sound r s _ h
    have : b = [] := by simpa using hb
    simpa [this] using ha
  · intro h
    have := bt_complete h [] (fun rest => rest.isEmpty) rfl
    simpa [fullMatch] using this

theorem prefixMatch_iff (r : Re) (s : Text) :
    prefixMatch r s = true ↔ ∃ a b, s = a ++ b ∧ Matches r a := by
  constructor
  · intro h
    obtain ⟨a, b, e, ha, _⟩ := bt_sound r s _ h
    exact ⟨a, b, e, ha⟩
  · rintro ⟨a, b, rfl, ha⟩
    exact bt_complete ha b (fun _ => true) rfl

end Re
end Py
