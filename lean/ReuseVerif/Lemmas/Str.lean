import ReuseVerif.Lemmas.Lines
import ReuseVerif.Py.Str
namespace Py

theorem findSub_none_cons {pat : Text} {c : Char} {cs : Text}
    (h : findSub pat (c :: cs) = none) :
    pat.isPrefixOf (c :: cs) = false ∧ findSub pat cs = none := by
  simp only [findSub] at h
  split at h
  · cases h
  · rename_i hp
    refine ⟨Bool.eq_false_iff.mpr hp, ?_⟩
    cases hf : findSub pat cs with
    | none => rfl
    | some k => simp [hf] at h

theorem findSub_zero {pat s : Text} (h : findSub pat s = some 0) : pat.isPrefixOf s = true := by
  cases s with
  | nil =>
    simp only [findSub] at h
    split at h
    · rename_i hp; cases pat <;> simp_all
    · cases h
  | cons c cs =>
    simp only [findSub] at h
    split at h
    · assumption
    · cases hf : findSub pat cs <;> simp [hf] at h

theorem findSub_succ {pat : Text} {c : Char} {cs : Text} {i : Nat}
    (h : findSub pat (c :: cs) = some (i + 1)) :
    pat.isPrefixOf (c :: cs) = false ∧ findSub pat cs = some i := by
  simp only [findSub] at h
  split at h
  · cases h
  · rename_i hp
    refine ⟨Bool.eq_false_iff.mpr hp, ?_⟩
    cases hf : findSub pat cs with
    | none => simp [hf] at h
    | some k => simp [hf] at h; simp [h]

theorem findSub_prefix_zero {pat s : Text} (h : pat.isPrefixOf s = true) : findSub pat s = some 0 := by
  cases s with
  | nil => cases pat <;> simp_all [findSub]
  | cons c cs => simp [findSub, h]

/-- the occurrence found is an occurrence -/
theorem findSub_some_prefix {pat s : Text} {i : Nat} (h : findSub pat s = some i) :
    pat.isPrefixOf (s.drop i) = true := by
  induction i generalizing s with
  | zero => simpa using findSub_zero h
  | succ n ih =>
    cases s with
    | nil =>
      simp only [findSub] at h
      split at h <;> cases h
    | cons c cs => simpa using ih (findSub_succ h).2

/-- searching in a suffix that still contains the whole first occurrence -/
theorem findSub_drop {pat s : Text} {j m : Nat} (h : findSub pat s = some j) (hm : m ≤ j) :
    findSub pat (s.drop m) = some (j - m) := by
  induction m generalizing s j with
  | zero => simpa using h
  | succ n ih =>
    cases j with
    | zero => omega
    | succ j' =>
      cases s with
      | nil =>
        simp only [findSub] at h
        split at h <;> cases h
      | cons c cs =>
        have := ih (findSub_succ h).2 (by omega)
        simpa using this

/-- no occurrence before the one found -/
theorem findSub_first {pat s : Text} {i m : Nat} (h : findSub pat s = some i) (hm : m < i) :
    pat.isPrefixOf (s.drop m) = false := by
  induction m generalizing s i with
  | zero =>
    cases i with
    | zero => omega
    | succ i' =>
      cases s with
      | nil => simp only [findSub] at h; split at h <;> cases h
      | cons c cs => simpa using (findSub_succ h).1
  | succ n ih =>
    cases i with
    | zero => omega
    | succ i' =>
      cases s with
      | nil => simp only [findSub] at h; split at h <;> cases h
      | cons c cs => simpa using ih (findSub_succ h).2 (by omega)

theorem findSub_none_drop {pat s : Text} (h : findSub pat s = none) (m : Nat) :
    findSub pat (s.drop m) = none := by
  induction m generalizing s with
  | zero => simpa using h
  | succ n ih =>
    cases s with
    | nil => simpa using h
    | cons c cs => simpa using ih (findSub_none_cons h).2

end Py
