/-
C10: on the text a replacing run has written, `_find_first_spdx_comment` finds the written header block at its
place, provided nothing above it is a comment block with REUSE information.

Pieces:
* `lineStarts_split`: the candidate positions of `a ++ R` are: positions inside `a`, then `(a, R)`, then later ones
  (when `a` is empty or ends a line);
* `createHeader_block`: what `create_header` returns (template not pre-commented) *is* a block `create_comment`
  made from some text — `strip("\n")` removes nothing from it — and that text has no exotic line boundary when the
  header has none;
* `block_readback`: such a block is read back by `comment_at_first_character` (single-line: `ReadBack.lean`,
  multi-line: `C10MultiReadBack.lean`);
* `locator_finds`: the three together.
-/
import ReuseVerif.Lemmas.C10MultiReadBack
import ReuseVerif.Lemmas.Idem
import ReuseVerif.Lemmas.Header

namespace C10L
open Py Model Spec C08L
open Generated (Style)

/-! ### the candidate positions of `_find_first_spdx_comment` -/

/-- line starts strictly inside `s`, `acc` being the text read before -/
def starts (acc : Text) : Text → List (Text × Text)
  | [] => []
  | c :: cs => (if c == '\n' then [(acc ++ [c], cs)] else []) ++ starts (acc ++ [c]) cs

theorem go_eq (acc s : Text) (out : List (Text × Text)) :
    lineStartSuffixes.go acc s out = out.reverse ++ starts acc s := by
  induction s generalizing acc out with
  | nil => simp [lineStartSuffixes.go, starts]
  | cons c cs ih =>
    rw [lineStartSuffixes.go, starts]
    by_cases hc : (c == '\n') = true
    · simp only [hc, if_true]
      rw [ih]; simp
    · simp only [hc, Bool.false_eq_true, if_false]
      rw [ih]; simp

theorem lineStartSuffixes_eq (t : Text) : lineStartSuffixes t = ([], t) :: starts [] t := by
  unfold lineStartSuffixes
  rw [go_eq]; rfl

theorem starts_append (acc u v : Text) :
    starts acc (u ++ v) = (starts acc u).map (fun p => (p.1, p.2 ++ v)) ++ starts (acc ++ u) v := by
  induction u generalizing acc with
  | nil => simp [starts]
  | cons c cs ih =>
    simp only [List.cons_append, starts]
    rw [ih]
    by_cases hc : (c == '\n') = true
    · simp [hc]
    · simp [hc]

theorem starts_len (acc u : Text) : ∀ p ∈ starts acc u, p.1.length ≤ acc.length + u.length := by
  induction u generalizing acc with
  | nil => intro p hp; simp [starts] at hp
  | cons c cs ih =>
    intro p hp
    simp only [starts, List.mem_append] at hp
    rcases hp with hp | hp
    · by_cases hc : (c == '\n') = true
      · simp only [hc, if_true, List.mem_singleton] at hp
        subst hp
        simp
      · simp [hc] at hp
    · have := ih (acc ++ [c]) p hp
      simp only [List.length_append, List.length_cons, List.length_nil] at this ⊢
      omega

/-- the candidate positions of `a ++ R`: positions inside `a`, then `(a, R)`, then later positions -/
theorem lineStarts_split (a R : Text) (ha : a = [] ∨ ∃ a0, a = a0 ++ ['\n']) :
    ∃ pre post, lineStartSuffixes (a ++ R) = pre ++ (a, R) :: post ∧ ∀ p ∈ pre, p.1.length < a.length := by
  rcases ha with rfl | ⟨a0, rfl⟩
  · exact ⟨[], starts [] R, by rw [lineStartSuffixes_eq]; rfl, by simp⟩
  · refine ⟨([], a0 ++ ['\n'] ++ R) :: (starts [] a0).map (fun p => (p.1, p.2 ++ ('\n' :: R))), starts (a0 ++ ['\n']) R, ?_, ?_⟩
    · rw [lineStartSuffixes_eq]
      have : a0 ++ ['\n'] ++ R = a0 ++ ('\n' :: R) := by simp
      rw [this, starts_append]
      simp [starts]
    · intro p hp
      simp only [List.mem_cons, List.mem_map] at hp
      rcases hp with rfl | ⟨q, hq, rfl⟩
      · simp
      · have := starts_len [] a0 q hq
        simp only [List.length_nil, Nat.zero_add] at this
        simp only [List.length_append, List.length_cons, List.length_nil]
        omega

theorem findSome_split {α β} (f : α → Option β) (pre : List α) (x : α) (post : List α) (v : β)
    (hpre : ∀ p ∈ pre, f p = none) (hx : f x = some v) : (pre ++ x :: post).findSome? f = some v := by
  induction pre with
  | nil => simp [hx]
  | cons p ps ih =>
    simp only [List.cons_append, List.findSome?, hpre p (by simp)]
    exact ih (fun q hq => hpre q (by simp [hq]))

/-! ### `strip("\n")` removes nothing from a comment block -/

theorem dropWhile_head_id {l : Text} (h : l.head? ≠ some '\n') : l.dropWhile (fun ch => (['\n'] : Text).contains ch) = l := by
  cases l with
  | nil => rfl
  | cons c cs =>
    have hc : c ≠ '\n' := by intro h0; apply h; simp [h0]
    simp [List.dropWhile, hc]

theorem stripChars_lf_id {s : Text} (h1 : s.head? ≠ some '\n') (h2 : s.getLast? ≠ some '\n') :
    stripChars ['\n'] s = s := by
  unfold stripChars lstripChars rstripChars
  rw [dropWhile_head_id h1, dropWhile_head_id (by rw [List.head?_reverse]; exact h2)]
  simp

theorem join_concat (M0 : List Text) (m : Text) : ∃ Y, join ['\n'] (M0 ++ [m]) = Y ++ m := by
  induction M0 with
  | nil => exact ⟨[], by simp [join]⟩
  | cons x xs ih =>
    obtain ⟨Y, hY⟩ := ih
    refine ⟨x ++ '\n' :: Y, ?_⟩
    rw [List.cons_append, join_cons_ne _ _ (by simp), hY]
    simp

theorem mem_join {M : List Text} {m : Text} {ch : Char} (hm : m ∈ M) (hc : ch ∈ m) : ch ∈ join ['\n'] M := by
  induction M with
  | nil => cases hm
  | cons x xs ih =>
    cases xs with
    | nil =>
      simp only [List.mem_singleton] at hm
      subst hm
      simpa [join] using hc
    | cons y ys =>
      rw [join_cons_ne _ _ (by simp)]
      simp only [List.mem_cons] at hm
      rcases hm with rfl | hm
      · simp [hc]
      · have := ih (by simpa using hm)
        simp [this]

/-- a block whose first line starts with a character other than `\n` and whose last line is non-empty and free of
    `\n` is left alone by `strip("\n")` -/
theorem strip_block (M0 : List Text) (m tail : Text) (c0 : Char)
    (hfirst : join ['\n'] (M0 ++ [m]) = c0 :: tail) (hc0 : c0 ≠ '\n') (hm : m ≠ []) (hnl : '\n' ∉ m) :
    stripChars ['\n'] (join ['\n'] (M0 ++ [m])) = join ['\n'] (M0 ++ [m]) := by
  apply stripChars_lf_id
  · rw [hfirst]; simpa using hc0
  · obtain ⟨Y, hY⟩ := join_concat M0 m
    rw [hY, getLast?_append_ne _ hm]
    intro h
    exact hnl (List.mem_of_getLast? h)

/-! ### every character of the text is `\n` or stands in a piece of `text.split("\n")` -/

theorem splitOnFuel_lf_cover (f : Nat) (acc s : Text) (hf : s.length < f) :
    ∀ ch, (ch ∈ acc ∨ ch ∈ s) → ch ≠ '\n' → ∃ p ∈ splitOnFuel ['\n'] f acc s, ch ∈ p := by
  induction f generalizing acc s with
  | zero => omega
  | succ f ih =>
    cases s with
    | nil =>
      intro ch hch _
      refine ⟨acc.reverse, by simp [splitOnFuel], ?_⟩
      rcases hch with h | h
      · simpa using h
      · cases h
    | cons c cs =>
      rw [splitOnFuel]
      by_cases hc : c = '\n'
      · subst hc
        have hp : (['\n'] : Text).isPrefixOf ('\n' :: cs) = true := by simp [List.isPrefixOf]
        simp only [hp, List.isEmpty_cons, Bool.false_eq_true, not_false_eq_true, and_self, if_true]
        simp only [List.length_cons, List.length_nil, List.drop_succ_cons, List.drop_zero]
        intro ch hch hne
        rcases hch with h | h
        · exact ⟨acc.reverse, by simp, by simpa using h⟩
        · simp only [List.mem_cons] at h
          rcases h with h | h
          · exact absurd h hne
          · obtain ⟨p, hp1, hp2⟩ := ih [] cs (by simp at hf; simpa using hf) ch (Or.inr h) hne
            exact ⟨p, by simp [hp1], hp2⟩
      · have hp : (['\n'] : Text).isPrefixOf (c :: cs) = false := by
          simp [List.isPrefixOf]; exact fun h => hc h.symm
        simp only [hp, Bool.false_eq_true, false_and, if_false]
        intro ch hch hne
        apply ih (c :: acc) cs (by simp at hf; omega) ch _ hne
        rcases hch with h | h
        · left; simp [h]
        · simp only [List.mem_cons] at h
          rcases h with h | h
          · left; simp [h]
          · right; exact h

theorem splitOn_lf_cover (text : Text) (ch : Char) (h : ch ∈ text) (hne : ch ≠ '\n') :
    ∃ p ∈ splitOn ['\n'] text, ch ∈ p :=
  splitOnFuel_lf_cover (text.length + 1) [] text (by omega) ch (Or.inr h) hne

theorem splitOn_lf_noLF (text : Text) : splitOn ['\n'] text ≠ [] ∧ ∀ p ∈ splitOn ['\n'] text, '\n' ∉ p := by
  have := splitOnFuel_lf_spec (fun ch => ch ≠ '\n') (text.length + 1) [] text (by omega) (by simp) (fun ch _ h => h)
  exact ⟨this.1, fun p hp hmem => this.2 p hp '\n' hmem rfl⟩

theorem noBreak_noLF {t : Text} (h : NoBreak t) : '\n' ∉ t := fun hm => absurd (h '\n' hm) (by decide)

/-! ### the style conditions used -/

/-- the style conditions of both modes (decidable; `Theorems/C10.lean` decides them over the generated table) -/
def StyleOK (s : Style) : Prop :=
  s.isEmptyStyle = false ∧ (s.canSingle = true → SingleOK s) ∧ (s.canMulti = true → MultiOK s)

/-- the mode `create_comment` works in -/
def multiMode (s : Style) (forceMulti : Bool) : Bool := forceMulti || !s.canSingle

/-- a block of `create_comment`: made of lines, first character not `\n`, last line non-empty without `\n`,
    every character of the text that is not `\n` stands in it -/
theorem block_shape {s : Style} (hs : StyleOK s) (fm : Bool) (text blk : Text)
    (h : createComment s text fm = .ok blk) :
    stripChars ['\n'] blk = blk ∧ ∀ ch ∈ text, ch ≠ '\n' → ch ∈ blk := by
  obtain ⟨hes, hS, hM⟩ := hs
  obtain ⟨hLne, hLnl⟩ := splitOn_lf_noLF text
  have hcover := splitOn_lf_cover text
  unfold createComment at h
  simp only [hes, Bool.false_eq_true, if_false] at h
  by_cases hmode : (fm || !s.canSingle) = true
  · -- multi-line mode
    simp only [hmode, if_true] at h
    have hcm : s.canMulti = true := by
      cases hcm : s.canMulti with
      | true => rfl
      | false => simp [createMulti, hcm] at h
    obtain ⟨_, _, hnbS, hnbM, hnbE, hnbIBM, hnbIAM, hnbIBE, _, _, _⟩ := hM hcm
    obtain ⟨_, rfl⟩ := createMulti_eq hcm h
    generalize splitOn ['\n'] text = L at hLne hLnl hcover
    have hSne : s.mStart ≠ [] := by
      intro h0; simp [Generated.Style.canMulti, h0] at hcm
    have hEne : s.mEnd ≠ [] := by
      intro h0; simp [Generated.Style.canMulti, h0] at hcm
    constructor
    · obtain ⟨c0, tl, hst⟩ := List.exists_cons_of_ne_nil hSne
      have hc0 : c0 ≠ '\n' := by
        intro h0; subst h0
        exact noBreak_noLF hnbS (by rw [hst]; simp)
      have hassoc : [s.mStart] ++ L.map (midLine s) ++ [s.indentBeforeEnd ++ s.mEnd] =
          (s.mStart :: L.map (midLine s)) ++ [s.indentBeforeEnd ++ s.mEnd] := by simp
      rw [hassoc]
      apply strip_block _ _ (tl ++ '\n' :: join ['\n'] (L.map (midLine s) ++ [s.indentBeforeEnd ++ s.mEnd])) c0
      · rw [List.cons_append, join_cons_ne _ _ (by simp), hst]; simp
      · exact hc0
      · simp [hEne]
      · exact noBreak_noLF (noBreak_append hnbIBE hnbE)
    · intro ch hch hne
      obtain ⟨p, hp, hcp⟩ := hcover ch hch hne
      have hpne : p.isEmpty = false := by cases p <;> simp_all
      have : ch ∈ midLine s p := by
        unfold midLine
        simp [hpne, hcp]
      exact mem_join (m := midLine s p) (by simp; right; left; exact ⟨p, hp, rfl⟩) this
  · -- single-line mode
    simp only [hmode, Bool.false_eq_true, if_false] at h
    have hcs : s.canSingle = true := by
      cases hcs : s.canSingle with
      | true => rfl
      | false => simp [hcs] at hmode
    obtain ⟨_, _, hnbs, hnbi, _, _⟩ := hS hcs
    rw [createSingle_eq hcs] at h
    simp only [Except.ok.injEq] at h
    subst h
    generalize splitOn ['\n'] text = L at hLne hLnl hcover
    have hsne : s.single ≠ [] := by
      intro h0; simp [Generated.Style.canSingle, h0] at hcs
    constructor
    · obtain ⟨c0, tl, hst⟩ := List.exists_cons_of_ne_nil hsne
      have hc0 : c0 ≠ '\n' := by
        intro h0; subst h0
        exact noBreak_noLF hnbs (by rw [hst]; simp)
      have hL : L = L.dropLast ++ [L.getLast hLne] := (List.dropLast_concat_getLast hLne).symm
      have hlast : L.getLast hLne ∈ L := List.getLast_mem hLne
      generalize L.getLast hLne = l' at hL hlast
      generalize L.dropLast = L0 at hL
      subst hL
      rw [List.map_append, List.map_singleton]
      have hhead : ∃ tail, join ['\n'] (L0.map (singleLine s) ++ [singleLine s l']) = c0 :: tail := by
        cases L0 with
        | nil => exact ⟨tl ++ (if l'.isEmpty then [] else s.indentAfterSingle ++ l'), by simp [join, singleLine, hst]⟩
        | cons x xs =>
          refine ⟨tl ++ (if x.isEmpty then [] else s.indentAfterSingle ++ x) ++ '\n' ::
            join ['\n'] (xs.map (singleLine s) ++ [singleLine s l']), ?_⟩
          rw [List.map_cons, List.cons_append, join_cons_ne _ _ (by simp)]
          simp [singleLine, hst]
      obtain ⟨tail, hhead⟩ := hhead
      apply strip_block _ _ tail c0 hhead hc0
      · unfold singleLine; simp [hsne]
      · unfold singleLine
        intro hmem
        simp only [List.mem_append] at hmem
        rcases hmem with hmem | hmem
        · exact noBreak_noLF hnbs hmem
        · split at hmem
          · cases hmem
          · simp only [List.mem_append] at hmem
            rcases hmem with hmem | hmem
            · exact noBreak_noLF hnbi hmem
            · exact hLnl l' hlast hmem
    · intro ch hch hne
      obtain ⟨p, hp, hcp⟩ := hcover ch hch hne
      have hpne : p.isEmpty = false := by cases p <;> simp_all
      have : ch ∈ singleLine s p := by
        unfold singleLine
        simp [hpne, hcp]
      exact mem_join (m := singleLine s p) (List.mem_map.mpr ⟨p, hp, rfl⟩) this

/-! ### what `create_header` returns is a block of `create_comment` -/

theorem createHeader_new {c : HdrCfg} {info : Extracted} {old hdr : Text}
    (h : createHeader c info old = .ok hdr) : ∃ info', createNewHeader c info' = .ok hdr := by
  unfold createHeader at h
  by_cases he : old.isEmpty = true
  · simp only [he, if_true] at h
    exact ⟨_, h⟩
  · simp only [he, Bool.false_eq_true, if_false] at h
    by_cases hp : (extractRaw old).lic.all c.parses = true
    · simp only [hp, Bool.not_true, Bool.false_eq_true, if_false] at h
      exact ⟨_, h⟩
    · simp only [hp, Bool.not_false, if_true] at h
      cases h

theorem createHeader_block {c : HdrCfg} {info : Extracted} {old hdr : Text} (hs : StyleOK c.style)
    (hcom : c.commented = false) (h : createHeader c info old = .ok hdr) (hno : NoExoticBreaks hdr) :
    ∃ text, NoExoticBreaks text ∧ createComment c.style text c.forceMulti = .ok hdr := by
  obtain ⟨info', hnew⟩ := createHeader_new h
  have hr := (createNewHeader_ok hnew).1
  unfold renderedHeader at hr
  simp only [hcom, Bool.false_eq_true, if_false] at hr
  split at hr
  · rename_i blk hblk
    simp only [Except.ok.injEq] at hr
    obtain ⟨hstrip, hchars⟩ := block_shape hs _ _ _ hblk
    rw [hstrip] at hr
    subst hr
    refine ⟨_, ?_, hblk⟩
    intro ch hch hbr
    by_cases hne : ch = '\n'
    · exact hne
    · exact hno ch (hchars ch hch hne) hbr
  · cases hr

/-! ### the block is read back, in either mode -/

theorem block_readback {s : Style} (hs : StyleOK s) (fm : Bool) (text blk : Text) (hno : NoExoticBreaks text)
    (h : createComment s text fm = .ok blk) (rest : Text)
    (hrest : multiMode s fm = true ∨ rest = [] ∨ ∃ r, rest = '\n' :: r) :
    commentAtFirst s (blk ++ '\n' :: rest) = .ok blk := by
  obtain ⟨hes, hS, hM⟩ := hs
  unfold createComment at h
  simp only [hes, Bool.false_eq_true, if_false] at h
  by_cases hmode : (fm || !s.canSingle) = true
  · simp only [hmode, if_true] at h
    have hcm : s.canMulti = true := by
      cases hcm : s.canMulti with
      | true => rfl
      | false => simp [createMulti, hcm] at h
    exact multi_readback (hM hcm) text hno blk h rest
  · simp only [hmode, Bool.false_eq_true, if_false] at h
    have hcs : s.canSingle = true := by
      cases hcs : s.canSingle with
      | true => rfl
      | false => simp [hcs] at hmode
    rcases hrest with hr | hr
    · exact absurd hr (by simpa [multiMode] using hmode)
    · exact single_readback (hS hcs) text hno blk h rest hr

/-! ### the locator finds the written header -/

theorem aboveOf_shape (x : Text) : aboveOf x = [] ∨ ∃ a0, aboveOf x = a0 ++ ['\n'] := by
  unfold aboveOf
  split
  · left; rfl
  · right; exact ⟨rstrip x ++ ['\n'], by simp⟩

/-- **The locator finds the header the tool wrote.**  `a` is empty or ends a line (what `place_header` puts above),
    `hdr` is what `create_header` returned with a template that is not pre-commented and has no exotic line
    boundary, `b` is anything in multi-line mode and empty or starting with a line end in single-line mode; the
    header carries REUSE information and nothing above it is a comment block with REUSE information.  Then
    `_find_first_spdx_comment` on `a ++ hdr ++ "\n" ++ b` returns exactly `(a, hdr ++ "\n", b)`. -/
theorem locator_finds {c : HdrCfg} {info : Extracted} {old a hdr b : Text} (hs : StyleOK c.style)
    (hcom : c.commented = false) (hcreate : createHeader c info old = .ok hdr) (hno : NoExoticBreaks hdr)
    (ha : a = [] ∨ ∃ a0, a = a0 ++ ['\n'])
    (hb : multiMode c.style c.forceMulti = true ∨ b = [] ∨ ∃ r, b = '\n' :: r)
    (hinfo : containsReuseInfo c.parses hdr = true)
    (habove : nothingAbove c a (hdr ++ '\n' :: b) = true) :
    findFirstSpdxComment c (a ++ hdr ++ ['\n'] ++ b) = some (a, hdr ++ ['\n'], b) := by
  obtain ⟨text, hnot, hblk⟩ := createHeader_block hs hcom hcreate hno
  have hrb := block_readback hs c.forceMulti text hdr hnot hblk b hb
  have htext : a ++ hdr ++ ['\n'] ++ b = a ++ (hdr ++ '\n' :: b) := by simp
  rw [htext]
  obtain ⟨pre, post, hsplit, hpre⟩ := lineStarts_split a (hdr ++ '\n' :: b) ha
  unfold findFirstSpdxComment
  rw [hsplit]
  apply findSome_split
  · intro p hp
    unfold nothingAbove at habove
    rw [hsplit, List.all_eq_true] at habove
    have h1 := habove p (by simp [hp])
    have h2 : decide (a.length ≤ p.1.length) = false := by
      have := hpre p hp
      simp only [decide_eq_false_iff_not]; omega
    simp only [h2, Bool.false_or] at h1
    obtain ⟨p1, p2⟩ := p
    simp only [] at h1 ⊢
    cases hc : commentAtFirst c.style p2 with
    | error e => rfl
    | ok cm =>
      simp only [hc, Bool.not_eq_true'] at h1
      simp [h1]
  · simp only [hrb, hinfo, if_true]
    have : List.drop (hdr.length + 1) (hdr ++ '\n' :: b) = b := by
      have : hdr ++ '\n' :: b = (hdr ++ ['\n']) ++ b := by simp
      rw [this, List.drop_left' (by simp)]
    rw [this]

/-! ### the written header is not taken for a first-line declaration (shebang) -/

/-- the first-line marker `sb` cannot begin a comment block of the style (decidable) -/
def ShebangFree (s : Style) (sb : Text) : Prop :=
  NoBreak sb ∧
  (s.canSingle = true → startsWith s.single sb = false ∧ startsWith (s.single ++ s.indentAfterSingle) sb = false ∧
    startsWith sb (s.single ++ s.indentAfterSingle) = false) ∧
  (s.canMulti = true → startsWith s.mStart sb = false)

instance (s : Style) (sb : Text) : Decidable (ShebangFree s sb) := by
  unfold ShebangFree
  exact inferInstance

/-- a first line of `_create_comment_single` does not start with a break-free pattern that neither is a prefix of
    nor extends `marker + indentation` (the argument of `no_multi_open`, for any pattern) -/
theorem no_prefix_open {s : Style} (p : Text) (hnb : NoBreak p) (h1 : startsWith s.single p = false)
    (h2 : startsWith (s.single ++ s.indentAfterSingle) p = false)
    (h3 : startsWith p (s.single ++ s.indentAfterSingle) = false) (l tail : Text) :
    startsWith (singleLine s l ++ '\n' :: tail) p = false := by
  cases hsw : startsWith (singleLine s l ++ '\n' :: tail) p with
  | false => rfl
  | true =>
    exfalso
    have hp : p <+: singleLine s l ++ '\n' :: tail := List.isPrefixOf_iff_prefix.mp hsw
    have hp2 := prefix_break_free hp (noBreak_noLF hnb)
    unfold singleLine at hp2
    by_cases hl : l.isEmpty = true
    · simp only [hl, if_true, List.append_nil] at hp2
      have := List.isPrefixOf_iff_prefix.mpr hp2
      simp only [startsWith] at h1
      rw [h1] at this; cases this
    · simp only [hl, Bool.false_eq_true, if_false] at hp2
      rw [← List.append_assoc] at hp2
      rcases Nat.le_total p.length (s.single ++ s.indentAfterSingle).length with hle | hle
      · have := List.prefix_of_prefix_length_le hp2 (List.prefix_append _ l) hle
        have := List.isPrefixOf_iff_prefix.mpr this
        simp only [startsWith] at h2
        rw [h2] at this; cases this
      · have := List.prefix_of_prefix_length_le (List.prefix_append _ l) hp2 hle
        have := List.isPrefixOf_iff_prefix.mpr this
        simp only [startsWith] at h3
        rw [h3] at this; cases this

theorem startsWith_append_mono {t x p : Text} (h : startsWith t p = true) : startsWith (t ++ x) p = true := by
  obtain ⟨u, hu⟩ := List.isPrefixOf_iff_prefix.mp h
  exact List.isPrefixOf_iff_prefix.mpr ⟨u ++ x, by rw [← hu]; simp⟩

/-- a block of `create_comment` does not start with a marker that is `ShebangFree` for the style -/
theorem block_no_shebang {s : Style} (hs : StyleOK s) (fm : Bool) (text blk : Text)
    (h : createComment s text fm = .ok blk) (sb : Text) (hf : ShebangFree s sb) : startsWith blk sb = false := by
  obtain ⟨hes, hS, hM⟩ := hs
  obtain ⟨hnb, hfS, hfM⟩ := hf
  suffices hsuf : startsWith (blk ++ ['\n']) sb = false by
    cases hb : startsWith blk sb with
    | false => rfl
    | true => rw [startsWith_append_mono hb] at hsuf; cases hsuf
  unfold createComment at h
  simp only [hes, Bool.false_eq_true, if_false] at h
  by_cases hmode : (fm || !s.canSingle) = true
  · simp only [hmode, if_true] at h
    have hcm : s.canMulti = true := by
      cases hcm : s.canMulti with
      | true => rfl
      | false => simp [createMulti, hcm] at h
    obtain ⟨_, rfl⟩ := createMulti_eq hcm h
    cases hsw : startsWith (join ['\n'] ([s.mStart] ++ (splitOn ['\n'] text).map (midLine s) ++ [s.indentBeforeEnd ++ s.mEnd]) ++ ['\n']) sb with
    | false => rfl
    | true =>
      exfalso
      have hassoc : [s.mStart] ++ (splitOn ['\n'] text).map (midLine s) ++ [s.indentBeforeEnd ++ s.mEnd] =
          s.mStart :: ((splitOn ['\n'] text).map (midLine s) ++ [s.indentBeforeEnd ++ s.mEnd]) := by simp
      rw [hassoc, join_cons_ne _ _ (by simp), List.append_assoc] at hsw
      have hp := prefix_break_free (List.isPrefixOf_iff_prefix.mp hsw) (noBreak_noLF hnb)
      have := List.isPrefixOf_iff_prefix.mpr hp
      have h0 := hfM hcm
      simp only [startsWith] at h0
      rw [h0] at this; cases this
  · simp only [hmode, Bool.false_eq_true, if_false] at h
    have hcs : s.canSingle = true := by
      cases hcs : s.canSingle with
      | true => rfl
      | false => simp [hcs] at hmode
    obtain ⟨h1, h2, h3⟩ := hfS hcs
    rw [createSingle_eq hcs] at h
    simp only [Except.ok.injEq] at h
    subst h
    obtain ⟨hLne, _⟩ := splitOn_lf_noLF text
    generalize splitOn ['\n'] text = L at hLne
    cases L with
    | nil => exact absurd rfl hLne
    | cons l ls =>
      cases ls with
      | nil => simpa [join] using no_prefix_open sb hnb h1 h2 h3 l []
      | cons l2 ls2 =>
        rw [List.map_cons, join_cons_ne _ _ (by simp), List.append_assoc]
        exact no_prefix_open sb hnb h1 h2 h3 l _

/-- … so neither does what `create_header` returns -/
theorem header_no_shebang {c : HdrCfg} {info : Extracted} {old hdr : Text} (hs : StyleOK c.style)
    (hcom : c.commented = false) (h : createHeader c info old = .ok hdr) (hno : NoExoticBreaks hdr)
    (sb : Text) (hf : ShebangFree c.style sb) : startsWith hdr sb = false := by
  obtain ⟨text, _, hblk⟩ := createHeader_block hs hcom h hno
  exact block_no_shebang hs _ _ _ hblk sb hf

/-- a break-free marker begins `hdr ++ "\n"` only if it begins `hdr` -/
theorem startsWith_lf_iff {hdr sb : Text} (hnb : NoBreak sb) (h : startsWith hdr sb = false) :
    startsWith (hdr ++ ['\n']) sb = false := by
  cases hsw : startsWith (hdr ++ ['\n']) sb with
  | false => rfl
  | true =>
    have hp := prefix_break_free (List.isPrefixOf_iff_prefix.mp hsw) (noBreak_noLF hnb)
    have := List.isPrefixOf_iff_prefix.mpr hp
    simp only [startsWith] at h
    rw [h] at this; cases this

theorem belowOf_fresh_shape (y : Text) : belowOf y false = [] ∨ ∃ r, belowOf y false = '\n' :: r := by
  unfold belowOf
  split
  · left; rfl
  · right
    by_cases hst : startsWith y ['\n'] = true
    · obtain ⟨u, hu⟩ := List.isPrefixOf_iff_prefix.mp hst
      subst hu
      have hst' : startsWith ('\n' :: u) ['\n'] = true := hst
      exact ⟨u, by simp [hst']⟩
    · exact ⟨y, by simp [hst]⟩

end C10L
