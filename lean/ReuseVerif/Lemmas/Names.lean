import ReuseVerif.Lemmas.ReInv
import ReuseVerif.Spec.Names

namespace Model
open Py Py.Re Spec

/-- `.*<literal>$` on a name without newline: the literal is a suffix. -/
theorem matches_suffix {t n : Text} (hn : '\n' ∉ n) :
    Matches (seq [.star dot, lit t]) n ↔ t <:+ n := by
  rw [matches_seq_cons]
  constructor
  · rintro ⟨a, b, rfl, _, hb⟩
    rw [matches_seq_cons] at hb
    obtain ⟨c, d, rfl, hc, hd⟩ := hb
    rw [matches_lit] at hc; rw [matches_seq_nil] at hd; subst hc hd
    exact ⟨a, by simp⟩
  · rintro ⟨a, rfl⟩
    refine ⟨a, t, rfl, matches_star_dot.mpr (fun h => hn (by simp [h])), ?_⟩
    rw [matches_seq_cons]
    exact ⟨t, [], by simp, matches_lit.mpr rfl, matches_seq_nil.mpr rfl⟩

/-- `([-\.].*)?` after a fixed base name -/
theorem matches_dashdot_tail {s : Text} (hs : '\n' ∉ s) :
    Matches (opt (seq [.cls false [('-', '-'), ('.', '.')], .star dot])) s ↔
      s = [] ∨ ∃ d rest, (d = '-' ∨ d = '.') ∧ s = d :: rest := by
  rw [matches_opt, matches_seq_cons]
  constructor
  · rintro (⟨a, b, rfl, ha, _⟩ | h)
    · rw [matches_cls1] at ha
      obtain ⟨c, rfl, hc⟩ := ha
      right
      refine ⟨c, b, ?_, rfl⟩
      simp only [clsMatch, inRanges, List.any_cons, List.any_nil, Bool.or_false, Bool.false_eq_true,
        if_false, Bool.or_eq_true, decide_eq_true_eq] at hc
      rcases hc with ⟨h1, h2⟩ | ⟨h1, h2⟩
      · exact .inl (Char.le_antisymm h2 h1)
      · exact .inr (Char.le_antisymm h2 h1)
    · exact .inl h
  · rintro (rfl | ⟨d, rest, hd, rfl⟩)
    · exact .inr rfl
    · left
      refine ⟨[d], rest, rfl, matches_cls1.mpr ⟨d, rfl, ?_⟩, ?_⟩
      · rcases hd with rfl | rfl <;> decide
      · rw [matches_seq_cons]
        exact ⟨rest, [], by simp, matches_star_dot.mpr (fun h => hs (by simp [h])), matches_seq_nil.mpr rfl⟩

theorem matches_licence {n : Text} (hn : '\n' ∉ n) :
    Matches (seq [lit "LICEN".toList, .cls false [('C', 'C'), ('S', 'S')], lit "E".toList,
      opt (seq [.cls false [('-', '-'), ('.', '.')], .star dot])]) n ↔
    ∃ b, (b = "LICENSE".toList ∨ b = "LICENCE".toList) ∧
      (n = b ∨ ∃ d rest, (d = '-' ∨ d = '.') ∧ n = b ++ d :: rest) := by
  simp only [matches_seq_cons, matches_lit, matches_cls1, matches_seq_nil]
  constructor
  · rintro ⟨_, t1, rfl, rfl, _, t2, rfl, ⟨c, rfl, hc⟩, _, t3, rfl, rfl, tail, _, rfl, htail, rfl⟩
    have hs : '\n' ∉ tail := fun h => hn (by simp [h])
    rw [matches_dashdot_tail hs] at htail
    simp only [clsMatch, inRanges, List.any_cons, List.any_nil, Bool.or_false, Bool.false_eq_true,
      if_false, Bool.or_eq_true, decide_eq_true_eq] at hc
    have hc' : c = 'C' ∨ c = 'S' := by
      rcases hc with ⟨h1, h2⟩ | ⟨h1, h2⟩
      · exact .inl (Char.le_antisymm h2 h1)
      · exact .inr (Char.le_antisymm h2 h1)
    rcases hc' with rfl | rfl
    · refine ⟨"LICENCE".toList, .inr rfl, ?_⟩
      rcases htail with rfl | ⟨d, rest, hd, rfl⟩
      · left; rfl
      · right; exact ⟨d, rest, hd, by simp⟩
    · refine ⟨"LICENSE".toList, .inl rfl, ?_⟩
      rcases htail with rfl | ⟨d, rest, hd, rfl⟩
      · left; rfl
      · right; exact ⟨d, rest, hd, by simp⟩
  · rintro ⟨b, hb, hnb⟩
    have key : ∀ (c : Char) (tail : Text), (c = 'C' ∨ c = 'S') → '\n' ∉ tail →
        (tail = [] ∨ ∃ d rest, (d = '-' ∨ d = '.') ∧ tail = d :: rest) →
        ∃ a b', "LICEN".toList ++ c :: 'E' :: tail = a ++ b' ∧ a = "LICEN".toList ∧
          ∃ a2 b2, b' = a2 ++ b2 ∧ (∃ c', a2 = [c'] ∧ clsMatch false [('C', 'C'), ('S', 'S')] c' = true) ∧
            ∃ a3 b3, b2 = a3 ++ b3 ∧ a3 = "E".toList ∧
              ∃ a4 b4, b3 = a4 ++ b4 ∧
                Matches (opt (seq [.cls false [('-', '-'), ('.', '.')], .star dot])) a4 ∧ b4 = [] := by
      intro c tail hc hs ht
      refine ⟨_, c :: 'E' :: tail, rfl, rfl, [c], 'E' :: tail, rfl, ⟨c, rfl, ?_⟩, ['E'], tail, rfl, rfl,
        tail, [], by simp, (matches_dashdot_tail hs).mpr ht, rfl⟩
      rcases hc with rfl | rfl <;> decide
    rcases hb with rfl | rfl
    · rcases hnb with rfl | ⟨d, rest, hd, rfl⟩
      · exact key 'S' [] (.inr rfl) (by simp) (.inl rfl)
      · exact key 'S' (d :: rest) (.inr rfl) (fun h => hn (by simp at h ⊢; simp [h])) (.inr ⟨d, rest, hd, rfl⟩)
    · rcases hnb with rfl | ⟨d, rest, hd, rfl⟩
      · exact key 'C' [] (.inl rfl) (by simp) (.inl rfl)
      · exact key 'C' (d :: rest) (.inl rfl) (fun h => hn (by simp at h ⊢; simp [h])) (.inr ⟨d, rest, hd, rfl⟩)

theorem matches_copying {n : Text} (hn : '\n' ∉ n) :
    Matches (seq [lit "COPYING".toList, opt (seq [.cls false [('-', '-'), ('.', '.')], .star dot])]) n ↔
      (n = "COPYING".toList ∨ ∃ d rest, (d = '-' ∨ d = '.') ∧ n = "COPYING".toList ++ d :: rest) := by
  simp only [matches_seq_cons, matches_lit, matches_seq_nil]
  constructor
  · rintro ⟨_, t1, rfl, rfl, tail, _, rfl, htail, rfl⟩
    have hs : '\n' ∉ tail := fun h => hn (by simp [h])
    rw [matches_dashdot_tail hs] at htail
    rcases htail with rfl | ⟨d, rest, hd, rfl⟩
    · left; rfl
    · right; exact ⟨d, rest, hd, by simp⟩
  · rintro (rfl | ⟨d, rest, hd, rfl⟩)
    · exact ⟨_, [], rfl, rfl, [], [], rfl, (matches_dashdot_tail (by simp)).mpr (.inl rfl), rfl⟩
    · refine ⟨_, d :: rest, rfl, rfl, d :: rest, [], by simp, ?_, rfl⟩
      exact (matches_dashdot_tail (fun h => hn (by simp at h ⊢; simp [h]))).mpr (.inr ⟨d, rest, hd, rfl⟩)

end Model
