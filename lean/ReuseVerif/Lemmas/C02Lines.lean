/-
C02 (general form) — the tag reader on a text of arbitrary lines.

* `endStops` — the per-text hypothesis `Spec.endStopsAt` of `C02_tag_lines` follows from the structure of the
  END expression (`Spec.EndGuarded`, decided once for the generated expression: `C09_end_guarded`) and a condition
  on the trail alone (`openEnd trail = false`): END, started after the value, stops at the end of its own line
  whatever follows.
* `step_tag` / `step_free` — one step of `findall` at a tag line / at a line without `TAG[ \t]`, in any context.
* `findAll_text` — any number of tag lines with arbitrary tag-free lines between them: the values, in order.
* `found_anywhere` — a tag line after *any* text (tags, unclosed quotes, …) and before any text is found
  (`C07A.scan_reaches`: the scan cannot jump over a line holding a character END cannot consume).
-/
import ReuseVerif.Spec.TagsGeneral
import ReuseVerif.Lemmas.C09TagsLocal
import ReuseVerif.Lemmas.C07Scan

namespace C02L
open Py Model Spec C07A C09L

/-! ### small facts -/

theorem noNewline_blanks {b : Text} (h : b.all isBlank = true) : noNewline b = true := by
  simp only [noNewline, List.all_eq_true] at h ⊢
  intro c hc
  have := h c hc
  simp only [isBlank, Bool.or_eq_true, beq_iff_eq] at this
  rcases this with rfl | rfl <;> decide

/-- what `WFShape` says, piece by piece -/
theorem wfShape_parts {tag pre blanks w trail le : Text} (h : WFShape tag pre blanks w trail le = true) :
    noNewline pre = true ∧ noEarlierTag tag pre (tag ++ blanks ++ w ++ trail ++ le) = true ∧
    blanks.isEmpty = false ∧ blanks.all isBlank = true ∧
    (w.head?.map (fun c => !isBlank c)).getD false = true ∧ noNewline w = true ∧
    noNewline trail = true ∧ isLineEnd le = true := by
  unfold WFShape at h
  simp only [Bool.and_eq_true, Bool.not_eq_true'] at h
  obtain ⟨⟨⟨⟨⟨⟨⟨h1, h2⟩, h3⟩, h4⟩, h5⟩, h6⟩, h7⟩, h8⟩ := h
  exact ⟨h1, h2, h3, h4, h5, h6, h7, h8⟩

/-- END accepts a trail without line feed: it matches all of it -/
theorem matchEnd_trail {endRe : Re} {trail : Text} (hnl : noNewline trail = true) (h : endOk endRe trail = true) :
    matchEndWith endRe trail = some [] ∧ Re.Matches endRe trail := by
  unfold endOk at h
  obtain ⟨r, hr⟩ := Option.isSome_iff_exists.mp h
  obtain ⟨a, hs, ha, hle⟩ := Model.matchEnd_sound hr
  have hr0 : r = [] := by
    cases r with
    | nil => rfl
    | cons y ys =>
      exfalso
      have hy : y = '\n' := by simpa [atLineEnd] using hle
      apply Model.noNewline_mem hnl
      rw [hs, hy]; simp
  subst hr0
  simp only [List.append_nil] at hs
  subst hs
  exact ⟨hr, ha⟩

/-- **END stops at the end of its own line.**  For an END expression that reads a line feed only behind `"`, `'`
    or `]` and white space (`EndGuarded`), after a trail it accepts that does not end — white space aside — with
    one of these: whatever follows the line, END ends where the line ends. -/
theorem endStops {endRe : Re} (hG : EndGuarded endRe) (trail X : Text) (hnl : noNewline trail = true)
    (hok : endOk endRe trail = true) (hopen : openEnd trail = false) (hX : EndsLine X) :
    matchEndWith endRe (trail ++ X) = some X := by
  rw [matchEnd_local hG trail X hopen (atLineEnd_of_endsLine hX), (matchEnd_trail hnl hok).1]
  rfl

/-- the old per-text hypothesis, derived -/
theorem endStopsAt_of_guarded {endRe : Re} (hG : EndGuarded endRe) (trail rest : Text) (hnl : noNewline trail = true)
    (hok : endOk endRe trail = true) (hopen : openEnd trail = false) : endStopsAt endRe trail rest = true := by
  unfold endStopsAt
  rw [endStops hG trail ('\n' :: rest) hnl hok hopen (.inr ⟨rest, rfl⟩)]
  simp

/-! ### the line of a tag-line description -/

theorem line_assoc (tag : Text) (s : TagLineSpec) :
    s.line tag = s.pre ++ (tag ++ (s.blanks ++ (s.v ++ s.trail))) := by
  simp [TagLineSpec.line, List.append_assoc]

theorem line_noNewline (tag : Text) (hnl : '\n' ∉ tag) (s : TagLineSpec)
    (h : WFShape tag s.pre s.blanks s.v s.trail [] = true) : noNewline (s.line tag) = true := by
  obtain ⟨h1, _, _, h4, _, h6, h7, _⟩ := wfShape_parts h
  unfold TagLineSpec.line
  exact noNewline_append (noNewline_append (noNewline_append (noNewline_append h1 (Model.noNewline_of_not_mem hnl))
    (noNewline_blanks h4)) h6) h7

/-- `^(.*?)TAG[ \t]` on the line alone -/
theorem findTag_line (tag : Text) (s : TagLineSpec) (h : WFShape tag s.pre s.blanks s.v s.trail [] = true) :
    findTagInLine tag (s.line tag) = some (s.pre, s.blanks ++ (s.v ++ s.trail)) := by
  obtain ⟨h1, h2, h3, h4, _, _, _, _⟩ := wfShape_parts h
  have hrest : tag ++ s.blanks ++ s.v ++ s.trail ++ [] = tag ++ (s.blanks ++ (s.v ++ s.trail)) := by
    simp [List.append_assoc]
  rw [hrest] at h2
  rw [line_assoc, Model.findTagInLine_hit tag s.pre _ h1 h2 (Model.tagHere_intro tag s.blanks _ h3 h4)]
  simp only [List.drop_left]

/-! ### one step of `findall` -/

/-- at a tag line whose value is protected and whose trail END accepts, in any context: the first match is
    `(pre, v)`; where the match ends is `r` -/
theorem step_tag_any (endRe : Re) (tag : Text) (hnl : '\n' ∉ tag) (s : TagLineSpec)
    (hshape : WFShape tag s.pre s.blanks s.v s.trail [] = true)
    (X r : Text) (hsuf : noEndSuffixBefore endRe s.v (s.trail ++ X) = true)
    (hX : EndsLine X) (hm : matchEndWith endRe (s.trail ++ X) = some r) (F : Nat) :
    findAllWith endRe tag (F + 1) (s.line tag ++ X) = (s.pre, s.v) :: findAllWith endRe tag F (r.drop 1) := by
  obtain ⟨_, _, h3, h4, h5, h6, _, _⟩ := wfShape_parts hshape
  have hne : s.line tag ++ X ≠ [] := by
    rw [line_assoc]
    cases hb : s.blanks with
    | nil => rw [hb] at h3; cases h3
    | cons b bs => simp
  rw [Model.findAllWith_step _ _ _ _ hne, findTagInLine_ends tag _ X hnl (line_noNewline tag hnl s hshape) hX,
    findTag_line tag s hshape]
  simp only [Option.map_some]
  have hwh : ((s.v ++ (s.trail ++ X)).head?.map (fun c => !isBlank c)).getD true = true := by
    cases hv : s.v with
    | nil => rw [hv] at h5; cases h5
    | cons c cs => rw [hv] at h5; simpa using h5
  have hdrop : (s.blanks ++ (s.v ++ s.trail) ++ X).dropWhile isBlank = s.v ++ (s.trail ++ X) := by
    have := Model.dropWhile_blanks s.blanks (s.v ++ (s.trail ++ X)) h4 hwh
    simpa [List.append_assoc] using this
  rw [hdrop, Model.valueAndRest_exact endRe s.v (s.trail ++ X) r h6 hsuf hm]

/-- the line-local protection of the captured text transfers to any context: no tail of `w`, read with the trail
    of the line and whatever follows the line, is taken for terminators -/
theorem noEndSuffix_local {endRe : Re} (hG : EndGuarded endRe) (w trail X : Text) (hX : EndsLine X)
    (hno : noEndSuffixBefore endRe w trail = true) (hopen : openEnd (w ++ trail) = false) :
    noEndSuffixBefore endRe w (trail ++ X) = true := by
  induction w with
  | nil => rfl
  | cons c cs ih =>
    simp only [noEndSuffixBefore, Bool.and_eq_true, Bool.not_eq_true'] at hno ⊢
    have hcs : openEnd (cs ++ trail) = false := openEnd_suffix (List.suffix_cons c (cs ++ trail)) hopen
    refine ⟨?_, ih hno.2 hcs⟩
    have h1 := hno.1
    unfold endOk at h1 ⊢
    have e : c :: cs ++ (trail ++ X) = (c :: cs ++ trail) ++ X := by simp
    rw [e, matchEnd_local hG (c :: cs ++ trail) X hopen (atLineEnd_of_endsLine hX)]
    cases hm : matchEndWith endRe (c :: cs ++ trail) with
    | none => rfl
    | some r => rw [hm] at h1; cases h1

theorem valueSafe_any {endRe : Re} (hG : EndGuarded endRe) (w trail X : Text) (hX : EndsLine X) (hnl : noNewline w = true)
    (h : valueSafeIn endRe w trail = true) : noEndSuffixBefore endRe w (trail ++ X) = true := by
  unfold valueSafeIn at h
  simp only [Bool.or_eq_true, Bool.and_eq_true, Bool.not_eq_true'] at h
  rcases h with h | ⟨h1, h2⟩
  · exact noEndSuffix_of_tailSafe endRe w _ hnl h
  · exact noEndSuffix_local hG w trail X hX h1 h2

/-- **One step at a tag line**, in any context (`X` empty or a line feed and the rest of the text): the match is
    `(pre, v)` — `v` what the expression captures — and `findall` resumes at the next line. -/
theorem step_tag_raw {endRe : Re} (hG : EndGuarded endRe) (tag : Text) (hnl : '\n' ∉ tag) (s : TagLineSpec)
    (hok : tagLineRaw endRe tag s = true) (X : Text) (hX : EndsLine X) (F : Nat) :
    findAllWith endRe tag (F + 1) (s.line tag ++ X) = (s.pre, s.v) :: findAllWith endRe tag F (X.drop 1) := by
  unfold tagLineRaw at hok
  simp only [Bool.and_eq_true, Bool.not_eq_true'] at hok
  obtain ⟨⟨⟨hshape, hend⟩, hopen⟩, hsafe⟩ := hok
  have htr := (wfShape_parts hshape).2.2.2.2.2.2.1
  have hvnl := (wfShape_parts hshape).2.2.2.2.2.1
  exact step_tag_any endRe tag hnl s hshape X X (valueSafe_any hG s.v s.trail X hX hvnl hsafe) hX
    (endStops hG s.trail X htr hend hopen hX) F

theorem tagLineRaw_of_ok {endRe : Re} {tag : Text} {s : TagLineSpec} (h : tagLineOK endRe tag s = true) :
    tagLineRaw endRe tag s = true := by
  unfold tagLineOK at h
  simp only [Bool.and_eq_true] at h
  unfold tagLineRaw
  simp only [Bool.and_eq_true]
  exact h.1.1

theorem step_tag {endRe : Re} (hG : EndGuarded endRe) (tag : Text) (hnl : '\n' ∉ tag) (s : TagLineSpec)
    (hok : tagLineOK endRe tag s = true) (X : Text) (hX : EndsLine X) (F : Nat) :
    findAllWith endRe tag (F + 1) (s.line tag ++ X) = (s.pre, s.v) :: findAllWith endRe tag F (X.drop 1) :=
  step_tag_raw hG tag hnl s (tagLineRaw_of_ok hok) X hX F

theorem findTag_free (tag l : Text) (hnl : '\n' ∉ tag) (h : tagFreeLine tag l = true) : findTagInLine tag l = none := by
  unfold tagFreeLine at h
  simp only [Bool.and_eq_true] at h
  have h1 := Model.findTagInLine_none tag l [] hnl h.1 h.2
  rw [findTagInLine_ctx tag l [] hnl h.1] at h1
  cases hf : findTagInLine tag l with
  | none => rfl
  | some pa => rw [hf] at h1; cases h1

/-- **One step at a line without `TAG[ \t]`**, in any context: nothing is found in it. -/
theorem step_free (endRe : Re) (tag : Text) (hnl : '\n' ∉ tag) (l : Text) (h : tagFreeLine tag l = true)
    (X : Text) (hX : EndsLine X) (F : Nat) :
    findAllWith endRe tag (F + 1) (l ++ X) = findAllWith endRe tag F (X.drop 1) := by
  have hl : noNewline l = true := by
    unfold tagFreeLine at h; simp only [Bool.and_eq_true] at h; exact h.1
  by_cases hne : l ++ X = []
  · simp only [List.append_eq_nil_iff] at hne
    rw [hne.1, hne.2]; simp [Model.findAllWith_nil]
  · rw [Model.findAllWith_step _ _ _ _ hne, findTagInLine_ends tag l X hnl hl hX, findTag_free tag l hnl h]
    simp only [Option.map_none]
    rw [nextLine_ends l X hl hX]

/-! ### a text of lines -/

def TextLine.pair : TextLine → Option (Text × Text)
  | .free _ => none
  | .tagged s => some (s.pre, s.v)
  | .framed s ws => some (s.pre, s.v ++ ws ++ mirror s.pre)

theorem step_line {endRe : Re} (hG : EndGuarded endRe) (tag : Text) (hnl : '\n' ∉ tag) (l : TextLine)
    (hok : l.ok endRe tag = true) (X : Text) (hX : EndsLine X) (F : Nat) :
    findAllWith endRe tag (F + 1) (l.text tag ++ X) =
      (TextLine.pair l).toList ++ findAllWith endRe tag F (X.drop 1) := by
  cases l with
  | free t => exact step_free endRe tag hnl t hok X hX F
  | tagged s => exact step_tag hG tag hnl s hok X hX F
  | framed s ws =>
    have hok' : tagLineFramedOK endRe tag s ws = true := hok
    unfold tagLineFramedOK at hok'
    simp only [Bool.and_eq_true] at hok'
    exact step_tag_raw hG tag hnl (s.framed ws) hok'.1.1.1.1 X hX F

/-- **`findall` on a text of lines**: tag lines (each satisfying the line-local hypotheses) and lines without
    `TAG[ \t]` in any order — the matches are those of the tag lines, in order. -/
theorem findAll_text {endRe : Re} (hG : EndGuarded endRe) (tag : Text) (hnl : '\n' ∉ tag)
    (ls : List TextLine) (hok : ∀ l ∈ ls, l.ok endRe tag = true) (fuel : Nat) (hf : ls.length ≤ fuel) :
    findAllWith endRe tag fuel (textOf tag ls) = ls.filterMap TextLine.pair := by
  unfold textOf
  induction ls generalizing fuel with
  | nil => simp [join, Model.findAllWith_nil]
  | cons l ls ih =>
    cases fuel with
    | zero => simp at hf
    | succ f =>
      have hl := hok l (by simp)
      cases ls with
      | nil =>
        have := step_line hG tag hnl l hl [] (.inl rfl) f
        simp only [List.append_nil, List.drop_nil, Model.findAllWith_nil] at this
        simp only [List.map_cons, List.map_nil, join, this]
        cases l <;> rfl
      | cons l2 ls2 =>
        have hrest := ih (fun x hx => hok x (by simp [hx])) f (by simpa using hf)
        simp only [List.map_cons] at hrest ⊢
        rw [join_two]
        have := step_line hG tag hnl l hl ('\n' :: join ['\n'] (l2.text tag :: ls2.map (·.text tag)))
          (.inr ⟨_, rfl⟩) f
        simp only [List.drop_succ_cons, List.drop_zero] at this
        rw [this, hrest]
        cases l <;> rfl

theorem textOf_length (tag : Text) (ls : List TextLine) : ls.length ≤ (textOf tag ls).length + 1 := by
  unfold textOf
  induction ls with
  | nil => simp [join]
  | cons a as ih =>
    cases as with
    | nil => simp [join]
    | cons a2 as2 =>
      simp only [List.map_cons] at ih ⊢
      rw [join_length_two]
      simp only [List.length_cons] at ih ⊢
      omega

theorem clean_ok (endRe : Re) (tag : Text) (ls : List TextLine) (hok : ∀ l ∈ ls, l.ok endRe tag = true) :
    (ls.filterMap TextLine.pair).map cleanTag = ls.filterMap (·.value) := by
  induction ls with
  | nil => rfl
  | cons l ls ih =>
    have hl := hok l (by simp)
    have hrest := ih (fun x hx => hok x (by simp [hx]))
    cases l with
    | free t =>
      rw [List.filterMap_cons_none (by rfl), List.filterMap_cons_none (by rfl)]
      exact hrest
    | tagged s =>
      have hl' : tagLineOK endRe tag s = true := hl
      unfold tagLineOK at hl'
      simp only [Bool.and_eq_true] at hl'
      rw [List.filterMap_cons_some (b := (s.pre, s.v)) (by rfl), List.filterMap_cons_some (b := s.v) (by rfl),
        List.map_cons, Model.cleanTag_plain s.pre s.v hl'.1.2 hl'.2, hrest]
    | framed s ws =>
      have hl' : tagLineFramedOK endRe tag s ws = true := hl
      unfold tagLineFramedOK at hl'
      simp only [Bool.and_eq_true, Bool.not_eq_true'] at hl'
      obtain ⟨⟨⟨⟨_, hs⟩, hne⟩, hws⟩, hm⟩ := hl'
      rw [List.filterMap_cons_some (b := (s.pre, s.v ++ ws ++ mirror s.pre)) (by rfl),
        List.filterMap_cons_some (b := s.v) (by rfl), List.map_cons, Model.cleanTag_framed s.pre s.v ws hs hne hws hm, hrest]

/-- **The tag values of a text of lines**: exactly the values of its tag lines, in order. -/
theorem findTag_text {endRe : Re} (hG : EndGuarded endRe) (tag : Text) (hnl : '\n' ∉ tag)
    (ls : List TextLine) (hok : ∀ l ∈ ls, l.ok endRe tag = true) :
    findSpdxTagWith endRe tag (textOf tag ls) = ls.filterMap (·.value) := by
  unfold findSpdxTagWith
  rw [findAll_text hG tag hnl ls hok _ (textOf_length tag ls)]
  exact clean_ok endRe tag ls hok

/-! ### the text of `C02_tag_lines` -/

theorem textOf_tagged (tag : Text) (ls : List TagLineSpec) :
    textOf tag (ls.map .tagged ++ [.free []]) = linesText tag ls := by
  unfold textOf
  rw [List.map_append, List.map_map]
  show join ['\n'] (ls.map (fun s => s.line tag) ++ [[]]) = _
  rw [join_snoc, List.append_nil]
  induction ls with
  | nil => rfl
  | cons s ss ih =>
    simp only [List.map_cons, joinLines, linesText, TagLineSpec.text, ih]
    simp [TagLineSpec.line, List.append_assoc]

theorem values_tagged (ls : List TagLineSpec) :
    (ls.map TextLine.tagged ++ [TextLine.free []]).filterMap (·.value) = ls.map (·.v) := by
  induction ls with
  | nil => rfl
  | cons s ss ih =>
    rw [List.map_cons, List.cons_append, List.filterMap_cons_some (b := s.v) (by rfl), ih, List.map_cons]

/-! ### a purely syntactic trail -/

theorem tagLineOK_of_syn (endRe : Re) (tag : Text) (s : TagLineSpec) (pieces : List Text)
    (h : tagLineSyn endRe tag s pieces = true) : tagLineOK endRe tag s = true := by
  unfold tagLineSyn at h
  simp only [Bool.and_eq_true, Bool.not_eq_true', beq_iff_eq] at h
  obtain ⟨⟨⟨⟨⟨⟨hp, htr⟩, hshape⟩, hopen⟩, hsafe⟩, hs⟩, hf⟩ := h
  cases hb : starBody endRe with
  | none => rw [hb] at hp; cases hp
  | some body =>
    rw [hb] at hp
    simp only [List.all_eq_true] at hp
    have hend : endOk endRe s.trail = true := by
      have := Model.endOk_pieces body pieces [] hp rfl
      rw [Model.starBody_eq hb, htr]
      simpa using this
    simp [tagLineOK, valueSafeIn, hshape, hend, hopen, hsafe, hs, hf]

theorem tagLineFramedOK_of_syn (endRe : Re) (tag : Text) (s : TagLineSpec) (ws : Text) (pieces : List Text)
    (h : tagLineFramedSyn endRe tag s ws pieces = true) : tagLineFramedOK endRe tag s ws = true := by
  unfold tagLineFramedSyn at h
  simp only [Bool.and_eq_true, Bool.not_eq_true', beq_iff_eq] at h
  obtain ⟨⟨⟨⟨⟨⟨⟨⟨hp, htr⟩, hshape⟩, hopen⟩, hsafe⟩, hs⟩, hne⟩, hws⟩, hm⟩ := h
  cases hb : starBody endRe with
  | none => rw [hb] at hp; cases hp
  | some body =>
    rw [hb] at hp
    simp only [List.all_eq_true] at hp
    have hend : endOk endRe s.trail = true := by
      have := Model.endOk_pieces body pieces [] hp rfl
      rw [Model.starBody_eq hb, htr]
      simpa using this
    simp only [tagLineFramedOK, tagLineRaw, TagLineSpec.framed, valueSafeIn, hshape, hend, hopen, hsafe, hs, hne, hws, hm,
      Bool.not_false, Bool.true_or, Bool.and_self]

theorem tagLineFound_of_ok {endRe : Re} {tag : Text} {s : TagLineSpec} (h : tagLineOK endRe tag s = true) :
    tagLineFound endRe tag s = true := by
  unfold tagLineOK at h
  simp only [Bool.and_eq_true, Bool.not_eq_true'] at h
  obtain ⟨⟨⟨⟨⟨hshape, hend⟩, _⟩, hsafe⟩, hs⟩, hf⟩ := h
  simp [tagLineFound, hshape, hend, hsafe, hs, hf]

/-! ### a tag line anywhere -/

/-- the regular-expression part: the match `(pre, w)` of a tag line is among the matches of every text that holds the
    line between line boundaries -/
theorem found_anywhere_raw {endRe : Re} (hG : EndGuarded endRe) (tag : Text) (hnl : '\n' ∉ tag)
    (hun : tagUnusable endRe tag = true) (s : TagLineSpec)
    (hshape : WFShape tag s.pre s.blanks s.v s.trail [] = true) (hend : endOk endRe s.trail = true)
    (hsafe : valueSafeIn endRe s.v s.trail = true) (U after : Text) (hU : AtLS U) :
    (s.pre, s.v) ∈ findAllWith endRe tag ((U ++ (s.line tag ++ '\n' :: after)).length + 1)
      (U ++ (s.line tag ++ '\n' :: after)) := by
  have htr := (wfShape_parts hshape).2.2.2.2.2.2.1
  have hvnl := (wfShape_parts hshape).2.2.2.2.2.1
  have hbad : ∃ c ∈ s.line tag, mayUse endRe c = false := by
    unfold tagUnusable at hun
    obtain ⟨c, hc, hcu⟩ := List.any_eq_true.mp hun
    exact ⟨c, by rw [line_assoc]; simp [hc], by simpa using hcu⟩
  have hany : ∀ f, (s.pre, s.v) ∈ findAllWith endRe tag (f + 1) (s.line tag ++ '\n' :: after) := by
    intro f
    obtain ⟨r, hr⟩ := Option.isSome_iff_exists.mp
      (Model.matchEnd_complete (endRe := endRe) (a := s.trail) (b := '\n' :: after) (matchEnd_trail htr hend).2 rfl)
    rw [step_tag_any endRe tag hnl s hshape ('\n' :: after) r
      (valueSafe_any hG s.v s.trail _ (.inr ⟨after, rfl⟩) hvnl hsafe) (.inr ⟨after, rfl⟩) hr f]
    simp
  exact scan_reaches endRe tag hnl (s.line tag) after (line_noNewline tag hnl s hshape) hbad (s.pre, s.v) hany
    U.length U (Nat.le_refl _) hU _ (by simp only [List.length_append]; omega)

/-- **A tag line is found wherever it stands**: after any text that ends a line (`U` empty or ending with a line
    feed — it may hold tags, unclosed quotes, anything) and before any text. -/
theorem found_anywhere {endRe : Re} (hG : EndGuarded endRe) (tag : Text) (hnl : '\n' ∉ tag)
    (hun : tagUnusable endRe tag = true)
    (s : TagLineSpec) (hok : tagLineFound endRe tag s = true) (U after : Text) (hU : AtLS U) :
    s.v ∈ findSpdxTagWith endRe tag (U ++ (s.line tag ++ '\n' :: after)) := by
  unfold tagLineFound at hok
  simp only [Bool.and_eq_true] at hok
  obtain ⟨⟨⟨⟨hshape, hend⟩, hsafe⟩, hs⟩, hf⟩ := hok
  unfold findSpdxTagWith
  exact List.mem_map.mpr ⟨(s.pre, s.v), found_anywhere_raw hG tag hnl hun s hshape hend hsafe U after hU,
    Model.cleanTag_plain s.pre s.v hs hf⟩

/-- … and so is a framed tag line -/
theorem found_anywhere_framed {endRe : Re} (hG : EndGuarded endRe) (tag : Text) (hnl : '\n' ∉ tag)
    (hun : tagUnusable endRe tag = true)
    (s : TagLineSpec) (ws : Text) (hok : tagLineFramedOK endRe tag s ws = true) (U after : Text) (hU : AtLS U) :
    s.v ∈ findSpdxTagWith endRe tag (U ++ ((s.framed ws).line tag ++ '\n' :: after)) := by
  unfold tagLineFramedOK at hok
  simp only [Bool.and_eq_true, Bool.not_eq_true'] at hok
  obtain ⟨⟨⟨⟨hraw, hs⟩, hne⟩, hws⟩, hm⟩ := hok
  unfold tagLineRaw at hraw
  simp only [Bool.and_eq_true, Bool.not_eq_true'] at hraw
  obtain ⟨⟨⟨hshape, hend⟩, _⟩, hsafe⟩ := hraw
  unfold findSpdxTagWith
  exact List.mem_map.mpr ⟨(s.pre, s.v ++ ws ++ mirror s.pre),
    found_anywhere_raw hG tag hnl hun (s.framed ws) hshape hend hsafe U after hU,
    Model.cleanTag_framed s.pre s.v ws hs hne hws hm⟩

end C02L
