/-
C08: "a shebang or XML-declaration-like first line stays first", replacing mode, **no hypothesis on the text**,
stated on the level of lines: the first line of the output (as `str.splitlines()` reads it) is the first line of the
text, or that line without its trailing white space.

`first_line_placed` is the core: when what `place_header` puts first (`sbl`) begins with the text's first line `l`
followed by a line boundary (or is `l`), the output `rstrip sbl ++ "\n\n" ++ …` has `l` or `rstrip l` as its first line.
The three situations supply such an `sbl`: text above the block found (`rel_above`), marker lines extracted from a text
without header (`extractShebang_first`), marker lines taken out of the block found at the top (`shebang_lines`).
-/
import ReuseVerif.Lemmas.C08SpliceGeneral

namespace C08L
open Py Model Spec C10L

/-- `sbl` begins with the line `l` and a line boundary, or is `l` -/
def BeginsWithLine (sbl l : Text) : Prop :=
  sbl = l ∨ ∃ c rest, isLineBreak c = true ∧ sbl = l ++ c :: rest

/-! ### the first line of a text -/

theorem splitLinesAux_head (acc s : Text) (hne : acc ≠ [] ∨ s ≠ []) :
    ∃ l ls, splitLinesAux false acc s = l :: ls ∧ BeginsWithLine (acc.reverse ++ s) l := by
  fun_induction splitLinesAux false acc s with
  | case1 => rcases hne with h | h <;> exact absurd rfl h
  | case2 acc hacc => exact ⟨acc.reverse, [], rfl, Or.inl (by simp)⟩
  | case3 acc cs ih =>
    exact ⟨acc.reverse, splitLinesAux false [] cs, by simp, Or.inr ⟨'\r', '\n' :: cs, by decide, rfl⟩⟩
  | case4 acc c cs hnot hbr ih =>
    exact ⟨acc.reverse, splitLinesAux false [] cs, by simp, Or.inr ⟨c, cs, hbr, rfl⟩⟩
  | case5 acc c cs hnot hbr ih =>
    obtain ⟨l, ls, h1, h2⟩ := ih (Or.inl (by simp))
    refine ⟨l, ls, h1, ?_⟩
    simpa using h2

theorem splitLines_head {s : Text} (hs : s ≠ []) :
    ∃ l ls, splitLines s = l :: ls ∧ NoBreak l ∧ BeginsWithLine s l := by
  obtain ⟨l, ls, h1, h2⟩ := splitLinesAux_head [] s (Or.inr hs)
  refine ⟨l, ls, h1, ?_, by simpa using h2⟩
  exact splitLines_noBreak [] s (by intro ch hch; cases hch) l (by rw [h1]; simp)

/-- the first line of `x ++ c ++ …` for a break-free `x` and a line boundary `c` is `x` -/
theorem head_of_line (x rest : Text) (c : Char) (hx : NoBreak x) (hc : isLineBreak c = true) :
    ∃ ls, splitLines (x ++ c :: rest) = x :: ls := by
  unfold splitLines
  rw [splitLinesAux_piece false [] x _ hx]
  by_cases hcr : c = '\r' ∧ ∃ cs, rest = '\n' :: cs
  · obtain ⟨rfl, cs, rfl⟩ := hcr
    rw [sla_crlf]; exact ⟨splitLinesAux false [] cs, by simp⟩
  · rw [sla_break _ _ c hc hcr]; exact ⟨splitLinesAux false [] rest, by simp⟩

/-- a break-free marker that begins the text begins its first line -/
theorem prefix_of_line {p s l : Text} (hp : p <+: s) (hnb : NoBreak p) (hl : BeginsWithLine s l) : p <+: l := by
  rcases hl with rfl | ⟨c, rest, hc, rfl⟩
  · exact hp
  · refine prefix_break_free hp ?_
    intro hm
    have := hnb c hm
    rw [hc] at this; cases this

/-! ### `rstrip` of a text that begins with a line -/

theorem noBreak_rstrip {x : Text} (h : NoBreak x) : NoBreak (rstrip x) := by
  obtain ⟨w, hw, _⟩ := rstrip_spec x
  intro ch hch
  exact h ch (by rw [hw]; simp [hch])

theorem rstrip_append_nonblank (x y : Text) (hy : ¬ Blank y) : rstrip (x ++ y) = x ++ rstrip y := by
  have hne : y.reverse.dropWhile isSpace ≠ [] := by
    intro h
    apply hy
    have := dropWhile_eq_nil.mp h
    simpa [Blank] using this
  unfold rstrip
  rw [List.reverse_append, List.dropWhile_append]
  have : (List.dropWhile isSpace y.reverse).isEmpty = false := by
    cases hd : List.dropWhile isSpace y.reverse with
    | nil => exact absurd hd hne
    | cons a as => rfl
  simp [this]

theorem rstrip_cons_nonblank (c : Char) (rest : Text) (hy : ¬ Blank (c :: rest)) :
    ∃ R, rstrip (c :: rest) = c :: R := by
  obtain ⟨w, hw, _⟩ := rstrip_spec (c :: rest)
  cases hr : rstrip (c :: rest) with
  | nil => exact absurd ((rstrip_nil_iff _).mp hr) hy
  | cons a R =>
    rw [hr] at hw
    simp only [List.cons_append, List.cons.injEq] at hw
    exact ⟨R, by rw [hw.1]⟩

/-- **core**: what `place_header` puts first begins with the text's first line `l`; then the output's first line is
    `l`, or `l` without trailing white space -/
theorem first_line_placed {l sbl out : Text} (hl : NoBreak l) (hsbl : BeginsWithLine sbl l)
    (hout : (rstrip sbl ++ ['\n', '\n']) <+: out) :
    (splitLines out).head? = some l ∨ (splitLines out).head? = some (rstrip l) := by
  obtain ⟨u, hu⟩ := hout
  have hstripped : rstrip sbl = rstrip l → (splitLines out).head? = some (rstrip l) := by
    intro h
    rw [← hu, h]
    have : rstrip l ++ ['\n', '\n'] ++ u = rstrip l ++ '\n' :: ('\n' :: u) := by simp
    rw [this]
    obtain ⟨ls, hls⟩ := head_of_line (rstrip l) ('\n' :: u) '\n' (noBreak_rstrip hl) (by decide)
    rw [hls]; rfl
  rcases hsbl with rfl | ⟨c, rest, hc, rfl⟩
  · exact Or.inr (hstripped rfl)
  · by_cases hb : Blank (c :: rest)
    · exact Or.inr (hstripped (rstrip_append_blank' l _ hb))
    · left
      obtain ⟨R, hR⟩ := rstrip_cons_nonblank c rest hb
      rw [← hu, rstrip_append_nonblank l _ hb, hR]
      have : l ++ c :: R ++ ['\n', '\n'] ++ u = l ++ c :: (R ++ ['\n', '\n'] ++ u) := by simp
      rw [this]
      obtain ⟨ls, hls⟩ := head_of_line l (R ++ ['\n', '\n'] ++ u) c hl hc
      rw [hls]; rfl

/-! ### the three situations -/

/-- text above the block found: it ends with `\n`, so it begins with the text's first line and a boundary -/
theorem rel_above {b' r l : Text} (hl : NoBreak l) (h : BeginsWithLine (b' ++ '\n' :: r) l) :
    BeginsWithLine (b' ++ ['\n']) l := by
  have hnl : '\n' ∉ l := fun hm => absurd (hl '\n' hm) (by decide)
  rcases h with h | ⟨c, rest, hc, h⟩
  · exact absurd (by rw [← h]; simp) hnl
  · rcases List.append_eq_append_iff.mp h with ⟨a', h1, h2⟩ | ⟨c', h1, h2⟩
    · -- l = b' ++ a'
      cases a' with
      | nil =>
        simp only [List.nil_append, List.cons.injEq] at h2
        right
        exact ⟨'\n', [], by decide, by rw [h1]; simp⟩
      | cons x xs => exact absurd (by rw [h1]; simp [← (List.cons.inj h2).1]) hnl
    · -- b' = l ++ c'
      cases c' with
      | nil =>
        simp only [List.nil_append, List.cons.injEq] at h2
        right
        exact ⟨'\n', [], by decide, by rw [h1]; simp⟩
      | cons x xs =>
        simp only [List.cons_append, List.cons.injEq] at h2
        right
        exact ⟨c, xs ++ ['\n'], hc, by rw [h1, h2.1]; simp⟩

/-- `splitlines(keepends=True)` against `splitlines()`: the first piece is the first line, plus its line boundary
    unless the text ends there -/
theorem splitKeep_head (acc s : Text) (hne : acc ≠ [] ∨ s ≠ []) :
    ∃ k ks l ls, splitLinesAux true acc s = k :: ks ∧ splitLinesAux false acc s = l :: ls ∧
      ((k = l ∧ ks = []) ∨ ∃ c rest, isLineBreak c = true ∧ k = l ++ c :: rest) := by
  fun_induction splitLinesAux true acc s with
  | case1 => rcases hne with h | h <;> exact absurd rfl h
  | case2 acc hacc =>
    refine ⟨acc.reverse, [], acc.reverse, [], rfl, ?_, Or.inl ⟨rfl, rfl⟩⟩
    rw [sla_nil, if_neg (fun h => hacc h)]
  | case3 acc cs ih =>
    refine ⟨acc.reverse ++ ['\r', '\n'], splitLinesAux true [] cs, acc.reverse, splitLinesAux false [] cs, by simp,
      sla_crlf acc cs, Or.inr ⟨'\r', ['\n'], by decide, rfl⟩⟩
  | case4 acc c cs hnot hbr ih =>
    refine ⟨acc.reverse ++ [c], splitLinesAux true [] cs, acc.reverse, splitLinesAux false [] cs, by simp, ?_,
      Or.inr ⟨c, [], hbr, rfl⟩⟩
    apply sla_break acc cs c hbr
    rintro ⟨rfl, cs', rfl⟩
    exact hnot cs' rfl rfl
  | case5 acc c cs hnot hbr ih =>
    obtain ⟨k, ks, l, ls, h1, h2, h3⟩ := ih (Or.inl (by simp))
    exact ⟨k, ks, l, ls, h1, by rw [sla_nobreak _ _ _ (by simpa using hbr)]; exact h2, h3⟩

/-- marker lines extracted from a text that starts with the marker begin with the text's first line -/
theorem extractShebang_first {sb t : Text} (hne : sb ≠ []) (hnb : NoBreak sb) (hst : startsWith t sb = true) :
    ∃ l ls, splitLines t = l :: ls ∧ BeginsWithLine (extractShebang sb t).1 l := by
  have htne : t ≠ [] := by
    intro h0; subst h0
    cases sb with
    | nil => exact hne rfl
    | cons a as => cases hst
  obtain ⟨k, ks, l, ls, hk, hl, hrel⟩ := splitKeep_head [] t (Or.inr htne)
  have hflat := (splitKeep_spec [] t).1
  rw [hk] at hflat
  simp only [List.flatten_cons, List.reverse_nil, List.nil_append] at hflat
  have hsbt : sb <+: t := List.isPrefixOf_iff_prefix.mp hst
  -- the marker begins the first piece
  have hsbk : startsWith k sb = true := by
    apply List.isPrefixOf_iff_prefix.mpr
    rcases hrel with ⟨rfl, rfl⟩ | ⟨c, rest, hc, rfl⟩
    · have hk : k = t := by simpa using hflat
      rw [hk]; exact hsbt
    · rw [← hflat] at hsbt
      have : (l ++ c :: rest) ++ ks.flatten = l ++ c :: (rest ++ ks.flatten) := by simp
      rw [this] at hsbt
      have hcs : c ∉ sb := by
        intro hm
        have := hnb c hm
        rw [hc] at this; cases this
      exact List.IsPrefix.trans (prefix_break_free hsbt hcs) (List.prefix_append _ _)
  refine ⟨l, ls, hl, ?_⟩
  unfold extractShebang
  rw [show splitLines t true = splitLinesAux true [] t from rfl, hk, extractShebang.go]
  simp only [hsbk, if_true, List.nil_append]
  rcases hrel with ⟨rfl, rfl⟩ | ⟨c, rest, hc, rfl⟩
  · left; simp [extractShebang.go]
  · right
    obtain ⟨X, hX⟩ := extractShebang_go_prefix sb ks (l ++ c :: rest) (removeFirst (l ++ c :: rest) t)
    exact ⟨c, rest ++ X, hc, by rw [← hX]; simp⟩

/-- the first line of a text that starts with a break-free marker, and what the marker lines extracted begin with -/
theorem first_line_of_extract {sb t : Text} (hne : sb ≠ []) (hnbk : NoBreak sb) (hst : startsWith t sb = true) :
    ∃ l ls, splitLines t = l :: ls ∧ NoBreak l ∧ sb <+: l ∧ BeginsWithLine (extractShebang sb t).1 l := by
  obtain ⟨l, ls, hlines, hbeg⟩ := extractShebang_first hne hnbk hst
  have hsbt : sb <+: t := List.isPrefixOf_iff_prefix.mp hst
  have htne : t ≠ [] := by
    intro h0; subst h0
    exact hne (List.prefix_nil.mp hsbt)
  obtain ⟨l', ls', hlines', hlnb, hbegt⟩ := splitLines_head htne
  have hll : l' = l := by rw [hlines] at hlines'; exact (List.cons.inj hlines').1.symm
  subst hll
  exact ⟨l', ls, hlines, hlnb, prefix_of_line hsbt hnbk hbegt, hbeg⟩

/-! ### the shebang loop: the marker it takes begins the block -/

theorem moveShebang_top_mem (shebangs : List Text) (h0 a0 : Text) (hne : h0 ≠ []) (sb : Text) (hmem : sb ∈ shebangs)
    (hst : startsWith h0 sb = true) :
    ∃ sb' ∈ shebangs, startsWith h0 sb' = true ∧
      moveShebang shebangs [] h0 a0 = ((extractShebang sb' h0).1, (extractShebang sb' h0).2, a0) := by
  rw [moveShebang_top _ _ _ hne]
  cases hf : shebangs.find? (startsWith h0 ·) with
  | none =>
    have := List.find?_eq_none.mp hf sb hmem
    simp [hst] at this
  | some sb' =>
    exact ⟨sb', List.mem_of_find?_eq_some hf, by simpa using List.find?_some hf, rfl⟩

/-- **First line stays first, every text** (sections of the shebang loop given a block was found) -/
theorem first_line_general_old {c : HdrCfg} {t b0 h0 a0 sb : Text}
    (hpseudo : c.style.isEmptyStyle = true → c.style.shebangs = [])
    (hf0 : findFirstSpdxComment c t = some (b0, h0, a0))
    (hmk : ∀ x ∈ c.style.shebangs, x ≠ [] ∧ NoBreak x ∧ ¬ Blank x)
    (hsbm : sb ∈ c.style.shebangs) (hst : startsWith t sb = true) (hdr : Text) :
    ∃ l ls, splitLines t = l :: ls ∧ NoBreak l ∧ BeginsWithLine t l ∧
      ∃ sbl, BeginsWithLine sbl l ∧ (rstrip sbl ++ ['\n', '\n']) <+:
        placeHeader hdr (moveShebang c.style.shebangs b0 h0 a0).1 (moveShebang c.style.shebangs b0 h0 a0).2.2
          (!(moveShebang c.style.shebangs b0 h0 a0).2.1.isEmpty) := by
  obtain ⟨hne, hnbk, hnb⟩ := hmk sb hsbm
  have hsbt : sb <+: t := List.isPrefixOf_iff_prefix.mp hst
  have htne : t ≠ [] := by
    intro h0'; subst h0'
    exact hne (List.prefix_nil.mp hsbt)
  obtain ⟨l, ls, hlines, hlnb, hbeg⟩ := splitLines_head htne
  have hsbl : sb <+: l := prefix_of_line hsbt hnbk hbeg
  refine ⟨l, ls, hlines, hlnb, hbeg, ?_⟩
  have hes : c.style.isEmptyStyle = false := by
    cases h : c.style.isEmptyStyle with
    | false => rfl
    | true => rw [hpseudo h] at hsbm; cases hsbm
  obtain ⟨r, comment, hbr, hb0, hc, _, hh0, _⟩ := findFirst_spec hf0
  have hb0' : b0 = [] ∨ ∃ b', b0 = b' ++ ['\n'] := by
    rcases hb0 with h | h
    · exact Or.inl h
    · right
      have hne0 : b0 ≠ [] := by intro h0'; rw [h0'] at h; cases h
      refine ⟨b0.dropLast, ?_⟩
      have h1 := List.dropLast_concat_getLast hne0
      have h2 : b0.getLast hne0 = '\n' := by
        have := List.getLast?_eq_some_getLast hne0
        rw [h] at this
        exact (Option.some.inj this).symm
      rw [h2] at h1
      exact h1.symm
  rcases hb0' with rfl | ⟨b', rfl⟩
  · -- the block is at the top: the loop takes marker lines out of it
    simp only [List.nil_append] at hbr
    subst hbr
    obtain ⟨e, _, hcomment⟩ := commentAt_shape hes hc
    rw [hlines] at hcomment
    have hh0ne : h0 ≠ [] := by rw [hh0]; simp
    -- the marker begins the block
    have hsth : startsWith h0 sb = true := by
      apply List.isPrefixOf_iff_prefix.mpr
      rw [hh0, hcomment, List.take_succ_cons]
      cases htk : List.take e ls with
      | nil => simp only [join]; exact List.IsPrefix.trans hsbl (List.prefix_append _ _)
      | cons x xs =>
        rw [join_cons_ne _ _ (by simp)]
        exact List.IsPrefix.trans hsbl ⟨'\n' :: join ['\n'] (x :: xs) ++ ['\n'], by simp⟩
    obtain ⟨sb', hmem', hst', hmove⟩ := moveShebang_top_mem c.style.shebangs h0 a0 hh0ne sb hsbm hsth
    obtain ⟨hne', hnbk', hnb'⟩ := hmk sb' hmem'
    rw [hmove]
    simp only []
    have hpre := extractShebang_starts hne' hnbk' hst'
    obtain ⟨j, hj⟩ := shebang_lines (sb := sb') hes hc
    rw [← hh0, hlines] at hj
    refine ⟨(extractShebang sb' h0).1, ?_, placed_first' _ rfl hpre hnb'⟩
    right
    cases j with
    | zero =>
      simp only [List.take_zero, List.map_nil, List.flatten_nil] at hj
      rw [hj] at hpre
      exact absurd (List.prefix_nil.mp hpre) hne'
    | succ j =>
      refine ⟨'\n', ((ls.take j).map (· ++ ['\n'])).flatten, by decide, ?_⟩
      rw [hj]; simp
  · -- text above the block: nothing is moved
    have ht : t = b' ++ '\n' :: r := by rw [← hbr]; simp
    have hnl : '\n' ∉ sb := fun hm => absurd (hnbk '\n' hm) (by decide)
    have hsb' : sb <+: b' := by
      rw [ht] at hsbt
      exact prefix_break_free hsbt hnl
    have hsb0 : sb <+: b' ++ ['\n'] := List.IsPrefix.trans hsb' (List.prefix_append _ _)
    have hnb0 : ¬ Blank (b' ++ ['\n']) := not_blank_of_prefix hsb0 hnb
    rw [moveShebang_nonblank _ _ _ _ hnb0]
    exact ⟨b' ++ ['\n'], rel_above hlnb (ht ▸ hbeg), placed_first' _ rfl hsb0 hnb⟩

end C08L
