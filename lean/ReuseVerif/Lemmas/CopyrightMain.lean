import ReuseVerif.Lemmas.Copyright

namespace Model
open Py Spec

theorem statementOf_wf (endRe : Re) (h : Text) (hw : noEndSuffix endRe h = true) : statementOf endRe h = h := by
  induction h with
  | nil => rfl
  | cons c cs ih =>
    simp only [noEndSuffix, Bool.and_eq_true, Bool.not_eq_true', endAccepts] at hw
    simp only [statementOf, hw.1, Bool.false_eq_true, if_false, ih hw.2]

theorem eatDigits4_four {y : Text} (hy : fourDigits y = true) (s : Text) : eatDigits4 (y ++ s) = some (y, s) := by
  unfold fourDigits at hy
  simp only [Bool.and_eq_true, beq_iff_eq, List.all_eq_true] at hy
  obtain ⟨hl, hd⟩ := hy
  match y, hl with
  | [a, b, c, d], _ =>
    have ha := hd a (by simp); have hb := hd b (by simp); have hc := hd c (by simp); have hd' := hd d (by simp)
    simp [eatDigits4, ha, hb, hc, hd']

theorem eatDigits4_notDigit {c : Char} {cs : Text} (h : isReDigit c = false) : eatDigits4 (c :: cs) = none := by
  match cs with
  | [] => rfl
  | [_] => rfl
  | [_, _] => rfl
  | _ :: _ :: _ :: _ => simp [eatDigits4, h]

theorem eatCommaSpaces_space {c : Char} {cs : Text} (hs : isReSpace c = false) :
    eatCommaSpaces (' ' :: c :: cs) = some (c :: cs) := by
  have h1 : eatOpt ',' (' ' :: c :: cs) = ([], ' ' :: c :: cs) := by simp [eatOpt]
  simp only [eatCommaSpaces, h1, isReSpace_space, if_true, List.dropWhile_cons, hs]
  simp

/-- what follows the year: the holder, whose first character cannot continue a year -/
structure HolderStart (h : Text) : Prop where
  ne : h ≠ []
  notSpace : ∀ c cs, h = c :: cs → isReSpace c = false
  notDigit : ∀ c cs, h = c :: cs → isReDigit c = false
  notDash : ∀ c cs, h = c :: cs → c ≠ '-'

theorem eatOpt_space_hit (s : Text) : eatOpt ' ' (' ' :: s) = ([' '], s) := by simp [eatOpt]
theorem eatOpt_miss {ch c : Char} {cs : Text} (h : c ≠ ch) : eatOpt ch (c :: cs) = ([], c :: cs) := by
  simp [eatOpt, h]

theorem eatYear_none {h : Text} (hs : HolderStart h) : eatYear h = (none, h) := by
  obtain ⟨c, cs, rfl⟩ := List.exists_cons_of_ne_nil hs.ne
  have := eatDigits4_notDigit (cs := cs) (hs.notDigit c cs rfl)
  simp [eatYear, eatRangeYear, eatSingleYear, this]

theorem eatSingle_ok {y h : Text} (hy : fourDigits y = true) (hs : HolderStart h) :
    eatSingleYear (y ++ ' ' :: h) = some (y, h) := by
  obtain ⟨c, cs, rfl⟩ := List.exists_cons_of_ne_nil hs.ne
  have hcs := eatCommaSpaces_space (cs := cs) (hs.notSpace c cs rfl)
  simp [eatSingleYear, eatDigits4_four hy, hcs]

theorem eatRange_single_fails {y h : Text} (hy : fourDigits y = true) (hs : HolderStart h) :
    eatRangeYear (y ++ ' ' :: h) = none := by
  obtain ⟨c, cs, rfl⟩ := List.exists_cons_of_ne_nil hs.ne
  have hdash : eat ['-'] (c :: cs) = none := eat_head_ne (a := '-') (as := []) (hs.notDash c cs rfl)
  simp [eatRangeYear, eatDigits4_four hy, eatOpt_space_hit, hdash]

theorem eatYear_single {y h : Text} (hy : fourDigits y = true) (hs : HolderStart h) :
    eatYear (y ++ ' ' :: h) = (some y, h) := by
  simp [eatYear, eatRange_single_fails hy hs, eatSingle_ok hy hs]

theorem fourDigits_head {y : Text} (hy : fourDigits y = true) : ∃ a t, y = a :: t ∧ a ≠ ' ' ∧ a ≠ '-' := by
  unfold fourDigits at hy
  simp only [Bool.and_eq_true, beq_iff_eq, List.all_eq_true] at hy
  match y, hy.1 with
  | [a, b, c', d], _ =>
    refine ⟨a, [b, c', d], rfl, ?_, ?_⟩ <;>
    · intro e; subst e
      have := hy.2 _ (List.mem_cons_self ..)
      revert this; decide

theorem eatRange_ok {y1 y2 h : Text} (sp1 sp2 : Bool) (h1 : fourDigits y1 = true) (h2 : fourDigits y2 = true)
    (hs : HolderStart h) :
    eatRangeYear (y1 ++ ((if sp1 then [' '] else []) ++ ('-' :: ((if sp2 then [' '] else []) ++ (y2 ++ ' ' :: h))))) =
      some (y1 ++ (if sp1 then [' '] else []) ++ ['-'] ++ (if sp2 then [' '] else []) ++ y2, h) := by
  obtain ⟨c, cs, rfl⟩ := List.exists_cons_of_ne_nil hs.ne
  have hcs := eatCommaSpaces_space (cs := cs) (hs.notSpace c cs rfl)
  obtain ⟨a, t, rfl, ha, _⟩ := fourDigits_head h2
  have hd2 := eatDigits4_four h2 (' ' :: c :: cs)
  cases sp1 <;> cases sp2 <;>
    simp [eatRangeYear, eatDigits4_four h1, eatOpt_space_hit, eatOpt_miss, eat_append, eat, ha, hcs, hd2, List.isPrefixOf] <;>
    simp_all [eatOpt]

end Model

namespace Model
open Py Spec

def headText : CPat → Text
  | .spdx => "SPDX-FileCopyrightText:".toList
  | .word => "Copyright".toList
  | .sign => copySign

theorem eatHead_append (p : CPat) (s : Text) : eatHead p (headText p ++ s) = some s := by
  cases p with
  | spdx =>
    have e0 : headText .spdx = "SPDX-".toList ++ ("File".toList ++ "CopyrightText:".toList) := by decide
    rw [e0, List.append_assoc, List.append_assoc]
    simp only [eatHead, eat_append, Option.bind_eq_bind, Option.bind_some, Option.orElse]
  | word => exact eat_append _ s
  | sign => exact eat_append _ s

/-- the candidates after the head pick exactly the extension `E`, for each shape of the table -/
def ExtPicked (p : CPat) (E : Text) : Prop :=
  ∀ rest, Blocks rest → pickExt (extCandidates p (E ++ ' ' :: rest)) = some (' ' :: rest)

theorem dropWhile_space_rest {rest : Text} (hb : Blocks rest) : (' ' :: rest).dropWhile isReSpace = rest := by
  obtain ⟨c, cs, rfl⟩ := List.exists_cons_of_ne_nil hb.ne
  simp [List.dropWhile_cons, isReSpace_space, hb.notSpace c cs rfl]

/-- the pattern anchored at the start of a built line reads back prefix, year and holder -/
theorem matchAt_built (endRe : Re) (p : CPat) (E rest h : Text) (yt : Option Text)
    (hE : ExtPicked p E) (hb : Blocks rest) (hy : eatYear rest = (yt, h))
    (hw : noEndSuffix endRe h = true) (hlen : h.length ≤ rest.length) :
    matchAt endRe p (headText p ++ E ++ ' ' :: rest) =
      some { pref := headText p ++ E, year := yt, statement := h, whole := headText p ++ E ++ ' ' :: rest } := by
  unfold matchAt
  rw [List.append_assoc, eatHead_append, ← List.append_assoc]
  simp only [Option.bind_eq_bind, Option.bind_some]
  rw [List.append_assoc, hE rest hb]
  simp only [Option.bind_some, dropWhile_space_rest hb, hy, statementOf_wf endRe h hw, Option.pure_def,
    Option.some.injEq, CMatch.mk.injEq, true_and]
  refine ⟨?_, ?_⟩
  · have : (headText p ++ (E ++ ' ' :: rest)).length - (' ' :: rest).length = (headText p ++ E).length := by
      simp only [List.length_append, List.length_cons]; omega
    rw [this, ← List.append_assoc, List.take_left']
    rfl
  · have : (headText p ++ (E ++ ' ' :: rest)).length - h.length + h.length =
        (headText p ++ (E ++ ' ' :: rest)).length := by
      simp only [List.length_append, List.length_cons]; omega
    rw [this, List.take_length]

theorem searchPat_of_matchAt (endRe : Re) (p : CPat) (s : Text) (m : CMatch) (hs : s ≠ [])
    (h : matchAt endRe p s = some m) : searchPat endRe p s = some m := by
  obtain ⟨c, cs, rfl⟩ := List.exists_cons_of_ne_nil hs
  simp [searchPat, h]

end Model
