import ReuseVerif.Spec.Precedence

namespace Model
open Spec

theorem loopLevels_eq_visible (i : Nat) (ls : List (Option Table)) :
    loopLevels i ls = visible (tablesOf i ls) := by
  induction ls generalizing i with
  | nil => rfl
  | cons o ls ih =>
    cases o with
    | none => simp [loopLevels, tablesOf, ih]
    | some t => simp [loopLevels, tablesOf, visible, ih]

theorem mem_itemsOf {l : List Info} {it : Item} :
    it ∈ itemsOf l ↔ ∃ i ∈ l, it.src = i.src ∧ it.value ∈ ownAttr it.kind i := by
  unfold itemsOf itemsOfInfo
  simp only [List.mem_flatMap, List.mem_append, List.mem_map]
  constructor
  · rintro ⟨i, hi, h⟩
    refine ⟨i, hi, ?_⟩
    rcases h with ⟨v, hv, rfl⟩ | ⟨v, hv, rfl⟩ <;> simp [ownAttr, hv]
  · rintro ⟨i, hi, hs, hv⟩
    refine ⟨i, hi, ?_⟩
    obtain ⟨k, v, s⟩ := it
    cases k
    · left; exact ⟨v, hv, by simp at hs; simp [hs]⟩
    · right; exact ⟨v, hv, by simp at hs; simp [hs]⟩

theorem ownAttr_toInfo (k : Kind) (x : Nat × Table) : ownAttr k (toInfo x) = attr k x.2 := by
  cases k <;> rfl

def flagOf (k : Kind) (cf lf : Bool) : Bool :=
  match k with
  | .cpr => cf
  | .lic => lf

def provides (k : Kind) (x : Nat × Table) : Bool := !(attr k x.2).isEmpty

/-- What the CLOSEST clean-up keeps: for each attribute, exactly the contribution of
    the first (= deepest) entry that has some, unless already found. -/
theorem mem_cleanupRev (cf lf : Bool) (R : List (Nat × Table)) (it : Item) :
    it ∈ itemsOf (cleanupRev cf lf R) ↔
      flagOf it.kind cf lf = false ∧
        ∃ x, R.find? (provides it.kind) = some x ∧ it.src = .toml x.1 ∧ it.value ∈ attr it.kind x.2 := by
  induction R generalizing cf lf with
  | nil => simp [cleanupRev, itemsOf]
  | cons x rest ih =>
    obtain ⟨k, v, s⟩ := it
    rw [cleanupRev]
    simp only [itemsOf, List.flatMap_append, List.mem_append]
    rw [show (List.flatMap itemsOfInfo (cleanupRev (cf || (!cf && !x.2.cpr.isEmpty)) (lf || (!lf && !x.2.lic.isEmpty)) rest))
        = itemsOf (cleanupRev (cf || (!cf && !x.2.cpr.isEmpty)) (lf || (!lf && !x.2.lic.isEmpty)) rest) from rfl, ih]
    simp only [List.find?_cons]
    cases k <;> cases cf <;> cases lf <;> cases hc : x.2.cpr.isEmpty <;> cases hl : x.2.lic.isEmpty <;>
      simp [flagOf, provides, attr, itemsOfInfo, hc, hl] <;>
      (constructor
       · rintro ⟨a, ha, rfl, rfl⟩; exact ⟨rfl, ha⟩
       · rintro ⟨rfl, hv⟩; exact ⟨v, hv, rfl, rfl⟩)

end Model
