/-
Lemmas for engine C: what `findLicenses` computes (loop invariant: the licence map
is the table plus the `LicenseRef-` identifiers found so far) and membership
characterisations of the report fields.
-/
import ReuseVerif.Spec.Report

namespace Model
open Py Spec

theorem LicenseMap.has_iff {m : LicenseMap} {k : Text} : m.has k = true ↔ ∃ e ∈ m, e.1 = k := by
  simp [LicenseMap.has]

theorem hasLic_iff {ls : List (Text × Text)} {k : Text} : hasLic ls k = true ↔ ∃ e ∈ ls, e.1 = k := by
  simp [hasLic]

theorem hasLic_snoc {ls : List (Text × Text)} {c p k : Text} :
    hasLic (ls ++ [(c, p)]) k = (hasLic ls k || c == k) := by simp [hasLic]

theorem LicenseMap.has_cons {m : LicenseMap} {e : Text × Bool} {k : Text} :
    LicenseMap.has (e :: m) k = (e.1 == k || m.has k) := by
  simp [LicenseMap.has]

theorem LicenseMap.deprecated_has {m : LicenseMap} {k : Text} (h : m.deprecated k = true) : m.has k = true := by
  unfold LicenseMap.deprecated at h
  split at h
  · rename_i e he
    have := List.find?_some he
    have hm := List.mem_of_find?_eq_some he
    exact LicenseMap.has_iff.mpr ⟨e, hm, by simpa using this⟩
  · cases h

theorem LicenseMap.deprecated_of_not_has {m : LicenseMap} {k : Text} (h : m.has k = false) : m.deprecated k = false := by
  cases hd : m.deprecated k with
  | false => rfl
  | true => rw [LicenseMap.deprecated_has hd] at h; cases h

/-- a table without `LicenseRef-` shapes does not contain a `LicenseRef-` -/
theorem noRef_has {tbl : LicenseMap} (h : noRefInTable tbl = true) {k : Text} (hk : isLicenseRef k = true) :
    tbl.has k = false := by
  cases hh : tbl.has k with
  | false => rfl
  | true =>
    obtain ⟨e, he, rfl⟩ := LicenseMap.has_iff.mp hh
    have := (List.all_eq_true.mp h) e he
    simp [hk] at this

/-- invariant of the loop of `_find_licenses` -/
structure Inv (tbl : LicenseMap) (st : Found) : Prop where
  has : ∀ k, st.lmap.has k = true ↔ (tbl.has k = true ∨ (isLicenseRef k = true ∧ hasLic st.licenses k = true))
  dep : ∀ k, st.lmap.deprecated k =
    (if isLicenseRef k = true ∧ hasLic st.licenses k = true then false else tbl.deprecated k)

theorem inv_init (tbl : LicenseMap) : Inv tbl { lmap := tbl } :=
  ⟨fun k => by simp [hasLic], fun k => by simp [hasLic]⟩

/-- under the invariant the tool's resolution is the specified one -/
theorem resolveId_eq {tbl : LicenseMap} {st : Found} (hi : Inv tbl st) {name : Text}
    (hp : plainName tbl name = true) : resolveId st.lmap name = carried tbl name := by
  have h1 := hi.has (stemSuffix name).1
  have h2 := hi.has name
  unfold plainName at hp
  unfold resolveId carried
  cases hs : (stemSuffix name).2.isEmpty <;>
  cases ht1 : tbl.has (stemSuffix name).1 <;>
  cases hr1 : isLicenseRef (stemSuffix name).1 <;>
  cases ht2 : tbl.has name <;>
  cases hr2 : isLicenseRef name <;>
  cases hl1 : st.lmap.has (stemSuffix name).1 <;>
  cases hl2 : st.lmap.has name <;>
  simp_all

def entryOf (tbl : LicenseMap) (p : Text) : Text × Text := ((carried tbl (pathName p)).1, p)

theorem findLoop_spec {tbl : LicenseMap} (paths : List Text) (st st' : Found)
    (hp : plainNames tbl paths = true) (hi : Inv tbl st) (h : findLoop st paths = some st') :
    Inv tbl st' ∧
    st'.licenses = st.licenses ++ (paths.filter isLicFile).map (entryOf tbl) ∧
    st'.noExt = st.noExt ++
      ((paths.filter isLicFile).filter fun p => (carried tbl (pathName p)).2).map (entryOf tbl) := by
  induction paths generalizing st with
  | nil => simp [findLoop] at h; subst h; simp [hi]
  | cons p ps ih =>
    simp only [plainNames, List.all_cons, Bool.and_eq_true] at hp
    have hps : plainNames tbl ps = true := by simpa [plainNames] using hp.2
    simp only [findLoop] at h
    cases hstep : findStep st p with
    | none => simp [hstep] at h
    | some st1 =>
      simp only [hstep] at h
      unfold findStep at hstep
      cases hl : isLicFile p with
      | false =>
        simp [hl] at hstep; subst hstep
        have := ih st hps hi h
        simpa [hl] using this
      | true =>
        simp only [hl, Bool.not_true, Bool.false_eq_true, ↓reduceIte] at hstep
        rw [resolveId_eq hi hp.1] at hstep
        split at hstep
        · cases hstep
        · rename_i hnd
          simp only [Option.some.injEq] at hstep
          have hi1 : Inv tbl st1 := by
            subst hstep
            constructor
            · intro k
              have := hi.has k
              by_cases hr : isLicenseRef (carried tbl (pathName p)).1 = true
              · simp only [hr, ↓reduceIte, LicenseMap.has_cons, Bool.or_eq_true, beq_iff_eq, this,
                  hasLic, List.any_append, List.any_cons, List.any_nil, Bool.or_false]
                constructor
                · rintro (rfl | h' | h')
                  · exact Or.inr ⟨hr, Or.inr rfl⟩
                  · exact Or.inl h'
                  · exact Or.inr ⟨h'.1, Or.inl h'.2⟩
                · rintro (h' | ⟨h1, h' | h'⟩)
                  · exact Or.inr (Or.inl h')
                  · exact Or.inr (Or.inr ⟨h1, h'⟩)
                  · exact Or.inl h'
              · simp only [hr, Bool.false_eq_true, ↓reduceIte, this, hasLic, List.any_append,
                  List.any_cons, List.any_nil, Bool.or_false, Bool.or_eq_true, beq_iff_eq]
                constructor
                · rintro (h' | h')
                  · exact Or.inl h'
                  · exact Or.inr ⟨h'.1, Or.inl h'.2⟩
                · rintro (h' | ⟨h1, h' | h'⟩)
                  · exact Or.inl h'
                  · exact Or.inr ⟨h1, h'⟩
                  · subst h'; exact absurd h1 hr
            · intro k
              have := hi.dep k
              by_cases hr : isLicenseRef (carried tbl (pathName p)).1 = true
              · simp only [hr, ↓reduceIte]
                by_cases hk : (carried tbl (pathName p)).1 = k
                · subst hk
                  simp [LicenseMap.deprecated, hr, hasLic]
                · have hne : ((carried tbl (pathName p)).1 == k) = false := by simpa using hk
                  have : LicenseMap.deprecated (((carried tbl (pathName p)).1, false) :: st.lmap) k
                      = st.lmap.deprecated k := by
                    simp [LicenseMap.deprecated, hne]
                  rw [this, hi.dep k, hasLic_snoc, hne, Bool.or_false]
              · by_cases hk : (carried tbl (pathName p)).1 = k
                · subst hk; simp [hr, this]
                · have hne : ((carried tbl (pathName p)).1 == k) = false := by simpa using hk
                  simp only [hr, Bool.false_eq_true, ↓reduceIte]
                  rw [this, hasLic_snoc, hne, Bool.or_false]
          have := ih st1 hps hi1 h
          subst hstep
          refine ⟨this.1, ?_, ?_⟩
          · rw [this.2.1]; simp [hl, entryOf]
          · rw [this.2.2]
            cases hc : (carried tbl (pathName p)).2 <;> simp [hl, hc, entryOf]

theorem findLicenses_spec {tbl : LicenseMap} {paths : List Text} {fd : Found}
    (hp : plainNames tbl paths = true) (h : findLicenses tbl paths = some fd) :
    Inv tbl fd ∧
    fd.licenses = (paths.filter isLicFile).map (entryOf tbl) ∧
    fd.noExt = ((paths.filter isLicFile).filter fun p => (carried tbl (pathName p)).2).map (entryOf tbl) := by
  have := findLoop_spec paths _ _ hp (inv_init tbl) h
  simpa using this

theorem findLoop_single {st st1 : Found} {p : Text} (h : findStep st p = some st1) :
    findLoop st [p] = some st1 := by simp [findLoop, h]

/-- the loop succeeds exactly when no identifier is carried twice -/
theorem findLoop_some_iff {tbl : LicenseMap} (paths : List Text) (st : Found)
    (hp : plainNames tbl paths = true) (hi : Inv tbl st) :
    (∃ st', findLoop st paths = some st') ↔
      (((paths.filter isLicFile).map (idOf tbl)).Nodup ∧
        ∀ p ∈ paths.filter isLicFile, hasLic st.licenses (idOf tbl p) = false) := by
  induction paths generalizing st with
  | nil => simp [findLoop]
  | cons p ps ih =>
    have hp' := hp
    simp only [plainNames, List.all_cons, Bool.and_eq_true] at hp
    have hps : plainNames tbl ps = true := by simpa [plainNames] using hp.2
    cases hl : isLicFile p with
    | false =>
      have hs : findStep st p = some st := by simp [findStep, hl]
      simp only [findLoop, hs, List.filter_cons, hl, Bool.false_eq_true, ↓reduceIte]
      exact ih st hps hi
    | true =>
      cases hd : hasLic st.licenses (idOf tbl p) with
      | true =>
        have hs : findStep st p = none := by
          simp only [findStep, hl, Bool.not_true, Bool.false_eq_true, ↓reduceIte, resolveId_eq hi hp.1]
          simp [idOf] at hd; simp [hd]
        simp only [findLoop, hs, List.filter_cons, hl, ↓reduceIte]
        constructor
        · rintro ⟨_, h⟩; cases h
        · rintro ⟨_, h⟩
          have := h p (by simp)
          rw [hd] at this; cases this
      | false =>
        obtain ⟨st1, hs⟩ : ∃ st1, findStep st p = some st1 := by
          simp only [findStep, hl, Bool.not_true, Bool.false_eq_true, ↓reduceIte, resolveId_eq hi hp.1]
          simp [idOf] at hd; simp [hd]
        have hspec := findLoop_spec [p] st st1 (by simpa [plainNames] using hp.1) hi (findLoop_single hs)
        have hlic : st1.licenses = st.licenses ++ [(idOf tbl p, p)] := by
          rw [hspec.2.1]; simp [hl, entryOf, idOf]
        simp only [findLoop, hs, List.filter_cons, hl, ↓reduceIte]
        rw [ih st1 hps hspec.1]
        simp only [List.map_cons, List.nodup_cons, List.mem_cons, forall_eq_or_imp, hd, true_and, hlic,
          hasLic_snoc, Bool.or_eq_false_iff, beq_eq_false_iff_ne, List.mem_map, not_exists, not_and]
        constructor
        · rintro ⟨hn, hq⟩
          exact ⟨⟨fun q hqm heq => (hq q hqm).2 heq.symm, hn⟩, fun q hqm => (hq q hqm).1⟩
        · rintro ⟨⟨hne, hn⟩, hq⟩
          exact ⟨hn, fun q hqm => ⟨hq q hqm, fun heq => hne q hqm heq.symm⟩⟩

theorem findLicenses_some_iff {tbl : LicenseMap} (paths : List Text) (hp : plainNames tbl paths = true) :
    (∃ fd, findLicenses tbl paths = some fd) ↔ ((paths.filter isLicFile).map (idOf tbl)).Nodup := by
  unfold findLicenses
  rw [findLoop_some_iff paths _ hp (inv_init tbl)]
  simp [hasLic]

/-- membership in the licences found, in the words of the specification -/
theorem mem_licenses_iff {tbl : LicenseMap} {paths : List Text} {fd : Found}
    (hp : plainNames tbl paths = true) (h : findLicenses tbl paths = some fd) (k p : Text) :
    (k, p) ∈ fd.licenses ↔ Provides tbl paths k p := by
  rw [(findLicenses_spec hp h).2.1]
  simp only [List.mem_map, List.mem_filter, entryOf, Prod.mk.injEq, Provides]
  constructor
  · rintro ⟨a, ⟨ha, hl⟩, rfl, rfl⟩; exact ⟨ha, hl, rfl⟩
  · rintro ⟨ha, hl, rfl⟩; exact ⟨p, ⟨ha, hl⟩, rfl, rfl⟩

theorem hasLic_iff_provided {tbl : LicenseMap} {paths : List Text} {fd : Found}
    (hp : plainNames tbl paths = true) (h : findLicenses tbl paths = some fd) (k : Text) :
    hasLic fd.licenses k = true ↔ Provided tbl paths k := by
  rw [hasLic_iff]
  constructor
  · rintro ⟨⟨k', p⟩, he, rfl⟩; exact ⟨p, (mem_licenses_iff hp h _ _).mp he⟩
  · rintro ⟨p, hpv⟩; exact ⟨(k, p), (mem_licenses_iff hp h _ _).mpr hpv, rfl⟩

/-- after the loop: in the licence map ⇔ valid, for the identifiers found -/
theorem lmap_has_of_found {tbl : LicenseMap} {fd : Found} (hi : Inv tbl fd) {k : Text}
    (hk : hasLic fd.licenses k = true) : fd.lmap.has k = true ↔ Valid tbl k := by
  rw [hi.has k]; simp [Valid, hk]

/-- used identifiers: in the map (as is or stripped) or a `LicenseRef-` ⇔ valid -/
theorem idBad_iff {tbl : LicenseMap} {fd : Found} (hi : Inv tbl fd) (k : Text) :
    idBad fd.lmap k = true ↔ ¬ Valid tbl k ∧ ¬ Valid tbl (stripPlus k) := by
  have h1 := hi.has k
  have h2 := hi.has (stripPlus k)
  unfold idBad Valid
  cases ha : fd.lmap.has k <;> cases hb : fd.lmap.has (stripPlus k) <;>
  cases hc : isLicenseRef k <;> cases hd : isLicenseRef (stripPlus k) <;>
  cases he : tbl.has k <;> cases hf : tbl.has (stripPlus k) <;> simp_all

theorem mem_keysOf {f : CovFile} {k : Text} : k ∈ keysOf f ↔ ∃ e ∈ f.exprs, k ∈ e := by
  simp [keysOf, List.mem_flatten]

theorem usedBy_iff {fs : List CovFile} {k p : Text} :
    UsedBy fs k p ↔ ∃ f ∈ fs.filter (·.readable), f.path = p ∧ k ∈ keysOf f := by
  simp only [UsedBy, List.mem_filter, mem_keysOf]
  constructor
  · rintro ⟨f, hf, hr, hp, he⟩; exact ⟨f, ⟨hf, hr⟩, hp, he⟩
  · rintro ⟨f, ⟨hf, hr⟩, hp, he⟩; exact ⟨f, hf, hr, hp, he⟩

theorem mem_used_iff {fd : Found} {fs : List CovFile} {k : Text} :
    k ∈ (generateOn fd fs).used ↔ Used fs k := by
  simp only [Report.used, generateOn, List.mem_flatMap, Used, usedBy_iff]
  constructor
  · rintro ⟨f, hf, hk⟩; exact ⟨f.path, f, hf, rfl, hk⟩
  · rintro ⟨p, f, hf, _, hk⟩; exact ⟨f, hf, hk⟩

variable {tbl : LicenseMap} {pr : Project} {r : Report}

theorem split_generate (h : generate tbl pr = some r) :
    ∃ fd, findLicenses tbl pr.licFiles = some fd ∧ r = generateOn fd pr.files := by
  unfold generate at h
  cases hf : findLicenses tbl pr.licFiles with
  | none => simp [hf] at h
  | some fd => simp [hf] at h; exact ⟨fd, rfl, h.symm⟩

theorem mentions_iff_keys (k : Text) (e : Expr) : e.Mentions k ↔ k ∈ e.keys := by
  induction e with
  | id k' =>
    simp only [Expr.keys, List.mem_singleton]
    exact ⟨fun h => by cases h; rfl, fun h => h ▸ .id⟩
  | and a b iha ihb =>
    simp only [Expr.keys, List.mem_append]
    constructor
    · intro h
      cases h with
      | andL h => exact Or.inl (iha.mp h)
      | andR h => exact Or.inr (ihb.mp h)
    · rintro (h | h)
      · exact .andL (iha.mpr h)
      · exact .andR (ihb.mpr h)
  | or a b iha ihb =>
    simp only [Expr.keys, List.mem_append]
    constructor
    · intro h
      cases h with
      | orL h => exact Or.inl (iha.mp h)
      | orR h => exact Or.inr (ihb.mp h)
    · rintro (h | h)
      · exact .orL (iha.mpr h)
      · exact .orR (ihb.mpr h)
  | with_ l e =>
    simp only [Expr.keys, List.mem_cons, List.mem_nil_iff, or_false]
    exact ⟨fun h => by cases h <;> simp [*], fun h => h.elim .withL .withR⟩

end Model
