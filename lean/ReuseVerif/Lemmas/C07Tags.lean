/-
C07 (achievability of the default template) — the readers on a text made of physical lines:
* `tailSafe` (Brzozowski derivatives of END) protects a value whatever follows it;
* the tag reader on lines each of which is either free of the tag or `pre ++ TAG ++ " " ++ value`
  (`findTag_join`: exactly the values, in order);
* the copyright reader skips quiet markers.
-/
import ReuseVerif.Lemmas.C07Lines
import ReuseVerif.Lemmas.TagsCopyright

namespace C07A
open Py Model Spec Py.Re

/-! ### derivatives -/

theorem dead_of_matches {r : Re} {s : Text} (h : Matches r s) : dead r = false := by
  induction h with
  | eps => rfl
  | chr d => rfl
  | @cls neg rs c hm =>
    cases neg with
    | true => simp [dead]
    | false =>
      cases rs with
      | nil => simp [clsMatch, inRanges] at hm
      | cons x xs => simp [dead]
  | cat _ _ iha ihb => simp [dead, iha, ihb]
  | altL _ ih => simp [dead, ih]
  | altR _ ih => simp [dead, ih]
  | starNil => rfl
  | starCons _ _ _ _ => rfl

theorem void_no_match {s : Text} (h : Matches voidRe s) : False := by
  have := dead_of_matches h
  simp [voidRe, dead] at this

theorem matches_deriv {r : Re} {s : Text} (h : Matches r s) (c : Char) (w : Text) (hs : s = c :: w) :
    Matches (deriv c r) w := by
  induction h generalizing w with
  | eps => cases hs
  | chr d =>
    cases hs
    simp only [deriv, beq_self_eq_true, if_true]
    exact .eps
  | @cls neg rs x hm =>
    cases hs
    simp only [deriv, hm, if_true]
    exact .eps
  | @cat a b s t ha hb iha ihb =>
    cases s with
    | nil =>
      simp only [List.nil_append] at hs
      have hn := Model.matches_nil_nullable ha rfl
      simp only [deriv, hn, if_true]
      exact .altR (ihb w hs)
    | cons x xs =>
      simp only [List.cons_append, List.cons.injEq] at hs
      obtain ⟨rfl, rfl⟩ := hs
      have h1 : Matches (.cat (deriv x a) b) (xs ++ t) := .cat (iha xs rfl) hb
      simp only [deriv]
      split
      · exact .altL h1
      · exact h1
  | altL _ ih => simp only [deriv]; exact .altL (ih w hs)
  | altR _ ih => simp only [deriv]; exact .altR (ih w hs)
  | starNil => cases hs
  | @starCons a s t ha hb iha ihb =>
    cases s with
    | nil => simp only [List.nil_append] at hs; exact ihb w hs
    | cons x xs =>
      simp only [List.cons_append, List.cons.injEq] at hs
      obtain ⟨rfl, rfl⟩ := hs
      simp only [deriv]
      exact .cat (iha xs rfl) hb

theorem matches_derivs {r : Re} (u w : Text) (h : Matches r (u ++ w)) : Matches (derivs u r) w := by
  induction u generalizing r with
  | nil => simpa [derivs] using h
  | cons c cs ih =>
    simp only [derivs]
    exact ih (matches_deriv h c (cs ++ w) rfl)

/-- nothing END matches begins with a text whose derivative is dead -/
theorem no_match_of_dead {r : Re} (u w : Text) (hd : dead (derivs u r) = true) : ¬ Matches r (u ++ w) := by
  intro h
  have := dead_of_matches (matches_derivs u w h)
  rw [hd] at this; cases this

/-- **A tail-safe value is protected whatever follows it.** -/
theorem noEndSuffix_of_tailSafe (endRe : Re) (w tail : Text) (hnl : noNewline w = true)
    (hsafe : tailSafe endRe w = true) : noEndSuffixBefore endRe w tail = true := by
  induction w with
  | nil => rfl
  | cons c cs ih =>
    obtain ⟨_, hcs⟩ := Model.noNewline_cons hnl
    have hnm := Model.noNewline_mem hnl
    simp only [tailSafe, Bool.and_eq_true] at hsafe
    simp only [noEndSuffixBefore, Bool.and_eq_true, Bool.not_eq_true']
    refine ⟨?_, ih hcs hsafe.2⟩
    unfold endOk
    cases hm : matchEndWith endRe (c :: cs ++ tail) with
    | none => rfl
    | some r =>
      exfalso
      obtain ⟨a, hs, ha, hb⟩ := Model.matchEnd_sound hm
      rcases List.append_eq_append_iff.mp hs with ⟨a', h1, _⟩ | ⟨c', h1, h2⟩
      · rw [h1] at ha
        exact no_match_of_dead (c :: cs) a' hsafe.1 ha
      · cases c' with
        | nil =>
          simp only [List.append_nil] at h1
          rw [← h1] at ha
          exact no_match_of_dead (c :: cs) [] hsafe.1 (by simpa using ha)
        | cons x xs =>
          have hx : x ∈ c :: cs := by rw [h1]; simp
          rw [h2] at hb
          have : x = '\n' := by simpa [atLineEnd] using hb
          subst this
          exact hnm hx

/-- the same for the copyright reader (END up to the end of the line) -/
theorem noEndSuffixC_of_tailSafe (endRe : Re) (w tail : Text) (hnl : noNewline w = true)
    (hsafe : tailSafe endRe w = true) : noEndSuffixBeforeC endRe w tail = true := by
  induction w with
  | nil => rfl
  | cons c cs ih =>
    obtain ⟨_, hcs⟩ := Model.noNewline_cons hnl
    have hnm := Model.noNewline_mem hnl
    simp only [tailSafe, Bool.and_eq_true] at hsafe
    simp only [noEndSuffixBeforeC, Bool.and_eq_true, Bool.not_eq_true']
    refine ⟨?_, ih hcs hsafe.2⟩
    unfold endAccepts
    cases hm : Re.bt endRe (c :: cs ++ tail) (fun r => r.isEmpty || r == ['\n']) with
    | false => rfl
    | true =>
      exfalso
      obtain ⟨a, r, hs, ha, hk⟩ := Re.bt_sound _ _ _ hm
      rcases List.append_eq_append_iff.mp hs with ⟨a', h1, _⟩ | ⟨c', h1, h2⟩
      · rw [h1] at ha
        exact no_match_of_dead (c :: cs) a' hsafe.1 ha
      · cases c' with
        | nil =>
          simp only [List.append_nil] at h1
          rw [← h1] at ha
          exact no_match_of_dead (c :: cs) [] hsafe.1 (by simpa using ha)
        | cons x xs =>
          have hx : x ∈ c :: cs := by rw [h1]; simp
          rw [h2] at hk
          simp only [List.cons_append, List.isEmpty_cons, Bool.false_or, beq_iff_eq, List.cons.injEq] at hk
          rw [hk.1] at hx
          exact hnm hx

theorem noEndSuffixC_nil (endRe : Re) (w : Text) : noEndSuffixBeforeC endRe w [] = noEndSuffix endRe w := by
  induction w with
  | nil => rfl
  | cons c cs ih => simp [noEndSuffixBeforeC, noEndSuffix, ih]

/-- a holder on one line that is tail-safe has no tail END swallows (hypothesis of C20 / C02) -/
theorem noEndSuffix_of_tailSafe_holder (endRe : Re) (h : Text) (hnl : noNewline h = true)
    (hsafe : tailSafe endRe h = true) : noEndSuffix endRe h = true := by
  rw [← noEndSuffixC_nil]; exact noEndSuffixC_of_tailSafe endRe h [] hnl hsafe

/-! ### quiet markers and the tag reader -/

theorem noEarlierTag_append (tag a b rest : Text) :
    noEarlierTag tag (a ++ b) rest = (noEarlierTag tag a (b ++ rest) && noEarlierTag tag b rest) := by
  induction a with
  | nil => simp [noEarlierTag]
  | cons c cs ih =>
    simp only [List.cons_append, noEarlierTag, ih, List.append_assoc, Bool.and_assoc]

/-- no `TAG[ \t]` begins inside a marker every tail of which clashes with a beginning of the tag -/
theorem noEarlierTag_quiet (lits : List Text) (lit x : Text) (hl : lit ∈ lits) (a rest : Text)
    (hq : quietFor lits a = true) : noEarlierTag (lit ++ x) a rest = true := by
  induction a with
  | nil => rfl
  | cons c cs ih =>
    obtain ⟨h1, h2⟩ := quietFor_cons hq
    have hc := clash_isPrefixOf (lit ++ x) (c :: cs) rest (clash_extend lit x _ (h1 lit hl))
    simp only [noEarlierTag, tagHere, hc, Bool.false_and, Bool.not_false, Bool.true_and]
    exact ih h2

/-- a line made of a quiet marker and a tag-free rest is tag-free -/
theorem tagFree_quiet_append (lits : List Text) (lit x : Text) (hl : lit ∈ lits) (a l : Text)
    (hq : quietFor lits a = true) (ha : noNewline a = true) (h : tagFreeLine (lit ++ x) l = true) :
    tagFreeLine (lit ++ x) (a ++ l) = true := by
  unfold tagFreeLine at h ⊢
  simp only [Bool.and_eq_true] at h ⊢
  refine ⟨?_, ?_⟩
  · simp only [noNewline, List.all_append, Bool.and_eq_true] at ha h ⊢
    exact ⟨ha, h.1⟩
  · rw [noEarlierTag_append, noEarlierTag_quiet lits lit x hl a _ hq, h.2]; rfl

theorem tagFree_quiet (lits : List Text) (lit x : Text) (hl : lit ∈ lits) (a : Text)
    (hq : quietFor lits a = true) (ha : noNewline a = true) : tagFreeLine (lit ++ x) a = true := by
  have := tagFree_quiet_append lits lit x hl a [] hq ha (by simp [tagFreeLine, noNewline, noEarlierTag])
  simpa using this

/-! ### the tag reader on a text made of lines -/

/-- a physical line as the reader of one tag sees it -/
inductive TLine where
  | free (l : Text)            -- no `TAG[ \t]` in it
  | val (pre v : Text)         -- `pre ++ TAG ++ " " ++ v`

def TLine.text (tag : Text) : TLine → Text
  | .free l => l
  | .val pre v => pre ++ tag ++ ' ' :: v

def TLine.value : TLine → Option Text
  | .free _ => none
  | .val _ v => some v

@[simp] theorem TLine.text_free (tag l : Text) : (TLine.free l).text tag = l := rfl
@[simp] theorem TLine.text_val (tag pre v : Text) : (TLine.val pre v).text tag = pre ++ tag ++ ' ' :: v := rfl
@[simp] theorem TLine.value_free (l : Text) : (TLine.free l).value = none := rfl
@[simp] theorem TLine.value_val (pre v : Text) : (TLine.val pre v).value = some v := rfl

/-- what the theorem needs of a line -/
def TLine.ok (endRe : Re) (tag : Text) : TLine → Prop
  | .free l => tagFreeLine tag l = true
  | .val pre v =>
    noNewline pre = true ∧ (∀ rest, noEarlierTag tag pre rest = true) ∧ v ≠ [] ∧ noNewline v = true ∧
    isStripped v = true ∧ tailSafe endRe v = true ∧ frameFree pre v = true

theorem head_not_blank_of_stripped {v : Text} (hne : v ≠ []) (hs : isStripped v = true) :
    (v.head?.map (fun c => !isBlank c)).getD false = true := by
  obtain ⟨c, cs, rfl⟩ := List.exists_cons_of_ne_nil hne
  have h := (Model.stripped_of_isStripped hs).1 c cs rfl
  have : isBlank c = false := by
    cases hb : isBlank c with
    | false => rfl
    | true =>
      simp only [isBlank, Bool.or_eq_true, beq_iff_eq] at hb
      rcases hb with rfl | rfl <;> simp [isSpace] at h
  simp [this]

theorem wfShape_val (tag pre v le : Text) (hle : isLineEnd le = true) (hpre : noNewline pre = true)
    (hno : ∀ rest, noEarlierTag tag pre rest = true) (hne : v ≠ []) (hnl : noNewline v = true)
    (hs : isStripped v = true) : WFShape tag pre [' '] v [] le = true := by
  unfold WFShape
  simp only [hpre, hno, head_not_blank_of_stripped hne hs, hnl, hle, Bool.and_true, Bool.true_and]
  decide

/-- a tag-free last line (no line feed after it) -/
theorem findAll_free_end (endRe : Re) (tag l : Text) (hnl : '\n' ∉ tag) (fuel : Nat)
    (h : tagFreeLine tag l = true) : findAllWith endRe tag fuel l = [] := by
  cases fuel with
  | zero => rfl
  | succ f =>
    have h1 := findAll_skip endRe tag hnl [l] [] f (by simpa using h)
    -- compare with the same line followed by a line feed: the first step is the same
    cases l with
    | nil => rfl
    | cons c cs =>
      unfold tagFreeLine at h
      simp only [Bool.and_eq_true] at h
      have hnone : findTagInLine tag (c :: cs) = none := by
        have hgen : ∀ (l : Text), noNewline l = true → noEarlierTag tag l ['\n'] = true → findTagInLine tag l = none := by
          intro l
          induction l with
          | nil => intro _ _; rfl
          | cons d ds ih =>
            intro hl hno
            simp only [noEarlierTag, Bool.and_eq_true, Bool.not_eq_true'] at hno
            obtain ⟨hd, hds⟩ := Model.noNewline_cons hl
            have h1 := hno.1
            -- `TAG[ \t]` here would also be `TAG[ \t]` with the line feed appended
            have h2 : (tag.isPrefixOf (d :: ds) && (((d :: ds).drop tag.length).head?.map isBlank).getD false) = false := by
              cases hx : (tag.isPrefixOf (d :: ds) && (((d :: ds).drop tag.length).head?.map isBlank).getD false) with
              | false => rfl
              | true =>
                exfalso
                simp only [Bool.and_eq_true] at hx
                obtain ⟨u, hu⟩ := List.isPrefixOf_iff_prefix.mp hx.1
                have hp : tag.isPrefixOf (d :: ds ++ ['\n']) = true :=
                  List.isPrefixOf_iff_prefix.mpr ⟨u ++ ['\n'], by rw [← hu]; simp⟩
                have hdrop : ((d :: ds ++ ['\n']).drop tag.length).head? = ((d :: ds).drop tag.length).head? := by
                  rw [← hu] at hx ⊢
                  simp only [List.append_assoc, List.drop_left] at hx ⊢
                  cases u with
                  | nil => simp at hx
                  | cons y ys => rfl
                unfold tagHere at h1
                rw [hp, hdrop, hx.2] at h1
                cases h1
            rw [findTagInLine, if_neg (by rw [h2]; exact Bool.false_ne_true), if_neg (by rw [hd]; exact Bool.false_ne_true),
              ih hds hno.2]
            rfl
        exact hgen _ h.1 h.2
      rw [findAllWith_step _ _ _ _ (by simp), hnone]
      have : nextLine (c :: cs) = [] := by
        have hall : ∀ (l : Text), noNewline l = true → nextLine l = [] := by
          intro l hl
          unfold nextLine
          induction l with
          | nil => rfl
          | cons d ds ih =>
            obtain ⟨hd, hds⟩ := Model.noNewline_cons hl
            have : (d != '\n') = true := by simp [bne, hd]
            simp only [List.dropWhile_cons, this, if_true]
            exact ih hds
        exact hall _ h.1
      rw [this, findAllWith_nil]

/-- **The tag reader on a text made of lines.**  Every line is free of the tag or a tag line
    `pre ++ TAG ++ " " ++ v` with a tail-safe, stripped, frame-free value: the values are read
    exactly, in order — whatever the other lines are. -/
theorem findAll_join (endRe : Re) (tag : Text) (hnl : '\n' ∉ tag)
    (hnil : Matches endRe []) (hcs : canStart endRe '\n' = false) (hnull : nullable endRe = true)
    (ls : List TLine) (hok : ∀ l ∈ ls, l.ok endRe tag) (fuel : Nat) (hf : ls.length ≤ fuel) :
    (findAllWith endRe tag fuel (join ['\n'] (ls.map (·.text tag)))).map cleanTag = ls.filterMap (·.value) := by
  induction ls generalizing fuel with
  | nil => simp [join, findAllWith_nil]
  | cons l ls ih =>
    cases fuel with
    | zero => simp at hf
    | succ f =>
      have hl := hok l (by simp)
      cases ls with
      | nil =>
        simp only [List.map_cons, List.map_nil, join]
        cases l with
        | free t =>
          have hl' : tagFreeLine tag t = true := hl
          simp only [TLine.text_free, TLine.value_free, List.filterMap_cons, List.filterMap_nil]
          rw [findAll_free_end endRe tag t hnl _ hl']; rfl
        | val pre v =>
          obtain ⟨hpre, hno, hne, hvnl, hs, hsafe, hff⟩ := hl
          have hshape := wfShape_val tag pre v [] (by decide) hpre hno hne hvnl hs
          have hraw : WFRaw endRe tag pre [' '] v [] [] = true := by
            unfold WFRaw
            have hend : endOk endRe ([] ++ []) = true := Model.matchEnd_complete (a := []) (b := []) hnil rfl
            simp only [hshape, hend, noEndSuffix_of_tailSafe endRe v ([] ++ []) hvnl hsafe, Bool.and_self]
          have := Model.findAll_line endRe tag pre [' '] v [] [] f hraw
          simp only [tagLine, List.append_nil] at this
          simp only [TLine.text_val, TLine.value_val, List.filterMap_cons, List.filterMap_nil]
          have e : pre ++ tag ++ ' ' :: v = pre ++ tag ++ [' '] ++ v := by simp
          rw [e, this]
          simp [Model.cleanTag_plain pre v hs hff]
      | cons l2 ls2 =>
        have hrest := ih (fun x hx => hok x (by simp [hx])) f (by simpa using hf)
        simp only [List.map_cons] at hrest ⊢
        rw [join_two]
        cases l with
        | free t =>
          have hl' : tagFreeLine tag t = true := hl
          have hsk := findAll_skip endRe tag hnl [t] (join ['\n'] (l2.text tag :: ls2.map (·.text tag))) f
            (by simpa using hl')
          simp only [joinLines, List.length_singleton, List.append_nil] at hsk
          have e : t ++ '\n' :: join ['\n'] (l2.text tag :: ls2.map (·.text tag)) =
              (t ++ ['\n']) ++ join ['\n'] (l2.text tag :: ls2.map (·.text tag)) := by simp
          rw [List.filterMap_cons_none (by rfl)]
          simp only [TLine.text_free]
          rw [e, hsk, hrest]
        | val pre v =>
          obtain ⟨hpre, hno, hne, hvnl, hs, hsafe, hff⟩ := hl
          have hshape := wfShape_val tag pre v ['\n'] (by decide) hpre hno hne hvnl hs
          have hstep := Model.findAll_step_line endRe tag pre [' '] v []
            (join ['\n'] (l2.text tag :: ls2.map (·.text tag))) f hshape (hno _)
            (Model.endStopsAt_nil endRe _ hcs hnull hnil)
            (noEndSuffix_of_tailSafe endRe v _ hvnl hsafe)
          simp only [List.append_nil] at hstep
          have e : pre ++ tag ++ ' ' :: v ++ '\n' :: join ['\n'] (l2.text tag :: ls2.map (·.text tag)) =
              pre ++ tag ++ [' '] ++ v ++ '\n' :: join ['\n'] (l2.text tag :: ls2.map (·.text tag)) := by simp
          rw [List.filterMap_cons_some (b := v) (by rfl)]
          simp only [TLine.text_val]
          rw [e, hstep]
          simp only [List.map_cons, Model.cleanTag_plain pre v hs hff, hrest]

theorem findTag_join (endRe : Re) (tag : Text) (hnl : '\n' ∉ tag)
    (hnil : Matches endRe []) (hcs : canStart endRe '\n' = false) (hnull : nullable endRe = true)
    (ls : List TLine) (hok : ∀ l ∈ ls, l.ok endRe tag) :
    findSpdxTagWith endRe tag (join ['\n'] (ls.map (·.text tag))) = ls.filterMap (·.value) := by
  unfold findSpdxTagWith
  apply findAll_join endRe tag hnl hnil hcs hnull ls hok
  -- each line contributes at least … the fuel is the length of the text + 1
  have : ∀ (L : List Text), L.length ≤ (join ['\n'] L).length + 1 := by
    intro L
    induction L with
    | nil => simp [join]
    | cons a as ih =>
      cases as with
      | nil => simp [join]
      | cons a2 as2 =>
        rw [join_length_two]
        simp only [List.length_cons] at ih ⊢
        omega
  have h := this (ls.map (·.text tag))
  simp only [List.length_map] at h
  omega

/-! ### quiet markers and the copyright reader -/

theorem eat_clash (lit u rest : Text) (h : clash lit u = true) : eat lit (u ++ rest) = none := by
  unfold eat
  rw [clash_isPrefixOf lit u rest h]; rfl

theorem eat_nil (lit : Text) (h : lit ≠ []) : eat lit [] = none := by
  obtain ⟨a, as, rfl⟩ := List.exists_cons_of_ne_nil h
  rfl

theorem mem_loud_spdx : "SPDX-".toList ∈ loudLits := by simp [loudLits]
theorem mem_loud_word : "Copyright".toList ∈ loudLits := by simp [loudLits]
theorem mem_loud_sign : copySign ∈ loudLits := by simp [loudLits]
theorem mem_loud_ignore : Generated.ignoreStart ∈ loudLits := by simp [loudLits]

theorem eatHead_clash (p : CPat) (u rest : Text) (h : ∀ l ∈ loudLits, clash l u = true) :
    eatHead p (u ++ rest) = none := by
  cases p with
  | spdx =>
    have := eat_clash _ u rest (h _ mem_loud_spdx)
    show (eat "SPDX-".toList (u ++ rest)).bind _ = none
    rw [this]; rfl
  | word => exact eat_clash _ u rest (h _ mem_loud_word)
  | sign => exact eat_clash _ u rest (h _ mem_loud_sign)

theorem eatHead_nil (p : CPat) : eatHead p [] = none := by
  cases p <;> rfl

theorem matchAt_none_of_head {endRe : Re} {p : CPat} {s : Text} (h : eatHead p s = none) :
    matchAt endRe p s = none := by
  simp [matchAt, h]

/-- no copyright pattern matches at a position inside a quiet marker -/
theorem noNoticeStart_quiet (endRe : Re) (p : CPat) (a rest : Text) (hq : quiet a = true) :
    noNoticeStart endRe p a rest = true := by
  induction a with
  | nil => rfl
  | cons c cs ih =>
    obtain ⟨h1, h2⟩ := quietFor_cons hq
    simp only [noNoticeStart, Bool.and_eq_true, Option.isNone_iff_eq_none]
    exact ⟨matchAt_none_of_head (eatHead_clash p (c :: cs) rest h1), ih h2⟩

theorem searchLine_quiet_append (endRe : Re) (a l : Text) (hq : quiet a = true) :
    searchLineWith endRe (a ++ l) = searchLineWith endRe l := by
  unfold searchLineWith
  rw [Model.searchPat_skip endRe .spdx a l (noNoticeStart_quiet endRe .spdx a l hq),
    Model.searchPat_skip endRe .word a l (noNoticeStart_quiet endRe .word a l hq),
    Model.searchPat_skip endRe .sign a l (noNoticeStart_quiet endRe .sign a l hq)]

theorem searchPat_nil (endRe : Re) (p : CPat) : searchPat endRe p [] = none := by
  simp [searchPat, matchAt_none_of_head (eatHead_nil p)]

/-- the reader finds no notice in a quiet line -/
theorem searchLine_quiet (endRe : Re) (a : Text) (hq : quiet a = true) : searchLineWith endRe a = none := by
  have := searchLine_quiet_append endRe a [] hq
  simp only [List.append_nil] at this
  rw [this]
  simp [searchLineWith, searchPat_nil]

end C07A
